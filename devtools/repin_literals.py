#!/usr/bin/env python3
"""repin_literals.py [--literals] OLD_GENERATED_DIR NEW_GENERATED_DIR LEAN_FILE...

After an INTENDED change of what a fact extractor prints (e.g. a new normal form of skeleton strings), the
string literals pinned in the hand-written Lean files have to follow. For every definition whose text differs
between the two generated directories (same file name, same `def` name) the string literals of the old value
are mapped, position by position, to those of the new value; every occurrence of an old literal in the given
Lean files is replaced by the new one. Definitions whose literal counts differ are reported and skipped (the
pin has to be revisited by hand). Never run this to silence a pin that broke because the SOURCE changed.
"""
import os, re, sys

LIT = re.compile(r'"(?:[^"\\]|\\.)*"')

def defs(path):
    out, name, buf = {}, None, []
    for line in open(path).read().splitlines():
        m = re.match(r'(?:@\[[^\]]*\]\s*)?(?:def|abbrev)\s+(\S+)', line)
        if m:
            if name: out[name] = "\n".join(buf)
            name, buf = m.group(1), [line]
        elif name is not None:
            if line.startswith("end ") or line.startswith("/-") and not buf[-1].rstrip().endswith(","):
                out[name] = "\n".join(buf); name, buf = None, []
            else:
                buf.append(line)
    if name: out[name] = "\n".join(buf)
    return out

def value_text(defn):
    """text of the value of a generated `def name : T := value`"""
    i = defn.index(":=")
    return defn[i + 2:].strip()

def skip_value(src, i):
    """end index of the Lean term starting at src[i]: a string literal, or a bracketed list / tuple (strings inside respected)"""
    if src[i] == '"':
        m = LIT.match(src, i)
        return m.end() if m else None
    if src[i] in "[(":
        depth, j = 0, i
        while j < len(src):
            c = src[j]
            if c == '"':
                m = LIT.match(src, j)
                if not m: return None
                j = m.end(); continue
            if c in "[(": depth += 1
            if c in "])":
                depth -= 1
                if depth == 0: return j + 1
            j += 1
    return None

def structural(src, ns, name, newval):
    """replace the value in every `<ns>.<name> = <value>` of a hand-written file by the new generated value"""
    n = 0
    for m in reversed(list(re.finditer(r'\b' + re.escape(ns) + r'\.' + re.escape(name) + r'\s*=\s*', src))):
        i = m.end()
        if i >= len(src) or src[i] not in '"[(': continue
        j = skip_value(src, i)
        if j is None: continue
        if src[i:j] != newval:
            src = src[:i] + newval + src[j:]; n += 1
    return src, n

def main():
    args = [a for a in sys.argv[1:] if a != "--literals"]
    literals = "--literals" in sys.argv[1:]   # also map changed literals one by one (only for files that hold nothing but pins!)
    old, new, files = args[0], args[1], args[2:]
    # pass 1: pins of the shape `FactsCxx.name = <literal | list | tuple>` are replaced as a whole
    done = set()
    texts = {path: open(path).read() for path in files}
    for f in sorted(os.listdir(new)):
        po, pn = os.path.join(old, f), os.path.join(new, f)
        if not os.path.exists(po): continue
        do, dn = defs(po), defs(pn)
        ns = f[:-5]
        for name, vn in dn.items():
            vo = do.get(name)
            if vo is None or vo == vn: continue
            for path in files:
                texts[path], n = structural(texts[path], ns, name, value_text(vn))
                if n:
                    done.add((f, name)); print(f"{path}: {ns}.{name} re-pinned as a whole ({n}x)")
    for path in files:
        if texts[path] != open(path).read():
            open(path, "w").write(texts[path])
    mapping = {}
    for f in (sorted(os.listdir(new)) if literals else []):
        po, pn = os.path.join(old, f), os.path.join(new, f)
        if not os.path.exists(po): continue
        do, dn = defs(po), defs(pn)
        for name, vn in dn.items():
            vo = do.get(name)
            if vo is None or vo == vn or (f, name) in done: continue
            lo, ln = LIT.findall(vo), LIT.findall(vn)
            if len(lo) != len(ln):
                print(f"SKIP {f}:{name}: {len(lo)} literals before, {len(ln)} after — revisit the pin by hand")
                continue
            for a, b in zip(lo, ln):
                if a != b:
                    if a in mapping and mapping[a] != b:
                        print(f"AMBIGUOUS {f}:{name}: {a[:60]} maps to two different texts; skipped")
                        mapping[a] = None
                    else:
                        mapping.setdefault(a, b)
    total = 0
    for path in files:
        src = open(path).read(); out = src
        for a, b in sorted(mapping.items(), key=lambda kv: -len(kv[0])):
            if b is None: continue
            n = out.count(a)
            if n:
                out = out.replace(a, b); total += n
                print(f"{path}: {n} x {a[:70]}")
        if out != src:
            open(path, "w").write(out)
    print(f"{total} literal occurrences replaced ({len(mapping)} changed literals)")

main()
