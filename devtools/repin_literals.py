#!/usr/bin/env python3
"""repin_literals.py OLD_GENERATED_DIR NEW_GENERATED_DIR LEAN_FILE...

After an INTENDED change of what a fact extractor prints (e.g. a new normal form of skeleton strings), the
string literals pinned in the hand-written Lean files have to follow. For every definition whose text differs
between the two generated directories (same file name, same `def` name) the string literals of the old value
are mapped, position by position, to those of the new value; every occurrence of an old literal in the given
Lean files is replaced by the new one. Definitions whose literal counts differ are reported and skipped (the
pin has to be revisited by hand). Never run this to silence a pin that broke because the SOURCE changed.
"""
import os, re, sys

LIT = re.compile(r'"(?:[^"\\]|\\.)*"')

def defs(path):
    out, name, buf = {}, None, []
    for line in open(path).read().splitlines():
        m = re.match(r'(?:@\[[^\]]*\]\s*)?(?:def|abbrev)\s+(\S+)', line)
        if m:
            if name: out[name] = "\n".join(buf)
            name, buf = m.group(1), [line]
        elif name is not None:
            if line.startswith("end ") or line.startswith("/-") and not buf[-1].rstrip().endswith(","):
                out[name] = "\n".join(buf); name, buf = None, []
            else:
                buf.append(line)
    if name: out[name] = "\n".join(buf)
    return out

def main():
    old, new, files = sys.argv[1], sys.argv[2], sys.argv[3:]
    mapping = {}
    for f in sorted(os.listdir(new)):
        po, pn = os.path.join(old, f), os.path.join(new, f)
        if not os.path.exists(po): continue
        do, dn = defs(po), defs(pn)
        for name, vn in dn.items():
            vo = do.get(name)
            if vo is None or vo == vn: continue
            lo, ln = LIT.findall(vo), LIT.findall(vn)
            if len(lo) != len(ln):
                print(f"SKIP {f}:{name}: {len(lo)} literals before, {len(ln)} after — revisit the pin by hand")
                continue
            for a, b in zip(lo, ln):
                if a != b:
                    if a in mapping and mapping[a] != b:
                        print(f"AMBIGUOUS {f}:{name}: {a[:60]} maps to two different texts; skipped")
                        mapping[a] = None
                    else:
                        mapping.setdefault(a, b)
    total = 0
    for path in files:
        src = open(path).read(); out = src
        for a, b in sorted(mapping.items(), key=lambda kv: -len(kv[0])):
            if b is None: continue
            n = out.count(a)
            if n:
                out = out.replace(a, b); total += n
                print(f"{path}: {n} x {a[:70]}")
        if out != src:
            open(path, "w").write(out)
    print(f"{total} literal occurrences replaced ({len(mapping)} changed literals)")

main()
