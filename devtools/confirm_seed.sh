#!/bin/bash
# usage: confirm_seed.sh <seed-out-dir> <pkg-dir for demo> <go test -run pattern> [extra go test flags]
# Confirms in a scratch worktree of /repo (HEAD): patch applies, builds, full suite passes, demo FAILS
# with the patch and PASSES without it. Prints a one-line verdict. Removes the worktree afterwards.
set -u
export GOFLAGS=-mod=mod GOPROXY=off
SEED=$1; PKG=$2; PAT=$3; shift 3; EXTRA="$*"
W=/tmp/confirm/$$; mkdir -p /tmp/confirm
git -C /repo worktree add -q --detach $W HEAD || exit 2
cleanup() { cd /; git -C /repo worktree remove --force $W; }
trap cleanup EXIT
cd $W
DEMO=$(ls $SEED/demo*_test.go 2>/dev/null | head -1)
if ! git apply $SEED/patch.diff; then echo "VERDICT patch-does-not-apply"; exit 1; fi
if ! go build ./... 2>/tmp/confirm/build.$$ ; then if grep -v hdf5 /tmp/confirm/build.$$ | grep -q "\.go:"; then echo "VERDICT build-fails"; cat /tmp/confirm/build.$$ | head; exit 1; fi; fi
SUITE=$(go test -vet=off -count=1 -timeout 25m $(go list ./... | grep -v loadhdf5) 2>&1 | grep -E "^(FAIL|---)" | head -5)
cp $DEMO $PKG/zz_seed_demo_test.go
go test -vet=off -count=1 $EXTRA -run "$PAT" ./$PKG/ >/tmp/confirm/with.$$ 2>&1; WITH=$?
git checkout -q -- . ; 
go test -vet=off -count=1 $EXTRA -run "$PAT" ./$PKG/ >/tmp/confirm/without.$$ 2>&1; WITHOUT=$?
rm -f $PKG/zz_seed_demo_test.go
echo "VERDICT suite_failures=[${SUITE}] demo_with_patch_rc=$WITH demo_without_patch_rc=$WITHOUT"
if [ $WITHOUT -ne 0 ]; then tail -15 /tmp/confirm/without.$$; fi
rm -f /tmp/confirm/*.$$
