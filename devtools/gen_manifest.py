#!/usr/bin/env python3
"""Regenerates MANIFEST.json from the table below (checks present in props/), keeping
not_applicable for everything not yet claimed."""
import json, os, subprocess
V = os.path.dirname(os.path.dirname(os.path.abspath(__file__)))
ENTRIES = {
 "C01": ("Refinement proof: the transcribed point-store/id-counter model of InsertPoints/UpdatePoints/DeletePoints keeps its invariant and commutes with a plain id->document map spec for every history and every oracle (free-id order, delete order, index verdict), by induction over op lists; the real shard (bbolt and memory backends) is driven through random histories and compared with the model and with the spec after every batch, including bucket dumps.",
         "Hand-written model tied by correspondence and pinned source facts (tools/facts_c01); msgpack = identity on documents, merged size supplied by the harness; bbolt rollback assumed; index acceptance an oracle bit checked against the real outcome; no indexed string is \"\" (defect 14, side stream only).",
         "Lean 4 refinement proof (invariant + abstraction map, induction over histories) + differential correspondence", "DESIGN.md §7 C01"),
 "C02": ("Index-exactness proof: the inverted index invariant (posting k holds exactly the live ids whose folded value has key k, no empty posting, bucket sorted) is preserved by every change and history, and every operator's scan returns exactly the specified set, using scan lemmas over a sorted KV and C19's order-embedding of the keys generated from sortable.go; _and/_or by structural induction. Real shards are compared with model and an independent spec oracle on every query and bucket dump.",
         "Model hand-written, key functions generated (T1), operator table / folded arguments pinned (T2); roaring = finite sets; strings.ToLower supplied by the harness as a graph; NaN excluded; node-id freshness from C01.",
         "Lean 4 invariant + scan-lemma proofs over generated key encoders + differential correspondence", "DESIGN.md §7 C02"),
 "C05": ("Proof that the text index statistics (postings, document records, corpus size) equal those computed from scratch after every history, and that Search returns exactly the all/any match set within the filter, cut to the limit best, ordered by score with score = sum of tf*idf over the current corpus, over an abstract ordered commutative score structure; real shard compared on every answer and bucket dump.",
         "bleve analyser is an arbitrary fixed function (harness passes real token lists); score VALUES compared with a float64 recomputation within a few ulp (a test, labelled so); ItemCache modelled by its write-back contract.",
         "Lean 4 invariant proof by induction over histories + match/cut/order theorem + differential correspondence", "DESIGN.md §7 C05"),
 "C06": ("Proofs of the merge algebra of searchParallel (union/intersection, summed contributions, ranked-first order), back-fill order, select (stored values, nested rebuild, star), that the sort comparator is a total preorder with missing-last, and paging = drop/take (for the repaired overflow-safe slice unconditionally); real shard compared on every answer modulo ties. Three genuine defects are recorded as known findings.",
         "Leaf answers of query trees are inputs (known up to ties); Go's unstable sort = some sorted permutation; msgpack decoding by encoded width modelled; hybrid-score addition evaluated with Lean Float32 in the driver and checked against Go each run.",
         "Lean 4 algebraic/order proofs + differential correspondence", "DESIGN.md §7 C06"),
 "C07": ("Proof of logical atomicity: for every batch program, every fault position and kind, an error leaves the disk identical and removes exactly the caches the batch wrote, success shows all effects; Commit(true)/Commit(false) placement and counter-flush order are pinned to shard.go by regenerated facts. Correspondence = fault enumeration on the real shard through a storage proxy (fail / exit at the k-th operation, before and after commit) in child processes, comparing running-instance and reopened-file answers with pre/post states.",
         "PARTIAL: bbolt atomic commit and durability are assumed (crash points are the error branch of Disk.write by assumption and are covered by the harness only); goroutine lifetimes are outside the model - the genuine defect (goroutines of a rejected batch outliving the transaction: crash or leaked cache lock) is a known finding found by the harness; Bucket.Get cannot fail in the interface (counted only).",
         "Lean 4 proof over arbitrary storage programs + regenerated syntactic facts + fault-enumeration correspondence", "DESIGN.md §7 C07"),
 "C13": ("Theorems for every hash function, key and server list of any length: determinism w.r.t. any conforming sort, permutation/set invariance of the result, minimal disruption on adding and on removing a server, top-k clamping and prefix properties, under the single explicit hypothesis that distinct names have distinct scores; XXH64 written in Lean is compared with cespare/xxhash, the real RendezvousHash with the model on random keys/sets/permutations; call sites pinned by regenerated facts. The 'every server owns a share' clause is evaluated as a test.",
         "xxhash is an arbitrary function in the theorems (collision-freedom per key = NoTies hypothesis, never violated in runs); slices.SortFunc returns a sorted permutation; share-of-keys is statistical and reported as a test.",
         "Lean 4 proof over an abstract hash + differential correspondence (incl. executable XXH64)", "DESIGN.md §7 C13"),
 "C14": ("Message-level model of start-up synchronisation (records in one write transaction with count check, chunked shard transfer with checksum, failures/kills anywhere): chunking theorem for every file length and chunk size, no-loss invariant over every reachable state, remove-only-after-confirm, and convergence of one failure-free round from any reachable state for the repaired receiver (proved false with a witness for the pinned one); open flags / ordering facts regenerated from the source; real in-process nodes with fault injection at every chunk compared with the model.",
         "PARTIAL: OS file semantics, net/rpc delivery (exactly once or error), bbolt atomicity and checksum collision-freedom (explicit hypothesis) are assumed; routing abstract (C13); no client traffic during sync; server list unchanged between an interrupted round and the completing round.",
         "Lean 4 transition-system invariant + convergence proof + fault-enumeration correspondence on real nodes", "DESIGN.md §7 C14"),
 "C15": ("Theorems for all shard lists, fill levels, batches, limits and shard-creation oracles: the ranges returned by the transcribed distributePoints are contiguous, disjoint, cover the batch, respect per-shard count and size limits, in shard order; fuel adequacy; divergence without the fits hypothesis; quota refusals perform no write and accepted inserts satisfy the count identity. The real function (tagged export) and a single-node cluster are compared with the model.",
         "int64 sums do not overflow; the Go assignment map equals the model's list when shard ids are distinct; per-shard insert correctness is C01's statement.",
         "Lean 4 proof over a fuelled transcription + differential correspondence", "DESIGN.md §7 C15"),
 "C19": ("Round-trip, injectivity and order-embedding theorems for every int64/uint64/non-NaN float64/string, for node, point, document and term keys, and for float32 vectors and edge lists of every length, proved in Lean about definitions that are regenerated from the Go source on every run; the same definitions are executed against the Go functions on boundary and random values.",
         "Lean kernel; propext/Classical.choice/Quot.sound; tools/go2lean and Base/GoRt.lean (meaning of Go built-ins); IEEE comparison on bit patterns (Base/Float.lean, validated against Go each run); unsafe raw float32 copy covered by correspondence only.",
         "Lean 4 proof over translated code + differential correspondence", "DESIGN.md §7 C19"),
 "C20": ("Bit metrics: theorems about the generated encode/hamming/jaccard for every length, threshold and float32 bit pattern (bit layout, zero padding, bit-count definitions, union=0 guard, symmetry). Float kernels: a model of the AVX dot/euclidean kernels whose constants are extracted from the .s files on every run is proved equal to the defining sums in every commutative ring for every length, and symmetric in any arithmetic with commutative fma factors. Agreement up to rounding is a correspondence sweep (lengths 1..4096 x offsets x distributions), exact on small integers.",
         "PARTIAL: floating-point rounding is not a theorem (tested with a worst-case summation bound); meaning of AVX instructions and tools/facts_c20 trusted; F32.gt on bit patterns validated against Go each run.",
         "Lean 4 proof over translated code and an assembly-pinned kernel model + numeric correspondence sweep", "DESIGN.md §7 C20"),
}
def main():
    m = json.load(open(os.path.join(V, "MANIFEST.json")))
    hooks = subprocess.run(["git", "-C", "/repo", "log", "--format=%h %s"], capture_output=True, text=True).stdout.splitlines()
    m["hooks"]["source_commits"] = [l.split()[0] for l in reversed(hooks) if " verif hooks:" in " " + l]
    present = sorted(p[:-3] for p in os.listdir(os.path.join(V, "props")) if p.endswith(".py"))
    checks, na = [], []
    props = [json.loads(l) for l in open(os.path.join(V, "properties.jsonl"))]
    old_na = {e["property_id"]: e["reason"] for e in m.get("not_applicable", [])}
    for p in props:
        pid = p["id"]
        if pid in present and pid in ENTRIES:
            text, note, tech, ref = ENTRIES[pid]
            checks.append({"property_id": pid, "quick_cmd": f"./check {pid} quick", "thorough_cmd": f"./check {pid} thorough",
                           "evidence_file": f"/verif/evidence/{pid}.json", "replay_cmd_template": f"./check {pid} quick --replay {{path}}",
                           "engine": "lean-proof", "level_claimed": {"category": "proof", "text": text, "design_ref": ref},
                           "level_note": note, "technique": tech})
        else:
            na.append({"property_id": pid, "reason": "check still being built in this round (not claimed yet; see DESIGN.md §11/§12)"})
    m["checks"], m["not_applicable"] = checks, na
    claimed = [c["property_id"] for c in checks]
    for e in m["engines"]:
        e["serves_properties"] = claimed
    json.dump(m, open(os.path.join(V, "MANIFEST.json"), "w"), indent=1)
    print("claimed:", claimed)
main()
