#!/bin/bash
# validates MANIFEST.json and every evidence file against the schemas; prints problems only
python3-vt - <<'PY'
import json,jsonschema,glob,sys,os
ok=True
try: jsonschema.validate(json.load(open('/verif/MANIFEST.json')),json.load(open('/root/.vp/MANIFEST.schema.json')))
except Exception as e: ok=False; print('MANIFEST INVALID',str(e)[:300])
s=json.load(open('/root/.vp/EVIDENCE.schema.json'))
m=json.load(open('/verif/MANIFEST.json'))
for c in m['checks']:
    f=c['evidence_file']
    try:
        ev=json.load(open(f)); jsonschema.validate(ev,s)
        cov=ev['coverage']
        if os.path.getsize(f)>500_000: ok=False; print(f,'TOO LARGE',os.path.getsize(f),'bytes (runner.write_evidence clips at 400 kB)')
        if ev.get('violations',0)!=0 or cov.get('discharged')!=cov.get('obligations'): ok=False; print(f,'NOT FROM A CLEAN RUN: violations',ev.get('violations'),'discharged',cov.get('discharged'),'/',cov.get('obligations'))
    except Exception as e: ok=False; print(f,'INVALID',str(e)[:200])
print('validate:', 'ok' if ok else 'PROBLEMS')
PY
