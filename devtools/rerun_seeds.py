#!/usr/bin/env python3
"""rerun_seeds.py [name-prefix ...] : re-runs kept seeds (already confirmed) against the current check of
their property (git apply in /repo under /tmp/repo.lock; check; revert) and updates meta.json."""
import json, os, subprocess, sys, glob
V = "/verif"
pref = sys.argv[1:]
for d in sorted(glob.glob(V + "/seeded/*")):
    name = os.path.basename(d)
    if pref and not any(name.startswith(p) for p in pref):
        continue
    mp = os.path.join(d, "meta.json")
    m = json.load(open(mp))
    prop = m.get("property") or name[:3]
    if "does not apply" in (m.get("note") or "") or "no longer applies" in (m.get("note") or ""):
        continue
    res = subprocess.run(["flock", "/tmp/repo.lock", V + "/devtools/try_seed.sh", prop, os.path.join(d, "patch.diff")], capture_output=True, text=True).stdout
    result = ([l for l in res.splitlines() if l.startswith("RESULT")] + ["RESULT none"])[0]
    if "patch-does-not-apply" in result:
        m["note"] = (m.get("note", "") + " | patch no longer applies to the current tree (later repairs / hook lines touch the same lines); last result kept").strip(" |")
    else:
        prev = {k: m.get(k) for k in ("check_result", "caught", "caught_with_concrete_replay")}
        caught = "rc=1" in result and "VIOLATION" in result
        concrete = caught and "no-failing-input-found" not in result
        if prev.get("check_result") and (prev.get("caught") != caught or prev.get("caught_with_concrete_replay") != concrete):
            m.setdefault("history", []).append(dict(prev, note="earlier run"))
        m.update({"check_result": result, "caught": caught, "caught_with_concrete_replay": concrete})
    json.dump(m, open(mp, "w"), indent=1)
    print(name, "|", result[:150], flush=True)
