#!/usr/bin/env python3
"""Replaces the seed table of DESIGN.md §13 (from the header row to the summary line) by the output of seed_table.py."""
import subprocess, re, os
root = os.path.dirname(os.path.dirname(os.path.abspath(__file__)))
p = os.path.join(root, "DESIGN.md")
s = open(p).read()
tab = subprocess.run(["python3", os.path.join(root, "devtools", "seed_table.py")], capture_output=True, text=True, check=True).stdout.rstrip("\n")
a = s.index("| seed | property | change |")
m = re.search(r"^\d+ seeded changes kept;.*$", s[a:], re.M)
b = a + m.end()
open(p, "w").write(s[:a] + tab + s[b:])
print(tab.splitlines()[-1])
