#!/usr/bin/env python3
"""benign_table.py BEFORE_DIR AFTER_DIR  -> markdown tables for notes/BENIGN.md

Each directory holds summary.txt (one line per run: name property rc=N time [ALARM] broken…) and, for alarms,
<name>.<prop>.replay.txt (the replay file of the VIOLATION line, which names what no longer checks)."""
import json, os, re, sys, collections

V = os.path.dirname(os.path.dirname(os.path.abspath(__file__)))
CORPUS = os.environ.get("BENIGN_CORPUS", os.path.join(V, "seeded-benign"))

def load(d):
    out = {}
    p = os.path.join(d, "summary.txt")
    if not os.path.exists(p): return out
    for line in open(p):
        f = line.split()
        if len(f) < 3: continue
        name, prop = f[0], f[1]
        alarm = " ALARM" in line
        ties = []
        rp = os.path.join(d, f"{name}.{prop}.replay.txt")
        txt = open(rp).read() if os.path.exists(rp) else ""
        for m in re.finditer(r"tools/(\w+) could not translate", txt):
            t = m.group(1)
            ties.append("T1 translator refuses (go2lean)" if t == "go2lean" else f"T2 extractor refuses ({t})")
        for m in re.finditer(r"^#   \[(\w[\w-]*)\] (.*)$", txt, re.M):
            kind, what = m.group(1), m.group(2)
            if kind == "translator": continue
            if kind == "proof":
                for w in what.split(", "):
                    if "Tie.lean" in w or "_tie" in w: ties.append("T1 tie theorem (" + w.split(":")[-1] + ")")
                    else: ties.append("T2 pin (" + w.replace("SemaModel/", "") + ")")
            elif kind in ("correspondence", "harness-run", "driver-run"): ties.append("T3 " + kind)
            else: ties.append(f"{kind} ({what[:60]})")
        out[name] = dict(prop=prop, alarm=alarm, ties=sorted(set(ties)), line=line.strip())
    return out

def tie_class(t):
    return t.split(" (")[0] if t.startswith("T") else t.split(" (")[0]

def main():
    before, after = load(sys.argv[1]), load(sys.argv[2])
    meta = {}
    for n in sorted(os.listdir(CORPUS)):
        mp = os.path.join(CORPUS, n, "meta.json")
        if os.path.exists(mp): meta[n] = json.load(open(mp))
    names = sorted(meta)
    nb = sum(1 for n in names if before.get(n, {}).get("alarm"))
    na = sum(1 for n in names if after.get(n, {}).get("alarm"))
    print(f"Edits: {len(names)}. Alarmed before: {nb}. Alarmed after: {na}.\n")
    # by edit kind
    kinds = collections.OrderedDict()
    for n in names:
        for k in meta[n]["kind"].split("+"):
            kinds.setdefault(k, []).append(n)
    print("| edit kind | edits | alarmed before | alarmed after | still alarming |")
    print("|---|---|---|---|---|")
    for k, ns in sorted(kinds.items()):
        b = [n for n in ns if before.get(n, {}).get("alarm")]
        a = [n for n in ns if after.get(n, {}).get("alarm")]
        print(f"| {k} | {len(ns)} | {len(b)} | {len(a)} | {', '.join(a)} |")
    # kind x tie class
    print("\n| edit kind \\ tie that alarmed (before → after) | " + " | ".join(["T1 translator refuses", "T1 tie theorem", "T2 extractor refuses", "T2 pin", "T3 / other"]) + " |")
    print("|---|---|---|---|---|---|")
    cols = ["T1 translator refuses", "T1 tie theorem", "T2 extractor refuses", "T2 pin"]
    for k, ns in sorted(kinds.items()):
        row = []
        for c in cols + ["other"]:
            def cnt(res):
                x = 0
                for n in ns:
                    r = res.get(n)
                    if not r or not r["alarm"]: continue
                    cls = {tie_class(t) for t in r["ties"]}
                    if c == "other":
                        if any(t not in cols for t in cls) or not cls: x += 1
                    elif c in cls: x += 1
                return x
            row.append(f"{cnt(before)} → {cnt(after)}")
        print(f"| {k} | " + " | ".join(row) + " |")
    # per edit
    print("\n| edit | property | kind | what | before | after |")
    print("|---|---|---|---|---|---|")
    for n in names:
        m = meta[n]
        def cell(r):
            if not r: return "not run"
            if not r["alarm"]: return "silent"
            return "ALARM: " + "; ".join(r["ties"])[:300]
        print(f"| {n} | {m['property']} | {m['kind']} | {m['description']} | {cell(before.get(n))} | {cell(after.get(n))} |")

main()
