#!/usr/bin/env python3
"""process_seed.py <Cxx> <seed out dir> <name> [--pkg DIR --pat PATTERN] [--extra "flags"]
Confirms a seeded change (scratch worktree), runs ./check Cxx quick against it in /repo under
/tmp/repo.lock (git apply; check; git checkout), and stores it under /verif/seeded/<name>/."""
import json, os, re, shutil, subprocess, sys, glob
prop, src, name = sys.argv[1:4]
args = sys.argv[4:]
def opt(k, d=None):
    return args[args.index(k) + 1] if k in args else d
meta = json.load(open(os.path.join(src, "meta.json")))
pkg = opt("--pkg", meta.get("demo_pkg_dir"))
pat = opt("--pat", meta.get("demo_run_pattern"))
extra = opt("--extra", "")
demo = (glob.glob(os.path.join(src, "demo*_test.go")) + [None])[0]
if not pkg or not pat:
    txt = open(demo).read() if demo else ""
    m = re.search(r"go test[^\n]*-run\s+'?\"?([\w|^$]+)'?\"?\s+\./([\w/]+)", txt + " " + str(meta.get("demo_cmd", "")))
    if m:
        pat, pkg = pat or m.group(1), pkg or m.group(2).rstrip("/")
pkg = (pkg or "").strip("./").rstrip("/")
conf = subprocess.run(["/verif/devtools/confirm_seed.sh", src, pkg, pat] + extra.split(), capture_output=True, text=True).stdout
verdict = ([l for l in conf.splitlines() if l.startswith("VERDICT")] + ["VERDICT none"])[0]
ok = "suite_failures=[]" in verdict and "demo_with_patch_rc=1" in verdict and "demo_without_patch_rc=0" in verdict
res = subprocess.run(["flock", "/tmp/repo.lock", "/verif/devtools/try_seed.sh", prop, os.path.join(src, "patch.diff")], capture_output=True, text=True).stdout
result = ([l for l in res.splitlines() if l.startswith("RESULT")] + ["RESULT none"])[0]
d = os.path.join("/verif/seeded", name)
os.makedirs(d, exist_ok=True)
if os.path.realpath(src) != os.path.realpath(d):
    shutil.copy(os.path.join(src, "patch.diff"), d)
if demo and os.path.realpath(demo) != os.path.realpath(os.path.join(d, "demo_test.go")):
    shutil.copy(demo, os.path.join(d, "demo_test.go"))
prev = {k: meta[k] for k in ("check_result", "caught", "caught_with_concrete_replay") if k in meta}
if prev and "history" not in meta:
    meta["history"] = [dict(prev, note="first run, before the check was strengthened")]
meta.update({"property": prop, "demo_pkg_dir": pkg, "demo_run_pattern": pat,
             "confirmed": verdict + " (devtools/confirm_seed.sh: scratch worktree of /repo HEAD; patch applies, builds, full suite, demo with / without the patch)",
             "confirmed_ok": ok,
             "check_run": f"git -C /repo apply patch.diff; ./check {prop} quick; git -C /repo checkout -- .",
             "check_result": result,
             "caught": ("rc=1" in result and "VIOLATION" in result),
             "caught_with_concrete_replay": ("rc=1" in result and "VIOLATION" in result and "no-failing-input-found" not in result)})
json.dump(meta, open(os.path.join(d, "meta.json"), "w"), indent=1)
print(name, "| confirmed_ok=", ok, "|", result)
