#!/bin/bash
# usage: try_seed.sh <Cxx> <patch.diff> [tier]   — applies the patch to /repo, runs the check, reverts.
P=$1; PATCH=$2; TIER=${3:-quick}
cd /verif
if ! git -C /repo apply --check $PATCH 2>/dev/null; then echo "RESULT $P $(basename $(dirname $PATCH)) patch-does-not-apply"; exit 2; fi
git -C /repo apply $PATCH
cp evidence/$P.json /tmp/evidence-$P.bak 2>/dev/null
rm -f replays/$P-*
OUT=$(timeout 1800 ./check $P $TIER 2>&1); RC=$?
git -C /repo checkout -q -- . ; cp /tmp/evidence-$P.bak evidence/$P.json 2>/dev/null; git -C /repo clean -fdq -e out 2>/dev/null
V=$(echo "$OUT" | grep -E "^VIOLATION" | head -2 | tr '\n' ' ')
B=$(echo "$OUT" | grep -E "broken \[" | head -4 | sed 's/\[check\] //' | tr '\n' ';')
W=$(grep -hE "^# (signature|what):" replays/$P-*.txt 2>/dev/null | head -2 | tr '\n' ' ')
echo "RESULT $P rc=$RC $V | $B | $W"
