#!/usr/bin/env python3
"""Prints the markdown table of DESIGN.md section 13 from seeded/*/meta.json."""
import json, glob, os
rows = []
for f in sorted(glob.glob(os.path.join(os.path.dirname(__file__), "..", "seeded", "*", "meta.json"))):
    m = json.load(open(f))
    name = os.path.basename(os.path.dirname(f))
    res = m.get("check_result", "")
    if m.get("caught") is None:
        caught = "yes (concrete)" if "caught" in res and "MISSED" not in res.split(";")[0] else "yes (after strengthening)"
        if "first MISSED" in res:
            caught = "first missed, now yes (concrete)"
    elif m["caught"]:
        caught = "yes (concrete)" if m.get("caught_with_concrete_replay") else "yes (no-failing-input-found)"
    else:
        caught = "NO"
    cross = "; ".join(f"{k}: {'yes' if v['caught'] else 'no'}" for k, v in m.get("cross_checks", {}).items())
    sig = ""
    if "# signature:" in res:
        sig = res.split("# signature:")[1].split("#")[0].strip()[:60]
    rows.append((name, m.get("property", ""), (m.get("title") or m.get("what_breaks", ""))[:90].replace("|", "/"), caught, sig.replace("|", "/"), cross))
print("| seed | property | change | caught by its property's check | witness signature | other checks |")
print("|---|---|---|---|---|---|")
for r in rows:
    print("| " + " | ".join(r) + " |")
n = len(rows); c = sum(1 for r in rows if r[3].startswith("yes") or "now yes" in r[3]); cc = sum(1 for r in rows if "concrete" in r[3])
print(f"\n{n} seeded changes kept; {c} caught by the check of their own property ({cc} with a concrete replay); missed: " + ", ".join(r[0] for r in rows if r[3] == "NO"))
