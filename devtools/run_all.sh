#!/bin/bash
# usage: run_all.sh [tier] [props...] : runs every check (or the given ones) on /repo under the repo lock; one summary line each
TIER=${1:-quick}; shift
PROPS=${@:-$(ls /verif/props/*.py | xargs -n1 basename | sed 's/.py//' | sort)}
cd /verif
for p in $PROPS; do
  OUT=$(flock /tmp/repo.lock ./check $p $TIER 2>&1); RC=$?
  echo "$p rc=$RC $(echo "$OUT" | grep -E "^VIOLATION" | head -1 | cut -c1-140) $(echo "$OUT" | grep -E "$p $TIER:" | sed 's/.*obligations discharged, //' | cut -c1-100) KF=$(echo "$OUT" | grep -c KNOWN-FINDING)"
done
