#!/usr/bin/env python3
"""update_hashes.py [Cxx ...] : records the statement hash of every required theorem of the given
properties (default: all) in props/hashes/Cxx.json. Run deliberately after a statement changed."""
import sys, os, json, re, subprocess, importlib.util
V = os.path.dirname(os.path.dirname(os.path.abspath(__file__)))
pids = sys.argv[1:] or sorted(p[:-3] for p in os.listdir(os.path.join(V, "props")) if p.endswith(".py"))
os.makedirs(os.path.join(V, "props", "hashes"), exist_ok=True)
for pid in pids:
    spec = importlib.util.spec_from_file_location("p", os.path.join(V, "props", pid + ".py")); m = importlib.util.module_from_spec(spec); spec.loader.exec_module(m)
    mods = m.SPEC["lean_modules"]
    subprocess.run(["lake", "build"] + mods, cwd=os.path.join(V, "lean"), capture_output=True)
    out = subprocess.run(["lake", "env", "lean", "--run", "Audit.lean"] + mods, cwd=os.path.join(V, "lean"), capture_output=True, text=True).stdout
    have = {}
    for l in out.splitlines():
        mm = re.match(r"THEOREM (\S+) (\S+) AXIOMS (\S+) STMT (\d+)", l)
        if mm: have[mm.group(2)] = mm.group(4)
    req = m.SPEC.get("required_theorems", [])
    missing = [r for r in req if r not in have]
    json.dump({r: have[r] for r in req if r in have}, open(os.path.join(V, "props", "hashes", pid + ".json"), "w"), indent=1)
    print(pid, len(req), "required,", len(have), "audited,", "MISSING: " + ",".join(missing) if missing else "ok")
