// astnorm: behaviour-preserving normal form of Go syntax trees, shared by the T2 fact extractors.
//
// MASTER COPY. Every tools/facts_*/astnorm_gen.go is a verbatim copy of devtools/astnorm/norm.go (package main);
// edit here and run devtools/sync_astnorm.sh. (Each tool is its own stdlib-only Go module, so the
// file is copied rather than imported.)
//
// Purpose: a pin (`example : Generated.x = "<skeleton>" := by decide`) should break when the pinned
// code changes its behaviour and stay quiet when a maintainer renames a local variable, rewrites
// `x++` as `x += 1`, swaps the operands of a pure `a && b`, inverts an if/else, rewords a log
// message … The extractors therefore look at the tree AFTER the rewrites below, each of which maps
// a statement to a statement with the same behaviour (same values, same effects in the same order,
// same panics), and print local identifiers under canonical names. None of the rewrites looks at a
// particular function or identifier of the repository.
//
//	NormalizeFile(f, opts)   rewrites the tree in place:
//	  DropLogs   a statement (or deferred call) that is only a zerolog call chain rooted at `log.` /
//	             `<x>.logger.` / `logger.` and ending in Msg/Msgf/Send, all of whose arguments are
//	             free of effects, is removed;
//	  IncDec     `x++` / `x--`                →  `x += 1` / `x -= 1`
//	  OpAssign   `x = x op e` (x an identifier or a chain of field selections on one)  →  `x op= e`
//	  VarDefine  `x := T(lit)` (T a basic numeric type, lit a numeric literal)  →  `var x T = lit`;
//	             `var x T = 0`  →  `var x T`;   `x := [N]T{}`  →  `var x [N]T`
//	  SortBool   the operands of a chain of `&&` (or of `||`) are sorted by their canonical text when
//	             EVERY operand is pure and total (built from identifiers, literals, field selections,
//	             comparisons, `!`, len/cap; no call, index, dereference, division, receive; and no
//	             operand of the chain mentions nil, so that `p != nil && p.x > 0` is left alone)
//	  IfElse     `if !c {A} else {B}`  →  `if c {B} else {A}`;  `if a != b {A} else {B}`  →
//	             `if a == b {B} else {A}`;  `if len(e) > 0 {A} else {B}`  →  `if len(e) == 0 {B} else {A}`
//	             (only when the else branch is a block, not an else-if chain)
//	  ErrText    the format string of `fmt.Errorf("…", args…)` is reduced to its verbs ("could not open %s: %w"
//	             →  "%s %w"): WHICH values are reported and whether the cause is wrapped (%w, what errors.Is and
//	             `err == ErrX` see) stays, the wording does not (no property speaks about message texts)
//	  InlineConsts (opt-in, not part of AllNorm) an identifier that names a constant declared in the SAME file by a
//	             numeric literal (`const maxLen = 24`) is replaced by that literal
//	CanonPrint(fset, n)      go/printer text of n, blanks collapsed, with every identifier that is
//	             declared inside a function (receiver, parameters, results, locals, labels, local
//	             types) printed as v<k>, k = rank of its declaration position inside that function.
//	             Field names, methods, package-level names and imported names are printed as written.
//
// The parser must run WITH object resolution (do not pass parser.SkipObjectResolution).
package main

import (
	"bytes"
	"fmt"
	"go/ast"
	"go/printer"
	"go/token"
	"regexp"
	"sort"
	"strconv"
	"strings"
)

type NormOpts struct {
	DropLogs, IncDec, OpAssign, VarDefine, SortBool, IfElse, ErrText bool
	InlineConsts                                                     bool
}

// AllNorm switches every rewrite on.
var AllNorm = NormOpts{DropLogs: true, IncDec: true, OpAssign: true, VarDefine: true, SortBool: true, IfElse: true, ErrText: true}

// constants InlineConsts leaves alone (a tool that treats some constants by name lists them here)
var astnormKeepConst = map[string]bool{}

// canonical names of function-local objects, filled by NormalizeFile / IndexLocals
var astnormCanon = map[*ast.Object]string{}

// identifiers that are field names (struct type declarations, keys of struct literals): never renamed
var astnormField = map[*ast.Ident]bool{}

// IndexLocals assigns canonical names to the local objects of every function of f.
func IndexLocals(f *ast.File) {
	// 1. field names inside struct / interface types and keys of struct literals
	var markLit func(lit *ast.CompositeLit, elemIsStruct bool)
	markLit = func(lit *ast.CompositeLit, inheritedStruct bool) {
		isStruct, elemStruct := inheritedStruct, false
		if lit.Type != nil {
			isStruct, elemStruct = litKind(lit.Type)
		}
		for _, e := range lit.Elts {
			v := e
			if kv, ok := e.(*ast.KeyValueExpr); ok {
				if id, ok := kv.Key.(*ast.Ident); ok && isStruct {
					astnormField[id] = true
				}
				v = kv.Value
			}
			if inner, ok := v.(*ast.CompositeLit); ok && inner.Type == nil {
				markLit(inner, elemStruct)
			}
		}
	}
	ast.Inspect(f, func(n ast.Node) bool {
		switch x := n.(type) {
		case *ast.StructType:
			for _, fl := range x.Fields.List {
				for _, id := range fl.Names {
					astnormField[id] = true
				}
			}
		case *ast.InterfaceType:
			for _, fl := range x.Methods.List {
				for _, id := range fl.Names {
					astnormField[id] = true
				}
			}
		case *ast.CompositeLit:
			if x.Type != nil {
				markLit(x, false)
			}
		}
		return true
	})
	// 2. per function: objects declared inside it, ranked by declaration position
	for _, d := range f.Decls {
		fd, ok := d.(*ast.FuncDecl)
		if !ok {
			continue
		}
		seen := map[*ast.Object]bool{}
		var objs []*ast.Object
		ast.Inspect(fd, func(n ast.Node) bool {
			id, ok := n.(*ast.Ident)
			if !ok || id.Obj == nil || astnormField[id] || id.Name == "_" {
				return true
			}
			o := id.Obj
			if seen[o] || o.Pos() < fd.Pos() || o.Pos() >= fd.End() || o.Kind == ast.Fun {
				return true // (the name of a plain function is declared at its own FuncDecl: not a local)
			}
			if fl, isField := o.Decl.(*ast.Field); isField {
				// a parameter / result / receiver is declared by a Field too; a struct field is not local
				isParam := false
				for _, nm := range fl.Names {
					if nm.Obj == o && !astnormField[nm] {
						isParam = true
					}
				}
				if !isParam {
					return true
				}
			}
			seen[o] = true
			objs = append(objs, o)
			return true
		})
		sort.SliceStable(objs, func(i, j int) bool { return objs[i].Pos() < objs[j].Pos() })
		// function literals: an object declared inside one is ranked among the objects of the SAME innermost
		// literal and gets the letter of its nesting depth (a<k> inside a closure, b<k> inside a closure of a
		// closure …), so that a local added or removed outside a closure does not renumber the closure's own
		var lits []*ast.FuncLit
		ast.Inspect(fd, func(n ast.Node) bool {
			if fl, ok := n.(*ast.FuncLit); ok {
				lits = append(lits, fl)
			}
			return true
		})
		count := map[*ast.FuncLit]int{}
		for _, o := range objs {
			var inner *ast.FuncLit
			depth := 0
			for _, fl := range lits { // lits are in source order: an enclosing literal comes before the enclosed one
				if o.Pos() >= fl.Pos() && o.Pos() < fl.End() {
					inner = fl
					depth++
				}
			}
			count[inner]++
			letter := "v"
			if depth > 0 {
				letter = string(rune('a' + (depth-1)%20))
			}
			astnormCanon[o] = fmt.Sprintf("%s%d", letter, count[inner])
		}
	}
}

// litKind: is a composite literal of this type a struct literal (keys are field names)? and are its
// elements struct literals when their own type is elided?
func litKind(t ast.Expr) (isStruct, elemStruct bool) {
	switch x := t.(type) {
	case *ast.ArrayType:
		s, _ := litKind(x.Elt)
		return false, s
	case *ast.MapType:
		s, _ := litKind(x.Value)
		return false, s
	case *ast.StarExpr:
		return litKind(x.X)
	case *ast.ParenExpr:
		return litKind(x.X)
	case *ast.StructType:
		return true, false
	default: // named type (identifier, pkg.Name, generic instance): a struct in this code base whenever it has keyed fields
		return true, false
	}
}

// withCanon runs fn while every local identifier below n carries its canonical name.
func withCanon(n ast.Node, fn func()) {
	type saved struct {
		id   *ast.Ident
		name string
	}
	var undo []saved
	ast.Inspect(n, func(m ast.Node) bool {
		if id, ok := m.(*ast.Ident); ok && id.Obj != nil && !astnormField[id] {
			if c, ok := astnormCanon[id.Obj]; ok {
				undo = append(undo, saved{id, id.Name})
				id.Name = c
			}
		}
		return true
	})
	fn()
	for _, s := range undo {
		s.id.Name = s.name
	}
}

func rawPrint(fset *token.FileSet, n ast.Node) string {
	var b bytes.Buffer
	if err := printer.Fprint(&b, fset, n); err != nil {
		return "<unprintable: " + err.Error() + ">"
	}
	return strings.Join(strings.Fields(b.String()), " ")
}

// CanonPrint: text of n with blanks collapsed and local identifiers under canonical names.
func CanonPrint(fset *token.FileSet, n ast.Node) string {
	var s string
	withCanon(n, func() { s = rawPrint(fset, n) })
	return s
}

// ------------------------------------------------------------------------------------------------

// NormalizeFile rewrites f in place (see the file comment) and indexes its locals for CanonPrint.
func NormalizeFile(fset *token.FileSet, f *ast.File, o NormOpts) {
	IndexLocals(f)
	nz := &normalizer{fset: fset, o: o}
	for _, d := range f.Decls {
		switch x := d.(type) {
		case *ast.FuncDecl:
			if x.Body != nil {
				nz.block(x.Body)
			}
		case *ast.GenDecl:
			for _, sp := range x.Specs {
				if vs, ok := sp.(*ast.ValueSpec); ok {
					for i := range vs.Values {
						vs.Values[i] = nz.expr(vs.Values[i])
					}
				}
			}
		}
	}
}

type normalizer struct {
	fset *token.FileSet
	o    NormOpts
}

var basicNumeric = map[string]bool{"int": true, "int8": true, "int16": true, "int32": true, "int64": true,
	"uint": true, "uint8": true, "uint16": true, "uint32": true, "uint64": true, "uintptr": true, "byte": true,
	"float32": true, "float64": true}

func (nz *normalizer) block(b *ast.BlockStmt) {
	if b == nil {
		return
	}
	b.List = nz.stmts(b.List)
}

func (nz *normalizer) stmts(list []ast.Stmt) []ast.Stmt {
	out := list[:0:0]
	for _, s := range list {
		if s2 := nz.stmt(s); s2 != nil {
			out = append(out, s2)
		}
	}
	return out
}

// stmt returns the normal form of s, or nil when s is dropped.
func (nz *normalizer) stmt(s ast.Stmt) ast.Stmt {
	switch x := s.(type) {
	case *ast.ExprStmt:
		if nz.o.DropLogs && isLogChain(x.X) {
			return nil
		}
		x.X = nz.expr(x.X)
	case *ast.DeferStmt:
		if nz.o.DropLogs && isLogChain(x.Call) {
			return nil
		}
		nz.call(x.Call)
	case *ast.GoStmt:
		nz.call(x.Call)
	case *ast.IncDecStmt:
		x.X = nz.expr(x.X)
		if nz.o.IncDec {
			tok := token.ADD_ASSIGN
			if x.Tok == token.DEC {
				tok = token.SUB_ASSIGN
			}
			return &ast.AssignStmt{Lhs: []ast.Expr{x.X}, TokPos: x.TokPos, Tok: tok, Rhs: []ast.Expr{&ast.BasicLit{ValuePos: x.TokPos, Kind: token.INT, Value: "1"}}}
		}
	case *ast.AssignStmt:
		for i := range x.Lhs {
			x.Lhs[i] = nz.expr(x.Lhs[i])
		}
		for i := range x.Rhs {
			x.Rhs[i] = nz.expr(x.Rhs[i])
		}
		if nz.o.OpAssign && x.Tok == token.ASSIGN && len(x.Lhs) == 1 && len(x.Rhs) == 1 && isPureLvalue(x.Lhs[0]) {
			if be, ok := x.Rhs[0].(*ast.BinaryExpr); ok {
				if tok, ok := opAssignTok[be.Op]; ok && rawPrint(nz.fset, be.X) == rawPrint(nz.fset, x.Lhs[0]) {
					x.Tok = tok
					x.Rhs[0] = be.Y
				}
			}
		}
		if nz.o.VarDefine && x.Tok == token.DEFINE && len(x.Lhs) == 1 && len(x.Rhs) == 1 {
			if id, ok := x.Lhs[0].(*ast.Ident); ok && id.Name != "_" {
				// x := T(lit)
				if call, ok := x.Rhs[0].(*ast.CallExpr); ok && len(call.Args) == 1 && call.Ellipsis == token.NoPos {
					if t, ok := call.Fun.(*ast.Ident); ok && basicNumeric[t.Name] && t.Obj == nil && isNumLit(call.Args[0]) {
						return nz.varDecl(id, t, call.Args[0], x.Pos())
					}
				}
				// x := [N]T{}
				if cl, ok := x.Rhs[0].(*ast.CompositeLit); ok && len(cl.Elts) == 0 {
					if at, ok := cl.Type.(*ast.ArrayType); ok && at.Len != nil {
						return nz.varDecl(id, at, nil, x.Pos())
					}
				}
			}
		}
	case *ast.DeclStmt:
		if gd, ok := x.Decl.(*ast.GenDecl); ok {
			for _, sp := range gd.Specs {
				if vs, ok := sp.(*ast.ValueSpec); ok {
					for i := range vs.Values {
						vs.Values[i] = nz.expr(vs.Values[i])
					}
					if nz.o.VarDefine && gd.Tok == token.VAR && len(vs.Names) == 1 && len(vs.Values) == 1 && vs.Type != nil {
						if t, ok := vs.Type.(*ast.Ident); ok && basicNumeric[t.Name] && astnormZeroLit(vs.Values[0]) {
							vs.Values = nil
						}
					}
				}
			}
		}
	case *ast.BlockStmt:
		nz.block(x)
	case *ast.IfStmt:
		nz.ifStmt(x)
	case *ast.ForStmt:
		if x.Init != nil {
			x.Init = nz.stmt(x.Init)
		}
		if x.Cond != nil {
			x.Cond = nz.expr(x.Cond)
		}
		if x.Post != nil {
			x.Post = nz.stmt(x.Post)
		}
		nz.block(x.Body)
	case *ast.RangeStmt:
		x.X = nz.expr(x.X)
		nz.block(x.Body)
	case *ast.SwitchStmt:
		if x.Init != nil {
			x.Init = nz.stmt(x.Init)
		}
		if x.Tag != nil {
			x.Tag = nz.expr(x.Tag)
		}
		nz.caseBodies(x.Body)
	case *ast.TypeSwitchStmt:
		if x.Init != nil {
			x.Init = nz.stmt(x.Init)
		}
		nz.caseBodies(x.Body)
	case *ast.SelectStmt:
		for _, c := range x.Body.List {
			if cc, ok := c.(*ast.CommClause); ok {
				cc.Body = nz.stmts(cc.Body)
			}
		}
	case *ast.LabeledStmt:
		if s2 := nz.stmt(x.Stmt); s2 != nil {
			x.Stmt = s2
		} else {
			x.Stmt = &ast.EmptyStmt{Semicolon: x.Colon, Implicit: true}
		}
	case *ast.ReturnStmt:
		for i := range x.Results {
			x.Results[i] = nz.expr(x.Results[i])
		}
	case *ast.SendStmt:
		x.Chan = nz.expr(x.Chan)
		x.Value = nz.expr(x.Value)
	}
	return s
}

func (nz *normalizer) varDecl(id *ast.Ident, typ ast.Expr, val ast.Expr, pos token.Pos) ast.Stmt {
	vs := &ast.ValueSpec{Names: []*ast.Ident{id}, Type: typ}
	if val != nil && !astnormZeroLit(val) {
		vs.Values = []ast.Expr{val}
	}
	return &ast.DeclStmt{Decl: &ast.GenDecl{TokPos: pos, Tok: token.VAR, Specs: []ast.Spec{vs}}}
}

func (nz *normalizer) caseBodies(b *ast.BlockStmt) {
	for _, c := range b.List {
		if cc, ok := c.(*ast.CaseClause); ok {
			for i := range cc.List {
				cc.List[i] = nz.expr(cc.List[i])
			}
			cc.Body = nz.stmts(cc.Body)
		}
	}
}

func (nz *normalizer) ifStmt(x *ast.IfStmt) {
	if x.Init != nil {
		x.Init = nz.stmt(x.Init)
	}
	x.Cond = nz.expr(x.Cond)
	nz.block(x.Body)
	switch e := x.Else.(type) {
	case *ast.BlockStmt:
		nz.block(e)
		if nz.o.IfElse {
			if pos, ok := positiveForm(x.Cond); ok {
				x.Cond = pos
				x.Body, x.Else = e, x.Body
			}
		}
	case *ast.IfStmt:
		nz.ifStmt(e)
	}
}

// positiveForm: for a condition of the form !c, a != b, len(e) > 0 / len(e) != 0 the condition whose
// truth value is the opposite one (c, a == b, len(e) == 0).
func positiveForm(c ast.Expr) (ast.Expr, bool) {
	switch x := c.(type) {
	case *ast.ParenExpr:
		return positiveForm(x.X)
	case *ast.UnaryExpr:
		if x.Op == token.NOT {
			inner := x.X
			if p, ok := inner.(*ast.ParenExpr); ok {
				if _, isBin := p.X.(*ast.BinaryExpr); !isBin {
					inner = p.X
				}
			}
			return inner, true
		}
	case *ast.BinaryExpr:
		if x.Op == token.NEQ {
			return &ast.BinaryExpr{X: x.X, OpPos: x.OpPos, Op: token.EQL, Y: x.Y}, true
		}
		if x.Op == token.GTR && isLenCall(x.X) && isLit(x.Y, "0") {
			return &ast.BinaryExpr{X: x.X, OpPos: x.OpPos, Op: token.EQL, Y: x.Y}, true
		}
	}
	return nil, false
}

func isLenCall(e ast.Expr) bool {
	c, ok := e.(*ast.CallExpr)
	if !ok || len(c.Args) != 1 {
		return false
	}
	id, ok := c.Fun.(*ast.Ident)
	return ok && id.Name == "len" && id.Obj == nil
}

func isLit(e ast.Expr, v string) bool {
	bl, ok := e.(*ast.BasicLit)
	return ok && bl.Value == v
}

func isNumLit(e ast.Expr) bool {
	if u, ok := e.(*ast.UnaryExpr); ok && (u.Op == token.SUB || u.Op == token.ADD) {
		e = u.X
	}
	bl, ok := e.(*ast.BasicLit)
	return ok && (bl.Kind == token.INT || bl.Kind == token.FLOAT)
}

func astnormZeroLit(e ast.Expr) bool {
	bl, ok := e.(*ast.BasicLit)
	if !ok || (bl.Kind != token.INT && bl.Kind != token.FLOAT) {
		return false
	}
	return strings.Trim(bl.Value, "0._xX") == "" && !strings.ContainsAny(bl.Value, "eEpP")
}

var opAssignTok = map[token.Token]token.Token{token.ADD: token.ADD_ASSIGN, token.SUB: token.SUB_ASSIGN, token.MUL: token.MUL_ASSIGN,
	token.QUO: token.QUO_ASSIGN, token.REM: token.REM_ASSIGN, token.AND: token.AND_ASSIGN, token.OR: token.OR_ASSIGN,
	token.XOR: token.XOR_ASSIGN, token.SHL: token.SHL_ASSIGN, token.SHR: token.SHR_ASSIGN, token.AND_NOT: token.AND_NOT_ASSIGN}

// isPureLvalue: an identifier or a chain of field selections on one (evaluating it twice is the same as once)
func isPureLvalue(e ast.Expr) bool {
	switch x := e.(type) {
	case *ast.Ident:
		return x.Name != "_"
	case *ast.SelectorExpr:
		return isPureLvalue(x.X)
	}
	return false
}

func (nz *normalizer) call(c *ast.CallExpr) {
	c.Fun = nz.expr(c.Fun)
	for i := range c.Args {
		c.Args[i] = nz.expr(c.Args[i])
	}
	if nz.o.ErrText && len(c.Args) >= 1 {
		if sel, ok := c.Fun.(*ast.SelectorExpr); ok && sel.Sel.Name == "Errorf" {
			if pkg, ok := sel.X.(*ast.Ident); ok && pkg.Name == "fmt" && pkg.Obj == nil {
				if bl, ok := c.Args[0].(*ast.BasicLit); ok && bl.Kind == token.STRING {
					if txt, err := strconv.Unquote(bl.Value); err == nil {
						c.Args[0] = &ast.BasicLit{ValuePos: bl.ValuePos, Kind: token.STRING, Value: strconv.Quote(strings.Join(fmtVerb.FindAllString(strings.ReplaceAll(txt, "%%", ""), -1), " "))}
					}
				}
			}
		}
	}
}

var fmtVerb = regexp.MustCompile(`%[+\-# 0]*(\[\d+\])?[\d*]*(\.[\d*]+)?[a-zA-Z]`)

// expr: normal form of an expression (function literals inside are normalised; boolean chains sorted)
func (nz *normalizer) expr(e ast.Expr) ast.Expr {
	switch x := e.(type) {
	case *ast.Ident:
		if nz.o.InlineConsts && x.Obj != nil && x.Obj.Kind == ast.Con && !astnormField[x] && !astnormKeepConst[x.Name] {
			if vs, ok := x.Obj.Decl.(*ast.ValueSpec); ok && vs.Type == nil && len(vs.Values) == len(vs.Names) {
				for i, nm := range vs.Names {
					if nm.Obj == x.Obj {
						if bl, ok := vs.Values[i].(*ast.BasicLit); ok && (bl.Kind == token.INT || bl.Kind == token.FLOAT) {
							return &ast.BasicLit{ValuePos: x.NamePos, Kind: bl.Kind, Value: bl.Value}
						}
					}
				}
			}
		}
	case *ast.FuncLit:
		nz.block(x.Body)
	case *ast.CallExpr:
		nz.call(x)
	case *ast.ParenExpr:
		x.X = nz.expr(x.X)
	case *ast.UnaryExpr:
		x.X = nz.expr(x.X)
	case *ast.StarExpr:
		x.X = nz.expr(x.X)
	case *ast.SelectorExpr:
		x.X = nz.expr(x.X)
	case *ast.IndexExpr:
		x.X = nz.expr(x.X)
		x.Index = nz.expr(x.Index)
	case *ast.SliceExpr:
		x.X = nz.expr(x.X)
	case *ast.TypeAssertExpr:
		x.X = nz.expr(x.X)
	case *ast.KeyValueExpr:
		x.Value = nz.expr(x.Value)
	case *ast.CompositeLit:
		for i := range x.Elts {
			x.Elts[i] = nz.expr(x.Elts[i])
		}
	case *ast.BinaryExpr:
		x.X = nz.expr(x.X)
		x.Y = nz.expr(x.Y)
		if nz.o.SortBool && (x.Op == token.LAND || x.Op == token.LOR) {
			return nz.sortChain(x)
		}
	}
	return e
}

// sortChain: operands of a maximal chain of one boolean operator, sorted by canonical text, provided
// all of them are pure and total and none mentions nil.
func (nz *normalizer) sortChain(b *ast.BinaryExpr) ast.Expr {
	var ops []ast.Expr
	var flat func(e ast.Expr)
	flat = func(e ast.Expr) {
		if be, ok := e.(*ast.BinaryExpr); ok && be.Op == b.Op {
			flat(be.X)
			flat(be.Y)
			return
		}
		ops = append(ops, e)
	}
	flat(b)
	for _, o := range ops {
		if !pureTotal(o) || mentionsNil(o) {
			return b
		}
	}
	keys := make([]string, len(ops))
	for i, o := range ops {
		keys[i] = CanonPrint(nz.fset, o)
	}
	idx := make([]int, len(ops))
	for i := range idx {
		idx[i] = i
	}
	sort.SliceStable(idx, func(i, j int) bool { return keys[idx[i]] < keys[idx[j]] })
	var out ast.Expr = ops[idx[0]]
	for _, k := range idx[1:] {
		out = &ast.BinaryExpr{X: out, OpPos: b.OpPos, Op: b.Op, Y: ops[k]}
	}
	return out
}

// pureTotal: evaluating e has no effect and cannot panic, whatever the values of its variables
func pureTotal(e ast.Expr) bool {
	switch x := e.(type) {
	case *ast.Ident, *ast.BasicLit:
		return true
	case *ast.ParenExpr:
		return pureTotal(x.X)
	case *ast.SelectorExpr:
		// a field selection panics only through a nil pointer; chains that test for nil are excluded by the caller.
		// A selector may also be a method VALUE (no call): pure.
		return pureTotal(x.X)
	case *ast.UnaryExpr:
		return (x.Op == token.NOT || x.Op == token.SUB || x.Op == token.ADD || x.Op == token.XOR) && pureTotal(x.X)
	case *ast.BinaryExpr:
		switch x.Op {
		case token.QUO, token.REM, token.SHL, token.SHR:
			return false
		}
		return pureTotal(x.X) && pureTotal(x.Y)
	case *ast.CallExpr:
		if id, ok := x.Fun.(*ast.Ident); ok && id.Obj == nil && (id.Name == "len" || id.Name == "cap") && len(x.Args) == 1 {
			return pureTotal(x.Args[0])
		}
	}
	return false
}

func mentionsNil(e ast.Expr) bool {
	found := false
	ast.Inspect(e, func(n ast.Node) bool {
		if id, ok := n.(*ast.Ident); ok && id.Name == "nil" {
			found = true
		}
		return !found
	})
	return found
}

// ------------------------------------------------------------------------------------------------
// logging

var logTerminal = map[string]bool{"Msg": true, "Msgf": true, "Send": true}

// methods / functions that may appear in the arguments of a log chain without an effect
var logPureCalls = map[string]bool{"len": true, "cap": true, "String": true, "Since": true, "Load": true, "Error": true,
	"Seconds": true, "Milliseconds": true, "Now": true, "Sub": true, "Id": true, "GetCardinality": true, "Len": true,
	"string": true, "int": true, "int64": true, "uint64": true, "float64": true, "float32": true, "Sprintf": true, "Base": true, "Dir": true}

// isLogChain: e is  <root>.Level().Field(..)….Msg(..)  with root `log`, `logger`, `<x>.logger` / `<x>.Logger`
// and effect-free arguments.
func isLogChain(e ast.Expr) bool {
	call, ok := e.(*ast.CallExpr)
	if !ok {
		return false
	}
	sel, ok := call.Fun.(*ast.SelectorExpr)
	if !ok || !logTerminal[sel.Sel.Name] {
		return false
	}
	cur := ast.Expr(call)
	for {
		c, ok := cur.(*ast.CallExpr)
		if !ok {
			break
		}
		for _, a := range c.Args {
			if !logArgPure(a) {
				return false
			}
		}
		s, ok := c.Fun.(*ast.SelectorExpr)
		if !ok {
			return false
		}
		cur = s.X
	}
	switch r := cur.(type) {
	case *ast.Ident:
		return (r.Name == "log" && r.Obj == nil) || r.Name == "logger"
	case *ast.SelectorExpr:
		return r.Sel.Name == "logger" || r.Sel.Name == "Logger"
	}
	return false
}

func logArgPure(e ast.Expr) bool {
	ok := true
	ast.Inspect(e, func(n ast.Node) bool {
		switch x := n.(type) {
		case *ast.FuncLit:
			ok = false
		case *ast.UnaryExpr:
			if x.Op == token.ARROW {
				ok = false
			}
		case *ast.CallExpr:
			name := ""
			switch f := x.Fun.(type) {
			case *ast.Ident:
				name = f.Name
			case *ast.SelectorExpr:
				name = f.Sel.Name
			}
			if !logPureCalls[name] {
				ok = false
			}
		}
		return ok
	})
	return ok
}
