module facts_c05

go 1.23
