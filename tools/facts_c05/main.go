// facts_c05 (T2): the statement skeleton of every function the C05 model transcribes, so that the
// hand-written model is tied to the text it was written from — not only to the behaviour the
// harness happens to exercise.  Writes SemaModel/Generated/FactsC05.lean.
//
//	shard/index/text/text.go   indexText.processAnalysedDoc, parallelAnalyse, flush, Search,
//	                           setCacheItem.{CheckAndClearDirty, ReadFrom, WriteTo},
//	                           docCacheItem.{ReadFrom, WriteTo}
//	shard/index/dispatch.go    preProcessText
//	shard/index/utils.go       getOperation
//
// A skeleton is the function body statement by statement, one string per simple statement or per
// header of a compound statement (`if … {`, `for … {`, `case …:`, `}`), printed by go/printer with
// blanks collapsed; comments are not part of it, and the error plumbing
// `if err != nil { return …fmt.Errorf(…) }` is dropped.  An added early return, a skipped change, a
// narrowed posting set, a changed formula all change the skeleton; SemaModel/C05/Props.lean pins the
// skeletons the model was transcribed from, so such a change stops the build until the model has
// been compared with the new text (a broken tie, never a guess).  Anything that cannot be found is
// a hard error.
package main

import (
	"flag"
	"fmt"
	"go/ast"
	"go/parser"
	"go/token"
	"os"
	"path/filepath"
	"strings"
)

var fset = token.NewFileSet()

func die(f string, a ...any) {
	fmt.Fprintf(os.Stderr, "facts_c05: "+f+"\n", a...)
	os.Exit(1)
}

// src: text of the node in the normal form of astnorm_gen.go (blanks collapsed, function-local
// identifiers under canonical names v<k>)
func src(n ast.Node) string {
	return CanonPrint(fset, n)
}

// isErrorVar: the identifier is, by its declaration, an error value — a result declared with type
// `error`, or the LAST variable on the left of an assignment from a single call (`a, x := f()`)
func isErrorVar(id *ast.Ident) bool {
	if id.Obj == nil {
		return false
	}
	switch d := id.Obj.Decl.(type) {
	case *ast.Field:
		t, ok := d.Type.(*ast.Ident)
		return ok && t.Name == "error"
	case *ast.ValueSpec:
		t, ok := d.Type.(*ast.Ident)
		return ok && t.Name == "error"
	case *ast.AssignStmt:
		if len(d.Rhs) != 1 {
			return false
		}
		if _, ok := d.Rhs[0].(*ast.CallExpr); !ok {
			return false
		}
		last, ok := d.Lhs[len(d.Lhs)-1].(*ast.Ident)
		return ok && last.Obj == id.Obj
	}
	return false
}

func recvName(fd *ast.FuncDecl) string {
	if fd.Recv == nil || len(fd.Recv.List) != 1 {
		return ""
	}
	t := fd.Recv.List[0].Type
	if s, ok := t.(*ast.StarExpr); ok {
		t = s.X
	}
	if id, ok := t.(*ast.Ident); ok {
		return id.Name
	}
	return ""
}

func find(f *ast.File, recv, name string) *ast.FuncDecl {
	var hit *ast.FuncDecl
	for _, d := range f.Decls {
		if fd, ok := d.(*ast.FuncDecl); ok && fd.Name.Name == name && recvName(fd) == recv && fd.Body != nil {
			if hit != nil {
				die("%s.%s declared twice", recv, name)
			}
			hit = fd
		}
	}
	if hit == nil {
		die("function %s.%s not found", recv, name)
	}
	return hit
}

// `if err != nil { return …, fmt.Errorf(…) }` / `{ return …, err }` and nothing else
func isErrPlumbing(s *ast.IfStmt) bool {
	if s.Init != nil || s.Else != nil || len(s.Body.List) != 1 {
		return false
	}
	be, ok := s.Cond.(*ast.BinaryExpr)
	if !ok || be.Op != token.NEQ {
		return false
	}
	x, okx := be.X.(*ast.Ident)
	y, oky := be.Y.(*ast.Ident)
	if !okx || !oky || !isErrorVar(x) || y.Name != "nil" {
		return false
	}
	ret, ok := s.Body.List[0].(*ast.ReturnStmt)
	if !ok {
		return false
	}
	if len(ret.Results) == 0 {
		return true // named results: `return` hands back err
	}
	last := ret.Results[len(ret.Results)-1]
	if id, ok := last.(*ast.Ident); ok && id.Obj == x.Obj {
		return true
	}
	if c, ok := last.(*ast.CallExpr); ok && src(c.Fun) == "fmt.Errorf" {
		return true
	}
	return false
}

func skeleton(out *[]string, stmts []ast.Stmt) {
	emit := func(s string) { *out = append(*out, s) }
	for _, st := range stmts {
		switch s := st.(type) {
		case *ast.BlockStmt:
			emit("{")
			skeleton(out, s.List)
			emit("}")
		case *ast.IfStmt:
			if isErrPlumbing(s) {
				continue
			}
			for cur := s; ; {
				h := "if "
				if cur.Init != nil {
					h += src(cur.Init) + "; "
				}
				emit(h + src(cur.Cond) + " {")
				skeleton(out, cur.Body.List)
				switch e := cur.Else.(type) {
				case nil:
					emit("}")
				case *ast.IfStmt:
					emit("} else")
					cur = e
					continue
				case *ast.BlockStmt:
					emit("} else {")
					skeleton(out, e.List)
					emit("}")
				}
				break
			}
		case *ast.ForStmt:
			h := "for "
			if s.Init != nil {
				h += src(s.Init)
			}
			h += "; "
			if s.Cond != nil {
				h += src(s.Cond)
			}
			h += "; "
			if s.Post != nil {
				h += src(s.Post)
			}
			emit(h + " {")
			skeleton(out, s.Body.List)
			emit("}")
		case *ast.RangeStmt:
			h := "for "
			if s.Key != nil {
				h += src(s.Key)
				if s.Value != nil {
					h += ", " + src(s.Value)
				}
				h += " " + s.Tok.String() + " "
			}
			emit(h + "range " + src(s.X) + " {")
			skeleton(out, s.Body.List)
			emit("}")
		case *ast.SwitchStmt:
			h := "switch "
			if s.Init != nil {
				h += src(s.Init) + "; "
			}
			if s.Tag != nil {
				h += src(s.Tag) + " "
			}
			emit(h + "{")
			for _, c := range s.Body.List {
				cc := c.(*ast.CaseClause)
				if cc.List == nil {
					emit("default:")
				} else {
					cs := make([]string, len(cc.List))
					for i, e := range cc.List {
						cs[i] = src(e)
					}
					emit("case " + strings.Join(cs, ", ") + ":")
				}
				skeleton(out, cc.Body)
			}
			emit("}")
		case *ast.SelectStmt:
			emit("select {")
			for _, c := range s.Body.List {
				cc := c.(*ast.CommClause)
				if cc.Comm == nil {
					emit("default:")
				} else {
					emit("case " + src(cc.Comm) + ":")
				}
				skeleton(out, cc.Body)
			}
			emit("}")
		default:
			// a simple statement; function literals inside it are printed whole (go/printer), which
			// keeps the goroutines and the transform closure of parallelAnalyse in the skeleton
			emit(src(st))
		}
	}
}

func leanString(s string) string {
	var b strings.Builder
	b.WriteByte('"')
	for _, r := range s {
		switch r {
		case '\\':
			b.WriteString("\\\\")
		case '"':
			b.WriteString("\\\"")
		case '\t', '\n', '\r':
			b.WriteByte(' ')
		default:
			b.WriteRune(r)
		}
	}
	b.WriteByte('"')
	return b.String()
}

type target struct{ file, recv, name, lean, doc string }

func main() {
	repo := flag.String("repo", "/repo", "repository root")
	out := flag.String("out", "", "output directory (SemaModel/Generated)")
	flag.Parse()
	targets := []target{
		{"shard/index/text/text.go", "indexText", "processAnalysedDoc", "processAnalysedDoc", "the four arms: skip / insert / delete / update (Model.processDoc)"},
		{"shard/index/text/text.go", "indexText", "parallelAnalyse", "parallelAnalyse", "tokens -> frequencies and length; one worker per id (Model.freqsOf, C05_order)"},
		{"shard/index/text/text.go", "indexText", "flush", "flush", "write-back of _numDocuments and both caches (Model.flush)"},
		{"shard/index/text/text.go", "indexText", "Search", "search", "term set, FastAnd/FastOr, pre-filter, tf-idf, sort, limit cut (Model.matchSet, scoreDoc, searchWith)"},
		{"shard/index/text/text.go", "setCacheItem", "CheckAndClearDirty", "setCheckAndClearDirty", "a posting is written back iff it was changed"},
		{"shard/index/text/text.go", "setCacheItem", "ReadFrom", "setReadFrom", "an absent posting key is the empty set (Model.getSet)"},
		{"shard/index/text/text.go", "setCacheItem", "WriteTo", "setWriteTo", "an empty posting loses its key (Model.flush)"},
		{"shard/index/text/text.go", "docCacheItem", "ReadFrom", "docReadFrom", "an absent record is ErrNotFound (`exists` in processAnalysedDoc)"},
		{"shard/index/text/text.go", "docCacheItem", "WriteTo", "docWriteTo", "record write-back"},
		{"shard/index/dispatch.go", "", "preProcessText", "preProcessText", "every change that reaches the drain is sent on; absent new text = empty text (Model.dispatchText)"},
		{"shard/index/utils.go", "", "getOperation", "getOperation", "absent/absent is the only skipped combination (Model.dispatchText)"},
	}
	files := map[string]*ast.File{}
	var b strings.Builder
	b.WriteString("-- GENERATED by tools/facts_c05 from the working tree of the repository. DO NOT EDIT.\n")
	b.WriteString("-- Statement skeletons (see tools/facts_c05/main.go) of the functions SemaModel/C05/Model.lean transcribes.\n")
	b.WriteString("namespace Sema.Gen.FactsC05\n")
	for _, t := range targets {
		f := files[t.file]
		if f == nil {
			var err error
			f, err = parser.ParseFile(fset, filepath.Join(*repo, t.file), nil, 0)
			if err != nil {
				die("cannot parse %s: %v", t.file, err)
			}
			NormalizeFile(fset, f, AllNorm)
			files[t.file] = f
		}
		fd := find(f, t.recv, t.name)
		var sk []string
		skeleton(&sk, fd.Body.List)
		if len(sk) == 0 {
			die("%s.%s has an empty skeleton", t.recv, t.name)
		}
		name := t.name
		if t.recv != "" {
			name = t.recv + "." + t.name
		}
		fmt.Fprintf(&b, "\n/-- %s `%s`: %s -/\ndef %s : List String := [\n", t.file, name, t.doc, t.lean)
		for i, s := range sk {
			sep := ","
			if i == len(sk)-1 {
				sep = ""
			}
			fmt.Fprintf(&b, "  %s%s\n", leanString(s), sep)
		}
		b.WriteString("]\n")
	}
	b.WriteString("\nend Sema.Gen.FactsC05\n")
	if *out == "" {
		fmt.Print(b.String())
		return
	}
	if err := os.WriteFile(filepath.Join(*out, "FactsC05.lean"), []byte(b.String()), 0o644); err != nil {
		die("cannot write: %v", err)
	}
}
