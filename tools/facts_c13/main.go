// facts_c13 (T2): syntactic facts of the routing code, regenerated on every check.
//   - cluster/hashing.go RendezvousHash: what is hashed (operands of the concatenation passed to
//     xxhash.Sum64String), the direction of the comparator, the clamp of topK;
//   - every call of RendezvousHash in package cluster (non-test files): key expression, server-list
//     expression, k, and how the result is used.
//
// Anything that does not have the expected shape makes the tool fail (a broken tie, never a guess).
package main

import (
	"bytes"
	"flag"
	"fmt"
	"go/ast"
	"go/parser"
	"go/printer"
	"go/token"
	"os"
	"path/filepath"
	"sort"
	"strings"
)

func fail(format string, a ...any) {
	fmt.Fprintf(os.Stderr, "facts_c13: "+format+"\n", a...)
	os.Exit(1)
}

func src(fset *token.FileSet, n ast.Node) string {
	var b bytes.Buffer
	printer.Fprint(&b, fset, n)
	return b.String()
}

func q(s string) string {
	return "\"" + strings.ReplaceAll(strings.ReplaceAll(s, "\\", "\\\\"), "\"", "\\\"") + "\""
}

type call struct{ file, fn, key, servers, k, use string }

func main() {
	repo := flag.String("repo", "/repo", "repository root")
	out := flag.String("out", "", "output directory")
	flag.Parse()
	dir := filepath.Join(*repo, "cluster")
	fset := token.NewFileSet()
	ents, err := os.ReadDir(dir)
	if err != nil {
		fail("%v", err)
	}
	var hashOperands []string
	cmpDir := ""
	clamp := ""
	hashImport := ""
	var calls []call
	for _, e := range ents {
		name := e.Name()
		if e.IsDir() || !strings.HasSuffix(name, ".go") || strings.HasSuffix(name, "_test.go") || strings.HasPrefix(name, "verif_") {
			continue
		}
		f, err := parser.ParseFile(fset, filepath.Join(dir, name), nil, 0)
		if err != nil {
			fail("%v", err)
		}
		for _, d := range f.Decls {
			fd, ok := d.(*ast.FuncDecl)
			if !ok || fd.Body == nil {
				continue
			}
			if name == "hashing.go" && fd.Name.Name == "RendezvousHash" {
				for _, im := range f.Imports {
					if strings.Contains(im.Path.Value, "xxhash") {
						hashImport = strings.Trim(im.Path.Value, "\"")
					}
				}
				if len(fd.Type.Params.List) != 3 {
					fail("RendezvousHash: expected 3 parameters")
				}
				ast.Inspect(fd.Body, func(n ast.Node) bool {
					switch x := n.(type) {
					case *ast.CallExpr:
						s := src(fset, x.Fun)
						if s == "xxhash.Sum64String" && len(x.Args) == 1 {
							if hashOperands != nil {
								fail("RendezvousHash: more than one xxhash.Sum64String call")
							}
							var flat func(e ast.Expr)
							flat = func(e ast.Expr) {
								if b, ok := e.(*ast.BinaryExpr); ok && b.Op == token.ADD {
									flat(b.X)
									flat(b.Y)
									return
								}
								hashOperands = append(hashOperands, src(fset, e))
							}
							flat(x.Args[0])
						}
						if s == "slices.SortFunc" && len(x.Args) == 2 {
							fl, ok := x.Args[1].(*ast.FuncLit)
							if !ok || len(fl.Type.Params.List) == 0 {
								fail("RendezvousHash: comparator is not a function literal")
							}
							var ps []string
							for _, p := range fl.Type.Params.List {
								for _, n := range p.Names {
									ps = append(ps, n.Name)
								}
							}
							if len(ps) != 2 || len(fl.Body.List) != 1 {
								fail("RendezvousHash: comparator has an unexpected shape")
							}
							ret, ok := fl.Body.List[0].(*ast.ReturnStmt)
							if !ok || len(ret.Results) != 1 {
								fail("RendezvousHash: comparator has an unexpected shape")
							}
							got := src(fset, ret.Results[0])
							switch got {
							case fmt.Sprintf("cmp.Compare(%s.Score, %s.Score)", ps[0], ps[1]):
								cmpDir = "asc"
							case fmt.Sprintf("cmp.Compare(%s.Score, %s.Score)", ps[1], ps[0]):
								cmpDir = "desc"
							default:
								fail("RendezvousHash: comparator %q not understood", got)
							}
						}
					case *ast.IfStmt:
						if x.Init == nil && x.Else == nil && len(x.Body.List) == 1 {
							c := src(fset, x.Cond)
							if strings.Contains(c, "topK") {
								clamp = c + " => " + src(fset, x.Body.List[0])
							}
						}
					}
					return true
				})
				continue
			}
			// call sites
			fn := fd.Name.Name
			var stack []ast.Node
			ast.Inspect(fd.Body, func(n ast.Node) bool {
				if n == nil {
					stack = stack[:len(stack)-1]
					return true
				}
				stack = append(stack, n)
				ce, ok := n.(*ast.CallExpr)
				if !ok {
					return true
				}
				if id, ok := ce.Fun.(*ast.Ident); !ok || id.Name != "RendezvousHash" {
					return true
				}
				if len(ce.Args) != 3 {
					fail("%s %s: RendezvousHash call with %d arguments", name, fn, len(ce.Args))
				}
				use := "other"
				if len(stack) >= 2 {
					if ix, ok := stack[len(stack)-2].(*ast.IndexExpr); ok && ix.X == ce {
						use = "[" + src(fset, ix.Index) + "]"
					}
				}
				calls = append(calls, call{name, fn, src(fset, ce.Args[0]), src(fset, ce.Args[1]), src(fset, ce.Args[2]), use})
				return true
			})
		}
		// a second routing function or hash in the package would bypass RendezvousHash
		for _, im := range f.Imports {
			if strings.Contains(im.Path.Value, "xxhash") && name != "hashing.go" {
				fail("%s imports %s: hashing outside hashing.go is not modelled", name, im.Path.Value)
			}
		}
	}
	if hashOperands == nil || cmpDir == "" || clamp == "" || hashImport == "" {
		fail("RendezvousHash: hash call / comparator / clamp / import not found (operands=%v cmp=%q clamp=%q import=%q)", hashOperands, cmpDir, clamp, hashImport)
	}
	if len(calls) == 0 {
		fail("no call of RendezvousHash found in package cluster")
	}
	sort.SliceStable(calls, func(i, j int) bool {
		if calls[i].file != calls[j].file {
			return calls[i].file < calls[j].file
		}
		return false
	})
	var b strings.Builder
	b.WriteString("-- GENERATED by tools/facts_c13 from the working tree of the repository. DO NOT EDIT.\n")
	b.WriteString("namespace Sema.Gen.FactsC13\n\n")
	b.WriteString("/-- import path of the hash package used by cluster/hashing.go -/\n")
	b.WriteString("def hashImport : String := " + q(hashImport) + "\n")
	b.WriteString("/-- operands, left to right, of the string passed to xxhash.Sum64String in RendezvousHash -/\n")
	var ops []string
	for _, o := range hashOperands {
		ops = append(ops, q(o))
	}
	b.WriteString("def hashOperands : List String := [" + strings.Join(ops, ", ") + "]\n")
	b.WriteString("/-- parameter names of RendezvousHash are (key, servers, topK); the range variable is `server` -/\n")
	b.WriteString("def sortDirection : String := " + q(cmpDir) + "\n")
	b.WriteString("def clamp : String := " + q(clamp) + "\n\n")
	b.WriteString("structure Call where\n  file : String\n  fn : String\n  key : String\n  servers : String\n  k : String\n  use : String\n  deriving DecidableEq, Repr\n\n")
	b.WriteString("/-- every call of RendezvousHash in package cluster (non-test files), in source order per file -/\n")
	b.WriteString("def calls : List Call := [\n")
	for i, c := range calls {
		sep := ","
		if i == len(calls)-1 {
			sep = ""
		}
		b.WriteString(fmt.Sprintf("  ⟨%s, %s, %s, %s, %s, %s⟩%s\n", q(c.file), q(c.fn), q(c.key), q(c.servers), q(c.k), q(c.use), sep))
	}
	b.WriteString("]\n\nend Sema.Gen.FactsC13\n")
	if err := os.MkdirAll(*out, 0o755); err != nil {
		fail("%v", err)
	}
	if err := os.WriteFile(filepath.Join(*out, "FactsC13.lean"), []byte(b.String()), 0o644); err != nil {
		fail("%v", err)
	}
}
