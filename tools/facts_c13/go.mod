module facts_c13

go 1.23
