// facts_c02 (T2): syntactic facts of the filter-query path, extracted with go/ast from the working
// tree and written as Lean tables (Generated/FactsC02.lean). The C02 model is a hand transcription of
// this code; SemaModel/C02/Lemmas.lean pins every table (`example : … := by decide`), so an edit of the
// operator table of IndexInverted.Search, of the arms of processChange / getOperation, or of which
// arguments string.go folds breaks the build of the proof until model and pin are revisited.
// A construct the tool does not recognise is a broken tie: exit non-zero, never a guess.
package main

import (
	"flag"
	"fmt"
	"go/ast"
	"go/parser"
	"go/token"
	"os"
	"path/filepath"
	"sort"
	"strings"
)

var fset = token.NewFileSet()

func die(format string, a ...any) {
	fmt.Fprintf(os.Stderr, "facts_c02: "+format+"\n", a...)
	os.Exit(1)
}

// render: the node in the normal form of astnorm_gen.go. Function-local identifiers are printed under
// canonical names v<k>, EXCEPT those that alias() has given a role name: the tables below speak of
// `query`, `operator`, `start`, `end`, `inclusive`, `queryKey` … — these names are attached to the
// variables by their position / declaration (see roles), not by how the source spells them.
func render(n ast.Node) string {
	return CanonPrint(fset, n)
}

func alias(id *ast.Ident, name string) {
	if id != nil && id.Obj != nil {
		astnormCanon[id.Obj] = name
	}
}

func recvIdent(fd *ast.FuncDecl) *ast.Ident {
	if fd.Recv != nil && len(fd.Recv.List) == 1 && len(fd.Recv.List[0].Names) == 1 {
		return fd.Recv.List[0].Names[0]
	}
	return nil
}

func fieldIdents(fl *ast.FieldList) []*ast.Ident {
	var out []*ast.Ident
	if fl != nil {
		for _, f := range fl.List {
			out = append(out, f.Names...)
		}
	}
	return out
}

// isCallOf: e is `name(arg…)` / `x.name(arg…)`, first argument the variable obj (nil: any)
func isCallOf(e ast.Expr, name string, obj *ast.Object) bool {
	c, ok := e.(*ast.CallExpr)
	if !ok || len(c.Args) < 1 {
		return false
	}
	fn := ""
	switch f := c.Fun.(type) {
	case *ast.Ident:
		fn = f.Name
	case *ast.SelectorExpr:
		fn = f.Sel.Name
	}
	if fn != name {
		return false
	}
	if obj == nil {
		return true
	}
	a, ok := c.Args[0].(*ast.Ident)
	return ok && a.Obj == obj
}

// rolesSearch: names of the variables of IndexInverted.Search by role
func rolesSearch(fd *ast.FuncDecl) {
	alias(recvIdent(fd), "inv")
	ps := fieldIdents(fd.Type.Params)
	if len(ps) != 3 {
		die("IndexInverted.Search: expected the parameters (query, endQuery, operator)")
	}
	alias(ps[0], "query")
	alias(ps[1], "endQuery")
	alias(ps[2], "operator")
	ast.Inspect(fd.Body, func(n ast.Node) bool {
		switch x := n.(type) {
		case *ast.ValueSpec: // var start, end []byte ; var inclusive bool
			if at, ok := x.Type.(*ast.ArrayType); ok && at.Len == nil && len(x.Names) == 2 && len(x.Values) == 0 {
				if el, ok := at.Elt.(*ast.Ident); ok && el.Name == "byte" {
					alias(x.Names[0], "start")
					alias(x.Names[1], "end")
				}
			}
			if t, ok := x.Type.(*ast.Ident); ok && t.Name == "bool" && len(x.Names) == 1 && len(x.Values) == 0 {
				alias(x.Names[0], "inclusive")
			}
		case *ast.AssignStmt: // queryKey, err := toByteSortable(query) ; endk, err := toByteSortable(endQuery)
			if x.Tok == token.DEFINE && len(x.Lhs) == 2 && len(x.Rhs) == 1 {
				if id, ok := x.Lhs[0].(*ast.Ident); ok {
					if isCallOf(x.Rhs[0], "toByteSortable", ps[0].Obj) {
						alias(id, "queryKey")
					}
					if isCallOf(x.Rhs[0], "toByteSortable", ps[1].Obj) {
						alias(id, "endk")
					}
				}
			}
		case *ast.FuncLit: // scan callbacks func(k, v []byte) error
			if fs := fieldIdents(x.Type.Params); len(fs) == 2 {
				alias(fs[0], "k")
				alias(fs[1], "v")
			}
		}
		return true
	})
}

// rolesArms: receiver `inv`, first parameter `change`; named results of getOperation by position
func rolesArms(fd *ast.FuncDecl) {
	alias(recvIdent(fd), "inv")
	if fd.Name.Name == "processChange" {
		if ps := fieldIdents(fd.Type.Params); len(ps) == 1 {
			alias(ps[0], "change")
		}
	}
	if fd.Name.Name == "getOperation" {
		rs := fieldIdents(fd.Type.Results)
		if len(rs) != 4 {
			die("getOperation: expected the named results (prevProp, currentProp, op, err)")
		}
		alias(rs[0], "prevProp")
		alias(rs[1], "currentProp")
		alias(rs[2], "op")
	}
}

func parse(repo, rel string) *ast.File {
	f, err := parser.ParseFile(fset, filepath.Join(repo, rel), nil, 0)
	if err != nil {
		die("%v", err)
	}
	NormalizeFile(fset, f, AllNorm) // behaviour-preserving normal form, see astnorm_gen.go
	return f
}

// method finds `func (recv *Recv[...]) name` (or a plain function when recv == "")
func method(f *ast.File, recv, name string) *ast.FuncDecl {
	for _, d := range f.Decls {
		fd, ok := d.(*ast.FuncDecl)
		if !ok || fd.Name.Name != name {
			continue
		}
		if recv == "" {
			if fd.Recv == nil {
				return fd
			}
			continue
		}
		if fd.Recv == nil || len(fd.Recv.List) != 1 {
			continue
		}
		t := render(fd.Recv.List[0].Type)
		t = strings.TrimPrefix(t, "*")
		if i := strings.Index(t, "["); i >= 0 {
			t = t[:i]
		}
		if t == recv {
			return fd
		}
	}
	die("%s.%s not found", recv, name)
	return nil
}

func leanStr(s string) string {
	return "\"" + strings.ReplaceAll(strings.ReplaceAll(s, "\\", "\\\\"), "\"", "\\\"") + "\""
}

func leanList(xs []string) string {
	q := make([]string, len(xs))
	for i, x := range xs {
		q[i] = leanStr(x)
	}
	return "[" + strings.Join(q, ", ") + "]"
}

// the `switch operator` of IndexInverted.Search: per operator, how the bucket is read
func searchTable(f *ast.File) []string {
	fd := method(f, "IndexInverted", "Search")
	rolesSearch(fd)
	var sw *ast.SwitchStmt
	var scanCall string
	ast.Inspect(fd.Body, func(n ast.Node) bool {
		if s, ok := n.(*ast.SwitchStmt); ok && s.Tag != nil && render(s.Tag) == "operator" {
			sw = s
		}
		if ifs, ok := n.(*ast.IfStmt); ok && (render(ifs.Cond) == "start != nil || end != nil" || render(ifs.Cond) == "end != nil || start != nil") {
			ast.Inspect(ifs.Body, func(m ast.Node) bool {
				if c, ok := m.(*ast.CallExpr); ok && strings.HasPrefix(render(c.Fun), "inv.bucket.RangeScan") && len(c.Args) == 4 {
					scanCall = render(c.Args[0]) + "," + render(c.Args[1]) + "," + render(c.Args[2])
				}
				return true
			})
		}
		return true
	})
	if sw == nil {
		die("IndexInverted.Search: `switch operator` not found")
	}
	if scanCall != "start,end,inclusive" {
		die("IndexInverted.Search: `if start != nil || end != nil { inv.bucket.RangeScan(start, end, inclusive, …) }` not found (got %q)", scanCall)
	}
	var rows []string
	for _, st := range sw.Body.List {
		cc := st.(*ast.CaseClause)
		if cc.List == nil {
			continue // default: error
		}
		var how []string
		for _, s := range cc.Body {
			ast.Inspect(s, func(n ast.Node) bool {
				switch n := n.(type) {
				case *ast.AssignStmt:
					if len(n.Lhs) == 1 && len(n.Rhs) == 1 {
						l := render(n.Lhs[0])
						if l == "start" || l == "end" || l == "inclusive" {
							how = append(how, l+"="+render(n.Rhs[0]))
						}
						if l == "endk, err" {
							how = append(how, "endk="+render(n.Rhs[0]))
						}
					}
					if len(n.Lhs) == 2 && len(n.Rhs) == 1 && render(n.Lhs[0]) == "endk" {
						how = append(how, "endk="+render(n.Rhs[0]))
					}
				case *ast.CallExpr:
					fn := render(n.Fun)
					switch {
					case fn == "inv.getSetCacheItem" && render(n.Args[0]) == "query":
						how = append(how, "get(query)")
					case fn == "inv.bucket.ForEach":
						how = append(how, "forEach")
					case fn == "inv.bucket.PrefixScan":
						how = append(how, "prefixScan("+render(n.Args[0])+")")
					case fn == "bytes.Equal":
						how = append(how, "skipIf:"+render(n))
					}
				case *ast.ReturnStmt:
					if len(n.Results) == 2 && render(n.Results[1]) == "nil" {
						how = append(how, "return "+render(n.Results[0]))
					}
				}
				return true
			})
		}
		for _, e := range cc.List {
			rows = append(rows, render(e)+": "+strings.Join(how, "; "))
		}
	}
	// the cases of a switch over one tag with distinct constant labels exclude each other: their order in
	// the source carries no meaning, the table is emitted sorted by label
	sort.Strings(rows)
	return rows
}

// conditions of the case clauses of a tagless switch, with the op each assigns (if any)
func switchArms(fd *ast.FuncDecl, what string) []string {
	rolesArms(fd)
	var sw *ast.SwitchStmt
	ast.Inspect(fd.Body, func(n ast.Node) bool {
		if s, ok := n.(*ast.SwitchStmt); ok && s.Tag == nil && sw == nil {
			sw = s
		}
		return true
	})
	if sw == nil {
		die("%s: tagless switch not found", what)
	}
	var rows []string
	for _, st := range sw.Body.List {
		cc := st.(*ast.CaseClause)
		if cc.List == nil {
			rows = append(rows, "default")
			continue
		}
		var acts []string
		for _, s := range cc.Body {
			ast.Inspect(s, func(n ast.Node) bool {
				switch n := n.(type) {
				case *ast.AssignStmt:
					if len(n.Lhs) == 1 && render(n.Lhs[0]) == "op" {
						acts = append(acts, "op="+render(n.Rhs[0]))
					}
				case *ast.CallExpr:
					fn := render(n.Fun)
					if strings.HasSuffix(fn, ".CheckedAdd") || strings.HasSuffix(fn, ".CheckedRemove") {
						acts = append(acts, fn)
					}
					if fn == "inv.getSetCacheItem" {
						acts = append(acts, "item("+render(n.Args[0])+")")
					}
				}
				return true
			})
		}
		rows = append(rows, render(cc.List[0])+" => "+strings.Join(acts, "; "))
	}
	return rows
}

// what a wrapper of string.go lower-cases, and what it hands to the inner index
func folds(fd *ast.FuncDecl, what string) (folded []string, guard string, call string) {
	alias(recvIdent(fd), "inv")
	ast.Inspect(fd.Body, func(n ast.Node) bool {
		switch n := n.(type) {
		case *ast.IfStmt:
			if guard == "" {
				guard = render(n.Cond)
			}
		case *ast.AssignStmt:
			if len(n.Lhs) == 1 && len(n.Rhs) == 1 {
				if c, ok := n.Rhs[0].(*ast.CallExpr); ok && render(c.Fun) == "strings.ToLower" {
					folded = append(folded, render(n.Lhs[0])+"<-"+render(c.Args[0]))
				}
			}
		case *ast.ReturnStmt:
			if len(n.Results) == 1 {
				if c, ok := n.Results[0].(*ast.CallExpr); ok && strings.HasPrefix(render(c.Fun), "inv.inner.") {
					call = render(c)
				}
			}
		}
		return true
	})
	if call == "" {
		die("%s: call of the inner index not found", what)
	}
	return
}

func main() {
	repo := flag.String("repo", "/repo", "repository working tree")
	out := flag.String("out", "", "output directory")
	flag.Parse()
	inv := parse(*repo, "shard/index/inverted/inverted.go")
	str := parse(*repo, "shard/index/inverted/string.go")
	arr := parse(*repo, "shard/index/inverted/array.go")
	utl := parse(*repo, "shard/index/utils.go")

	var b strings.Builder
	b.WriteString("-- GENERATED by tools/facts_c02 from the working tree of the repository. DO NOT EDIT.\n")
	b.WriteString("namespace Sema.Gen.FactsC02\n\n")
	wr := func(name, doc string, rows []string) {
		fmt.Fprintf(&b, "/-- %s -/\ndef %s : List String := [\n", doc, name)
		for i, r := range rows {
			sep := ","
			if i == len(rows)-1 {
				sep = ""
			}
			fmt.Fprintf(&b, "  %s%s\n", leanStr(r), sep)
		}
		b.WriteString("]\n\n")
	}
	wr("searchTable", "inverted.go IndexInverted.Search: operator -> how the bucket is read (the range operators feed `RangeScan(start, end, inclusive)`)", searchTable(inv))
	wr("processChangeArms", "inverted.go processChange: the arms in order", switchArms(method(inv, "IndexInverted", "processChange"), "processChange"))
	wr("getOperationArms", "utils.go getOperation: the arms in order", switchArms(method(utl, "", "getOperation"), "getOperation"))
	for _, w := range []struct {
		name, recv, fn string
		f              *ast.File
	}{
		{"stringSearch", "IndexInvertedString", "Search", str},
		{"stringWrite", "IndexInvertedString", "InsertUpdateDelete", str},
		{"stringArraySearch", "IndexInvertedArrayString", "Search", str},
		{"stringArrayWrite", "IndexInvertedArrayString", "InsertUpdateDelete", str},
	} {
		fo, guard, call := folds(method(w.f, w.recv, w.fn), w.recv+"."+w.fn)
		wr(w.name, "string.go "+w.recv+"."+w.fn+": guard, what is lower-cased, what the inner index receives", append([]string{"if " + guard}, append(fo, "=> "+call)...))
	}
	// array.go: the operators of IndexInvertedArray.Search and the per-element lookup
	var arrRows []string
	alias(recvIdent(method(arr, "IndexInvertedArray", "Search")), "inv")
	ast.Inspect(method(arr, "IndexInvertedArray", "Search").Body, func(n ast.Node) bool {
		switch n := n.(type) {
		case *ast.CaseClause:
			for _, e := range n.List {
				for _, s := range n.Body {
					arrRows = append(arrRows, render(e)+" => "+render(s))
				}
			}
		case *ast.CallExpr:
			if render(n.Fun) == "inv.inner.Search" {
				arrRows = append(arrRows, "each: "+render(n))
			}
		}
		return true
	})
	wr("arraySearch", "array.go IndexInvertedArray.Search: per-element lookup and the two combinators", arrRows)
	b.WriteString("end Sema.Gen.FactsC02\n")
	if err := os.WriteFile(filepath.Join(*out, "FactsC02.lean"), []byte(b.String()), 0o644); err != nil {
		die("%v", err)
	}
}
