// facts_c02 (T2): syntactic facts of the filter-query path, extracted with go/ast from the working
// tree and written as Lean tables (Generated/FactsC02.lean). The C02 model is a hand transcription of
// this code; SemaModel/C02/Lemmas.lean pins every table (`example : … := by decide`), so an edit of the
// operator table of IndexInverted.Search, of the arms of processChange / getOperation, or of which
// arguments string.go folds breaks the build of the proof until model and pin are revisited.
// A construct the tool does not recognise is a broken tie: exit non-zero, never a guess.
package main

import (
	"bytes"
	"flag"
	"fmt"
	"go/ast"
	"go/parser"
	"go/printer"
	"go/token"
	"os"
	"path/filepath"
	"strings"
)

var fset = token.NewFileSet()

func die(format string, a ...any) {
	fmt.Fprintf(os.Stderr, "facts_c02: "+format+"\n", a...)
	os.Exit(1)
}

func render(n ast.Node) string {
	var b bytes.Buffer
	if err := printer.Fprint(&b, fset, n); err != nil {
		die("print: %v", err)
	}
	return strings.Join(strings.Fields(b.String()), " ")
}

func parse(repo, rel string) *ast.File {
	f, err := parser.ParseFile(fset, filepath.Join(repo, rel), nil, 0)
	if err != nil {
		die("%v", err)
	}
	return f
}

// method finds `func (recv *Recv[...]) name` (or a plain function when recv == "")
func method(f *ast.File, recv, name string) *ast.FuncDecl {
	for _, d := range f.Decls {
		fd, ok := d.(*ast.FuncDecl)
		if !ok || fd.Name.Name != name {
			continue
		}
		if recv == "" {
			if fd.Recv == nil {
				return fd
			}
			continue
		}
		if fd.Recv == nil || len(fd.Recv.List) != 1 {
			continue
		}
		t := render(fd.Recv.List[0].Type)
		t = strings.TrimPrefix(t, "*")
		if i := strings.Index(t, "["); i >= 0 {
			t = t[:i]
		}
		if t == recv {
			return fd
		}
	}
	die("%s.%s not found", recv, name)
	return nil
}

func leanStr(s string) string {
	return "\"" + strings.ReplaceAll(strings.ReplaceAll(s, "\\", "\\\\"), "\"", "\\\"") + "\""
}

func leanList(xs []string) string {
	q := make([]string, len(xs))
	for i, x := range xs {
		q[i] = leanStr(x)
	}
	return "[" + strings.Join(q, ", ") + "]"
}

// the `switch operator` of IndexInverted.Search: per operator, how the bucket is read
func searchTable(f *ast.File) []string {
	fd := method(f, "IndexInverted", "Search")
	var sw *ast.SwitchStmt
	var scanCall string
	ast.Inspect(fd.Body, func(n ast.Node) bool {
		if s, ok := n.(*ast.SwitchStmt); ok && s.Tag != nil && render(s.Tag) == "operator" {
			sw = s
		}
		if ifs, ok := n.(*ast.IfStmt); ok && render(ifs.Cond) == "start != nil || end != nil" {
			ast.Inspect(ifs.Body, func(m ast.Node) bool {
				if c, ok := m.(*ast.CallExpr); ok && strings.HasPrefix(render(c.Fun), "inv.bucket.RangeScan") && len(c.Args) == 4 {
					scanCall = render(c.Args[0]) + "," + render(c.Args[1]) + "," + render(c.Args[2])
				}
				return true
			})
		}
		return true
	})
	if sw == nil {
		die("IndexInverted.Search: `switch operator` not found")
	}
	if scanCall != "start,end,inclusive" {
		die("IndexInverted.Search: `if start != nil || end != nil { inv.bucket.RangeScan(start, end, inclusive, …) }` not found (got %q)", scanCall)
	}
	var rows []string
	for _, st := range sw.Body.List {
		cc := st.(*ast.CaseClause)
		if cc.List == nil {
			continue // default: error
		}
		var how []string
		for _, s := range cc.Body {
			ast.Inspect(s, func(n ast.Node) bool {
				switch n := n.(type) {
				case *ast.AssignStmt:
					if len(n.Lhs) == 1 && len(n.Rhs) == 1 {
						l := render(n.Lhs[0])
						if l == "start" || l == "end" || l == "inclusive" {
							how = append(how, l+"="+render(n.Rhs[0]))
						}
						if l == "endk, err" {
							how = append(how, "endk="+render(n.Rhs[0]))
						}
					}
					if len(n.Lhs) == 2 && len(n.Rhs) == 1 && render(n.Lhs[0]) == "endk" {
						how = append(how, "endk="+render(n.Rhs[0]))
					}
				case *ast.CallExpr:
					fn := render(n.Fun)
					switch {
					case fn == "inv.getSetCacheItem" && render(n.Args[0]) == "query":
						how = append(how, "get(query)")
					case fn == "inv.bucket.ForEach":
						how = append(how, "forEach")
					case fn == "inv.bucket.PrefixScan":
						how = append(how, "prefixScan("+render(n.Args[0])+")")
					case fn == "bytes.Equal":
						how = append(how, "skipIf:"+render(n))
					}
				case *ast.ReturnStmt:
					if len(n.Results) == 2 && render(n.Results[1]) == "nil" {
						how = append(how, "return "+render(n.Results[0]))
					}
				}
				return true
			})
		}
		for _, e := range cc.List {
			rows = append(rows, render(e)+": "+strings.Join(how, "; "))
		}
	}
	return rows
}

// conditions of the case clauses of a tagless switch, with the op each assigns (if any)
func switchArms(fd *ast.FuncDecl, what string) []string {
	var sw *ast.SwitchStmt
	ast.Inspect(fd.Body, func(n ast.Node) bool {
		if s, ok := n.(*ast.SwitchStmt); ok && s.Tag == nil && sw == nil {
			sw = s
		}
		return true
	})
	if sw == nil {
		die("%s: tagless switch not found", what)
	}
	var rows []string
	for _, st := range sw.Body.List {
		cc := st.(*ast.CaseClause)
		if cc.List == nil {
			rows = append(rows, "default")
			continue
		}
		var acts []string
		for _, s := range cc.Body {
			ast.Inspect(s, func(n ast.Node) bool {
				switch n := n.(type) {
				case *ast.AssignStmt:
					if len(n.Lhs) == 1 && render(n.Lhs[0]) == "op" {
						acts = append(acts, "op="+render(n.Rhs[0]))
					}
				case *ast.CallExpr:
					fn := render(n.Fun)
					if strings.HasSuffix(fn, ".CheckedAdd") || strings.HasSuffix(fn, ".CheckedRemove") {
						acts = append(acts, fn)
					}
					if fn == "inv.getSetCacheItem" {
						acts = append(acts, "item("+render(n.Args[0])+")")
					}
				}
				return true
			})
		}
		rows = append(rows, render(cc.List[0])+" => "+strings.Join(acts, "; "))
	}
	return rows
}

// what a wrapper of string.go lower-cases, and what it hands to the inner index
func folds(fd *ast.FuncDecl, what string) (folded []string, guard string, call string) {
	ast.Inspect(fd.Body, func(n ast.Node) bool {
		switch n := n.(type) {
		case *ast.IfStmt:
			if guard == "" {
				guard = render(n.Cond)
			}
		case *ast.AssignStmt:
			if len(n.Lhs) == 1 && len(n.Rhs) == 1 {
				if c, ok := n.Rhs[0].(*ast.CallExpr); ok && render(c.Fun) == "strings.ToLower" {
					folded = append(folded, render(n.Lhs[0])+"<-"+render(c.Args[0]))
				}
			}
		case *ast.ReturnStmt:
			if len(n.Results) == 1 {
				if c, ok := n.Results[0].(*ast.CallExpr); ok && strings.HasPrefix(render(c.Fun), "inv.inner.") {
					call = render(c)
				}
			}
		}
		return true
	})
	if call == "" {
		die("%s: call of the inner index not found", what)
	}
	return
}

func main() {
	repo := flag.String("repo", "/repo", "repository working tree")
	out := flag.String("out", "", "output directory")
	flag.Parse()
	inv := parse(*repo, "shard/index/inverted/inverted.go")
	str := parse(*repo, "shard/index/inverted/string.go")
	arr := parse(*repo, "shard/index/inverted/array.go")
	utl := parse(*repo, "shard/index/utils.go")

	var b strings.Builder
	b.WriteString("-- GENERATED by tools/facts_c02 from the working tree of the repository. DO NOT EDIT.\n")
	b.WriteString("namespace Sema.Gen.FactsC02\n\n")
	wr := func(name, doc string, rows []string) {
		fmt.Fprintf(&b, "/-- %s -/\ndef %s : List String := [\n", doc, name)
		for i, r := range rows {
			sep := ","
			if i == len(rows)-1 {
				sep = ""
			}
			fmt.Fprintf(&b, "  %s%s\n", leanStr(r), sep)
		}
		b.WriteString("]\n\n")
	}
	wr("searchTable", "inverted.go IndexInverted.Search: operator -> how the bucket is read (the range operators feed `RangeScan(start, end, inclusive)`)", searchTable(inv))
	wr("processChangeArms", "inverted.go processChange: the arms in order", switchArms(method(inv, "IndexInverted", "processChange"), "processChange"))
	wr("getOperationArms", "utils.go getOperation: the arms in order", switchArms(method(utl, "", "getOperation"), "getOperation"))
	for _, w := range []struct{ name, recv, fn string; f *ast.File }{
		{"stringSearch", "IndexInvertedString", "Search", str},
		{"stringWrite", "IndexInvertedString", "InsertUpdateDelete", str},
		{"stringArraySearch", "IndexInvertedArrayString", "Search", str},
		{"stringArrayWrite", "IndexInvertedArrayString", "InsertUpdateDelete", str},
	} {
		fo, guard, call := folds(method(w.f, w.recv, w.fn), w.recv+"."+w.fn)
		wr(w.name, "string.go "+w.recv+"."+w.fn+": guard, what is lower-cased, what the inner index receives", append([]string{"if " + guard}, append(fo, "=> "+call)...))
	}
	// array.go: the operators of IndexInvertedArray.Search and the per-element lookup
	var arrRows []string
	ast.Inspect(method(arr, "IndexInvertedArray", "Search").Body, func(n ast.Node) bool {
		switch n := n.(type) {
		case *ast.CaseClause:
			for _, e := range n.List {
				for _, s := range n.Body {
					arrRows = append(arrRows, render(e)+" => "+render(s))
				}
			}
		case *ast.CallExpr:
			if render(n.Fun) == "inv.inner.Search" {
				arrRows = append(arrRows, "each: "+render(n))
			}
		}
		return true
	})
	wr("arraySearch", "array.go IndexInvertedArray.Search: per-element lookup and the two combinators", arrRows)
	b.WriteString("end Sema.Gen.FactsC02\n")
	if err := os.WriteFile(filepath.Join(*out, "FactsC02.lean"), []byte(b.String()), 0o644); err != nil {
		die("%v", err)
	}
}
