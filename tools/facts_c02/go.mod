module facts_c02

go 1.23
