// facts_c07 (T2): pins syntactic facts of shard/shard.go that the C07 model relies on and emits
// them as a Lean table (Generated/FactsC07.lean):
//   - every entry point creates its cache transaction before the storage transaction,
//   - the `if err != nil` branch right after db.Write / db.Read calls cacheTx.Commit(true) before it
//     returns, and returns a non-nil error,
//   - the success path calls cacheTx.Commit(false) right after that branch,
//   - no return statement after the storage transaction is reached without a Commit call,
//   - the write closure never commits the cache transaction itself,
//   - inside the write closure the merged pipeline error is checked with `<-mergedErrC`, that
//     branch returns a non-nil error, and the point counter / id counter are written only after
//     that check (success path), nowhere else.
//
// A function or statement the tool cannot find is a broken tie: exit status 1, never a guess.
package main

import (
	"flag"
	"fmt"
	"go/ast"
	"go/parser"
	"go/token"
	"os"
	"path/filepath"
	"strings"
)

type entry struct {
	name                 string
	tx                   string // Write | Read
	newTxBeforeTx        bool
	errBranchCommitsTrue bool
	errBranchReturnsErr  bool
	successCommitsFalse  bool
	laterReturnsCommit   bool
	noCommitInClosure    bool
	mergedErrChecked     bool
	mergedErrReturnsErr  bool
	counterCalls         int
	flushCalls           int
	counterAfterMerged   bool
	flushAfterMerged     bool
	closureEndsNil       bool
	returnsBeforeTx      int
}

func die(format string, a ...any) {
	fmt.Fprintf(os.Stderr, "facts_c07: "+format+"\n", a...)
	os.Exit(1)
}

// The variables the facts speak about are found by their ROLE in the entry point that is being analysed
// (what they are assigned from), not by their names:
//
//	roleTx       x := s.cacheManager.NewTransaction()
//	roleErr      x := s.db.Write(…) / s.db.Read(…)
//	roleMerged   x := utils.MergeErrorsWithContext(…)        (inside the closure)
//	roleCounter  x, _ := NewIdCounter(…)                      (inside the closure)
var roleTx, roleErr, roleMerged, roleCounter *ast.Object

func findRoles(fn *ast.FuncDecl) {
	roleTx, roleErr, roleMerged, roleCounter = nil, nil, nil, nil
	ast.Inspect(fn.Body, func(n ast.Node) bool {
		as, ok := n.(*ast.AssignStmt)
		if !ok || len(as.Rhs) != 1 || len(as.Lhs) < 1 {
			return true
		}
		id, ok := as.Lhs[0].(*ast.Ident)
		if !ok || id.Obj == nil {
			return true
		}
		c, ok := as.Rhs[0].(*ast.CallExpr)
		if !ok {
			return true
		}
		name := ""
		switch f := c.Fun.(type) {
		case *ast.Ident:
			name = f.Name
		case *ast.SelectorExpr:
			name = f.Sel.Name
		}
		switch {
		case name == "NewTransaction" && roleTx == nil:
			roleTx = id.Obj
		case name == "MergeErrorsWithContext" && roleMerged == nil:
			roleMerged = id.Obj
		case name == "NewIdCounter" && roleCounter == nil:
			roleCounter = id.Obj
		}
		return true
	})
}

// isCallOn reports whether e is <variable obj>.method(args...) and returns the args
func isCallOn(e ast.Expr, obj *ast.Object, method string) ([]ast.Expr, bool) {
	c, ok := e.(*ast.CallExpr)
	if !ok || obj == nil {
		return nil, false
	}
	s, ok := c.Fun.(*ast.SelectorExpr)
	if !ok || s.Sel.Name != method {
		return nil, false
	}
	x, ok := s.X.(*ast.Ident)
	return c.Args, ok && x.Obj == obj
}

// isCall reports whether e is recv.method(args...) and returns the args
func isCall(e ast.Expr, recv, method string) ([]ast.Expr, bool) {
	c, ok := e.(*ast.CallExpr)
	if !ok {
		return nil, false
	}
	s, ok := c.Fun.(*ast.SelectorExpr)
	if !ok || s.Sel.Name != method {
		return nil, false
	}
	switch x := s.X.(type) {
	case *ast.Ident:
		return c.Args, x.Name == recv
	case *ast.SelectorExpr: // s.db.Write, s.cacheManager.NewTransaction
		return c.Args, x.Sel.Name == recv
	}
	return nil, false
}

func commitArg(st ast.Stmt) (string, bool) {
	es, ok := st.(*ast.ExprStmt)
	if !ok {
		return "", false
	}
	args, ok := isCallOn(es.X, roleTx, "Commit")
	if !ok || len(args) != 1 {
		return "", false
	}
	if id, ok := args[0].(*ast.Ident); ok {
		return id.Name, true
	}
	return "?", true
}

func lastIsNil(r *ast.ReturnStmt) bool {
	if len(r.Results) == 0 {
		return false
	}
	id, ok := r.Results[len(r.Results)-1].(*ast.Ident)
	return ok && id.Name == "nil"
}

// errNotNilCond: `<errVar> != nil` for the given variable
func errNotNilCond(e ast.Expr, errVar *ast.Object) bool {
	b, ok := e.(*ast.BinaryExpr)
	if !ok || b.Op != token.NEQ || errVar == nil {
		return false
	}
	x, ok1 := b.X.(*ast.Ident)
	y, ok2 := b.Y.(*ast.Ident)
	return ok1 && ok2 && x.Obj == errVar && y.Name == "nil"
}

// walkReturns visits every return statement of a statement list (not inside function literals),
// carrying whether a cacheTx.Commit call precedes it on its path.
func walkReturns(stmts []ast.Stmt, committed bool, visit func(r *ast.ReturnStmt, committed bool)) bool {
	for _, st := range stmts {
		if _, ok := commitArg(st); ok {
			committed = true
			continue
		}
		switch s := st.(type) {
		case *ast.ReturnStmt:
			visit(s, committed)
		case *ast.IfStmt:
			walkReturns(s.Body.List, committed, visit)
			if s.Else != nil {
				walkReturns([]ast.Stmt{s.Else}, committed, visit)
			}
		case *ast.BlockStmt:
			committed = walkReturns(s.List, committed, visit)
		case *ast.ForStmt:
			walkReturns(s.Body.List, committed, visit)
		case *ast.RangeStmt:
			walkReturns(s.Body.List, committed, visit)
		case *ast.SwitchStmt:
			for _, c := range s.Body.List {
				walkReturns(c.(*ast.CaseClause).Body, committed, visit)
			}
		case *ast.TypeSwitchStmt:
			for _, c := range s.Body.List {
				walkReturns(c.(*ast.CaseClause).Body, committed, visit)
			}
		case *ast.SelectStmt:
			for _, c := range s.Body.List {
				walkReturns(c.(*ast.CommClause).Body, committed, visit)
			}
		}
	}
	return committed
}

func countCalls(n ast.Node, pred func(*ast.CallExpr) bool) int {
	c := 0
	ast.Inspect(n, func(x ast.Node) bool {
		if ce, ok := x.(*ast.CallExpr); ok && pred(ce) {
			c++
		}
		return true
	})
	return c
}

func isChangePointCount(c *ast.CallExpr) bool {
	id, ok := c.Fun.(*ast.Ident)
	return ok && id.Name == "changePointCount"
}
func isCounterFlush(c *ast.CallExpr) bool {
	_, ok := isCallOn(c, roleCounter, "Flush")
	return ok
}

// recvFromMerged: `e := <-<merged error channel>`; returns the variable e
func recvFromMerged(st ast.Stmt) (*ast.Object, bool) {
	as, ok := st.(*ast.AssignStmt)
	if !ok || len(as.Rhs) != 1 || len(as.Lhs) != 1 || roleMerged == nil {
		return nil, false
	}
	u, ok := as.Rhs[0].(*ast.UnaryExpr)
	if !ok || u.Op != token.ARROW {
		return nil, false
	}
	id, ok := u.X.(*ast.Ident)
	if !ok || id.Obj != roleMerged {
		return nil, false
	}
	l, ok := as.Lhs[0].(*ast.Ident)
	if !ok {
		return nil, false
	}
	return l.Obj, true
}

func analyse(fn *ast.FuncDecl) entry {
	e := entry{name: fn.Name.Name}
	findRoles(fn)
	body := fn.Body.List
	newTx, txIdx := -1, -1
	var closure *ast.FuncLit
	for i, st := range body {
		as, ok := st.(*ast.AssignStmt)
		if !ok || len(as.Rhs) != 1 {
			continue
		}
		if _, ok := isCall(as.Rhs[0], "cacheManager", "NewTransaction"); ok && newTx < 0 {
			if id, ok := as.Lhs[0].(*ast.Ident); !ok || id.Obj == nil || id.Obj != roleTx {
				die("%s: the cache transaction is not bound to a variable at the top level of the function", e.name)
			}
			newTx = i
		}
		for _, m := range []string{"Write", "Read"} {
			if args, ok := isCall(as.Rhs[0], "db", m); ok && txIdx < 0 {
				id, ok := as.Lhs[0].(*ast.Ident)
				if !ok || id.Obj == nil || len(as.Lhs) != 1 || len(args) != 1 {
					die("%s: unexpected shape of the s.db.%s statement", e.name, m)
				}
				roleErr = id.Obj
				fl, ok := args[0].(*ast.FuncLit)
				if !ok {
					die("%s: s.db.%s is not given a function literal", e.name, m)
				}
				txIdx, closure, e.tx = i, fl, m
			}
		}
	}
	if newTx < 0 || txIdx < 0 {
		die("%s: cannot find `cacheTx := s.cacheManager.NewTransaction()` / `err := s.db.Write|Read(func…)` at the top level of the function", e.name)
	}
	e.newTxBeforeTx = newTx < txIdx
	walkReturns(body[:txIdx], false, func(*ast.ReturnStmt, bool) { e.returnsBeforeTx++ })
	// the error branch: first `if err != nil` after the transaction statement
	ifIdx := -1
	for i := txIdx + 1; i < len(body); i++ {
		if is, ok := body[i].(*ast.IfStmt); ok && is.Init == nil && errNotNilCond(is.Cond, roleErr) {
			ifIdx = i
			break
		}
		if _, ok := body[i].(*ast.ExprStmt); ok {
			continue // logging
		}
		break
	}
	if ifIdx < 0 {
		die("%s: no `if err != nil` right after the storage transaction", e.name)
	}
	is := body[ifIdx].(*ast.IfStmt)
	sawTrue, sawRet := false, false
	e.errBranchCommitsTrue, e.errBranchReturnsErr = true, true
	for _, st := range is.Body.List {
		if a, ok := commitArg(st); ok {
			if a == "true" {
				sawTrue = true
			} else {
				e.errBranchCommitsTrue = false
			}
		}
		if r, ok := st.(*ast.ReturnStmt); ok {
			sawRet = true
			if !sawTrue {
				e.errBranchCommitsTrue = false
			}
			if lastIsNil(r) {
				e.errBranchReturnsErr = false
			}
		}
	}
	if !sawRet || !sawTrue {
		e.errBranchCommitsTrue = false
	}
	if !sawRet {
		e.errBranchReturnsErr = false
	}
	if ifIdx+1 < len(body) {
		a, ok := commitArg(body[ifIdx+1])
		e.successCommitsFalse = ok && a == "false"
	}
	e.laterReturnsCommit = true
	walkReturns(body[txIdx+1:], false, func(_ *ast.ReturnStmt, committed bool) {
		if !committed {
			e.laterReturnsCommit = false
		}
	})
	e.noCommitInClosure = countCalls(closure, func(c *ast.CallExpr) bool { _, ok := isCallOn(c, roleTx, "Commit"); return ok }) == 0
	// inside the closure
	cl := closure.Body.List
	mergedIdx := -1
	for i, st := range cl {
		is, ok := st.(*ast.IfStmt)
		if !ok || is.Init == nil {
			continue
		}
		if ev, ok := recvFromMerged(is.Init); ok && errNotNilCond(is.Cond, ev) {
			mergedIdx = i
			e.mergedErrChecked = true
			e.mergedErrReturnsErr = len(is.Body.List) > 0
			for _, b := range is.Body.List {
				if r, ok := b.(*ast.ReturnStmt); ok && lastIsNil(r) {
					e.mergedErrReturnsErr = false
				}
			}
			if _, ok := is.Body.List[len(is.Body.List)-1].(*ast.ReturnStmt); !ok {
				e.mergedErrReturnsErr = false
			}
		}
	}
	e.counterCalls = countCalls(closure, isChangePointCount)
	e.flushCalls = countCalls(closure, isCounterFlush)
	e.counterAfterMerged, e.flushAfterMerged = true, true
	if e.tx == "Write" {
		if mergedIdx < 0 {
			e.counterAfterMerged, e.flushAfterMerged = e.counterCalls == 0, e.flushCalls == 0
		} else {
			after := 0
			afterF := 0
			for _, st := range cl[mergedIdx+1:] {
				// only top-level statements of the closure after the check count as "success path"
				if is, ok := st.(*ast.IfStmt); ok && is.Init != nil {
					after += countCalls(is.Init, isChangePointCount)
					afterF += countCalls(is.Init, isCounterFlush)
				}
			}
			e.counterAfterMerged = after == e.counterCalls
			e.flushAfterMerged = afterF == e.flushCalls
		}
	}
	if r, ok := cl[len(cl)-1].(*ast.ReturnStmt); ok {
		e.closureEndsNil = lastIsNil(r)
	}
	return e
}

func b(x bool) string {
	if x {
		return "true"
	}
	return "false"
}

func main() {
	repo := flag.String("repo", "/repo", "repository root")
	out := flag.String("out", "", "output directory for the generated Lean file")
	flag.Parse()
	path := filepath.Join(*repo, "shard", "shard.go")
	fset := token.NewFileSet()
	f, err := parser.ParseFile(fset, path, nil, 0)
	if err != nil {
		die("cannot parse %s: %v", path, err)
	}
	NormalizeFile(fset, f, AllNorm) // behaviour-preserving normal form (log calls dropped, …): astnorm_gen.go
	want := []string{"InsertPoints", "UpdatePoints", "DeletePoints", "SearchPoints"}
	found := map[string]entry{}
	for _, d := range f.Decls {
		fn, ok := d.(*ast.FuncDecl)
		if !ok || fn.Recv == nil || fn.Body == nil {
			continue
		}
		for _, w := range want {
			if fn.Name.Name == w {
				found[w] = analyse(fn)
			}
		}
	}
	var sb strings.Builder
	sb.WriteString("-- GENERATED by tools/facts_c07 from shard/shard.go of the working tree. DO NOT EDIT.\n")
	sb.WriteString("namespace Sema.Gen.FactsC07\n\n")
	sb.WriteString("structure EntryPoint where\n  name : String\n  tx : String\n  newTxBeforeTx : Bool\n  errBranchCommitsTrue : Bool\n  errBranchReturnsErr : Bool\n  successCommitsFalse : Bool\n  laterReturnsCommit : Bool\n  noCommitInClosure : Bool\n  mergedErrChecked : Bool\n  mergedErrReturnsErr : Bool\n  counterCalls : Nat\n  flushCalls : Nat\n  counterAfterMerged : Bool\n  flushAfterMerged : Bool\n  closureEndsNil : Bool\n  returnsBeforeTx : Nat\n  deriving Repr, DecidableEq\n\n")
	sb.WriteString("def entryPoints : List EntryPoint := [\n")
	for i, w := range want {
		e, ok := found[w]
		if !ok {
			die("method %s not found in %s", w, path)
		}
		fmt.Fprintf(&sb, "  { name := %q, tx := %q, newTxBeforeTx := %s, errBranchCommitsTrue := %s, errBranchReturnsErr := %s, successCommitsFalse := %s,\n    laterReturnsCommit := %s, noCommitInClosure := %s, mergedErrChecked := %s, mergedErrReturnsErr := %s, counterCalls := %d, flushCalls := %d,\n    counterAfterMerged := %s, flushAfterMerged := %s, closureEndsNil := %s, returnsBeforeTx := %d }",
			e.name, e.tx, b(e.newTxBeforeTx), b(e.errBranchCommitsTrue), b(e.errBranchReturnsErr), b(e.successCommitsFalse),
			b(e.laterReturnsCommit), b(e.noCommitInClosure), b(e.mergedErrChecked), b(e.mergedErrReturnsErr), e.counterCalls, e.flushCalls,
			b(e.counterAfterMerged), b(e.flushAfterMerged), b(e.closureEndsNil), e.returnsBeforeTx)
		if i < len(want)-1 {
			sb.WriteString(",")
		}
		sb.WriteString("\n")
	}
	sb.WriteString("]\n\nend Sema.Gen.FactsC07\n")
	if *out == "" {
		fmt.Print(sb.String())
		return
	}
	if err := os.WriteFile(filepath.Join(*out, "FactsC07.lean"), []byte(sb.String()), 0o644); err != nil {
		die("%v", err)
	}
}
