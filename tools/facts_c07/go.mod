module facts_c07

go 1.23
