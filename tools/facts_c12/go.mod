module facts_c12

go 1.23
