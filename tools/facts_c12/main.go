// facts_c12: T2 fact extractor for property C12.
//
// Walks cluster/shardmgr.go with go/ast and emits, for loadShard, cleanupRoutine, DoWithShard and
// DeleteCollectionShards, the sequence of lock / unlock / defer / map / channel / file-system /
// shard-handle operations and verifYield points in source order, with the control structure that
// encloses them ("lock skeleton"), into Generated/FactsC12.lean. The Lean side pins each skeleton
// against the skeleton its step relation was written from (SemaModel/C12/Props.lean, `decide`).
//
// Anything unexpected (an unknown method on shardLock / ls.mu, another function touching the shard
// store, a callback in rpchandlers.go that re-enters the shard manager) makes the tool exit
// non-zero: a broken tie, never a guess.
package main

import (
	"flag"
	"fmt"
	"go/ast"
	"go/parser"
	"go/token"
	"os"
	"path/filepath"
	"sort"
	"strconv"
	"strings"
)

func die(format string, a ...any) {
	fmt.Fprintf(os.Stderr, "facts_c12: "+format+"\n", a...)
	os.Exit(1)
}

// roleOf: the name the tables below use for a function-local variable, decided by WHAT the variable is and
// not by how the source calls it: "sm" the receiver of a *ShardManager method, "ls" a *loadedShard (declared
// with that type, or bound to an entry of the shard store, a loadedShard literal or the result of loadShard),
// "f" a parameter of function type, "timer" the result of time.NewTimer. Everything else keeps its name.
var roleOf = map[*ast.Object]string{}

func isLoadedShardType(t ast.Expr) bool {
	if st, ok := t.(*ast.StarExpr); ok {
		t = st.X
	}
	id, ok := t.(*ast.Ident)
	return ok && id.Name == "loadedShard"
}

func assignRoles(fd *ast.FuncDecl) {
	if fd.Recv != nil && len(fd.Recv.List) == 1 && len(fd.Recv.List[0].Names) == 1 {
		t := fd.Recv.List[0].Type
		if st, ok := t.(*ast.StarExpr); ok {
			t = st.X
		}
		if id, ok := t.(*ast.Ident); ok && id.Name == "ShardManager" {
			roleOf[fd.Recv.List[0].Names[0].Obj] = "sm"
		}
	}
	for _, f := range fd.Type.Params.List {
		for _, n := range f.Names {
			if _, ok := f.Type.(*ast.FuncType); ok {
				roleOf[n.Obj] = "f"
			}
			if isLoadedShardType(f.Type) {
				roleOf[n.Obj] = "ls"
			}
		}
	}
	if fd.Body == nil {
		return
	}
	ast.Inspect(fd.Body, func(n ast.Node) bool {
		as, ok := n.(*ast.AssignStmt)
		if !ok || as.Tok != token.DEFINE || len(as.Rhs) != 1 || len(as.Lhs) < 1 {
			return true
		}
		id, ok := as.Lhs[0].(*ast.Ident)
		if !ok || id.Obj == nil {
			return true
		}
		switch r := as.Rhs[0].(type) {
		case *ast.IndexExpr:
			if sel, ok := r.X.(*ast.SelectorExpr); ok && sel.Sel.Name == "shardStore" {
				roleOf[id.Obj] = "ls"
			}
		case *ast.UnaryExpr:
			if cl, ok := r.X.(*ast.CompositeLit); ok && r.Op == token.AND && isLoadedShardType(cl.Type) {
				roleOf[id.Obj] = "ls"
			}
		case *ast.CallExpr:
			if sel, ok := r.Fun.(*ast.SelectorExpr); ok {
				if sel.Sel.Name == "loadShard" {
					roleOf[id.Obj] = "ls"
				}
				if pkg, ok := sel.X.(*ast.Ident); ok && pkg.Name == "time" && pkg.Obj == nil && sel.Sel.Name == "NewTimer" {
					roleOf[id.Obj] = "timer"
				}
			}
		}
		return true
	})
}

// render a selector chain / identifier / index expression as source-like text (locals by role, see roleOf)
func render(e ast.Expr) string {
	switch x := e.(type) {
	case *ast.Ident:
		if r, ok := roleOf[x.Obj]; ok && x.Obj != nil {
			return r
		}
		return x.Name
	case *ast.SelectorExpr:
		return render(x.X) + "." + x.Sel.Name
	case *ast.IndexExpr:
		return render(x.X) + "[" + render(x.Index) + "]"
	case *ast.BasicLit:
		return x.Value
	case *ast.ParenExpr:
		return render(x.X)
	case *ast.StarExpr:
		return "*" + render(x.X)
	case *ast.UnaryExpr:
		return x.Op.String() + render(x.X)
	case *ast.CallExpr:
		return render(x.Fun) + "(…)"
	}
	return "?"
}

var callTok = map[string]string{
	"sm.shardLock.Lock":   "lockStore",
	"sm.shardLock.Unlock": "unlockStore",
	"ls.mu.Lock":          "lockW",
	"ls.mu.Unlock":        "unlockW",
	"ls.mu.RLock":         "rlock",
	"ls.mu.RUnlock":       "runlock",
	"os.MkdirAll":         "mkdir",
	"shard.NewShard":      "open",
	"ls.shard.Close":      "close",
	"ls.shard.Backup":     "backup",
	"os.RemoveAll":        "removeall",
	"os.ReadDir":          "readdir",
	"os.Stat":             "stat",
	"os.Remove":           "rmdir",
	"sm.cleanupRoutine":   "cleanupRoutine",
	"sm.loadShard":        "call loadShard",
	"f":                   "callback",
	"timer.Stop":          "timerStop",
	"timer.Reset":         "timerReset",
	"time.NewTimer":       "newTimer",
	"verifTimer":          "timerHook",
}

type walker struct {
	fn   string
	toks []string
}

func (w *walker) emit(t string) { w.toks = append(w.toks, t) }

// tokens of the calls / map reads / nil tests inside an expression, in evaluation (source) order
func (w *walker) expr(e ast.Expr) {
	if e == nil {
		return
	}
	ast.Inspect(e, func(n ast.Node) bool {
		switch x := n.(type) {
		case *ast.FuncLit:
			return false
		case *ast.CallExpr:
			for _, a := range x.Args {
				w.expr(a)
			}
			name := render(x.Fun)
			if name == "verifYield" {
				if len(x.Args) != 1 {
					die("%s: verifYield with %d args", w.fn, len(x.Args))
				}
				lit, ok := x.Args[0].(*ast.BasicLit)
				if !ok {
					die("%s: verifYield argument is not a literal", w.fn)
				}
				s, _ := strconv.Unquote(lit.Value)
				w.emit("Y " + s)
				return false
			}
			if name == "delete" && len(x.Args) == 2 && render(x.Args[0]) == "sm.shardStore" {
				w.emit("mapdel")
				return false
			}
			if t, ok := callTok[name]; ok {
				w.emit(t)
				return false
			}
			if strings.HasPrefix(name, "sm.shardLock.") || strings.HasPrefix(name, "ls.mu.") || strings.HasPrefix(name, "ls.shard.") || strings.HasPrefix(name, "sm.shardStore") {
				die("%s: unexpected operation %s", w.fn, name)
			}
			if sel, ok := x.Fun.(*ast.SelectorExpr); ok {
				w.expr(sel.X) // e.g. a logger chain: nothing of interest, but look inside
			}
			return false
		case *ast.BinaryExpr:
			l, r := render(x.X), render(x.Y)
			if l == "ls.shard" && r == "nil" {
				w.emit("shard" + x.Op.String() + "nil")
				return false
			}
			if ix, ok := x.X.(*ast.IndexExpr); ok && render(ix.X) == "sm.shardStore" && r == "ls" {
				w.emit("mapget" + x.Op.String() + "ls")
				return false
			}
		case *ast.IndexExpr:
			if render(x.X) == "sm.shardStore" {
				w.emit("mapget")
				return false
			}
		case *ast.UnaryExpr:
			if x.Op == token.ARROW {
				w.emit("recv " + render(x.X))
				return false
			}
		}
		return true
	})
}

func (w *walker) block(b *ast.BlockStmt) {
	if b == nil {
		return
	}
	for _, s := range b.List {
		w.stmt(s)
	}
}

// run f; if it emitted nothing, drop the opening token as well (structure without content)
func (w *walker) bracket(open, close string, f func()) {
	mark := len(w.toks)
	w.emit(open)
	inner := len(w.toks)
	f()
	if len(w.toks) == inner {
		w.toks = w.toks[:mark]
		return
	}
	w.emit(close)
}

func (w *walker) stmt(s ast.Stmt) {
	switch x := s.(type) {
	case *ast.ExprStmt:
		w.expr(x.X)
	case *ast.DeferStmt:
		mark := len(w.toks)
		w.expr(x.Call)
		for i := mark; i < len(w.toks); i++ {
			w.toks[i] = "defer " + w.toks[i]
		}
	case *ast.GoStmt:
		mark := len(w.toks)
		w.expr(x.Call)
		for i := mark; i < len(w.toks); i++ {
			w.toks[i] = "go " + w.toks[i]
		}
	case *ast.AssignStmt:
		for _, r := range x.Rhs {
			w.expr(r)
		}
		for _, l := range x.Lhs {
			ls := render(l)
			if strings.HasPrefix(ls, "sm.shardStore[") {
				w.emit("mapput")
			}
			if ls == "ls.shard" {
				if len(x.Rhs) == 1 && render(x.Rhs[0]) == "nil" {
					w.emit("setnil")
				} else {
					die("%s: ls.shard assigned something other than nil", w.fn)
				}
			}
			if ls == "sm.shardStore" || ls == "ls.doneCh" {
				die("%s: %s reassigned", w.fn, ls)
			}
		}
	case *ast.DeclStmt, *ast.IncDecStmt, *ast.BranchStmt, *ast.EmptyStmt:
	case *ast.ReturnStmt:
		for _, r := range x.Results {
			w.expr(r)
		}
		w.emit("return")
	case *ast.BlockStmt:
		w.block(x)
	case *ast.IfStmt:
		// the header (init; cond) always contributes its own tokens; the if/else/endif structure is
		// kept only when a branch contains something of interest (drops error-logging ifs)
		if x.Init != nil {
			w.stmt(x.Init)
		}
		w.expr(x.Cond)
		w.bracket("if", "endif", func() {
			w.block(x.Body)
			if x.Else != nil {
				mark := len(w.toks)
				w.emit("else")
				inner := len(w.toks)
				w.stmt(x.Else)
				if len(w.toks) == inner {
					w.toks = w.toks[:mark]
				}
			}
		})
	case *ast.ForStmt:
		w.bracket("for", "endfor", func() { w.block(x.Body) })
	case *ast.RangeStmt:
		w.expr(x.X)
		w.bracket("for", "endfor", func() { w.block(x.Body) })
	case *ast.SelectStmt:
		w.emit("select")
		for _, c := range x.Body.List {
			cc := c.(*ast.CommClause)
			switch comm := cc.Comm.(type) {
			case nil:
				w.emit("default")
			case *ast.SendStmt:
				w.emit("case send " + render(comm.Chan) + " " + render(comm.Value))
			case *ast.ExprStmt:
				w.emit("case")
				w.expr(comm.X)
			case *ast.AssignStmt:
				w.emit("case")
				for _, r := range comm.Rhs {
					w.expr(r)
				}
			default:
				die("%s: unknown select case", w.fn)
			}
			for _, s := range cc.Body {
				w.stmt(s)
			}
		}
		w.emit("endselect")
	case *ast.SendStmt:
		die("%s: blocking channel send on %s", w.fn, render(x.Chan))
	default:
		die("%s: unhandled statement %T", w.fn, s)
	}
}

// which top-level functions mention the protected fields
func fieldUsers(files map[string]*ast.File) []string {
	set := map[string]bool{}
	for _, f := range files {
		for _, d := range f.Decls {
			fd, ok := d.(*ast.FuncDecl)
			if !ok || fd.Body == nil {
				continue
			}
			ast.Inspect(fd.Body, func(n ast.Node) bool {
				if sel, ok := n.(*ast.SelectorExpr); ok {
					switch sel.Sel.Name {
					case "shardStore", "shardLock":
						set[fd.Name.Name] = true
					case "doneCh", "mu", "shard":
						if id, ok := sel.X.(*ast.Ident); ok && (id.Name == "ls" || roleOf[id.Obj] == "ls") {
							set[fd.Name.Name] = true
						}
					}
				}
				if kv, ok := n.(*ast.KeyValueExpr); ok {
					if id, ok := kv.Key.(*ast.Ident); ok && id.Name == "shardStore" {
						set[fd.Name.Name] = true
					}
				}
				return true
			})
		}
	}
	var out []string
	for k := range set {
		out = append(out, k)
	}
	sort.Strings(out)
	return out
}

// does any function literal passed to DoWithShard mention the shard manager (re-entrancy)?
func callbacksReenter(files map[string]*ast.File) (n int, reenter bool) {
	for _, f := range files {
		ast.Inspect(f, func(node ast.Node) bool {
			call, ok := node.(*ast.CallExpr)
			if !ok {
				return true
			}
			sel, ok := call.Fun.(*ast.SelectorExpr)
			if !ok || sel.Sel.Name != "DoWithShard" {
				return true
			}
			n++
			for _, a := range call.Args {
				fl, ok := a.(*ast.FuncLit)
				if !ok {
					continue
				}
				ast.Inspect(fl.Body, func(m ast.Node) bool {
					switch y := m.(type) {
					case *ast.SelectorExpr:
						if y.Sel.Name == "shardManager" || y.Sel.Name == "DoWithShard" || y.Sel.Name == "DeleteCollectionShards" || strings.HasPrefix(y.Sel.Name, "RPC") || y.Sel.Name == "internalRoute" {
							reenter = true
						}
					}
					return true
				})
			}
			return true
		})
	}
	return
}

func leanList(xs []string) string {
	q := make([]string, len(xs))
	for i, x := range xs {
		q[i] = strconv.Quote(x)
	}
	return "[" + strings.Join(q, ", ") + "]"
}

func main() {
	repo := flag.String("repo", "/repo", "repository root")
	out := flag.String("out", "", "output directory (SemaModel/Generated)")
	flag.Parse()
	if *out == "" {
		die("missing -out")
	}
	fset := token.NewFileSet()
	dir := filepath.Join(*repo, "cluster")
	entries, err := os.ReadDir(dir)
	if err != nil {
		die("%v", err)
	}
	files := map[string]*ast.File{}
	for _, e := range entries {
		n := e.Name()
		if !strings.HasSuffix(n, ".go") || strings.HasSuffix(n, "_test.go") || strings.HasPrefix(n, "verif_") {
			continue
		}
		f, err := parser.ParseFile(fset, filepath.Join(dir, n), nil, 0)
		if err != nil {
			die("%v", err)
		}
		// behaviour-preserving normal form (astnorm_gen.go): log calls dropped, orientation of if/else,
		// x++ / x += 1, order of pure conjunctions
		NormalizeFile(fset, f, AllNorm)
		for _, d := range f.Decls {
			if fd, ok := d.(*ast.FuncDecl); ok {
				assignRoles(fd)
			}
		}
		files[n] = f
	}
	mgr, ok := files["shardmgr.go"]
	if !ok {
		die("cluster/shardmgr.go not found")
	}
	want := []string{"loadShard", "cleanupRoutine", "DoWithShard", "DeleteCollectionShards"}
	skel := map[string][]string{}
	for _, d := range mgr.Decls {
		fd, ok := d.(*ast.FuncDecl)
		if !ok || fd.Body == nil {
			continue
		}
		for _, wn := range want {
			if fd.Name.Name == wn {
				w := &walker{fn: wn}
				w.block(fd.Body)
				skel[wn] = w.toks
			}
		}
	}
	var b strings.Builder
	b.WriteString("-- GENERATED by tools/facts_c12 from cluster/shardmgr.go, cluster/*.go. DO NOT EDIT.\n")
	b.WriteString("namespace Sema.Gen.FactsC12\n\n")
	for _, wn := range want {
		toks, ok := skel[wn]
		if !ok {
			die("function %s not found in cluster/shardmgr.go", wn)
		}
		hasYield := false
		for _, t := range toks {
			if strings.HasPrefix(t, "Y ") || strings.HasPrefix(t, "defer Y ") {
				hasYield = true
			}
		}
		if !hasYield {
			die("function %s has no verifYield points (verif hooks commit missing?)", wn)
		}
		fmt.Fprintf(&b, "/-- lock skeleton of %s, in source order -/\ndef %s : List String :=\n  %s\n\n", wn, wn, leanList(toks))
	}
	users := fieldUsers(files)
	fmt.Fprintf(&b, "/-- every function of package cluster that mentions shardStore, shardLock, or ls.doneCh / ls.mu / ls.shard -/\ndef fieldUsers : List String :=\n  %s\n\n", leanList(users))
	n, re := callbacksReenter(files)
	if n == 0 {
		die("no DoWithShard call found in package cluster")
	}
	fmt.Fprintf(&b, "/-- number of DoWithShard call sites in package cluster, and whether any callback literal mentions\nthe shard manager or another RPC (re-entrancy) -/\ndef doWithShardCallSites : Nat := %d\ndef callbacksReenter : Bool := %v\n\n", n, re)
	b.WriteString("end Sema.Gen.FactsC12\n")
	if err := os.MkdirAll(*out, 0o755); err != nil {
		die("%v", err)
	}
	if err := os.WriteFile(filepath.Join(*out, "FactsC12.lean"), []byte(b.String()), 0o644); err != nil {
		die("%v", err)
	}
}
