# re-pins C18_pin_routes / C18_pin_dispatch / C18_pin_skeleton in Props.lean from the generated facts
import sys,re
lean=sys.argv[1]
g=open(lean+'/SemaModel/Generated/FactsC18.lean').read()
i=g.index('def skeleton'); j=g.index(']\n',i)
skel=g[g.index(':= [',i)+3:j+1]
i=g.index('def routes')
routes=g[g.index(':= [',i)+3:g.index(']\n',i)+1].replace('", "','",\n  "')
i=g.index('def dispatch'); j=g.index(']\n',i)
disp=g[g.index(':= [',i)+3:j+1]
DOC = '''/-- the recursion sites the model's `Query.valid`, `Query.validSchema`, `Query.reach` and `Query.live` transcribe: which list
(`q.And` / `q.Or`) and which filter `Query.Validate`, `Query.ValidateSchema` and `indexManager.Search` (shard/index/search.go)
hand on, under which case of their switches — `_and` runs / checks the `_and` list, `_or` the `_or` list, a vector / text leaf
its own filter, and `Validate` (alone) looks at every block and both lists -/
'''
p=lean+'/SemaModel/C18/Props.lean'
s=open(p).read()
a=s.index('theorem C18_pin_routes')
s=s[:a]+'theorem C18_pin_routes : FactsC18.routes = '+routes+' := rfl\n\n'+DOC+'theorem C18_pin_dispatch : FactsC18.dispatch = '+disp+' := rfl\n\ntheorem C18_pin_skeleton : FactsC18.skeleton = '+skel+' := rfl\n\nend Sema.C18\n'
open(p,'w').write(s)
