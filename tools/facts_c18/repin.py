# re-pins C18_pin_routes / C18_pin_skeleton in Props.lean from the generated facts
import sys,re
lean=sys.argv[1]
g=open(lean+'/SemaModel/Generated/FactsC18.lean').read()
i=g.index('def skeleton'); j=g.index(']\n',i)
skel=g[g.index(':= [',i)+3:j+1]
i=g.index('def routes')
routes=g[g.index(':= [',i)+3:g.index(']\n',i)+1].replace('", "','",\n  "')
p=lean+'/SemaModel/C18/Props.lean'
s=open(p).read()
a=s.index('theorem C18_pin_routes')
s=s[:a]+'theorem C18_pin_routes : FactsC18.routes = '+routes+' := rfl\n\ntheorem C18_pin_skeleton : FactsC18.skeleton = '+skel+' := rfl\n\nend Sema.C18\n'
open(p,'w').write(s)
