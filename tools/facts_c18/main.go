// facts_c18 (T2 for property C18): reads the Go source of the repository under verification with
// go/ast and writes lean/SemaModel/Generated/FactsC18.lean:
//
//   - skeleton: the decision skeleton (every if-condition, switch tag, case list, type-switch case
//     list, in source order) of every Validate() method, CheckCompatibleMap, convertToVector,
//     ValidateSchema, ExtractIdField, the v1/v2 handlers and collection middlewares, the two quota
//     checks of the cluster layer, the HTTP middleware chain and the route tables;
//   - the accepted inclusive range of every operand compared with an integer literal in a
//     Validate() method / collection middleware (`x < 1 || x > 4096`  ->  [1, 4096]);
//   - the float bounds of IndexVectorVamanaParameters.Alpha as bit patterns of the float32 constants;
//   - every set of string constants a Validate() accepts (metrics, operators, index types ...);
//   - the paging arithmetic of Shard.SearchPoints translated to BitVec 64 (sliceLo / sliceHi).
//
// Anything it does not recognise makes it exit non-zero (a broken tie, never a guess).
package main

import (
	"flag"
	"fmt"
	"go/ast"
	"go/parser"
	"go/token"
	"math"
	"os"
	"path/filepath"
	"sort"
	"strconv"
	"strings"
)

var fset = token.NewFileSet()

func die(format string, a ...any) {
	fmt.Fprintf(os.Stderr, "facts_c18: "+format+"\n", a...)
	os.Exit(1)
}

// text: the node in the normal form of astnorm_gen.go (blanks collapsed, function-local identifiers
// under canonical names v<k>)
func text(n ast.Node) string {
	return CanonPrint(fset, n)
}

func parseFile(path string) *ast.File {
	f, err := parser.ParseFile(fset, path, nil, 0)
	if err != nil {
		die("parse %s: %v", path, err)
	}
	// behaviour-preserving normal form: see astnorm_gen.go. Named constants of the same file are
	// replaced by their literal (limits may be spelled `maxLen` or `24`)
	o := AllNorm
	o.InlineConsts = true
	NormalizeFile(fset, f, o)
	return f
}

func recvName(fd *ast.FuncDecl) string {
	if fd.Recv == nil || len(fd.Recv.List) == 0 {
		return ""
	}
	t := fd.Recv.List[0].Type
	if s, ok := t.(*ast.StarExpr); ok {
		t = s.X
	}
	if id, ok := t.(*ast.Ident); ok {
		return id.Name
	}
	return text(t)
}

func recvVar(fd *ast.FuncDecl) string {
	if fd.Recv == nil || len(fd.Recv.List) == 0 || len(fd.Recv.List[0].Names) == 0 {
		return ""
	}
	id := fd.Recv.List[0].Names[0]
	if c, ok := astnormCanon[id.Obj]; ok {
		return c // text() prints the receiver under its canonical name
	}
	return id.Name
}

// ---------------------------------------------------------------------------- skeleton

type skel struct{ fn, what string }

var skeleton []skel

func walkSkeleton(label string, body ast.Node) {
	ast.Inspect(body, func(n ast.Node) bool {
		switch s := n.(type) {
		case *ast.IfStmt:
			skeleton = append(skeleton, skel{label, "if " + text(s.Cond)})
		case *ast.SwitchStmt:
			tag := ""
			if s.Tag != nil {
				tag = text(s.Tag)
			}
			skeleton = append(skeleton, skel{label, "switch " + tag})
			for _, c := range s.Body.List {
				cc := c.(*ast.CaseClause)
				if cc.List == nil {
					skeleton = append(skeleton, skel{label, "default"})
				} else {
					var parts []string
					for _, e := range cc.List {
						parts = append(parts, text(e))
					}
					skeleton = append(skeleton, skel{label, "case " + strings.Join(parts, ", ")})
				}
			}
		case *ast.TypeSwitchStmt:
			skeleton = append(skeleton, skel{label, "typeswitch " + text(s.Assign)})
			for _, c := range s.Body.List {
				cc := c.(*ast.CaseClause)
				if cc.List == nil {
					skeleton = append(skeleton, skel{label, "default"})
				} else {
					var parts []string
					for _, e := range cc.List {
						parts = append(parts, text(e))
					}
					skeleton = append(skeleton, skel{label, "case " + strings.Join(parts, ", ")})
				}
			}
		}
		return true
	})
}

// dispatch facts: WHICH list / filter a recursive function hands on, under which case. For every for-range
// loop and every call of one of `calls` inside body: (function, enclosing case clauses, "range X" / "call f(args)"),
// in source order. The decision skeleton records conditions only: a recursion that picks another list under the
// same conditions would not show there.
type disp struct{ fn, where, what string }

var dispatch []disp

func walkDispatch(label string, body ast.Node, calls map[string]bool) {
	var stack []ast.Node
	ctx := func() string {
		var parts []string
		for _, n := range stack {
			if cc, ok := n.(*ast.CaseClause); ok {
				if cc.List == nil {
					parts = append(parts, "default")
				} else {
					var es []string
					for _, e := range cc.List {
						es = append(es, text(e))
					}
					parts = append(parts, "case "+strings.Join(es, ", "))
				}
			}
		}
		if len(parts) == 0 {
			return "-"
		}
		return strings.Join(parts, " / ")
	}
	ast.Inspect(body, func(n ast.Node) bool {
		if n == nil {
			stack = stack[:len(stack)-1]
			return true
		}
		switch s := n.(type) {
		case *ast.RangeStmt:
			dispatch = append(dispatch, disp{label, ctx(), "range " + text(s.X)})
		case *ast.CallExpr:
			if sel, ok := s.Fun.(*ast.SelectorExpr); ok && calls[sel.Sel.Name] {
				dispatch = append(dispatch, disp{label, ctx(), "call " + text(s)})
			}
		}
		stack = append(stack, n)
		return true
	})
}

// ---------------------------------------------------------------------------- ranges / enums

type rng struct {
	lo, hi *int64
}

var ranges = map[string]*rng{}
var rangeOrder []string
var floatBounds = map[string][2]*uint64{} // name -> lo, hi bit patterns (float32 widened)
var enums = map[string][]string{}
var enumOrder []string
var consts = map[string]string{} // string constants of package models

func sanitize(s string) string {
	var b strings.Builder
	for _, r := range s {
		if (r >= 'a' && r <= 'z') || (r >= 'A' && r <= 'Z') || (r >= '0' && r <= '9') {
			b.WriteRune(r)
		} else {
			b.WriteRune('_')
		}
	}
	return strings.Trim(strings.ReplaceAll(b.String(), "__", "_"), "_")
}

// operand name without the receiver variable: p.VectorSize -> VectorSize, len(req.Id) -> len_Id
func operandName(e ast.Expr, recv string) string {
	t := text(e)
	if recv != "" {
		t = strings.ReplaceAll(t, recv+".", "")
	}
	return sanitize(t)
}

func addRange(name string, op token.Token, c int64, litLeft bool) {
	if litLeft { // c op x  ==  x op' c
		switch op {
		case token.LSS:
			op = token.GTR
		case token.GTR:
			op = token.LSS
		case token.LEQ:
			op = token.GEQ
		case token.GEQ:
			op = token.LEQ
		}
	}
	r, ok := ranges[name]
	if !ok {
		r = &rng{}
		ranges[name] = r
		rangeOrder = append(rangeOrder, name)
	}
	set := func(p **int64, v int64) {
		if *p != nil && **p != v {
			die("operand %s is compared with two different bounds on the same side", name)
		}
		*p = &v
	}
	switch op { // the comparison REJECTS
	case token.LSS:
		set(&r.lo, c)
	case token.LEQ:
		set(&r.lo, c+1)
	case token.GTR:
		set(&r.hi, c)
	case token.GEQ:
		set(&r.hi, c-1)
	}
}

func collectRanges(prefix, recv string, body ast.Node, floatFields map[string]bool) {
	ast.Inspect(body, func(n ast.Node) bool {
		be, ok := n.(*ast.BinaryExpr)
		if !ok {
			return true
		}
		switch be.Op {
		case token.LSS, token.GTR, token.LEQ, token.GEQ:
		default:
			return true
		}
		lit, other, litLeft := (*ast.BasicLit)(nil), ast.Expr(nil), false
		if l, ok := be.Y.(*ast.BasicLit); ok {
			lit, other = l, be.X
		} else if l, ok := be.X.(*ast.BasicLit); ok {
			lit, other, litLeft = l, be.Y, true
		}
		if lit == nil {
			return true
		}
		name := prefix + "_" + operandName(other, recv)
		switch lit.Kind {
		case token.INT:
			c, err := strconv.ParseInt(lit.Value, 0, 64)
			if err != nil {
				die("integer literal %s: %v", lit.Value, err)
			}
			addRange(name, be.Op, c, litLeft)
		case token.FLOAT:
			// only float32 fields are compared with float literals in the pinned tree (Alpha)
			if !floatFields[operandName(other, recv)] {
				die("float literal compared with %s, whose type is not known to be float32", text(other))
			}
			f, err := strconv.ParseFloat(lit.Value, 32)
			if err != nil {
				die("float literal %s: %v", lit.Value, err)
			}
			bits := math.Float64bits(float64(float32(f)))
			fb := floatBounds[name]
			op := be.Op
			if litLeft {
				die("float literal on the left of %s", text(be))
			}
			switch op {
			case token.LSS:
				fb[0] = &bits
			case token.GTR:
				fb[1] = &bits
			default:
				die("float bound with %s: only strict comparisons are modelled", op)
			}
			floatBounds[name] = fb
		case token.CHAR:
			// rune ranges of the id alphabet: pinned through the skeleton only
		}
		return true
	})
}

func constValue(e ast.Expr) (string, bool) {
	switch x := e.(type) {
	case *ast.BasicLit:
		if x.Kind == token.STRING {
			s, err := strconv.Unquote(x.Value)
			return s, err == nil
		}
	case *ast.Ident:
		v, ok := consts[x.Name]
		return v, ok
	case *ast.SelectorExpr:
		if id, ok := x.X.(*ast.Ident); ok && id.Name == "models" {
			v, ok := consts[x.Sel.Name]
			return v, ok
		}
	}
	return "", false
}

func addEnum(name, v string) {
	if _, ok := enums[name]; !ok {
		enumOrder = append(enumOrder, name)
	}
	for _, x := range enums[name] {
		if x == v {
			return
		}
	}
	enums[name] = append(enums[name], v)
}

// accepted string sets: `x != A && x != B ...` chains and `switch x { case A, B: ... default: error }`
func collectEnums(prefix, recv string, body ast.Node) {
	ast.Inspect(body, func(n ast.Node) bool {
		switch s := n.(type) {
		case *ast.BinaryExpr:
			if s.Op == token.NEQ {
				if v, ok := constValue(s.Y); ok {
					if _, isLit := s.Y.(*ast.BasicLit); isLit || true {
						if _, isConst := constValue(s.X); !isConst {
							addEnum(prefix+"_"+operandName(s.X, recv), v)
						}
					}
				}
			}
		case *ast.SwitchStmt:
			if s.Tag == nil {
				return true
			}
			hasDefault := false
			var vals []string
			allConst := true
			for _, c := range s.Body.List {
				cc := c.(*ast.CaseClause)
				if cc.List == nil {
					hasDefault = true
					continue
				}
				for _, e := range cc.List {
					v, ok := constValue(e)
					if !ok {
						allConst = false
					}
					vals = append(vals, v)
				}
			}
			if allConst && hasDefault {
				for _, v := range vals {
					addEnum(prefix+"_switch_"+operandName(s.Tag, recv), v)
				}
			}
		}
		return true
	})
}

func isObj(e ast.Expr, o *ast.Object) bool {
	id, ok := e.(*ast.Ident)
	return ok && o != nil && id.Obj == o
}

// serveMuxVar: the variable that holds the result of http.NewServeMux() (whatever it is called)
func serveMuxVar(body ast.Node) *ast.Object {
	var obj *ast.Object
	ast.Inspect(body, func(n ast.Node) bool {
		as, ok := n.(*ast.AssignStmt)
		if !ok || len(as.Lhs) != 1 || len(as.Rhs) != 1 {
			return true
		}
		if ce, ok := as.Rhs[0].(*ast.CallExpr); ok && rawPrint(fset, ce.Fun) == "http.NewServeMux" {
			if id, ok := as.Lhs[0].(*ast.Ident); ok && obj == nil {
				obj = id.Obj
			}
		}
		return true
	})
	return obj
}

// isRouteCall: <mux>.Handle(…) / <mux>.HandleFunc(…)
func isRouteCall(c *ast.CallExpr, mux *ast.Object) bool {
	sel, ok := c.Fun.(*ast.SelectorExpr)
	if !ok || mux == nil || (sel.Sel.Name != "Handle" && sel.Sel.Name != "HandleFunc") {
		return false
	}
	id, ok := sel.X.(*ast.Ident)
	return ok && id.Obj == mux
}

// ---------------------------------------------------------------------------- paging arithmetic

func translateSlice(fd *ast.FuncDecl) (lo, hi string) {
	var target *ast.AssignStmt
	var block *ast.BlockStmt
	var results, request *ast.Object // the re-sliced result list; the request parameter (first parameter)
	if ps := fd.Type.Params.List; len(ps) > 0 && len(ps[0].Names) > 0 {
		request = ps[0].Names[0].Obj
	}
	ast.Inspect(fd.Body, func(n ast.Node) bool {
		if b, ok := n.(*ast.BlockStmt); ok {
			for _, st := range b.List {
				if as, ok := st.(*ast.AssignStmt); ok && as.Tok == token.ASSIGN && len(as.Lhs) == 1 && len(as.Rhs) == 1 {
					// the paging statement re-slices a variable into itself: r = r[lo:hi] (the last one counts)
					if id, ok := as.Lhs[0].(*ast.Ident); ok && id.Obj != nil {
						if se, ok := as.Rhs[0].(*ast.SliceExpr); ok {
							if x, ok := se.X.(*ast.Ident); ok && x.Obj == id.Obj {
								target, block, results = as, b, id.Obj
							}
						}
					}
				}
			}
		}
		return true
	})
	if target == nil {
		die("Shard.SearchPoints: no `results = results[lo:hi]` statement found")
	}
	env := map[*ast.Object]ast.Expr{}
	for _, st := range block.List {
		if st == ast.Stmt(target) {
			break
		}
		if as, ok := st.(*ast.AssignStmt); ok && as.Tok == token.DEFINE && len(as.Lhs) == 1 && len(as.Rhs) == 1 {
			if id, ok := as.Lhs[0].(*ast.Ident); ok && id.Obj != nil {
				env[id.Obj] = as.Rhs[0]
			}
		}
	}
	var tr func(e ast.Expr, depth int) string
	tr = func(e ast.Expr, depth int) string {
		if depth > 20 {
			die("paging arithmetic: definitions nest too deep")
		}
		switch x := e.(type) {
		case *ast.ParenExpr:
			return tr(x.X, depth+1)
		case *ast.BasicLit:
			if x.Kind == token.INT {
				return "(" + x.Value + "#64)"
			}
		case *ast.Ident:
			if d, ok := env[x.Obj]; ok && x.Obj != nil {
				return tr(d, depth+1)
			}
		case *ast.SelectorExpr:
			if r, ok := x.X.(*ast.Ident); ok && r.Obj != nil && r.Obj == request {
				switch x.Sel.Name {
				case "Offset":
					return "off"
				case "Limit":
					return "lim"
				}
			}
		case *ast.CallExpr:
			if id, ok := x.Fun.(*ast.Ident); ok {
				switch {
				case id.Name == "len" && len(x.Args) == 1 && isObj(x.Args[0], results):
					return "n"
				case (id.Name == "min" || id.Name == "max") && len(x.Args) == 2:
					return "(s" + id.Name + " " + tr(x.Args[0], depth+1) + " " + tr(x.Args[1], depth+1) + ")"
				}
			}
		case *ast.BinaryExpr:
			switch x.Op {
			case token.ADD:
				return "(" + tr(x.X, depth+1) + " + " + tr(x.Y, depth+1) + ")"
			case token.SUB:
				return "(" + tr(x.X, depth+1) + " - " + tr(x.Y, depth+1) + ")"
			}
		}
		die("paging arithmetic of Shard.SearchPoints: cannot translate `%s`", text(e))
		return ""
	}
	se := target.Rhs[0].(*ast.SliceExpr)
	if se.Low == nil || se.High == nil || se.Slice3 {
		die("paging slice expression has an unexpected shape: %s", text(se))
	}
	return tr(se.Low, 0), tr(se.High, 0)
}

// ---------------------------------------------------------------------------- main

func leanStr(s string) string { return strconv.Quote(s) }

func main() {
	repo := flag.String("repo", "/repo", "repository under verification")
	out := flag.String("out", "", "output directory (lean/SemaModel/Generated)")
	flag.Parse()
	if *out == "" {
		die("-out required")
	}
	// string constants of package models
	cf := parseFile(filepath.Join(*repo, "models", "constants.go"))
	for _, d := range cf.Decls {
		gd, ok := d.(*ast.GenDecl)
		if !ok || gd.Tok != token.CONST {
			continue
		}
		for _, sp := range gd.Specs {
			vs := sp.(*ast.ValueSpec)
			for i, n := range vs.Names {
				if i < len(vs.Values) {
					if bl, ok := vs.Values[i].(*ast.BasicLit); ok && bl.Kind == token.STRING {
						consts[n.Name], _ = strconv.Unquote(bl.Value)
					}
				}
			}
		}
	}
	if len(consts) < 20 {
		die("models/constants.go: expected the distance / index type / operator / quantizer constants, found %d", len(consts))
	}
	type target struct {
		file  string
		pkg   string
		funcs map[string]bool // "Recv.Name" or "Name"; nil = every Validate method
	}
	targets := []target{
		{"models/index.go", "models", map[string]bool{"*.Validate": true, "convertToVector": true, "IndexSchema.CheckCompatibleMap": true}},
		{"models/quantizer.go", "models", map[string]bool{"*.Validate": true, "Quantizer.ValidateFor": true}},
		{"models/search.go", "models", map[string]bool{"*.Validate": true, "Query.ValidateSchema": true}},
		{"models/point.go", "models", map[string]bool{"PointAsMap.ExtractIdField": true}},
		{"httpapi/v2/handlers.go", "v2", map[string]bool{"*.Validate": true, "SemaDBHandlers.*": true}},
		{"httpapi/v1/handlers.go", "v1", map[string]bool{"*.Validate": true, "SemaDBHandlers.*": true, "isV1Collection": true}},
		{"httpapi/utils/encdec.go", "utils", map[string]bool{"DecodeValid": true}},
		{"httpapi/middleware/appheaders.go", "middleware", map[string]bool{"AppHeaderMiddleware": true}},
		{"cluster/actions.go", "cluster", map[string]bool{"ClusterNode.InsertPoints": true}},
		// what is EXECUTED of a query (the model's Query.reach / Query.live transcribe this dispatch)
		{"shard/index/search.go", "index", map[string]bool{"indexManager.Search": true, "indexManager.searchById": true}},
		{"cluster/rpchandlers.go", "cluster", map[string]bool{"ClusterNode.RPCCreateCollection": true}},
	}
	seen := map[string]bool{}
	for _, t := range targets {
		f := parseFile(filepath.Join(*repo, t.file))
		// float32 fields per struct
		f32 := map[string]map[string]bool{}
		for _, d := range f.Decls {
			gd, ok := d.(*ast.GenDecl)
			if !ok || gd.Tok != token.TYPE {
				continue
			}
			for _, sp := range gd.Specs {
				ts := sp.(*ast.TypeSpec)
				st, ok := ts.Type.(*ast.StructType)
				if !ok {
					continue
				}
				f32[ts.Name.Name] = map[string]bool{}
				for _, fl := range st.Fields.List {
					if id, ok := fl.Type.(*ast.Ident); ok && id.Name == "float32" {
						for _, n := range fl.Names {
							f32[ts.Name.Name][n.Name] = true
						}
					}
				}
			}
		}
		for _, d := range f.Decls {
			fd, ok := d.(*ast.FuncDecl)
			if !ok || fd.Body == nil {
				continue
			}
			rn := recvName(fd)
			full := fd.Name.Name
			if rn != "" {
				full = rn + "." + fd.Name.Name
			}
			want := t.funcs[full] || (rn != "" && t.funcs["*."+fd.Name.Name]) || (rn != "" && t.funcs[rn+".*"])
			if !want {
				continue
			}
			label := t.pkg + "." + full
			seen[label] = true
			walkSkeleton(label, fd.Body)
			isValidate := fd.Name.Name == "Validate"
			isMiddleware := fd.Name.Name == "CollectionURIMiddleware"
			if isValidate || isMiddleware {
				prefix := t.pkg + "_" + rn
				if isMiddleware {
					prefix = t.pkg + "_CollectionURIMiddleware"
				}
				collectRanges(prefix, recvVar(fd), fd.Body, f32[rn])
				if isValidate {
					collectEnums(prefix, recvVar(fd), fd.Body)
				}
			}
			if full == "Query.ValidateSchema" {
				collectEnums("models_ValidateSchema", "", fd.Body)
				walkDispatch(label, fd.Body, map[string]bool{"ValidateSchema": true})
			}
			if full == "Query.Validate" {
				walkDispatch(label, fd.Body, map[string]bool{"Validate": true})
			}
			if full == "indexManager.Search" {
				walkDispatch(label, fd.Body, map[string]bool{"Search": true, "searchParallel": true, "searchById": true})
			}
		}
	}
	for _, must := range []string{"models.IndexSchema.CheckCompatibleMap", "models.Query.ValidateSchema", "models.Query.Validate", "models.SearchRequest.Validate",
		"models.IndexVectorVamanaParameters.Validate", "models.IndexVectorFlatParameters.Validate", "models.PointAsMap.ExtractIdField", "models.convertToVector", "models.Quantizer.ValidateFor",
		"v2.SemaDBHandlers.HandleInsertPoints", "v2.SemaDBHandlers.HandleSearchPoints", "v2.SemaDBHandlers.CollectionURIMiddleware",
		"v1.SemaDBHandlers.HandleInsertPoints", "v1.SemaDBHandlers.CollectionURIMiddleware", "utils.DecodeValid", "middleware.AppHeaderMiddleware",
		"cluster.ClusterNode.InsertPoints", "cluster.ClusterNode.RPCCreateCollection", "index.indexManager.Search", "index.indexManager.searchById"} {
		if !seen[must] {
			die("function %s not found", must)
		}
	}
	// HTTP middleware chain and route tables
	var chain, routes []string
	hf := parseFile(filepath.Join(*repo, "httpapi", "httpapi.go"))
	for _, d := range hf.Decls {
		fd, ok := d.(*ast.FuncDecl)
		if !ok || fd.Name.Name != "setupRouter" {
			continue
		}
		mux := serveMuxVar(fd.Body)
		ast.Inspect(fd.Body, func(n ast.Node) bool {
			switch s := n.(type) {
			case *ast.AssignStmt:
				// a link of the middleware chain wraps the handler variable into itself: h = f(…, h)
				if s.Tok == token.ASSIGN && len(s.Lhs) == 1 && len(s.Rhs) == 1 {
					if ce, ok := s.Rhs[0].(*ast.CallExpr); ok && len(ce.Args) > 0 {
						l, okl := s.Lhs[0].(*ast.Ident)
						a, oka := ce.Args[len(ce.Args)-1].(*ast.Ident)
						if okl && oka && l.Obj != nil && l.Obj == a.Obj {
							chain = append(chain, text(ce.Fun))
						}
					}
				}
			case *ast.CallExpr:
				if isRouteCall(s, mux) {
					routes = append(routes, "root "+text(s))
				}
			}
			return true
		})
	}
	if len(chain) == 0 {
		die("httpapi.setupRouter: middleware chain not found")
	}
	for _, v := range []string{"v1", "v2"} {
		f := parseFile(filepath.Join(*repo, "httpapi", v, "handlers.go"))
		for _, d := range f.Decls {
			fd, ok := d.(*ast.FuncDecl)
			if !ok || !strings.HasPrefix(fd.Name.Name, "Setup") {
				continue
			}
			mux := serveMuxVar(fd.Body)
			ast.Inspect(fd.Body, func(n ast.Node) bool {
				if s, ok := n.(*ast.CallExpr); ok && isRouteCall(s, mux) {
					routes = append(routes, v+" "+text(s))
				}
				return true
			})
		}
	}
	// paging arithmetic
	var lo, hi string
	sf := parseFile(filepath.Join(*repo, "shard", "shard.go"))
	for _, d := range sf.Decls {
		fd, ok := d.(*ast.FuncDecl)
		if ok && fd.Name.Name == "SearchPoints" && recvName(fd) == "Shard" {
			lo, hi = translateSlice(fd)
			walkSkeleton("shard.Shard.SearchPoints.paging", &ast.BlockStmt{}) // (no conditions recorded; arithmetic is translated)
		}
	}
	if lo == "" {
		die("shard.Shard.SearchPoints not found")
	}

	// ------------------------------------------------------------------ emit
	var b strings.Builder
	b.WriteString("-- GENERATED by tools/facts_c18 from the working tree of the repository. DO NOT EDIT.\n")
	b.WriteString("set_option linter.unusedVariables false\nnamespace Sema.Gen.FactsC18\n\n")
	b.WriteString("/-- decision skeleton: (function, condition / switch tag / case list) in source order -/\n")
	b.WriteString("def skeleton : List (String × String) := [\n")
	for i, s := range skeleton {
		sep := ","
		if i == len(skeleton)-1 {
			sep = ""
		}
		fmt.Fprintf(&b, "  (%s, %s)%s\n", leanStr(s.fn), leanStr(s.what), sep)
	}
	b.WriteString("]\n\n")
	if len(dispatch) < 20 {
		die("dispatch facts: expected the recursion sites of Query.Validate, Query.ValidateSchema and indexManager.Search, found %d", len(dispatch))
	}
	b.WriteString("/-- recursion sites: (function, enclosing case clauses, `range X` / `call f(args)`) in source order -/\n")
	b.WriteString("def dispatch : List (String × String × String) := [\n")
	for i, d := range dispatch {
		sep := ","
		if i == len(dispatch)-1 {
			sep = ""
		}
		fmt.Fprintf(&b, "  (%s, %s, %s)%s\n", leanStr(d.fn), leanStr(d.where), leanStr(d.what), sep)
	}
	b.WriteString("]\n\n")
	emitList := func(name, doc string, xs []string) {
		fmt.Fprintf(&b, "/-- %s -/\ndef %s : List String := [", doc, name)
		for i, x := range xs {
			if i > 0 {
				b.WriteString(", ")
			}
			b.WriteString(leanStr(x))
		}
		b.WriteString("]\n\n")
	}
	emitList("middlewareChain", "httpapi.setupRouter: handler = middleware.X(..., handler), innermost first", chain)
	emitList("routes", "registered routes", routes)
	opt := func(p *int64) string {
		if p == nil {
			return "none"
		}
		if *p < 0 {
			return fmt.Sprintf("(some (%d))", *p)
		}
		return fmt.Sprintf("(some %d)", *p)
	}
	b.WriteString("/-! accepted inclusive ranges `(lo, hi)` of the operands compared with integer literals -/\n")
	for _, name := range rangeOrder {
		r := ranges[name]
		fmt.Fprintf(&b, "def rng_%s : Option Int × Option Int := (%s, %s)\n", name, opt(r.lo), opt(r.hi))
	}
	b.WriteString("\n/-! float32 bounds (binary64 bit pattern of the float32 constant) -/\n")
	var fnames []string
	for n := range floatBounds {
		fnames = append(fnames, n)
	}
	sort.Strings(fnames)
	for _, n := range fnames {
		fb := floatBounds[n]
		if fb[0] == nil || fb[1] == nil {
			die("float operand %s: expected a lower and an upper bound", n)
		}
		fmt.Fprintf(&b, "def flt_%s_lo : Int := 0x%016X\ndef flt_%s_hi : Int := 0x%016X\n", n, *fb[0], n, *fb[1])
	}
	b.WriteString("\n/-! accepted string constants -/\n")
	for _, n := range enumOrder {
		// a set: the order of the alternatives in the source (cases of a switch, operands of a
		// chain of comparisons) carries no meaning, the list is emitted sorted
		vals := append([]string(nil), enums[n]...)
		sort.Strings(vals)
		emitList("enum_"+n, "accepted values (sorted)", vals)
	}
	b.WriteString("/-! paging arithmetic of Shard.SearchPoints: `finalResults[sliceLo : sliceHi]`, Go int = BitVec 64 -/\n")
	b.WriteString("def smin (a b : BitVec 64) : BitVec 64 := if a.slt b then a else b\n")
	b.WriteString("def smax (a b : BitVec 64) : BitVec 64 := if a.slt b then b else a\n")
	fmt.Fprintf(&b, "def sliceLo (off lim n : BitVec 64) : BitVec 64 := %s\n", lo)
	fmt.Fprintf(&b, "def sliceHi (off lim n : BitVec 64) : BitVec 64 := %s\n", hi)
	b.WriteString("\nend Sema.Gen.FactsC18\n")
	if err := os.MkdirAll(*out, 0o755); err != nil {
		die("%v", err)
	}
	if err := os.WriteFile(filepath.Join(*out, "FactsC18.lean"), []byte(b.String()), 0o644); err != nil {
		die("%v", err)
	}
}
