module facts_c18

go 1.23
