#!/usr/bin/env python3
"""Rewrites the `expected…` tables of lean/SemaModel/C11/Skeleton.lean from the freshly generated
lean/SemaModel/Generated/FactsC11.lean.  Run by hand ONLY after manager.go was changed on purpose and
Model.lean was updated to follow it (the header comment of Skeleton.lean is kept)."""
import re, os, sys
root = os.path.dirname(os.path.dirname(os.path.dirname(os.path.abspath(__file__))))
gen = open(os.path.join(root, "lean/SemaModel/Generated/FactsC11.lean")).read()
path = os.path.join(root, "lean/SemaModel/C11/Skeleton.lean")
old = open(path).read()
head = old[:old.index("namespace Sema.C11.Skeleton")]
out = [head + "namespace Sema.C11.Skeleton", ""]
for m in re.finditer(r'def (\w+) : List String := \[(.*?)\]\n', gen, re.S):
    toks = re.findall(r'"((?:[^"\\]|\\.)*)"', m.group(2))
    name = 'expected' + m.group(1)[0].upper() + m.group(1)[1:-8]
    out.append(f'def {name} : List String := [')
    cur = '  '
    for i, t in enumerate(toks):
        piece = '"' + t + '"' + (', ' if i < len(toks) - 1 else '')
        if len(cur) + len(piece) > 100:
            out.append(cur.rstrip()); cur = '  '
        cur += piece
    out.append(cur.rstrip() + ']')
    out.append('')
out.append('end Sema.C11.Skeleton')
open(path, 'w').write('\n'.join(out) + '\n')
