// facts_c11: T2 fact extractor for property C11.
//
// Walks shard/cache/manager.go (go/ast) and emits, for Release, checkAndPrune, With and Commit, the
// sequence of protocol operations in source order ("lock skeleton"): lock / unlock / TryRLock on the
// manager mutex, the transaction mutex and cache objects, map operations on sharedCaches and
// writtenCaches, accesses to failed / scrapped, callbacks, defers (prefix "defer:"), returns, the
// verifYield points (prefix "@") and the block structure (if{ }else{ } for{ }).  The Lean side pins
// the table (SemaModel/C11/Skeleton.lean): the model was written against exactly this skeleton.
package main

import (
	"flag"
	"fmt"
	"go/ast"
	"go/parser"
	"go/token"
	"os"
	"path/filepath"
	"strings"
)

func fail(format string, a ...any) {
	fmt.Fprintf(os.Stderr, "facts_c11: "+format+"\n", a...)
	os.Exit(1)
}

func selPath(e ast.Expr) string {
	switch x := e.(type) {
	case *ast.Ident:
		return x.Name
	case *ast.SelectorExpr:
		return selPath(x.X) + "." + x.Sel.Name
	case *ast.ParenExpr:
		return selPath(x.X)
	case *ast.StarExpr:
		return selPath(x.X)
	}
	return "?"
}

type walker struct {
	out  []string
	recv string // receiver name of the function
	kind string // "Manager" or "Transaction"
	// the variables of Transaction.With that the skeleton speaks about, found by their ROLE (not by their names):
	createFn, callback *ast.Object          // third and fourth parameter
	use                *ast.Object          // the cache handed to the callback first: callback(<use>.item)
	existing           map[*ast.Object]bool // bound by `x, ok := ….sharedCaches[…]`
	own                map[*ast.Object]bool // bound by `x, ok := ….writtenCaches[…]`
}

func objOf(e ast.Expr) *ast.Object {
	if p, ok := e.(*ast.ParenExpr); ok {
		return objOf(p.X)
	}
	if id, ok := e.(*ast.Ident); ok {
		return id.Obj
	}
	return nil
}

// roles: see walker
func (w *walker) roles(fd *ast.FuncDecl) {
	w.existing, w.own = map[*ast.Object]bool{}, map[*ast.Object]bool{}
	var params []*ast.Object
	for _, f := range fd.Type.Params.List {
		for _, n := range f.Names {
			params = append(params, n.Obj)
		}
	}
	if fd.Name.Name == "With" {
		if len(params) != 4 {
			fail("Transaction.With: expected the four parameters (name, readOnly, create, callback)")
		}
		w.createFn, w.callback = params[2], params[3]
	}
	ast.Inspect(fd.Body, func(n ast.Node) bool {
		switch x := n.(type) {
		case *ast.AssignStmt:
			if len(x.Rhs) == 1 && len(x.Lhs) >= 1 {
				if ix, ok := x.Rhs[0].(*ast.IndexExpr); ok {
					if o := objOf(x.Lhs[0]); o != nil {
						p := selPath(ix.X)
						if w.isShared(p) {
							w.existing[o] = true
						} else if strings.HasSuffix(p, ".writtenCaches") {
							w.own[o] = true
						}
					}
				}
			}
		case *ast.CallExpr:
			if w.callback != nil && objOf(x.Fun) == w.callback && w.use == nil && len(x.Args) == 1 {
				if sel, ok := x.Args[0].(*ast.SelectorExpr); ok {
					w.use = objOf(sel.X)
				}
			}
		}
		return true
	})
}

func (w *walker) emit(s string) { w.out = append(w.out, s) }

func (w *walker) lockTarget(p string) (string, bool) {
	// p is the path up to and including ".mu"
	switch {
	case strings.HasSuffix(p, ".manager.mu"):
		return "mgr", true
	case p == w.recv+".mu" && w.kind == "Manager":
		return "mgr", true
	case p == w.recv+".mu" && w.kind == "Transaction":
		return "tx", true
	case strings.HasSuffix(p, ".mu"):
		return "obj", true
	}
	return "", false
}

func (w *walker) isShared(p string) bool {
	return strings.HasSuffix(p, ".sharedCaches")
}

// expression in evaluation order (good enough for this file: operands left to right, calls after args)
func (w *walker) expr(e ast.Expr, pfx string) {
	switch x := e.(type) {
	case nil:
	case *ast.CallExpr:
		if id, ok := x.Fun.(*ast.Ident); ok && id.Obj != nil && id.Obj == w.createFn {
			w.emit(pfx + "createFn")
			return
		}
		if id, ok := x.Fun.(*ast.Ident); ok && id.Obj != nil && id.Obj == w.callback {
			for _, a := range x.Args {
				w.expr(a, "")
			}
			w.emit(pfx + "callF")
			return
		}
		if id, ok := x.Fun.(*ast.Ident); ok {
			switch id.Name {
			case "verifYield", "verifYield2":
				if len(x.Args) > 0 {
					if lit, ok := x.Args[0].(*ast.BasicLit); ok {
						w.emit(pfx + "@" + strings.Trim(lit.Value, "\""))
						return
					}
				}
				fail("verifYield with a non-literal point")
			case "delete":
				if len(x.Args) == 2 {
					p := selPath(x.Args[0])
					if w.isShared(p) {
						w.emit(pfx + "map.delete")
						return
					}
					if strings.HasSuffix(p, ".writtenCaches") {
						w.emit(pfx + "written.delete")
						return
					}
				}
			case "clear":
				if len(x.Args) == 1 && w.isShared(selPath(x.Args[0])) {
					w.emit(pfx + "map.clear")
					return
				}
			case "len", "make", "append", "int64":
				for _, a := range x.Args {
					w.expr(a, "")
				}
				return
			}
		}
		if sel, ok := x.Fun.(*ast.SelectorExpr); ok {
			p := selPath(sel.X)
			m := sel.Sel.Name
			if tgt, ok := w.lockTarget(p); ok {
				switch m {
				case "Lock", "Unlock", "RLock", "RUnlock", "TryRLock", "TryLock":
					w.emit(pfx + tgt + "." + m)
					return
				}
			}
			if strings.HasSuffix(p, ".failed") && (m == "Load" || m == "Store") {
				w.emit(pfx + "failed." + strings.ToLower(m))
				return
			}
			if m == "checkAndPrune" {
				w.emit(pfx + "prune")
				return
			}
			// logging, fmt, time, slices, item.SizeInMemory ...: arguments may still matter
			w.expr(sel.X, "")
			for _, a := range x.Args {
				w.expr(a, "")
			}
			return
		}
		for _, a := range x.Args {
			w.expr(a, "")
		}
	case *ast.IndexExpr:
		p := selPath(x.X)
		if w.isShared(p) {
			w.emit(pfx + "map.get")
			return
		}
		if strings.HasSuffix(p, ".writtenCaches") {
			w.emit(pfx + "written.get")
			return
		}
		w.expr(x.X, "")
		w.expr(x.Index, "")
	case *ast.SelectorExpr:
		if x.Sel.Name == "scrapped" {
			w.emit(pfx + "scrapped.get")
			return
		}
		if x.Sel.Name == "maxSize" {
			w.emit(pfx + "maxSize")
			return
		}
		w.expr(x.X, "")
	case *ast.BinaryExpr:
		if x.Op == token.EQL && w.use != nil {
			a, b := objOf(x.X), objOf(x.Y)
			if (a == w.use && w.existing[b]) || (b == w.use && w.existing[a]) {
				w.emit(pfx + "use==existing")
				return
			}
		}
		w.expr(x.X, "")
		w.expr(x.Y, "")
	case *ast.UnaryExpr:
		w.expr(x.X, "")
	case *ast.ParenExpr:
		w.expr(x.X, "")
	case *ast.CompositeLit:
		if id, ok := x.Type.(*ast.Ident); ok && id.Name == "sharedCacheElem" {
			w.emit(pfx + "newElem")
		}
		for _, el := range x.Elts {
			if kv, ok := el.(*ast.KeyValueExpr); ok {
				w.expr(kv.Value, "")
			} else {
				w.expr(el, "")
			}
		}
	case *ast.FuncLit:
		// closures (sort comparator): no protocol operations expected
		n := len(w.out)
		w.block(x.Body)
		for _, t := range w.out[n:] {
			if t != "return" {
				fail("protocol operation %s inside a closure", t)
			}
		}
		w.out = w.out[:n]
	}
}

func (w *walker) assign(s *ast.AssignStmt) {
	for _, r := range s.Rhs {
		w.expr(r, "")
	}
	for i, l := range s.Lhs {
		switch x := l.(type) {
		case *ast.IndexExpr:
			p := selPath(x.X)
			if w.isShared(p) {
				w.emit("map.put")
			} else if strings.HasSuffix(p, ".writtenCaches") {
				w.emit("written.put")
			}
		case *ast.SelectorExpr:
			if x.Sel.Name == "scrapped" {
				w.emit("scrapped.set")
			}
		case *ast.Ident:
			if x.Obj != nil && x.Obj == w.use && i < len(s.Rhs) {
				r := objOf(s.Rhs[i])
				switch {
				case r != nil && w.own[r]:
					w.emit("use.own")
				case r != nil && w.existing[r]:
					w.emit("use.existing")
				default:
					if _, ok := s.Rhs[i].(*ast.UnaryExpr); ok {
						w.emit("use.fresh")
					}
				}
			}
		}
	}
}

func (w *walker) stmt(s ast.Stmt) {
	switch x := s.(type) {
	case nil:
	case *ast.ExprStmt:
		w.expr(x.X, "")
	case *ast.AssignStmt:
		w.assign(x)
	case *ast.DeferStmt:
		w.expr(x.Call, "defer:")
	case *ast.ReturnStmt:
		for _, r := range x.Results {
			w.expr(r, "")
		}
		w.emit("return")
	case *ast.IfStmt:
		w.stmt(x.Init)
		w.expr(x.Cond, "")
		w.emit("if(" + render(x.Cond) + "){")
		w.block(x.Body)
		if x.Else != nil {
			w.emit("}else{")
			switch e := x.Else.(type) {
			case *ast.BlockStmt:
				w.block(e)
			default:
				w.stmt(e)
			}
		}
		w.emit("}")
	case *ast.ForStmt:
		w.stmt(x.Init)
		w.expr(x.Cond, "")
		w.emit("for{")
		w.block(x.Body)
		w.emit("}")
	case *ast.RangeStmt:
		p := selPath(x.X)
		if strings.HasSuffix(p, ".writtenCaches") {
			w.emit("written.range")
		} else if w.isShared(p) {
			w.emit("map.range")
		}
		w.emit("for{")
		w.block(x.Body)
		w.emit("}")
	case *ast.BlockStmt:
		w.block(x)
	case *ast.DeclStmt, *ast.BranchStmt, *ast.IncDecStmt, *ast.EmptyStmt:
	case *ast.GoStmt:
		fail("go statement in the protocol code")
	default:
		fail("statement kind %T not understood", s)
	}
}

func (w *walker) block(b *ast.BlockStmt) {
	if b == nil {
		return
	}
	for _, s := range b.List {
		w.stmt(s)
	}
}

// render: the condition in the astnorm normal form, function-local identifiers under canonical names
func render(e ast.Expr) string {
	return strings.ReplaceAll(CanonPrint(token.NewFileSet(), e), " ", "")
}

// referenced: some non-test file of the package mentions the identifier other than in its own declaration
func referenced(dir, name string) bool {
	ents, err := os.ReadDir(dir)
	if err != nil {
		fail("%v", err)
	}
	fs := token.NewFileSet()
	for _, e := range ents {
		if e.IsDir() || !strings.HasSuffix(e.Name(), ".go") || strings.HasSuffix(e.Name(), "_test.go") {
			continue
		}
		f, err := parser.ParseFile(fs, filepath.Join(dir, e.Name()), nil, parser.SkipObjectResolution)
		if err != nil {
			fail("%v", err)
		}
		uses := 0
		ast.Inspect(f, func(n ast.Node) bool {
			if fd, ok := n.(*ast.FuncDecl); ok && fd.Name.Name == name {
				uses-- // the declaration itself
			}
			if id, ok := n.(*ast.Ident); ok && id.Name == name {
				uses++
			}
			return true
		})
		if uses > 0 {
			return true
		}
	}
	return false
}

func leanList(name string, l []string) string {
	var b strings.Builder
	fmt.Fprintf(&b, "def %s : List String := [\n", name)
	for i, s := range l {
		sep := ","
		if i == len(l)-1 {
			sep = ""
		}
		fmt.Fprintf(&b, "  %q%s\n", s, sep)
	}
	b.WriteString("]\n")
	return b.String()
}

func main() {
	repo := flag.String("repo", "/repo", "repository root")
	out := flag.String("out", "", "output directory")
	flag.Parse()
	if *out == "" {
		fail("-out required")
	}
	src := filepath.Join(*repo, "shard", "cache", "manager.go")
	fset := token.NewFileSet()
	file, err := parser.ParseFile(fset, src, nil, 0)
	if err != nil {
		fail("%v", err)
	}
	// log calls dropped, x++ / x += 1, := / var, orientation of if/else, order of pure conjunctions: astnorm_gen.go.
	NormalizeFile(fset, file, AllNorm)
	want := map[string]string{"Release": "Manager", "checkAndPrune": "Manager", "With": "Transaction", "Commit": "Transaction"}
	got := map[string][]string{}
	for _, d := range file.Decls {
		fd, ok := d.(*ast.FuncDecl)
		if !ok || fd.Recv == nil || len(fd.Recv.List) != 1 {
			continue
		}
		kind, ok := want[fd.Name.Name]
		if !ok {
			continue
		}
		rt := fd.Recv.List[0].Type
		if st, ok := rt.(*ast.StarExpr); ok {
			rt = st.X
		}
		if id, ok := rt.(*ast.Ident); !ok || id.Name != kind {
			continue
		}
		if len(fd.Recv.List[0].Names) != 1 {
			fail("%s: unnamed receiver", fd.Name.Name)
		}
		w := &walker{recv: fd.Recv.List[0].Names[0].Name, kind: kind}
		w.roles(fd)
		w.block(fd.Body)
		got[fd.Name.Name] = w.out
	}
	for n := range want {
		if len(got[n]) == 0 {
			fail("function %s not found in %s", n, src)
		}
	}
	// any other function touching the protocol state would be outside the model
	for _, d := range file.Decls {
		fd, ok := d.(*ast.FuncDecl)
		if !ok {
			continue
		}
		if _, ok := want[fd.Name.Name]; ok {
			continue
		}
		if !fd.Name.IsExported() && !referenced(filepath.Dir(src), fd.Name.Name) {
			continue // dead code: an unexported function nobody in the package mentions cannot take part in the protocol
		}
		w := &walker{recv: "_", kind: "_"}
		if fd.Recv != nil && len(fd.Recv.List) == 1 && len(fd.Recv.List[0].Names) == 1 {
			w.recv = fd.Recv.List[0].Names[0].Name
		}
		if fd.Body == nil {
			continue
		}
		w.roles(fd)
		w.block(fd.Body)
		for _, t := range w.out {
			if strings.Contains(t, "Lock") || strings.HasPrefix(t, "map.") || strings.HasPrefix(t, "written.") || strings.HasPrefix(t, "scrapped.") {
				fail("function %s performs protocol operation %s but is not modelled", fd.Name.Name, t)
			}
		}
	}
	var b strings.Builder
	b.WriteString("-- GENERATED by tools/facts_c11 from shard/cache/manager.go. DO NOT EDIT.\nnamespace Sema.Gen.FactsC11\n\n")
	b.WriteString(leanList("releaseSkeleton", got["Release"]))
	b.WriteString("\n" + leanList("pruneSkeleton", got["checkAndPrune"]))
	b.WriteString("\n" + leanList("withSkeleton", got["With"]))
	b.WriteString("\n" + leanList("commitSkeleton", got["Commit"]))
	b.WriteString("\nend Sema.Gen.FactsC11\n")
	if err := os.WriteFile(filepath.Join(*out, "FactsC11.lean"), []byte(b.String()), 0o644); err != nil {
		fail("%v", err)
	}
}
