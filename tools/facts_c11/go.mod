module facts_c11

go 1.23
