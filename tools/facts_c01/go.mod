module facts_c01

go 1.23
