// facts_c01: syntactic facts of the source that the hand-written C01 model relies on (T2 of
// DESIGN.md), written as Lean definitions to SemaModel/Generated/FactsC01.lean. The model pins each
// of them with `example … := by decide`, so an edit of the source that changes one breaks the build
// of the property module. A fact that cannot be found is a hard error, never a guess.
//
// usage: facts_c01 -repo /repo -out /verif/lean/SemaModel/Generated
package main

import (
	"flag"
	"fmt"
	"go/ast"
	"go/parser"
	"go/token"
	"os"
	"path/filepath"
	"strconv"
	"strings"
)

func die(format string, a ...any) {
	fmt.Fprintf(os.Stderr, "facts_c01: "+format+"\n", a...)
	os.Exit(1)
}

func parse(fset *token.FileSet, path string) *ast.File {
	f, err := parser.ParseFile(fset, path, nil, 0) // comments dropped
	if err != nil {
		die("%v", err)
	}
	// behaviour-preserving normal form (astnorm_gen.go): log calls dropped, x++ / x += 1, := / var,
	// operand order of pure conjunctions, if/else orientation; locals are printed under canonical names
	NormalizeFile(fset, f, AllNorm)
	return f
}

func funcDecl(f *ast.File, recv, name string) *ast.FuncDecl {
	for _, d := range f.Decls {
		fd, ok := d.(*ast.FuncDecl)
		if !ok || fd.Name.Name != name {
			continue
		}
		r := ""
		if fd.Recv != nil && len(fd.Recv.List) == 1 {
			t := fd.Recv.List[0].Type
			if st, ok := t.(*ast.StarExpr); ok {
				t = st.X
			}
			if id, ok := t.(*ast.Ident); ok {
				r = id.Name
			}
		}
		if r == recv {
			return fd
		}
	}
	die("function %s.%s not found", recv, name)
	return nil
}

// src: the node printed by go/printer with every run of white space collapsed to one blank and every
// function-local identifier under its canonical name (v<k>, k = rank of its declaration in the function)
func src(fset *token.FileSet, n ast.Node) string {
	return CanonPrint(fset, n)
}

// mergedErrVar: the variable of the write closure that receives the merged error channel of the
// pipeline (`x := utils.MergeErrorsWithContext(…)`), identified by what is assigned to it, not by name
func mergedErrVar(lit *ast.FuncLit) *ast.Object {
	var obj *ast.Object
	ast.Inspect(lit.Body, func(n ast.Node) bool {
		as, ok := n.(*ast.AssignStmt)
		if !ok || len(as.Lhs) != 1 || len(as.Rhs) != 1 {
			return true
		}
		call, ok := as.Rhs[0].(*ast.CallExpr)
		if !ok {
			return true
		}
		if sel, ok := call.Fun.(*ast.SelectorExpr); ok && sel.Sel.Name == "MergeErrorsWithContext" {
			if id, ok := as.Lhs[0].(*ast.Ident); ok && id.Obj != nil && obj == nil {
				obj = id.Obj
			}
		}
		return true
	})
	return obj
}

func bodySrc(fset *token.FileSet, fd *ast.FuncDecl) string {
	parts := make([]string, len(fd.Body.List))
	for i, s := range fd.Body.List {
		parts[i] = src(fset, s)
	}
	return strings.Join(parts, " ; ")
}

func leanStr(s string) string {
	var b strings.Builder
	b.WriteByte('"')
	for _, r := range s {
		switch r {
		case '"':
			b.WriteString("\\\"")
		case '\\':
			b.WriteString("\\\\")
		case '\n':
			b.WriteString("\\n")
		case '\t':
			b.WriteString("\\t")
		default:
			b.WriteRune(r)
		}
	}
	b.WriteByte('"')
	return b.String()
}

// writeClosure: the function literal passed to s.db.Write inside fd
func writeClosure(fd *ast.FuncDecl) *ast.FuncLit {
	var lit *ast.FuncLit
	ast.Inspect(fd.Body, func(n ast.Node) bool {
		call, ok := n.(*ast.CallExpr)
		if !ok || lit != nil {
			return true
		}
		sel, ok := call.Fun.(*ast.SelectorExpr)
		if !ok || sel.Sel.Name != "Write" || len(call.Args) != 1 {
			return true
		}
		if fl, ok := call.Args[0].(*ast.FuncLit); ok {
			lit = fl
		}
		return true
	})
	if lit == nil {
		die("%s: no s.db.Write(func…) call", fd.Name.Name)
	}
	return lit
}

// phases: for the top-level statements of the write closure, in order, which of the markers they
// contain: "errcheck" (receive from mergedErrC followed by a return), "count" (changePointCount),
// "flush" (nodeCounter.Flush), "newcounter" (NewIdCounter)
func phases(fset *token.FileSet, lit *ast.FuncLit) (seq []string, countArg string) {
	merged := mergedErrVar(lit)
	if merged == nil {
		die("write closure: no variable is assigned from utils.MergeErrorsWithContext(…)")
	}
	for _, st := range lit.Body.List {
		var marks []string
		ast.Inspect(st, func(n ast.Node) bool {
			switch x := n.(type) {
			case *ast.FuncLit:
				return false // the transform callback is not a phase of the closure
			case *ast.UnaryExpr:
				if id, ok := x.X.(*ast.Ident); ok && x.Op == token.ARROW && id.Obj == merged {
					if ifs, ok := st.(*ast.IfStmt); ok && len(ifs.Body.List) > 0 {
						if _, ok := ifs.Body.List[len(ifs.Body.List)-1].(*ast.ReturnStmt); ok {
							marks = append(marks, "errcheck")
						}
					}
				}
			case *ast.CallExpr:
				switch f := x.Fun.(type) {
				case *ast.Ident:
					if f.Name == "changePointCount" && len(x.Args) == 2 {
						marks = append(marks, "count")
						countArg = src(fset, x.Args[1])
					}
					if f.Name == "NewIdCounter" {
						marks = append(marks, "newcounter")
					}
				case *ast.SelectorExpr:
					if f.Sel.Name == "Flush" {
						marks = append(marks, "flush")
					}
				}
			}
			return true
		})
		seq = append(seq, marks...)
	}
	return
}

// txShape: how a batch entry point uses transactions — number of s.db.Write / s.db.Read calls in the
// whole function, whether a Write call sits inside a loop, and the point-store / id-counter calls
// that occur OUTSIDE the (first) write closure. The refinement proof treats "check, store, count,
// flush" of one batch as one atomic transaction; this pins that the source does so.
func txShape(fset *token.FileSet, fd *ast.FuncDecl) (writes, reads int, writeInLoop bool, outside []string) {
	lit := writeClosure(fd)
	var walk func(n ast.Node, inLoop bool)
	walk = func(n ast.Node, inLoop bool) {
		ast.Inspect(n, func(m ast.Node) bool {
			switch x := m.(type) {
			case *ast.ForStmt:
				if x != n {
					walk(x.Body, true)
					return false
				}
			case *ast.RangeStmt:
				if x != n {
					walk(x.Body, true)
					return false
				}
			case *ast.CallExpr:
				if sel, ok := x.Fun.(*ast.SelectorExpr); ok {
					if inner, ok := sel.X.(*ast.SelectorExpr); ok && inner.Sel.Name == "db" {
						switch sel.Sel.Name {
						case "Write":
							writes++
							if inLoop {
								writeInLoop = true
							}
						case "Read":
							reads++
						}
					}
					if pkg, ok := sel.X.(*ast.Ident); ok && pkg.Name == "pointstore" {
						if !(x.Pos() >= lit.Pos() && x.End() <= lit.End()) {
							outside = append(outside, "pointstore."+sel.Sel.Name)
						}
					}
				}
				if id, ok := x.Fun.(*ast.Ident); ok && (id.Name == "changePointCount" || id.Name == "NewIdCounter") {
					if !(x.Pos() >= lit.Pos() && x.End() <= lit.End()) {
						outside = append(outside, id.Name)
					}
				}
			}
			return true
		})
	}
	walk(fd.Body, false)
	return
}

// startIdLiteral: see main
func startIdLiteral(ctrF *ast.File) string {
	body := funcDecl(ctrF, "", "NewIdCounter").Body
	var fieldVar *ast.Object
	ast.Inspect(body, func(n ast.Node) bool {
		cl, ok := n.(*ast.CompositeLit)
		if !ok {
			return true
		}
		if t, ok := cl.Type.(*ast.Ident); !ok || t.Name != "IdCounter" {
			return true
		}
		for _, e := range cl.Elts {
			if kv, ok := e.(*ast.KeyValueExpr); ok {
				if k, ok := kv.Key.(*ast.Ident); ok && k.Name == "nextFreeId" {
					if v, ok := kv.Value.(*ast.Ident); ok {
						fieldVar = v.Obj
					}
				}
			}
		}
		return true
	})
	if fieldVar == nil {
		return ""
	}
	var init ast.Expr
	ast.Inspect(body, func(n ast.Node) bool {
		switch x := n.(type) {
		case *ast.ValueSpec: // var x T = e   (also the normal form of x := T(e))
			for i, nm := range x.Names {
				if nm.Obj == fieldVar && i < len(x.Values) && init == nil {
					init = x.Values[i]
				}
			}
		case *ast.AssignStmt:
			if x.Tok == token.DEFINE {
				for i, l := range x.Lhs {
					if id, ok := l.(*ast.Ident); ok && id.Obj == fieldVar && i < len(x.Rhs) && init == nil {
						init = x.Rhs[i]
					}
				}
			}
		}
		return true
	})
	for { // strip conversions uint64(e)
		call, ok := init.(*ast.CallExpr)
		if !ok || len(call.Args) != 1 {
			break
		}
		init = call.Args[0]
	}
	switch x := init.(type) {
	case *ast.BasicLit:
		if x.Kind == token.INT {
			return x.Value
		}
	case *ast.Ident: // a package-level constant declared with an integer literal
		if x.Obj != nil && x.Obj.Kind == ast.Con {
			if vs, ok := x.Obj.Decl.(*ast.ValueSpec); ok {
				for i, nm := range vs.Names {
					if nm.Name == x.Name && i < len(vs.Values) {
						if bl, ok := vs.Values[i].(*ast.BasicLit); ok && bl.Kind == token.INT {
							return bl.Value
						}
					}
				}
			}
		}
	}
	return ""
}

func leanList(xs []string) string {
	q := make([]string, len(xs))
	for i, x := range xs {
		q[i] = leanStr(x)
	}
	return "[" + strings.Join(q, ", ") + "]"
}

func main() {
	repo := flag.String("repo", "/repo", "repository working tree")
	out := flag.String("out", "", "output directory")
	flag.Parse()
	fset := token.NewFileSet()
	shardF := parse(fset, filepath.Join(*repo, "shard", "shard.go"))
	ctrF := parse(fset, filepath.Join(*repo, "shard", "idcounter.go"))

	// DELETEVALUE
	deleteValue := ""
	found := false
	for _, d := range shardF.Decls {
		gd, ok := d.(*ast.GenDecl)
		if !ok || gd.Tok != token.CONST {
			continue
		}
		for _, sp := range gd.Specs {
			vs := sp.(*ast.ValueSpec)
			for i, n := range vs.Names {
				if n.Name == "DELETEVALUE" && i < len(vs.Values) {
					if bl, ok := vs.Values[i].(*ast.BasicLit); ok && bl.Kind == token.STRING {
						v, err := strconv.Unquote(bl.Value)
						if err != nil {
							die("DELETEVALUE: %v", err)
						}
						deleteValue, found = v, true
					}
				}
			}
		}
	}
	if !found {
		die("const DELETEVALUE (string literal) not found in shard/shard.go")
	}

	// start value of the id counter: the value the constructor puts into the field nextFreeId when the
	// bucket holds none — the initial value of the variable that the composite literal `IdCounter{…
	// nextFreeId: x …}` of NewIdCounter reads (a literal, or a package-level constant that is one).
	start := startIdLiteral(ctrF)
	if _, err := strconv.ParseUint(start, 10, 64); err != nil {
		die("NewIdCounter: initial value of the variable stored in the field nextFreeId is not an integer literal / constant")
	}

	insSeq, insArg := phases(fset, writeClosure(funcDecl(shardF, "Shard", "InsertPoints")))
	delSeq, delArg := phases(fset, writeClosure(funcDecl(shardF, "Shard", "DeletePoints")))
	updSeq, _ := phases(fset, writeClosure(funcDecl(shardF, "Shard", "UpdatePoints")))

	var b strings.Builder
	b.WriteString("-- GENERATED by tools/facts_c01 from the working tree of the repository. DO NOT EDIT.\n")
	b.WriteString("namespace Sema.Gen.FactsC01\n\n")
	fmt.Fprintf(&b, "/- shard/shard.go : const DELETEVALUE -/\ndef deleteValue : String := %s\n\n", leanStr(deleteValue))
	fmt.Fprintf(&b, "/- shard/idcounter.go : NewIdCounter, first node id handed out -/\ndef startId : Nat := %s\n\n", start)
	fmt.Fprintf(&b, "/- shard/idcounter.go : bodies, white space collapsed, statements joined by ` ; ` -/\n")
	fmt.Fprintf(&b, "def nextIdBody : String := %s\n", leanStr(bodySrc(fset, funcDecl(ctrF, "IdCounter", "NextId"))))
	fmt.Fprintf(&b, "def freeIdBody : String := %s\n", leanStr(bodySrc(fset, funcDecl(ctrF, "IdCounter", "FreeId"))))
	b.WriteString("\n")
	fmt.Fprintf(&b, "/- shard/shard.go : phases of the write closures in program order (errcheck = `if err := <-mergedErrC; err != nil { … return }`) and the change passed to changePointCount -/\n")
	fmt.Fprintf(&b, "def insertPhases : List String := %s\n", leanList(insSeq))
	fmt.Fprintf(&b, "def insertCountChange : String := %s\n", leanStr(insArg))
	fmt.Fprintf(&b, "def deletePhases : List String := %s\n", leanList(delSeq))
	fmt.Fprintf(&b, "def deleteCountChange : String := %s\n", leanStr(delArg))
	fmt.Fprintf(&b, "def updatePhases : List String := %s\n", leanList(updSeq))
	fmt.Fprintf(&b, "\n/- shard/shard.go : transaction shape of the batch entry points: (number of s.db.Write calls, number of s.db.Read calls, a Write inside a loop, point-store / counter calls outside the write closure) -/\n")
	for _, fn := range []string{"InsertPoints", "UpdatePoints", "DeletePoints"} {
		w, r, l, o := txShape(fset, funcDecl(shardF, "Shard", fn))
		fmt.Fprintf(&b, "def txShape%s : Nat × Nat × Bool × List String := (%d, %d, %v, %s)\n", fn, w, r, l, leanList(o))
	}
	b.WriteString("\nend Sema.Gen.FactsC01\n")
	if err := os.MkdirAll(*out, 0o755); err != nil {
		die("%v", err)
	}
	if err := os.WriteFile(filepath.Join(*out, "FactsC01.lean"), []byte(b.String()), 0o644); err != nil {
		die("%v", err)
	}
}
