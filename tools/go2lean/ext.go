// ext.go: the extended subset of go2lean (specs with Ext: true).
//
// The first translator (main.go) covers straight-line byte / bit-vector code.  This one covers small
// pure *algorithms*: loops with an exit, struct values, maps, callbacks, several results.  Same
// character: go/ast only, its own mini type inference, one Lean definition per Go function (plus
// one per loop), a hard error on anything outside the subset.  See notes/T1ext.md for the grammar.
//
//	int, int64        Int              (arithmetic is assumed not to overflow; spec.WrapInt: + - * wrap, Go.wrap64)
//	uint64            BitVec 64        (wraps like Go)
//	bool, string      Bool, String     (strings: only ==, !=, +, use as map key, strings.Split)
//	byte, []byte, [N]byte, uuid.UUID   Byte, Bytes
//	[]T, [N]T         List T           (value semantics; visible aliasing is rejected)
//	map[K]V           List (K × V)     (Go.mapSet / Go.mapGet?; iteration over a map is rejected)
//	struct            structure        (generated from the type declaration named in the spec)
//	any               Go.Any α         (nil | map[string]any | an opaque value); type switch on it
//	diskstore.Bucket  KV               (Base/KV.lean: Get, Put)
//	func(..) ..       Lean function;   a callback listed in spec.Oracles is effectful: it becomes
//	                                   `Nat → result`, indexed by the number of earlier calls, and
//	                                   the call count is threaded as state and returned
//	(T, error)        Except String T  (`v, err := f(); if err != nil { … return … }` is the only
//	                                   way to consume one)
//	for init; c; post fuelled recursion, one definition per loop: `Go.Ctl σ ρ`; σ = the variables the
//	                  loop assigns; `break`, `continue`, `return` inside are translated exactly;
//	                  a counting loop (`for ; i < n; i++`, body assigns neither i nor n's variables)
//	                  gets the fuel `Go.countFuel i n`, every other loop the function's `fuel` argument
//	for .. range xs   `Go.forRange` (a fold) when the body has no exit, else structural recursion
//	                  (`Go.Brk σ ρ`, no fuel)
//	method            receiver first; a method that assigns receiver fields also returns the receiver;
//	                  parameters written in place (sort, element assignment, Put) are returned too
//	spec.Frag         a run of statements of a function, translated as a function of its own
package main

import (
	"fmt"
	"go/ast"
	"go/constant"
	"go/token"
	"sort"
	"strconv"
	"strings"
)

type xkind int

const (
	kInt xkind = iota
	kNat       // only the call counters of oracles
	kU64
	kBool
	kStr
	kByte
	kList
	kMap
	kStruct
	kFunc
	kErr // an error value: its message
	kNil
	kConst  // untyped integer constant
	kAny    // interface value: Go.Any
	kBucket // diskstore.Bucket: the key-value model Base/KV.lean
	kErrOpt // a named error result: Option String (none = nil)
	kOpaque // a type of spec.Opaque: a Lean type parameter; values are only passed on
	kOrd    // float32 under spec.FloatAbs: a Lean type parameter with a decidable `<` (only < and > are translated)
	kOpt    // *float32 under spec.FloatAbs: Option (nil = none); made by &v of a variable assigned once, read by *p
	kF32    // float32 under spec.FloatSym: a symbolic expression tree Go.FExpr (the arithmetic is not interpreted)
	kF64    // float64 under spec.FloatSym: Go.FExpr as well (the translator keeps the two precisions apart and writes every conversion)
	kFConst // untyped floating-point constant (exact value in xval.fc)
)

type xty struct {
	k       xkind
	elem    *xty
	key     *xty
	name    string
	poly    bool // struct with the type parameter α
	params  []*xty
	results []*xty // kErr last when the function can fail
	oracle  bool
	targs   []string // struct: its Lean type parameters beside α (spec.Opaque / spec.FloatAbs names its fields mention)
}

var (
	tInt    = &xty{k: kInt}
	tNat    = &xty{k: kNat}
	tU64x   = &xty{k: kU64}
	tBoolx  = &xty{k: kBool}
	tStr    = &xty{k: kStr}
	tBytex  = &xty{k: kByte}
	tErr    = &xty{k: kErr}
	tNilx   = &xty{k: kNil}
	tCon    = &xty{k: kConst}
	tAny    = &xty{k: kAny}
	tBucket = &xty{k: kBucket}
	tErrOpt = &xty{k: kErrOpt}
	tF32    = &xty{k: kF32}
	tF64    = &xty{k: kF64}
	tFCon   = &xty{k: kFConst}
)

func listOf(e *xty) *xty { return &xty{k: kList, elem: e} }

func sameTy(a, b *xty) bool {
	if a.k != b.k {
		return false
	}
	switch a.k {
	case kList, kOpt:
		return sameTy(a.elem, b.elem)
	case kMap:
		return sameTy(a.key, b.key) && sameTy(a.elem, b.elem)
	case kStruct, kOpaque, kOrd:
		return a.name == b.name
	case kFunc:
		if len(a.params) != len(b.params) || len(a.results) != len(b.results) {
			return false
		}
		for i := range a.params {
			if !sameTy(a.params[i], b.params[i]) {
				return false
			}
		}
		for i := range a.results {
			if !sameTy(a.results[i], b.results[i]) {
				return false
			}
		}
	}
	return true
}

func (t *xty) mentionsAny() bool {
	if t == nil {
		return false
	}
	if t.k == kAny || t.k == kStruct && t.poly {
		return true
	}
	if t.elem.mentionsAny() || t.key.mentionsAny() {
		return true
	}
	for _, p := range append(append([]*xty{}, t.params...), t.results...) {
		if p.mentionsAny() {
			return true
		}
	}
	return false
}

// does the type contain a function type (then a structure with such a field derives nothing)
func (t *xty) mentionsFunc() bool {
	if t == nil {
		return false
	}
	return t.k == kFunc || t.elem.mentionsFunc() || t.key.mentionsFunc()
}

// the type parameters (spec.Opaque / spec.FloatAbs names) a type mentions
func (t *xty) tvars(acc map[string]bool) {
	if t == nil {
		return
	}
	switch t.k {
	case kOpaque, kOrd:
		acc[t.name] = true
	case kStruct:
		for _, a := range t.targs {
			acc[a] = true
		}
	}
	t.elem.tvars(acc)
	t.key.tvars(acc)
	for _, p := range t.params {
		p.tvars(acc)
	}
	for _, p := range t.results {
		p.tvars(acc)
	}
}

func parenT(s string) string {
	if strings.ContainsAny(s, " ") {
		return "(" + s + ")"
	}
	return s
}

// Lean type of a list of results: T | T1 × T2 | Except String T
func resLean(rs []*xty) string {
	fails := len(rs) > 0 && rs[len(rs)-1].k == kErr
	if fails {
		rs = rs[:len(rs)-1]
	}
	var parts []string
	for _, r := range rs {
		parts = append(parts, r.lean())
	}
	s := "Unit"
	if len(parts) == 1 {
		s = parts[0]
	} else if len(parts) > 1 {
		for i := range parts {
			if strings.Contains(parts[i], "→") || strings.Contains(parts[i], "×") {
				parts[i] = "(" + parts[i] + ")"
			}
		}
		s = strings.Join(parts, " × ")
	}
	if fails {
		return "Except String " + parenT(s)
	}
	return s
}

func (t *xty) lean() string {
	switch t.k {
	case kInt:
		return "Int"
	case kNat:
		return "Nat"
	case kU64:
		return "BitVec 64"
	case kBool:
		return "Bool"
	case kStr, kErr:
		return "String"
	case kByte:
		return "Byte"
	case kAny:
		return "Go.Any α"
	case kBucket:
		return "KV"
	case kErrOpt:
		return "Option String"
	case kOpaque, kOrd:
		return t.name
	case kF32, kF64:
		return "Go.FExpr"
	case kOpt:
		return "Option " + parenT(t.elem.lean())
	case kList:
		if t.elem.k == kByte {
			return "Bytes"
		}
		return "List " + parenT(t.elem.lean())
	case kMap:
		k, v := t.key.lean(), t.elem.lean()
		if strings.Contains(k, "×") || strings.Contains(k, "→") {
			k = "(" + k + ")"
		}
		if strings.Contains(v, "×") || strings.Contains(v, "→") {
			v = "(" + v + ")"
		}
		return "List (" + k + " × " + v + ")"
	case kStruct:
		s := t.name
		if t.poly {
			s += " α"
		}
		for _, a := range t.targs {
			s += " " + a
		}
		return s
	case kFunc:
		var ps []string
		if t.oracle {
			ps = append(ps, "Nat")
		}
		for _, p := range t.params {
			s := p.lean()
			if strings.Contains(s, "→") {
				s = "(" + s + ")"
			}
			ps = append(ps, s)
		}
		if len(ps) == 0 {
			ps = append(ps, "Unit")
		}
		return strings.Join(ps, " → ") + " → " + resLean(t.results)
	}
	return "<" + fmt.Sprint(int(t.k)) + ">"
}

type structSpec struct {
	File   string   // path relative to the repository
	Name   string   // Go type name
	Only   []string // if set: the fields that are modelled (any other field access is an error)
	Caps   []string // slice fields whose capacity is read (`cap(s.f)`): each gets the ghost field f_cap : Int
	Drop   []string // fields that are not modelled although literals set them: their (call-free) initialisers are not translated
	InFunc string   // the type is declared by a `type` statement inside the body of this function of File
}

type xfield struct {
	name string
	ty   *xty
}

type xstruct struct {
	name    string
	fields  []xfield
	poly    bool            // a field mentions `any`: the structure has the type parameter α
	tparams []string        // further type parameters (spec.Opaque / spec.FloatAbs names the fields mention)
	caps    map[string]bool // fields with a ghost capacity field
	drop    map[string]bool // fields left out although literals set them (structSpec.Drop)
	partial bool            // structSpec.Only / Caps: the Lean structure is not the Go struct field by field
}

func (x *xtr) structTy(name string) *xty {
	st := x.structs[name]
	return &xty{k: kStruct, name: name, poly: st.poly, targs: st.tparams}
}

// binder text for type parameters: {α A B : Type} [Inhabited A] … [LT D] [DecidableRel (α := D) (· < ·)]
func (x *xtr) typeBinders(alpha bool, names []string, inhabited bool) string {
	var ps []string
	if alpha {
		ps = append(ps, "α")
	}
	ps = append(ps, names...)
	if len(ps) == 0 {
		return ""
	}
	s := "{" + strings.Join(ps, " ") + " : Type} "
	for _, n := range names {
		if inhabited || x.ordParams[n] {
			s += "[Inhabited " + n + "] "
		}
	}
	for _, n := range names {
		if x.ordParams[n] {
			s += "[LT " + n + "] [DecidableRel (α := " + n + ") (· < ·)] "
			if x.sp.FloatLE {
				s += "[LE " + n + "] [DecidableRel (α := " + n + ") (· ≤ ·)] "
			}
		}
	}
	return s
}

func (s *xstruct) field(n string) *xty {
	for _, f := range s.fields {
		if f.name == n {
			return f.ty
		}
	}
	return nil
}

type xval struct {
	s  string
	ty *xty
	c  int64
	fc constant.Value // exact value when ty is kFConst
}

// control context of the statement being translated
type xmode int

const (
	mNone  xmode = iota // a branch of a data-flow `if`, the body of a fold: no exits
	mPlain              // top of a function / closure without `for` loops: the result itself
	mOut                // top of a function with `for` loops: Go.Out ρ
	mCtl                // inside the definition of a fuelled loop: Go.Ctl σ ρ
	mBrk                // inside the definition of a range loop with exits: Go.Brk σ ρ
)

type xctx struct {
	mode xmode
	brk  func() string // nil: not allowed
	cont func() string
}

// rendering of `return v` in the current context ("" = not allowed)
func (c xctx) ret(v string) string {
	switch c.mode {
	case mPlain:
		return v
	case mOut:
		return "Go.Out.ret " + paren(v)
	case mCtl:
		return "Go.Ctl.ret " + paren(v)
	case mBrk:
		return "Go.Brk.ret " + paren(v)
	}
	return ""
}

type xtr struct {
	fset           *token.FileSet
	sp             spec
	fname          string // Lean name of the function
	env            map[string]*xty
	structs        map[string]*xstruct
	consts         map[string]xval // package-level names given by the spec
	results        []*xty
	rho            string // Lean type of the function's result (without Go.Out)
	hasExit        bool   // the function contains a loop definition: result is Go.Out rho
	needFuel       bool
	recv, recvType string
	recvMut        bool
	extras         []string        // state returned beside the results: mutated receiver, oracle counters
	shared         map[string]bool // slices that may share a backing array with another variable
	ctx            xctx
	defs           []genFunc // loop definitions, in dependency order
	nloop          int
	loops          map[ast.Stmt]*loopInfo // a loop reached on several paths is defined once
	ptrParams      map[string]bool        // parameters of pointer type (their fields may not be assigned)
	params         map[string]bool        // parameters (their elements may not be assigned)
	prims          map[string]bool        // library functions kept abstract (spec.Prims)
	pkgPrims       map[string]string      // "pkg.Name" -> the parameter that stands for it (spec.Prims "pkg.Name=func..")
	aliases        map[string]*xty        // named non-struct types of the spec
	known          map[string]*xty        // functions of the same module translated earlier (callable)
	poly           bool                   // the function mentions `any`: it gets the type parameter α
	usesKV         bool                   // the function has a diskstore.Bucket: the module imports Base/KV.lean
	uses           map[string]useSpec     // functions translated into other modules that this one calls
	namedRes       []string               // named results: local variables, returned as a plain tuple (error: Option String)
	opaque         map[string]string      // spec.Opaque: Go type text -> Lean type parameter
	tparams        []string               // the Lean type parameters of spec.Opaque, in order
	usesRtX        bool                   // a primitive of Base/GoRtX.lean is used: the module imports it
	ordParams      map[string]bool        // type parameters that stand for float32 (spec.FloatAbs)
	inhabited      bool                   // the zero value of a type parameter is needed: [Inhabited _] binders
	methods        map[string]*xmethod    // spec.Methods: "LeanType.Method" -> abstract method of an opaque type
	capVars        map[string]string      // spec.CapVars: slice variable -> the Int variable that holds its capacity
	fnBody         *ast.BlockStmt         // the body being translated (for whole-function checks)
	asserts        map[string]string      // spec.Asserts: Go type text of the assertion -> abstract function
}

// a method of an opaque (interface) type, kept abstract: the parameter <Type>_<Method> of the translated
// function; a mutating method takes the receiver's state and returns (result, new state)
type xmethod struct {
	lean string
	ft   *xty
	mut  bool
	recv string
}

func (m *xmethod) leanType() string {
	ps := []string{m.recv}
	for _, p := range m.ft.params {
		ps = append(ps, parenT(p.lean()))
	}
	r := resLean(m.ft.results)
	if m.mut {
		r = parenT(r) + " × " + m.recv
	}
	return strings.Join(ps, " → ") + " → " + r
}

func (x *xtr) pos(n ast.Node) token.Position {
	if n == nil {
		return token.Position{Filename: x.sp.File}
	}
	return x.fset.Position(n.Pos())
}

func (x *xtr) bad(n ast.Node, format string, a ...any) {
	fail(x.pos(n), format, a...)
}

var reservedNames = map[string]bool{"fuel": true, "rest_": true, "i_": true, "r_": true, "e_": true, "c_": true, "s_": true, "v_": true, "growCap": true}

func (x *xtr) declare(n ast.Node, name string, ty *xty) {
	if name == "_" {
		return
	}
	if _, ok := x.env[name]; ok {
		x.bad(n, "declaration of %s shadows or repeats a visible variable", name)
	}
	if reservedNames[name] || strings.HasSuffix(name, "_calls") {
		x.bad(n, "variable name %s is reserved by the translator", name)
	}
	x.env[name] = ty
}

func copyEnv(m map[string]*xty) map[string]*xty {
	r := map[string]*xty{}
	for k, v := range m {
		r[k] = v
	}
	return r
}

func tupleNames(names []string) string {
	if len(names) == 0 {
		return "()"
	}
	var r []string
	for _, n := range names {
		r = append(r, ident(n))
	}
	if len(r) == 1 {
		return r[0]
	}
	return "(" + strings.Join(r, ", ") + ")"
}

func (x *xtr) tupleType(names []string) string {
	if len(names) == 0 {
		return "Unit"
	}
	var r []string
	for _, n := range names {
		s := x.env[n].lean()
		if strings.Contains(s, "×") || strings.Contains(s, "→") {
			s = "(" + s + ")"
		}
		r = append(r, s)
	}
	return strings.Join(r, " × ")
}

// ---------------------------------------------------------------------------------------------
// types

func (x *xtr) goTy(e ast.Expr) *xty {
	if n, ok := x.opaque[exprText(e)]; ok {
		return &xty{k: kOpaque, name: n}
	}
	switch t := e.(type) {
	case *ast.Ident:
		switch t.Name {
		case "int", "int64":
			return tInt
		case "uint64":
			return tU64x
		case "bool":
			return tBoolx
		case "string":
			return tStr
		case "byte", "uint8":
			return tBytex
		case "error":
			return tErr
		case "any":
			return tAny
		case "float32":
			if x.sp.FloatAbs != "" {
				return &xty{k: kOrd, name: x.sp.FloatAbs}
			}
			if x.sp.FloatSym {
				return tF32
			}
		case "float64":
			if x.sp.FloatSym {
				return tF64
			}
		}
		if _, ok := x.structs[t.Name]; ok {
			return x.structTy(t.Name)
		}
		if a, ok := x.aliases[t.Name]; ok {
			return a
		}
	case *ast.InterfaceType:
		if t.Methods == nil || len(t.Methods.List) == 0 {
			return tAny
		}
	case *ast.ArrayType:
		return listOf(x.goTy(t.Elt))
	case *ast.Ellipsis: // a variadic parameter: the slice of its arguments
		if t.Elt != nil {
			return listOf(x.goTy(t.Elt))
		}
	case *ast.MapType:
		k := x.goTy(t.Key)
		if k.k != kStr && k.k != kInt && k.k != kU64 {
			x.bad(e, "map key type %s", k.lean())
		}
		return &xty{k: kMap, key: k, elem: x.goTy(t.Value)}
	case *ast.StarExpr:
		if id, ok := t.X.(*ast.Ident); ok {
			if _, ok := x.structs[id.Name]; ok {
				return x.structTy(id.Name)
			}
			if id.Name == "float32" && (x.sp.FloatAbs != "" || x.sp.FloatSym) {
				return &xty{k: kOpt, elem: x.goTy(t.X)}
			}
		}
	case *ast.SelectorExpr:
		if id, ok := t.X.(*ast.Ident); ok {
			if id.Name == "uuid" && t.Sel.Name == "UUID" {
				return listOf(tBytex)
			}
			if id.Name == "diskstore" && t.Sel.Name == "Bucket" {
				x.usesKV = true
				return tBucket
			}
			if _, ok := x.structs[t.Sel.Name]; ok { // pkg.Struct named in the spec
				return x.structTy(t.Sel.Name)
			}
			if a, ok := x.aliases[t.Sel.Name]; ok {
				return a
			}
		}
	case *ast.FuncType:
		ft := &xty{k: kFunc}
		if t.Params != nil {
			for _, p := range t.Params.List {
				n := len(p.Names)
				if n == 0 {
					n = 1
				}
				for i := 0; i < n; i++ {
					ft.params = append(ft.params, x.goTy(p.Type))
				}
			}
		}
		if t.Results != nil {
			for _, p := range t.Results.List {
				n := len(p.Names)
				if n == 0 {
					n = 1
				}
				for i := 0; i < n; i++ {
					ft.results = append(ft.results, x.goTy(p.Type))
				}
			}
		}
		for i, r := range ft.results {
			if r.k == kErr && i != len(ft.results)-1 {
				x.bad(e, "error result that is not last")
			}
		}
		return ft
	}
	x.bad(e, "type %s", exprText(e))
	return nil
}

func exprText(e ast.Expr) string {
	switch t := e.(type) {
	case *ast.Ident:
		return t.Name
	case *ast.SelectorExpr:
		return exprText(t.X) + "." + t.Sel.Name
	case *ast.StarExpr:
		return "*" + exprText(t.X)
	case *ast.ArrayType:
		return "[]" + exprText(t.Elt)
	case *ast.Ellipsis:
		return "..." + exprText(t.Elt)
	}
	return fmt.Sprintf("%T", e)
}

// zero value of a type, as Lean text
func (x *xtr) zero(n ast.Node, t *xty) string {
	switch t.k {
	case kInt, kNat:
		return "0"
	case kU64:
		return "0x0#64"
	case kByte:
		return "0x0#8"
	case kBool:
		return "false"
	case kStr:
		return "\"\""
	case kList, kMap:
		return "[]"
	case kOpt:
		return "none"
	case kF32, kF64:
		return "(Go.FExpr.lit 0)"
	case kStruct:
		return t.name + ".zero"
	case kAny:
		return "Go.Any.nil"
	case kOpaque, kOrd:
		// nil interface / 0.0: an abstract inhabitant (reached only through omitted literal fields and
		// reads past the end of a slice, where Go panics)
		x.inhabited = true
		return "default"
	case kFunc:
		if len(t.results) == 1 && t.results[0].k != kErr && !t.oracle && len(t.params) > 0 {
			return "(fun" + strings.Repeat(" _", len(t.params)) + " => " + x.zero(n, t.results[0]) + ")"
		}
	}
	x.bad(n, "zero value of %s", t.lean())
	return ""
}

func (x *xtr) structText(s *xstruct) genFunc {
	var b strings.Builder
	hd, ty, impl := s.name, s.name, ""
	if s.poly {
		hd, ty, impl = s.name+" (α : Type)", s.name+" α", " {α : Type}"
	}
	if len(s.tparams) > 0 {
		ps := s.tparams
		if s.poly {
			ps = append([]string{"α"}, ps...)
		}
		hd, ty = s.name+" ("+strings.Join(ps, " ")+" : Type)", s.name+" "+strings.Join(ps, " ")
		impl = " " + strings.TrimSpace(x.typeBinders(s.poly, s.tparams, true))
	}
	fmt.Fprintf(&b, "structure %s where\n", hd)
	var zs []string
	for _, f := range s.fields {
		fmt.Fprintf(&b, "  %s : %s\n", ident(f.name), f.ty.lean())
		zs = append(zs, x.zero(nil, f.ty))
	}
	hasFn := false
	for _, f := range s.fields {
		hasFn = hasFn || f.ty.mentionsFunc()
	}
	if !s.poly && len(s.tparams) == 0 && !hasFn {
		b.WriteString("  deriving DecidableEq, Repr\n")
	}
	fmt.Fprintf(&b, "/-- the zero value of `%s` -/\ndef %s.zero%s : %s := ⟨%s⟩\n", s.name, s.name, impl, ty, strings.Join(zs, ", "))
	fmt.Fprintf(&b, "instance%s : Inhabited %s := ⟨%s.zero⟩\n", impl, parenT(ty), s.name)
	return genFunc{name: "structure " + s.name, text: b.String()}
}

func sortedNames(m map[string]bool) []string {
	var r []string
	for k := range m {
		r = append(r, k)
	}
	sort.Strings(r)
	return r
}

func leanString(x *xtr, n ast.Node, s string) string {
	for _, r := range s {
		if r < 0x20 || r > 0x7e || r == '"' || r == '\\' {
			x.bad(n, "string literal with a character outside printable ASCII: %s", strconv.Quote(s))
		}
	}
	return "\"" + s + "\""
}
