package main

import (
	"fmt"
	"go/ast"
	"go/parser"
	"go/printer"
	"go/token"
	"path/filepath"
	"sort"
	"strings"
)

// ---------------------------------------------------------------------------------------------
// loops

type loopInfo struct {
	name  string
	inv   []string
	state []string
}

func (x *xtr) rhoLean() string { return x.rho }

// parameters (name : type) for the variables a loop reads but does not assign
func (x *xtr) binders(names []string) string {
	var r []string
	for _, n := range names {
		r = append(r, fmt.Sprintf("(%s : %s)", ident(n), x.env[n].lean()))
	}
	return strings.Join(r, " ")
}

func identsOf(names []string) string {
	var r []string
	for _, n := range names {
		r = append(r, ident(n))
	}
	return strings.Join(r, " ")
}

// the statements after a loop definition of kind "Ctl" (fuelled) or "Brk" (range loop with exits)
func (x *xtr) afterLoop(t ast.Node, kind, call string, state []string, rest func() string) string {
	comb := map[string]map[xmode]string{
		"Ctl": {mOut: "finish", mCtl: "andThen"},
		"Brk": {mPlain: "finish", mOut: "finishOut", mCtl: "andThenCtl", mBrk: "andThen"},
	}[kind][x.ctx.mode]
	if comb == "" {
		x.bad(t, "a loop with an exit is not allowed here")
	}
	pat := tupleNames(state)
	return fmt.Sprintf("(%s).%s fun %s =>\n%s", call, comb, pat, indent(rest(), 1))
}

func (x *xtr) polyBinder() string {
	return x.typeBinders(x.poly, x.tparams, x.inhabitedBinders())
}

// the type-parameter binders of a loop definition: only the parameters its variables (and the function's
// result) mention, so that every one of them is determined by the explicit arguments
func (x *xtr) loopBinder(inv, state []string) string {
	tv := map[string]bool{}
	for _, n := range append(append([]string{}, inv...), state...) {
		x.env[n].tvars(tv)
	}
	for _, r := range x.results {
		r.tvars(tv)
	}
	for _, ex := range x.extras {
		x.env[ex].tvars(tv)
	}
	var ps []string
	for _, p := range x.tparams {
		if tv[p] {
			ps = append(ps, p)
		}
	}
	return x.typeBinders(x.poly, ps, x.inhabitedBinders())
}

// [Inhabited T] binders for the opaque type parameters: when a struct of the spec has type parameters
// (its zero value and `Inhabited` instance need them) or a zero value of such a type was written
func (x *xtr) inhabitedBinders() bool {
	if x.inhabited {
		return true
	}
	for _, st := range x.structs {
		if len(st.tparams) > 0 {
			return true
		}
	}
	return false
}

// `for ; i < n; i++` whose body assigns neither i nor a variable of n: the fuel is known
func (x *xtr) countingFuel(s *ast.ForStmt) (string, bool) {
	if f, ok := x.countdownFuel(s); ok {
		return f, true
	}
	be, ok := s.Cond.(*ast.BinaryExpr)
	if !ok || be.Op != token.LSS {
		return "", false
	}
	iv, ok := be.X.(*ast.Ident)
	if !ok || x.env[iv.Name] == nil || x.env[iv.Name].k != kInt {
		return "", false
	}
	post, ok := s.Post.(*ast.IncDecStmt)
	if !ok || post.Tok != token.INC || !isIdent(post.X, iv.Name) {
		return "", false
	}
	inBody := map[string]bool{}
	x.assigned(s.Body.List, map[string]bool{}, inBody)
	if inBody[iv.Name] {
		return "", false
	}
	pure := true
	ast.Inspect(be.Y, func(n ast.Node) bool {
		if c, ok := n.(*ast.CallExpr); ok && selName(c.Fun) != "len" {
			pure = false
		}
		return pure
	})
	if !pure {
		return "", false
	}
	for v := range x.references(be.Y) {
		if inBody[v] {
			return "", false
		}
	}
	return fmt.Sprintf("(Go.countFuel %s %s)", ident(iv.Name), paren(x.intExpr(be.Y))), true
}

// `for ; i > 0 [&& c ..]; i--` whose body does not assign i: the condition is evaluated at most i + 1 times
func (x *xtr) countdownFuel(s *ast.ForStmt) (string, bool) {
	cond := s.Cond
	for {
		be, ok := cond.(*ast.BinaryExpr)
		if !ok {
			return "", false
		}
		if be.Op == token.LAND {
			cond = be.X
			continue
		}
		iv, ok := be.X.(*ast.Ident)
		if !ok || be.Op != token.GTR || x.env[iv.Name] == nil || x.env[iv.Name].k != kInt {
			return "", false
		}
		if lit, ok := be.Y.(*ast.BasicLit); !ok || lit.Value != "0" {
			return "", false
		}
		post, ok := s.Post.(*ast.IncDecStmt)
		if !ok || post.Tok != token.DEC || !isIdent(post.X, iv.Name) {
			return "", false
		}
		inBody := map[string]bool{}
		x.assigned(s.Body.List, map[string]bool{}, inBody)
		if inBody[iv.Name] {
			return "", false
		}
		return fmt.Sprintf("(Go.countFuel 0 %s)", ident(iv.Name)), true
	}
}

func (x *xtr) forStmt(s *ast.ForStmt, rest func() string) string {
	saved := x.env
	x.env = copyEnv(saved)
	initText := ""
	if s.Init != nil {
		initText = x.simpleStmt(s.Init)
	}
	var stmts []ast.Stmt
	stmts = append(stmts, s.Body.List...)
	if s.Post != nil {
		stmts = append(stmts, s.Post)
	}
	out := map[string]bool{}
	x.assigned(stmts, map[string]bool{}, out)
	state := sortedNames(out)
	for _, n := range state {
		if _, ok := x.env[n]; !ok {
			x.bad(s, "assignment to %s, which is not a variable of the function", n)
		}
	}
	var refNodes []ast.Node
	if s.Cond != nil {
		refNodes = append(refNodes, s.Cond)
	}
	if s.Post != nil {
		refNodes = append(refNodes, s.Post)
	}
	refNodes = append(refNodes, s.Body)
	refs := x.references(refNodes...)
	for _, n := range state {
		delete(refs, n)
	}
	inv := sortedNames(refs)
	fuel, counting := "fuel", false
	if s.Cond != nil {
		if f, ok := x.countingFuel(s); ok {
			fuel, counting = f, true
		}
	}
	if !counting {
		x.needFuel = true
	}
	info, done := x.loops[s]
	if !done {
		x.nloop++
		info = &loopInfo{name: fmt.Sprintf("%s_loop%d", x.fname, x.nloop), inv: inv, state: state}
		x.loops[s] = info
		tuple := tupleNames(state)
		loopEnv := x.env
		recur := func() string {
			return strings.TrimSpace(fmt.Sprintf("%s %s fuel %s", info.name, identsOf(inv), identsOf(state)))
		}
		savedCtx := x.ctx
		x.ctx = xctx{mode: mCtl, brk: func() string { return "Go.Ctl.next " + tuple }}
		x.ctx.cont = func() string {
			// the post statement is translated where it runs; it sees the loop's variables only
			e := x.env
			x.env = copyEnv(loopEnv)
			p := ""
			if s.Post != nil {
				p = x.simpleStmt(s.Post)
			}
			x.env = e
			return joinLines(p, recur())
		}
		bodyEnv := copyEnv(loopEnv)
		x.env = bodyEnv
		body := x.block(s.Body.List, x.ctx.cont)
		x.env = loopEnv
		if s.Cond != nil {
			body = fmt.Sprintf("if %s then\n%s\nelse\n  Go.Ctl.next %s", x.boolExpr(s.Cond), indent(body, 1), tuple)
		}
		x.ctx = savedCtx
		var sty, us []string
		for _, n := range state {
			sty = append(sty, parenT(x.env[n].lean()))
			us = append(us, "_")
		}
		sig := strings.Join(append([]string{"Nat"}, sty...), " → ")
		text := fmt.Sprintf("def %s %s%s : %s → Go.Ctl %s %s\n  | %s => Go.Ctl.outOfFuel\n  | %s =>\n%s\n",
			info.name, x.loopBinder(inv, state), x.binders(inv), sig, parenT(x.tupleType(state)), parenT(x.rhoLean()),
			strings.Join(append([]string{"0"}, us...), ", "),
			strings.Join(append([]string{"fuel + 1"}, splitIdents(state)...), ", "),
			indent(body, 2))
		text = strings.Replace(text, "  : ", " : ", 1)
		x.defs = append(x.defs, genFunc{name: info.name, text: fmt.Sprintf("/- loop at line %d of %s -/\n", x.pos(s).Line, x.sp.File) + text})
	} else if strings.Join(info.inv, ",") != strings.Join(inv, ",") || strings.Join(info.state, ",") != strings.Join(state, ",") {
		x.bad(s, "internal: a loop reached on two paths sees different variables")
	}
	call := strings.TrimSpace(fmt.Sprintf("%s %s %s %s", info.name, identsOf(inv), fuel, identsOf(state)))
	// variables declared by the init statement end with the loop
	after := func() string { x.env = copyEnv(saved); return rest() }
	r := joinLines(initText, x.afterLoop(s, "Ctl", call, state, after))
	x.env = saved
	return r
}

func splitIdents(names []string) []string {
	var r []string
	for _, n := range names {
		r = append(r, ident(n))
	}
	return r
}

func (x *xtr) rangeStmt(s *ast.RangeStmt, rest func() string) string {
	if s.Tok != token.DEFINE {
		x.bad(s, "range form (only `for k, v := range xs`)")
	}
	coll := x.expr(s.X)
	if coll.ty.k != kList {
		x.bad(s, "range over %s (the order of a map iteration is not defined)", coll.ty.lean())
	}
	nameOf := func(e ast.Expr) string {
		if e == nil {
			return "_"
		}
		id, ok := e.(*ast.Ident)
		if !ok {
			x.bad(s, "range variable")
		}
		return id.Name
	}
	key, val := nameOf(s.Key), nameOf(s.Value)
	saved := x.env
	x.env = copyEnv(saved)
	declared := map[string]bool{key: true, val: true}
	out := map[string]bool{}
	x.assigned(s.Body.List, declared, out)
	state := sortedNames(out)
	for _, n := range state {
		if _, ok := x.env[n]; !ok {
			x.bad(s, "assignment to %s, which is not a variable of the function", n)
		}
	}
	if base := lvalueBase(s.X); base != "" && out[base] {
		x.bad(s, "the loop assigns %s, over which it ranges", base)
	}
	tuple := tupleNames(state)
	in := scanCtl(s.Body.List)
	if !(in.ret || in.brk || in.exitLoop) {
		// a fold
		if len(state) == 0 {
			x.bad(s, "loop without effect")
		}
		x.declare(s, key, tInt)
		x.declare(s, val, coll.ty.elem)
		savedCtx := x.ctx
		x.ctx = xctx{mode: mNone, cont: func() string { return tuple }}
		body := x.block(s.Body.List, func() string { return tuple })
		x.ctx = savedCtx
		x.env = saved
		kpat, vpat, bind := "_", "_", ""
		if key != "_" {
			kpat = "i_"
			bind = fmt.Sprintf("let %s : Int := Int.ofNat i_", ident(key))
		}
		if val != "_" {
			vpat = ident(val)
		}
		return joinLines(fmt.Sprintf("let %s : %s := Go.forRange %s %s (fun %s %s %s =>\n%s)", tuple, x.tupleType(state), paren(coll.s), tuple, kpat, vpat, tuple, indent(joinLines(bind, body), 2)), rest())
	}
	// structural recursion over the list, with exits; Go.Ctl if a `for` loop inside can run out of fuel
	kind, mode := "Brk", mBrk
	if in.fuelLoop {
		kind, mode = "Ctl", mCtl
	}
	refs := x.references(s.Body)
	for _, n := range state {
		delete(refs, n)
	}
	inv := sortedNames(refs)
	info, done := x.loops[s]
	if !done {
		x.nloop++
		info = &loopInfo{name: fmt.Sprintf("%s_loop%d", x.fname, x.nloop), inv: inv, state: state}
		x.loops[s] = info
		outerEnv := x.env
		x.env = copyEnv(outerEnv)
		x.declare(s, key, tInt)
		x.declare(s, val, coll.ty.elem)
		idx := ""
		if key != "_" {
			idx = " (" + ident(key) + " + 1)"
		}
		recur := func() string {
			return strings.Join(strings.Fields(fmt.Sprintf("%s %s rest_", info.name, identsOf(inv))), " ") + strings.TrimRight(idx+" "+identsOf(state), " ")
		}
		savedCtx := x.ctx
		x.ctx = xctx{mode: mode, brk: func() string { return "Go." + kind + ".next " + tuple }, cont: recur}
		body := x.block(s.Body.List, recur)
		x.ctx = savedCtx
		var sty []string
		for _, n := range state {
			sty = append(sty, parenT(x.env[n].lean()))
		}
		sigParts := []string{parenT(coll.ty.lean())}
		nilPat, consPat := []string{"[]"}, []string{"_ :: rest_"}
		if val != "_" {
			consPat = []string{ident(val) + " :: rest_"}
		}
		if key != "_" {
			sigParts = append(sigParts, "Int")
			nilPat = append(nilPat, "_")
			consPat = append(consPat, ident(key))
		}
		sigParts = append(sigParts, sty...)
		nilPat = append(nilPat, splitIdents(state)...)
		consPat = append(consPat, splitIdents(state)...)
		x.env = outerEnv
		text := fmt.Sprintf("def %s %s%s : %s → Go.%s %s %s\n  | %s => Go.%s.next %s\n  | %s =>\n%s\n",
			info.name, x.loopBinder(inv, state), x.binders(inv), strings.Join(sigParts, " → "), kind, parenT(x.tupleType(state)), parenT(x.rhoLean()),
			strings.Join(nilPat, ", "), kind, tuple, strings.Join(consPat, ", "), indent(body, 2))
		text = strings.Replace(text, "  : ", " : ", 1)
		x.defs = append(x.defs, genFunc{name: info.name, text: fmt.Sprintf("/- loop at line %d of %s -/\n", x.pos(s).Line, x.sp.File) + text})
	}
	start := ""
	if key != "_" {
		start = " 0"
	}
	call := strings.TrimSpace(strings.TrimSpace(info.name+" "+identsOf(inv)) + " " + paren(coll.s) + start + " " + identsOf(state))
	after := func() string { x.env = copyEnv(saved); return rest() }
	r := x.afterLoop(s, kind, call, state, after)
	x.env = saved
	return r
}

// switch v := e.(type) { case map[string]any: …  default: … } on an interface value
func (x *xtr) typeSwitch(s *ast.TypeSwitchStmt, rest func() string) string {
	if s.Init != nil {
		x.bad(s, "type switch with an init statement")
	}
	var bind string
	var ta *ast.TypeAssertExpr
	switch a := s.Assign.(type) {
	case *ast.AssignStmt:
		if len(a.Lhs) == 1 && len(a.Rhs) == 1 {
			if id, ok := a.Lhs[0].(*ast.Ident); ok {
				bind = id.Name
			}
			ta, _ = a.Rhs[0].(*ast.TypeAssertExpr)
		}
	case *ast.ExprStmt:
		ta, _ = a.X.(*ast.TypeAssertExpr)
	}
	if ta == nil || ta.Type != nil {
		x.bad(s, "type switch form")
	}
	v := x.expr(ta.X)
	if v.ty.k != kAny {
		x.bad(s, "type switch on %s", v.ty.lean())
	}
	var bodies [][]ast.Stmt
	for _, cl := range s.Body.List {
		bodies = append(bodies, cl.(*ast.CaseClause).Body)
	}
	var all []ast.Stmt
	for _, b := range bodies {
		all = append(all, b...)
	}
	cps := hasControl(all)
	out := map[string]bool{}
	for _, b := range bodies {
		x.assigned(b, map[string]bool{bind: true}, out)
	}
	names := sortedNames(out)
	tuple := tupleNames(names)
	saved, savedCtx := x.env, x.ctx
	if !cps {
		x.ctx = xctx{mode: mNone}
	}
	k := func() string {
		if cps {
			x.env = copyEnv(saved)
			return rest()
		}
		return tuple
	}
	mapTy := &xty{k: kMap, key: tStr, elem: tAny}
	var arms []string
	sawMap, sawDefault := false, false
	for _, cl := range s.Body.List {
		cc := cl.(*ast.CaseClause)
		x.env = copyEnv(saved)
		var pat string
		switch {
		case cc.List == nil:
			if sawDefault {
				x.bad(cc, "two default clauses")
			}
			sawDefault = true
			pat = "_"
			if bind != "" && x.mentionsList(cc.Body, bind) {
				x.bad(cc, "the switch variable is used in the default clause")
			}
		case len(cc.List) == 1 && sameTy(x.goTy(cc.List[0]), mapTy):
			if sawMap || sawDefault {
				x.bad(cc, "clause order")
			}
			sawMap = true
			pat = ".map _"
			if bind != "" {
				x.declare(cc, bind, mapTy)
				pat = ".map " + ident(bind)
			}
		default:
			x.bad(cc, "type switch clause (only `case map[string]any` and `default` are in the subset)")
		}
		arms = append(arms, fmt.Sprintf("| %s =>\n%s", pat, indent(armBody(x.block(cc.Body, k)), 1)))
	}
	x.env, x.ctx = saved, savedCtx
	if !sawDefault {
		// no clause applies: the statement does nothing
		x.env = copyEnv(saved)
		arms = append(arms, fmt.Sprintf("| _ =>\n%s", indent(armBody(k()), 1)))
		x.env = saved
	}
	m := fmt.Sprintf("match %s with\n%s", v.s, strings.Join(arms, "\n"))
	if cps {
		return m
	}
	for _, n := range names {
		if _, ok := x.env[n]; !ok {
			x.bad(s, "assignment to %s, which is not a variable of the function", n)
		}
	}
	if len(names) == 0 {
		return rest()
	}
	return joinLines(fmt.Sprintf("let %s : %s :=\n%s", tuple, x.tupleType(names), indent(m, 1)), rest())
}

func (x *xtr) mentionsList(stmts []ast.Stmt, name string) bool {
	for _, s := range stmts {
		if x.mentions(s, name) {
			return true
		}
	}
	return false
}

// ---------------------------------------------------------------------------------------------
// library calls

// statement-level calls: slices.SortFunc(xs, cmp)
func (x *xtr) callStmt(c *ast.CallExpr) string {
	name := selName(c.Fun)
	switch name {
	case "slices.SortFunc", "slices.SortStableFunc":
		if len(c.Args) != 2 {
			x.bad(c, "%s arity", name)
		}
		id, ok := c.Args[0].(*ast.Ident)
		if !ok {
			x.bad(c, "%s of a non-variable", name)
		}
		ty, ok := x.env[id.Name]
		if !ok || ty.k != kList {
			x.bad(c, "%s of %s", name, id.Name)
		}
		if x.shared[id.Name] {
			x.bad(c, "%s sorts %s in place, which may share its backing array with another variable", name, id.Name)
		}
		cmp := x.expr(c.Args[1])
		want := &xty{k: kFunc, params: []*xty{ty.elem, ty.elem}, results: []*xty{tInt}}
		fn := map[string]string{"slices.SortFunc": "sortFunc", "slices.SortStableFunc": "sortStableFunc"}[name]
		if !x.prims[fn] {
			x.bad(c, "%s needs the parameter %s (spec.Prims)", name, fn)
		}
		return fmt.Sprintf("let %s : %s := %s %s %s", ident(id.Name), ty.lean(), fn, ident(id.Name), x.co(c.Args[1], cmp, want))
	}
	if name == "copy" {
		return x.copyStmt(c)
	}
	x.bad(c, "call statement %s", name)
	return ""
}

// copy(dst, src) as a statement (the count it returns is dropped by Go too).  dst is `v`, `v[lo:hi]`, `s.f` or `s.f[lo:hi]` for
// a slice variable v / a modelled slice field f of a struct variable s: the first min(len(dst), len(src)) items of the
// destination WINDOW are overwritten (Go.copyInto), the rest of the variable stays.  The usual alias rules apply: a destination
// that may share its backing array with another variable is rejected (the source is a different value by assumption for parameters)
func (x *xtr) copyStmt(c *ast.CallExpr) string {
	if len(c.Args) != 2 {
		x.bad(c, "copy arity")
	}
	dst := c.Args[0]
	lo, hi := "0", ""
	if se, ok := dst.(*ast.SliceExpr); ok {
		if se.Slice3 {
			x.bad(c, "copy into a 3-index slice")
		}
		if se.Low != nil {
			lo = x.intExpr(se.Low)
		}
		if se.High != nil {
			hi = x.intExpr(se.High)
		}
		dst = se.X
	}
	src := x.expr(c.Args[1])
	x.usesRtX = true
	window := func(cur string) string {
		h := hi
		if h == "" {
			h = "Go.len " + paren(cur)
		}
		return fmt.Sprintf("Go.copyInto %s %s %s", paren(cur), paren(lo), paren(h))
	}
	switch d := dst.(type) {
	case *ast.Ident:
		ty, ok := x.env[d.Name]
		if !ok || ty.k != kList {
			x.bad(c, "copy into %s, which is not a slice variable", d.Name)
		}
		if x.shared[d.Name] {
			x.bad(c, "copy into %s, which may share its backing array with another variable", d.Name)
		}
		if x.mentions(c.Args[1], d.Name) {
			x.bad(c, "copy whose source mentions its destination %s (overlapping copy)", d.Name)
		}
		return fmt.Sprintf("let %s : %s := %s %s", ident(d.Name), ty.lean(), window(ident(d.Name)), paren(x.co(c.Args[1], src, ty)))
	case *ast.SelectorExpr:
		if x.mentions(c.Args[1], lvalueBase(d)) && strings.Contains(exprText(c.Args[1]), exprText(d)) {
			x.bad(c, "copy whose source mentions its destination %s (overlapping copy)", exprText(d))
		}
		var fty *xty
		out := x.storeField(c, d, func(cur string, ty *xty) string {
			fty = ty
			return window(cur) + " " + paren(x.co(c.Args[1], src, ty))
		})
		_ = fty
		return out
	}
	x.bad(c, "copy destination %T", dst)
	return ""
}

// library calls with one result
func (x *xtr) callLib(c *ast.CallExpr, name string) (xval, bool) {
	return xval{}, false
}

// library calls with several results
func (x *xtr) callLibTuple(c *ast.CallExpr) (string, []*xty, bool) {
	switch selName(c.Fun) {
	case "slices.BinarySearchFunc":
		if len(c.Args) != 3 {
			x.bad(c, "BinarySearchFunc arity")
		}
		xs := x.expr(c.Args[0])
		if xs.ty.k != kList {
			x.bad(c, "BinarySearchFunc on %s", xs.ty.lean())
		}
		tg := x.expr(c.Args[1])
		want := &xty{k: kFunc, params: []*xty{xs.ty.elem, tg.ty}, results: []*xty{tInt}}
		cmp := x.co(c.Args[2], x.expr(c.Args[2]), want)
		return fmt.Sprintf("Go.binarySearchFunc %s %s %s", paren(xs.s), paren(tg.s), cmp), []*xty{tInt, tBoolx}, true
	}
	return "", nil, false
}

// ---------------------------------------------------------------------------------------------
// one function

// a function translated into another generated module that this one calls
type useSpec struct {
	Go     string // the call as written, e.g. "conversion.BytesToUint64"
	Lean   string // e.g. "Gen.Conversion.BytesToUint64"
	Sig    string // Go function type, e.g. "func([]byte) uint64"
	Module string // generated module to import
}

type constSpec struct {
	File string // path relative to the repository
	Name string // package-level `var X = errors.New("..")` or `const X = <int>`
	As   string // name used in the translated function (e.g. "ErrShardUnavailable")
}

func findType(f *ast.File, name string) ast.Expr {
	for _, d := range f.Decls {
		gd, ok := d.(*ast.GenDecl)
		if !ok || gd.Tok != token.TYPE {
			continue
		}
		for _, sp := range gd.Specs {
			ts := sp.(*ast.TypeSpec)
			if ts.Name.Name == name && ts.TypeParams == nil {
				return ts.Type
			}
		}
	}
	return nil
}

// a type declared by a `type` statement at the top level of the body of function fn
func findLocalType(f *ast.File, fn, name string) ast.Expr {
	for _, d := range f.Decls {
		fd, ok := d.(*ast.FuncDecl)
		if !ok || fd.Name.Name != fn || fd.Recv != nil || fd.Body == nil {
			continue
		}
		for _, st := range fd.Body.List {
			ds, ok := st.(*ast.DeclStmt)
			if !ok {
				continue
			}
			gd, ok := ds.Decl.(*ast.GenDecl)
			if !ok || gd.Tok != token.TYPE {
				continue
			}
			for _, sp := range gd.Specs {
				ts := sp.(*ast.TypeSpec)
				if ts.Name.Name == name && ts.TypeParams == nil {
					return ts.Type
				}
			}
		}
	}
	return nil
}

type fileLoader func(rel string) *ast.File

// extra imports of generated modules (beside Base/GoRt.lean)
var moduleImports = map[string][]string{}

func translateExt(fset *token.FileSet, load fileLoader, sp spec, known map[string]*xty) []genFunc {
	f := load(sp.File)
	fd := findFunc(f, sp)
	if fd == nil {
		fail(token.Position{Filename: sp.File}, "function %s (recv %q) not found", sp.Func, sp.Recv)
	}
	applyBind(fd, sp)
	if sp.Frag != nil {
		fd = fragmentFunc(fset, fd, sp)
	}
	x := &xtr{fset: fset, sp: sp, env: map[string]*xty{}, structs: map[string]*xstruct{}, consts: map[string]xval{},
		shared: map[string]bool{}, loops: map[ast.Stmt]*loopInfo{}, ptrParams: map[string]bool{}, params: map[string]bool{}, prims: map[string]bool{},
		aliases: map[string]*xty{}, known: known, uses: map[string]useSpec{}, opaque: map[string]string{},
		ordParams: map[string]bool{}, methods: map[string]*xmethod{}, pkgPrims: map[string]string{}, capVars: map[string]string{}, fnBody: fd.Body, asserts: map[string]string{}}
	for _, cv := range sp.CapVars {
		nt := strings.SplitN(cv, "=", 2)
		if len(nt) != 2 {
			fail(token.Position{Filename: sp.File}, "spec.CapVars entry %q", cv)
		}
		x.capVars[nt[0]] = nt[1]
	}
	for _, o := range sp.Opaque {
		nt := strings.SplitN(o, "=", 2)
		if len(nt) != 2 {
			fail(token.Position{Filename: sp.File}, "spec.Opaque entry %q", o)
		}
		x.opaque[nt[0]] = nt[1]
		seen := false
		for _, p := range x.tparams {
			seen = seen || p == nt[1]
		}
		if !seen { // (two spellings of one Go type may name the same parameter)
			x.tparams = append(x.tparams, nt[1])
		}
	}
	if sp.FloatAbs != "" {
		x.tparams = append(x.tparams, sp.FloatAbs)
		x.ordParams[sp.FloatAbs] = true
	}
	// abstract methods of opaque types: "T.M=func(..) R" (does not change the value), "T.M=mut func(..) R"
	var methodNames []string
	for _, ms := range sp.Methods {
		nt := strings.SplitN(ms, "=", 2)
		tm := strings.SplitN(nt[0], ".", 2)
		if len(nt) != 2 || len(tm) != 2 {
			fail(token.Position{Filename: sp.File}, "spec.Methods entry %q", ms)
		}
		sig, mut := strings.TrimPrefix(nt[1], "mut "), strings.HasPrefix(nt[1], "mut ")
		te, err := parser.ParseExpr(sig)
		if err != nil {
			fail(token.Position{Filename: sp.File}, "spec.Methods entry %q: %v", ms, err)
		}
		ft := x.goTy(te)
		if ft.k != kFunc || len(ft.results) != 1 || ft.results[0].k == kErr {
			fail(token.Position{Filename: sp.File}, "spec.Methods entry %q: not a function type with one result", ms)
		}
		m := &xmethod{lean: tm[0] + "_" + tm[1], ft: ft, mut: mut, recv: tm[0]}
		x.methods[nt[0]] = m
		recvTy := &xty{k: kOpaque, name: tm[0]}
		pt := &xty{k: kFunc, params: append([]*xty{recvTy}, ft.params...), results: ft.results}
		if mut {
			pt.results = []*xty{ft.results[0], recvTy}
		}
		x.env[m.lean] = pt
		methodNames = append(methodNames, m.lean)
	}
	for _, u := range sp.Uses {
		x.uses[u.Go] = u
	}
	var assertBinders []string
	for _, a := range sp.Asserts {
		nt := strings.SplitN(a, "=", 2)
		var ot []string
		if len(nt) == 2 {
			ot = strings.SplitN(nt[1], ":", 2)
		}
		if len(ot) != 2 {
			fail(token.Position{Filename: sp.File}, "spec.Asserts entry %q", a)
		}
		x.asserts[ot[1]] = nt[0] + "=" + ot[0]
	}
	x.fname = sp.Func
	if sp.Recv != "" {
		x.fname = sp.Recv + "_" + sp.Func
	}
	if sp.Name != "" {
		x.fname = sp.Name
	}
	var out []genFunc
	// struct types named by the spec, in order (later ones may use earlier ones)
	for _, ss := range sp.Structs {
		te := findType(load(ss.File), ss.Name)
		if ss.InFunc != "" {
			te = findLocalType(load(ss.File), ss.InFunc, ss.Name)
		}
		if te == nil {
			fail(token.Position{Filename: ss.File}, "type %s not found", ss.Name)
		}
		st, isStruct := te.(*ast.StructType)
		if !isStruct { // a named map / slice type: an alias of its underlying type
			x.aliases[ss.Name] = x.goTy(te)
			continue
		}
		xs := &xstruct{name: ss.Name, caps: map[string]bool{}, drop: map[string]bool{}, partial: len(ss.Only) > 0 || len(ss.Caps) > 0}
		for _, c := range ss.Caps {
			xs.caps[c] = true
		}
		for _, c := range ss.Drop {
			xs.drop[c] = true
		}
		tv := map[string]bool{}
		only := map[string]bool{}
		for _, o := range ss.Only {
			only[o] = true
		}
		for _, fl := range st.Fields.List {
			for _, n := range fl.Names {
				if len(ss.Only) > 0 && !only[n.Name] || xs.drop[n.Name] {
					continue
				}
				delete(only, n.Name)
				ft := x.goTy(fl.Type)
				xs.fields = append(xs.fields, xfield{n.Name, ft})
				xs.poly = xs.poly || ft.mentionsAny()
				ft.tvars(tv)
				if xs.caps[n.Name] {
					if ft.k != kList {
						fail(token.Position{Filename: ss.File}, "structSpec.Caps: %s.%s is not a slice", ss.Name, n.Name)
					}
					xs.fields = append(xs.fields, xfield{n.Name + "_cap", tInt})
				}
			}
		}
		for _, p := range x.tparams {
			if tv[p] {
				xs.tparams = append(xs.tparams, p)
			}
		}
		if len(ss.Only) > 0 && len(only) > 0 {
			fail(token.Position{Filename: ss.File}, "struct %s has no field(s) %v", ss.Name, sortedNames(only))
		}
		x.structs[ss.Name] = xs
		out = append(out, x.structText(xs))
	}
	for _, cs := range sp.Consts {
		x.consts[cs.As] = findConst(x, load(cs.File), cs)
	}
	if fd.Type.TypeParams != nil {
		x.bad(fd, "generic function")
	}
	var params []string
	addParam := func(n ast.Node, name string, ty *xty) {
		x.declare(n, name, ty)
		x.params[name] = true
		params = append(params, fmt.Sprintf("(%s : %s)", ident(name), ty.lean()))
	}
	if fd.Recv != nil {
		r := fd.Recv.List[0]
		if len(r.Names) != 1 {
			x.bad(fd, "unnamed receiver")
		}
		x.recv = r.Names[0].Name
		rt := x.goTy(r.Type)
		if rt.k != kStruct {
			x.bad(fd, "receiver of type %s", rt.lean())
		}
		addParam(fd, x.recv, rt)
		delete(x.params, x.recv)
	}
	oracle := map[string]bool{}
	for _, o := range sp.Oracles {
		oracle[o] = true
	}
	var primBinders []string
	for _, mn := range methodNames {
		primBinders = append(primBinders, fmt.Sprintf("(%s : %s)", mn, x.env[mn].lean()))
	}
	for goTy, v := range x.asserts {
		nv := strings.SplitN(v, "=", 2)
		te, err := parser.ParseExpr(goTy)
		if err != nil {
			x.bad(fd, "spec.Asserts type %q: %v", goTy, err)
		}
		assertBinders = append(assertBinders, fmt.Sprintf("(%s : %s → Option %s)", nv[0], nv[1], parenT(x.goTy(te).lean())))
	}
	sort.Strings(assertBinders)
	primBinders = append(primBinders, assertBinders...)
	for _, p := range sp.Prims {
		if p == "growCap" { // the capacity `append` chooses when it has to grow: (old capacity, new length) ↦ new capacity
			x.env["growCap"] = &xty{k: kFunc, params: []*xty{tInt, tInt}, results: []*xty{tInt}}
			primBinders = append(primBinders, "(growCap : Int → Int → Int)")
			continue
		}
		if p == "maxFloat32" { // math.MaxFloat32 under spec.FloatAbs: an abstract value of the float type (nothing assumed about it)
			if sp.FloatAbs == "" {
				x.bad(fd, "spec.Prims maxFloat32 needs spec.FloatAbs")
			}
			x.prims[p] = true
			x.env["maxFloat32"] = &xty{k: kOrd, name: sp.FloatAbs}
			primBinders = append(primBinders, fmt.Sprintf("(maxFloat32 : %s)", sp.FloatAbs))
			continue
		}
		if lt, ok := primTypes[p]; ok { // polymorphic library function, used by name
			x.prims[p] = true
			x.poly = x.poly || strings.Contains(lt, "Go.Any α")
			primBinders = append(primBinders, fmt.Sprintf("(%s : %s)", p, lt))
			continue
		}
		// "Name=func(..) .." : a function of the repository that stays abstract
		nt := strings.SplitN(p, "=", 2)
		if len(nt) != 2 {
			x.bad(fd, "spec.Prims entry %q", p)
		}
		te, err := parser.ParseExpr(nt[1])
		if err != nil {
			x.bad(fd, "spec.Prims entry %q: %v", p, err)
		}
		ty := x.goTy(te)
		if ty.k != kFunc {
			x.bad(fd, "spec.Prims entry %q is not a function type", p)
		}
		if rm := strings.SplitN(nt[0], ".", 2); len(rm) == 2 {
			if _, isStruct := x.structs[rm[0]]; isStruct {
				// "Recv.Method=func(..) R": a method of a struct of the spec that stays abstract; called as `v.Method(..)`
				if len(ty.results) != 1 || ty.results[0].k == kErr {
					x.bad(fd, "spec.Prims entry %q: not a one-result method of a struct of the spec", p)
				}
				if x.known == nil {
					x.known = map[string]*xty{}
				}
				x.known[nt[0]] = ty
				full := &xty{k: kFunc, params: append([]*xty{x.structTy(rm[0])}, ty.params...), results: ty.results}
				primBinders = append(primBinders, fmt.Sprintf("(%s_%s : %s)", rm[0], rm[1], full.lean()))
				continue
			}
		}
		pname := nt[0]
		if i := strings.LastIndex(pname, "."); i >= 0 { // a function of another package, called as pkg.Name(..)
			x.pkgPrims[pname] = pname[i+1:]
			pname = pname[i+1:]
		}
		x.declare(fd, pname, ty)
		x.poly = x.poly || ty.mentionsAny()
		primBinders = append(primBinders, fmt.Sprintf("(%s : %s)", ident(pname), ty.lean()))
	}
	for _, p := range fd.Type.Params.List {
		for _, n := range p.Names {
			ty := x.goTy(p.Type)
			if _, isPtr := p.Type.(*ast.StarExpr); isPtr {
				// a fragment that names the pointer parameter among its Results RETURNS the struct it points to: writes
				// through it are what the fragment computes, not a hidden effect on the caller
				returned := false
				if sp.Frag != nil {
					for _, r := range sp.Frag.Results {
						returned = returned || r == n.Name
					}
				}
				if !returned {
					x.ptrParams[n.Name] = true
				}
			}
			if oracle[n.Name] {
				if ty.k != kFunc {
					x.bad(p, "oracle %s is not a function", n.Name)
				}
				cp := *ty
				cp.oracle = true
				ty = &cp
				delete(oracle, n.Name)
			} else if ty.k == kFunc && len(ty.params) == 0 {
				x.bad(p, "callback %s takes no arguments, so it cannot be pure: list it in spec.Oracles", n.Name)
			}
			x.poly = x.poly || ty.mentionsAny()
			addParam(p, n.Name, ty)
		}
	}
	if len(oracle) != 0 {
		x.bad(fd, "spec.Oracles names no parameter: %v", sortedNames(oracle))
	}
	var inits []string
	if fd.Type.Results != nil {
		for _, r := range fd.Type.Results.List {
			ty := x.goTy(r.Type)
			x.poly = x.poly || ty.mentionsAny()
			if len(r.Names) == 0 {
				if x.namedRes != nil {
					x.bad(fd, "named and unnamed results")
				}
				x.results = append(x.results, ty)
				continue
			}
			// named results: local variables that start at their zero value; the function returns the
			// tuple of their values (nothing is dropped on an error: the error is an Option String)
			if len(x.results) != len(x.namedRes) {
				x.bad(fd, "named and unnamed results")
			}
			if ty.k == kErr {
				ty = tErrOpt
			}
			for _, n := range r.Names {
				if n.Name == "_" {
					x.bad(fd, "blank named result")
				}
				x.declare(n, n.Name, ty)
				z := "none"
				if ty.k != kErrOpt {
					z = x.zero(n, ty)
				}
				inits = append(inits, fmt.Sprintf("let %s : %s := %s", ident(n.Name), ty.lean(), z))
				x.results = append(x.results, ty)
				x.namedRes = append(x.namedRes, n.Name)
			}
		}
		for i, r := range x.results {
			if r.k == kErr && i != len(x.results)-1 {
				x.bad(fd, "error result that is not last")
			}
		}
	}
	// state returned beside the results
	asg := map[string]bool{}
	x.assigned(fd.Body.List, map[string]bool{}, asg)
	if x.recv != "" && asg[x.recv] {
		if _, isPtr := fd.Recv.List[0].Type.(*ast.StarExpr); isPtr {
			x.extras = append(x.extras, x.recv)
		}
	}
	// slice / map parameters written in place: the caller sees it, so they are returned too
	for _, n := range x.inPlaceParams(fd) {
		x.extras = append(x.extras, n)
	}
	if sp.Frag != nil {
		// the parameters of a fragment are variables of the enclosing function; what it changes is named in Results
		x.extras = nil
	}
	var oracleNames []string
	for n, ty := range x.env {
		if ty.k == kFunc && ty.oracle {
			oracleNames = append(oracleNames, n)
		}
	}
	sort.Strings(oracleNames)
	for _, n := range oracleNames {
		x.env[n+"_calls"] = tNat
		x.extras = append(x.extras, n+"_calls")
		inits = append(inits, fmt.Sprintf("let %s_calls : Nat := 0", n))
	}
	x.rho = resLean(x.results)
	for _, ex := range x.extras {
		l := x.rho
		if strings.Contains(l, "×") || strings.Contains(l, "→") {
			l = "(" + l + ")"
		}
		x.rho = l + " × " + x.env[ex].lean()
	}
	if len(x.results) == 0 && len(x.extras) > 0 {
		// no results: the returned value is the state alone (also inside the loop definitions)
		x.rho = strings.TrimPrefix(x.rho, "Unit × ")
	}
	x.hasExit = scanCtl(fd.Body.List).fuelLoop
	if x.hasExit {
		x.ctx = xctx{mode: mOut}
	} else {
		x.ctx = xctx{mode: mPlain}
	}
	body := x.block(fd.Body.List, func() string {
		if len(x.results) != 0 {
			x.bad(fd.Body, "control reaches the end of %s", sp.Func)
		}
		v := "()"
		for i, ex := range x.extras {
			if i == 0 {
				v = ident(ex)
			} else {
				v = "(" + v + ", " + ident(ex) + ")"
			}
		}
		return x.ctx.ret(v)
	})
	body = joinLines(strings.Join(inits, "\n"), body)
	rty := x.rho
	if x.hasExit {
		rty = "Go.Out " + parenT(x.rho)
	}
	var pre []string
	if x.needFuel {
		pre = append(pre, "(fuel : Nat)")
	}
	pre = append(pre, primBinders...)
	params = append(pre, params...)
	text := fmt.Sprintf("def %s %s%s : %s :=\n%s\n", x.fname, x.polyBinder(), strings.Join(params, " "), rty, indent(body, 1))
	out = append(out, x.defs...)
	out = append(out, genFunc{name: x.fname, text: text})
	if x.usesKV {
		moduleImports[sp.Module] = append(moduleImports[sp.Module], "SemaModel.Base.KV")
	}
	for _, u := range sp.Uses {
		moduleImports[sp.Module] = append(moduleImports[sp.Module], "SemaModel.Generated."+u.Module)
	}
	if x.usesRtX {
		moduleImports[sp.Module] = append(moduleImports[sp.Module], "SemaModel.Base.GoRtX")
	}
	// callable from functions translated later into the same module, if it is a plain function
	if !x.hasExit && len(x.extras) == 0 && len(pre) == 0 && fd.Recv == nil && x.namedRes == nil && len(x.tparams) == 0 {
		ft := &xty{k: kFunc, results: x.results}
		for _, p := range fd.Type.Params.List {
			for range p.Names {
				ft.params = append(ft.params, x.goTy(p.Type))
			}
		}
		known[sp.Func] = ft
	}
	// a method of a struct value that neither loops, nor changes its receiver, nor fails: callable as `v.M(..)` from
	// functions translated later into the same module (named results without an error are a plain tuple too)
	hasErr := false
	for _, r := range x.results {
		hasErr = hasErr || r.k == kErr || r.k == kErrOpt
	}
	// (type parameters are implicit binders; those of a method are determined by its explicit receiver argument when the
	// receiver's struct mentions all of them)
	recvDetermines := fd.Recv != nil && x.recv != "" && x.env[x.recv] != nil
	if recvDetermines {
		tv := map[string]bool{}
		x.env[x.recv].tvars(tv)
		for _, p := range x.tparams {
			recvDetermines = recvDetermines && tv[p]
		}
	}
	if !x.hasExit && len(x.extras) == 0 && len(pre) == 0 && fd.Recv != nil && sp.Frag == nil && !hasErr && (len(x.tparams) == 0 || recvDetermines) && sp.Name == "" {
		ft := &xty{k: kFunc, results: x.results}
		for _, p := range fd.Type.Params.List {
			for range p.Names {
				ft.params = append(ft.params, x.goTy(p.Type))
			}
		}
		known[sp.Recv+"."+sp.Func] = ft
	}
	return out
}

// the function `func(<Params>) (<types of Results>) { <statements First..Last>; return <Results> }`
func fragmentFunc(fset *token.FileSet, fd *ast.FuncDecl, sp spec) *ast.FuncDecl {
	fr := sp.Frag
	line := func(s ast.Stmt) string {
		var b strings.Builder
		printer.Fprint(&b, fset, s)
		return strings.Join(strings.Fields(strings.SplitN(b.String(), "\n", 2)[0]), " ")
	}
	// hasPrefixAny: the line starts with one of the `|`-separated alternatives
	hasPrefixAny := func(l, alts string) bool {
		for _, a := range strings.Split(alts, "|") {
			if strings.HasPrefix(l, a) {
				return true
			}
		}
		return false
	}
	var found []ast.Stmt
	matches := 0
	if fr.Field != "" {
		// an expression fragment: the initialiser of the field fr.Field in the one composite literal that sets it
		var val ast.Expr
		ast.Inspect(fd.Body, func(n ast.Node) bool {
			if kv, ok := n.(*ast.KeyValueExpr); ok && isIdent(kv.Key, fr.Field) {
				matches++
				val = kv.Value
			}
			return true
		})
		if matches != 1 {
			fail(fset.Position(fd.Pos()), "fragment of %s: %d composite literals set the field %s", sp.Func, matches, fr.Field)
		}
		src := fmt.Sprintf("package p\nfunc f(%s) (%s) { return nil }\n", strings.Join(fr.Params, ", "), fr.FieldType)
		pf, err := parser.ParseFile(fset, "fragment of "+sp.File+":"+sp.Func, src, parser.SkipObjectResolution)
		if err != nil {
			fail(fset.Position(fd.Pos()), "fragment signature: %v", err)
		}
		nf := pf.Decls[0].(*ast.FuncDecl)
		nf.Body.List[0].(*ast.ReturnStmt).Results = []ast.Expr{val}
		return nf
	}
	if fr.Case != "" {
		// the whole body of the one case clause (of a value switch) with this label text
		ast.Inspect(fd.Body, func(n ast.Node) bool {
			cc, ok := n.(*ast.CaseClause)
			if !ok || cc.List == nil {
				return true
			}
			var labels []string
			for _, e := range cc.List {
				var b strings.Builder
				printer.Fprint(&b, fset, e)
				labels = append(labels, b.String())
			}
			if strings.Join(labels, ", ") == fr.Case {
				matches++
				found = cc.Body
			}
			return true
		})
		if matches != 1 || len(found) == 0 {
			fail(fset.Position(fd.Pos()), "fragment of %s: %d non-empty case clauses are labelled %q", sp.Func, matches, fr.Case)
		}
	}
	ast.Inspect(fd.Body, func(n ast.Node) bool {
		b, ok := n.(*ast.BlockStmt)
		if !ok || fr.Case != "" {
			return fr.Case == ""
		}
		for i, s := range b.List {
			if !hasPrefixAny(line(s), fr.First) {
				continue
			}
			if fr.Has != "" {
				var w strings.Builder
				printer.Fprint(&w, fset, s)
				if !strings.Contains(strings.Join(strings.Fields(w.String()), " "), fr.Has) {
					continue
				}
			}
			matches++
			for j := i; j < len(b.List); j++ {
				if hasPrefixAny(line(b.List[j]), fr.Last) {
					found = b.List[i : j+1]
					break
				}
			}
		}
		return true
	})
	if matches != 1 || found == nil {
		fail(fset.Position(fd.Pos()), "fragment of %s: %d statements start with %q, and the run up to %q was %sfound", sp.Func, matches, fr.First, fr.Last, map[bool]string{true: "", false: "not "}[found != nil])
	}
	ptypes := map[string]string{}
	for _, p := range fr.Params {
		nt := strings.SplitN(p, " ", 2)
		if len(nt) != 2 {
			fail(fset.Position(fd.Pos()), "fragment parameter %q", p)
		}
		ptypes[nt[0]] = nt[1]
	}
	isParam := map[string]bool{}
	for n := range ptypes {
		isParam[n] = true
	}
	for _, p := range fr.Locals {
		nt := strings.SplitN(p, " ", 2)
		if len(nt) != 2 || isParam[nt[0]] {
			fail(fset.Position(fd.Pos()), "fragment local %q", p)
		}
		ptypes[nt[0]] = nt[1]
	}
	abstracted := map[string]int{}
	var rts []string
	for _, r := range fr.Results {
		t, ok := ptypes[r]
		if !ok {
			fail(fset.Position(fd.Pos()), "fragment result %s is not one of its parameters", r)
		}
		rts = append(rts, t)
	}
	src := fmt.Sprintf("package p\nfunc f(%s) (%s) { return %s }\n", strings.Join(fr.Params, ", "), strings.Join(rts, ", "), strings.Join(fr.Results, ", "))
	var zeros []string // zero literals of the results, for the error returns of a fragment with ErrLast
	if fr.ErrLast {
		src = fmt.Sprintf("package p\nfunc f(%s) (%s) { return %s }\n", strings.Join(fr.Params, ", "), strings.Join(append(append([]string{}, rts...), "error"), ", "),
			strings.Join(append(append([]string{}, fr.Results...), "nil"), ", "))
		for _, t := range rts {
			switch {
			case strings.HasPrefix(t, "[]"):
				zeros = append(zeros, "nil")
			case t == "bool":
				zeros = append(zeros, "false")
			case t == "int" || t == "int64":
				zeros = append(zeros, "0")
			case t == "string":
				zeros = append(zeros, `""`)
			default:
				fail(fset.Position(fd.Pos()), "fragment with ErrLast: no zero literal for the result type %s", t)
			}
		}
	}
	pf, err := parser.ParseFile(fset, "fragment of "+sp.File+":"+sp.Func, src, parser.SkipObjectResolution)
	if err != nil {
		fail(fset.Position(fd.Pos()), "fragment signature: %v", err)
	}
	nf := pf.Decls[0].(*ast.FuncDecl)
	// a `return` inside the fragment leaves the enclosing function (or closure).  Only the statement text
	// given as EarlyReturn is accepted, and it means: the fragment ends here with the current values of
	// its Results.  Any other return is an error.
	final := nf.Body.List[0].(*ast.ReturnStmt)
	var rewrite func(ss []ast.Stmt) []ast.Stmt
	one := func(s ast.Stmt) ast.Stmt {
		if s == nil {
			return nil
		}
		return rewrite([]ast.Stmt{s})[0]
	}
	blk := func(b *ast.BlockStmt) *ast.BlockStmt {
		if b == nil {
			return nil
		}
		c := *b
		c.List = rewrite(b.List)
		return &c
	}
	rewrite = func(ss []ast.Stmt) []ast.Stmt {
		out := make([]ast.Stmt, 0, len(ss))
		for _, s := range ss {
			switch t := s.(type) {
			case *ast.ReturnStmt:
				if n := len(t.Results); fr.ErrLast && n >= 1 && !isIdent(t.Results[n-1], "nil") {
					// the enclosing function returns an error here: so does the fragment (zero values beside it)
					var rs []ast.Expr
					for _, z := range zeros {
						ze, err := parser.ParseExpr(z)
						if err != nil {
							fail(fset.Position(t.Pos()), "internal: zero literal %s", z)
						}
						rs = append(rs, ze)
					}
					out = append(out, &ast.ReturnStmt{Return: t.Return, Results: append(rs, t.Results[n-1])})
					continue
				}
				if fr.EarlyReturn == "" || line(t) != fr.EarlyReturn {
					fail(fset.Position(t.Pos()), "return inside the fragment of %s (fragSpec.EarlyReturn is %q)", sp.Func, fr.EarlyReturn)
				}
				out = append(out, &ast.ReturnStmt{Return: t.Return, Results: final.Results})
			case *ast.AssignStmt:
				skip := false
				for _, a := range fr.Abstract {
					if line(t) == a {
						// not translated: what it defines are parameters of the fragment
						if t.Tok != token.DEFINE {
							fail(fset.Position(t.Pos()), "abstracted statement %q is not a definition", a)
						}
						for _, l := range t.Lhs {
							id, ok := l.(*ast.Ident)
							if !ok || id.Name != "_" && !isParam[id.Name] {
								fail(fset.Position(t.Pos()), "abstracted statement %q defines something that is not a parameter of the fragment", a)
							}
						}
						abstracted[a]++
						skip = true
					}
				}
				if !skip {
					out = append(out, s)
				}
			case *ast.BlockStmt:
				out = append(out, blk(t))
			case *ast.IfStmt:
				c := *t
				c.Body = blk(t.Body)
				c.Else = one(t.Else)
				out = append(out, &c)
			case *ast.ForStmt:
				c := *t
				c.Body = blk(t.Body)
				out = append(out, &c)
			case *ast.RangeStmt:
				c := *t
				c.Body = blk(t.Body)
				out = append(out, &c)
			case *ast.SwitchStmt:
				c := *t
				nb := *t.Body
				nb.List = nil
				for _, cl := range t.Body.List {
					cc := *cl.(*ast.CaseClause)
					cc.Body = rewrite(cc.Body)
					nb.List = append(nb.List, &cc)
				}
				c.Body = &nb
				out = append(out, &c)
			case *ast.TypeSwitchStmt, *ast.SelectStmt, *ast.LabeledStmt:
				ast.Inspect(t, func(n ast.Node) bool {
					if r, ok := n.(*ast.ReturnStmt); ok {
						fail(fset.Position(r.Pos()), "return inside a %T of the fragment of %s", t, sp.Func)
					}
					_, isLit := n.(*ast.FuncLit)
					return !isLit
				})
				out = append(out, s)
			default:
				out = append(out, s)
			}
		}
		return out
	}
	nf.Body.List = append(rewrite(found), nf.Body.List...)
	for _, a := range fr.Abstract {
		if abstracted[a] != 1 {
			fail(fset.Position(fd.Pos()), "fragment of %s: the abstracted statement %q occurs %d times in it", sp.Func, a, abstracted[a])
		}
	}
	return nf
}

// parameters of slice / map type whose elements the body writes (in-place sort, element assignment)
func (x *xtr) inPlaceParams(fd *ast.FuncDecl) []string {
	hit, reassigned := map[string]bool{}, map[string]bool{}
	isParam := func(e ast.Expr) (string, bool) {
		id, ok := e.(*ast.Ident)
		if !ok || !x.params[id.Name] {
			return "", false
		}
		k := x.env[id.Name].k
		return id.Name, k == kList || k == kMap
	}
	ast.Inspect(fd.Body, func(n ast.Node) bool {
		switch t := n.(type) {
		case *ast.CallExpr:
			if inPlaceCalls[selName(t.Fun)] && len(t.Args) > 0 {
				if n, ok := isParam(t.Args[0]); ok {
					hit[n] = true
				}
			}
			if se, ok := t.Fun.(*ast.SelectorExpr); ok && (se.Sel.Name == "Put" || se.Sel.Name == "Delete") {
				if id, ok := se.X.(*ast.Ident); ok && x.params[id.Name] && x.env[id.Name].k == kBucket {
					hit[id.Name] = true
				}
			}
		case *ast.AssignStmt:
			for _, l := range t.Lhs {
				if ie, ok := l.(*ast.IndexExpr); ok {
					if n, ok := isParam(ie.X); ok {
						hit[n] = true
					}
				}
				if n, ok := isParam(l); ok && t.Tok != token.DEFINE {
					reassigned[n] = true
				}
			}
		case *ast.IncDecStmt:
			if ie, ok := t.X.(*ast.IndexExpr); ok {
				if n, ok := isParam(ie.X); ok {
					hit[n] = true
				}
			}
		}
		return true
	})
	for n := range hit {
		if reassigned[n] && x.sp.Frag == nil {
			x.bad(fd, "parameter %s is both reassigned and written in place", n)
		}
	}
	return sortedNames(hit)
}

// library functions that stay abstract: they become leading parameters of the translated function
var primTypes = map[string]string{
	"fmtAny":         "Go.Any α → String", // fmt's %v of an interface value
	"sortFunc":       "{α : Type} → List α → (α → α → Int) → List α",
	"sortStableFunc": "{α : Type} → List α → (α → α → Int) → List α",
}

func findConst(x *xtr, f *ast.File, cs constSpec) xval {
	for _, d := range f.Decls {
		gd, ok := d.(*ast.GenDecl)
		if !ok || (gd.Tok != token.VAR && gd.Tok != token.CONST) {
			continue
		}
		for _, sp := range gd.Specs {
			vs := sp.(*ast.ValueSpec)
			for i, n := range vs.Names {
				if n.Name != cs.Name || i >= len(vs.Values) {
					continue
				}
				v := x.expr(vs.Values[i])
				if gd.Tok == token.VAR && v.ty.k != kErr && !(v.ty.k == kList && v.ty.elem.k == kByte) {
					x.bad(vs, "package variable %s is neither errors.New(..) nor []byte(\"..\") (assumed never reassigned)", cs.Name)
				}
				return v
			}
		}
	}
	fail(token.Position{Filename: cs.File}, "constant %s not found", cs.Name)
	return xval{}
}

func makeLoader(fset *token.FileSet, repo string, cache map[string]*ast.File) fileLoader {
	return func(rel string) *ast.File {
		if f, ok := cache[rel]; ok {
			return f
		}
		f, err := parser.ParseFile(fset, filepath.Join(repo, rel), nil, 0)
		if err != nil {
			fail(token.Position{Filename: rel}, "%v", err)
		}
		prepareFile(fset, f)
		cache[rel] = f
		return f
	}
}
