package main

import (
	"fmt"
	"go/ast"
	"go/printer"
	"go/token"
	"strings"
)

// ---------------------------------------------------------------------------------------------
// analyses

// base variable of an assignable expression: v | v.f | v[i] | v[i].f ...
func lvalueBase(e ast.Expr) string {
	switch t := e.(type) {
	case *ast.Ident:
		return t.Name
	case *ast.SelectorExpr:
		return lvalueBase(t.X)
	case *ast.IndexExpr:
		return lvalueBase(t.X)
	case *ast.ParenExpr:
		return lvalueBase(t.X)
	case *ast.StarExpr:
		return lvalueBase(t.X)
	case *ast.SliceExpr: // the destination of copy(v[lo:hi], ..)
		return lvalueBase(t.X)
	}
	return ""
}

// calls that assign their first argument in place
var inPlaceCalls = map[string]bool{"slices.SortFunc": true, "slices.SortStableFunc": true, "copy": true}

// variables assigned by stmts that are declared outside them (out); `declared` = declared so far inside
func (x *xtr) assigned(stmts []ast.Stmt, declared, out map[string]bool) {
	mark := func(name string) {
		if name != "" && name != "_" && !declared[name] {
			out[name] = true
		}
	}
	for _, s := range stmts {
		// every call of an effectful callback advances its counter
		ast.Inspect(s, func(n ast.Node) bool {
			if c, ok := n.(*ast.CallExpr); ok {
				if id, ok := c.Fun.(*ast.Ident); ok {
					if ft, ok := x.env[id.Name]; ok && ft.k == kFunc && ft.oracle {
						out[id.Name+"_calls"] = true
					}
				}
				if inPlaceCalls[selName(c.Fun)] && len(c.Args) > 0 {
					mark(lvalueBase(c.Args[0]))
				}
				// a mutating method of an opaque value held in a struct field changes the struct
				if se, ok := c.Fun.(*ast.SelectorExpr); ok && x.mutMethodName(se.Sel.Name) {
					mark(lvalueBase(se.X))
				}
			}
			return true
		})
		switch t := s.(type) {
		case *ast.AssignStmt:
			for _, l := range t.Lhs {
				if id, ok := l.(*ast.Ident); ok && t.Tok == token.DEFINE {
					declared[id.Name] = true
					continue
				}
				mark(lvalueBase(l))
				if id, ok := l.(*ast.Ident); ok {
					mark(x.capVars[id.Name]) // an append to the slice also sets its capacity variable
				}
			}
		case *ast.IncDecStmt:
			mark(lvalueBase(t.X))
		case *ast.DeclStmt:
			if gd, ok := t.Decl.(*ast.GenDecl); ok {
				for _, sp := range gd.Specs {
					if vs, ok := sp.(*ast.ValueSpec); ok {
						for _, n := range vs.Names {
							declared[n.Name] = true
						}
					}
				}
			}
		case *ast.IfStmt:
			d := copySet(declared)
			if t.Init != nil {
				x.assigned([]ast.Stmt{t.Init}, d, out)
			}
			x.assigned(t.Body.List, copySet(d), out)
			if t.Else != nil {
				x.assigned([]ast.Stmt{t.Else}, copySet(d), out)
			}
		case *ast.BlockStmt:
			x.assigned(t.List, copySet(declared), out)
		case *ast.ForStmt:
			d := copySet(declared)
			if t.Init != nil {
				x.assigned([]ast.Stmt{t.Init}, d, out)
			}
			x.assigned(t.Body.List, copySet(d), out)
			if t.Post != nil {
				x.assigned([]ast.Stmt{t.Post}, copySet(d), out)
			}
		case *ast.RangeStmt:
			d := copySet(declared)
			for _, kv := range []ast.Expr{t.Key, t.Value} {
				if id, ok := kv.(*ast.Ident); ok {
					if t.Tok == token.DEFINE {
						d[id.Name] = true
					} else {
						mark(id.Name)
					}
				}
			}
			x.assigned(t.Body.List, d, out)
		case *ast.TypeSwitchStmt:
			for _, cl := range t.Body.List {
				d := copySet(declared)
				if a, ok := t.Assign.(*ast.AssignStmt); ok {
					if id, ok := a.Lhs[0].(*ast.Ident); ok {
						d[id.Name] = true
					}
				}
				x.assigned(cl.(*ast.CaseClause).Body, d, out)
			}
		case *ast.SwitchStmt:
			for _, cl := range t.Body.List {
				x.assigned(cl.(*ast.CaseClause).Body, copySet(declared), out)
			}
		}
	}
}

type ctlInfo struct{ ret, brk, cont, exitLoop, fuelLoop bool }

func (a ctlInfo) or(b ctlInfo) ctlInfo {
	return ctlInfo{a.ret || b.ret, a.brk || b.brk, a.cont || b.cont, a.exitLoop || b.exitLoop, a.fuelLoop || b.fuelLoop}
}

// which control transfers leave the statement list (break / continue: those that target the enclosing loop)
func scanCtl(stmts []ast.Stmt) ctlInfo {
	var r ctlInfo
	for _, s := range stmts {
		switch t := s.(type) {
		case *ast.ReturnStmt:
			r.ret = true
		case *ast.BranchStmt:
			if t.Tok == token.BREAK {
				r.brk = true
			} else {
				r.cont = true // continue; goto / fallthrough are rejected by block
			}
		case *ast.IfStmt:
			r = r.or(scanCtl(t.Body.List))
			if t.Else != nil {
				r = r.or(scanCtl([]ast.Stmt{t.Else}))
			}
		case *ast.BlockStmt:
			r = r.or(scanCtl(t.List))
		case *ast.ForStmt:
			r.exitLoop, r.fuelLoop = true, true
			r.ret = r.ret || scanCtl(t.Body.List).ret
		case *ast.RangeStmt:
			in := scanCtl(t.Body.List)
			if in.ret || in.brk || in.exitLoop {
				r.exitLoop = true
			}
			r.fuelLoop = r.fuelLoop || in.fuelLoop
			r.ret = r.ret || in.ret
		case *ast.TypeSwitchStmt:
			for _, cl := range t.Body.List {
				r = r.or(scanCtl(cl.(*ast.CaseClause).Body))
			}
		case *ast.SwitchStmt:
			for _, cl := range t.Body.List {
				r = r.or(scanCtl(cl.(*ast.CaseClause).Body))
			}
		}
	}
	return r
}

func needsExit(stmts []ast.Stmt) bool { return scanCtl(stmts).exitLoop }
func hasControl(stmts []ast.Stmt) bool {
	c := scanCtl(stmts)
	return c.ret || c.brk || c.cont || c.exitLoop
}

// variables of the environment that the nodes mention
func (x *xtr) references(nodes ...ast.Node) map[string]bool {
	r := map[string]bool{}
	var walk func(n ast.Node) bool
	walk = func(n ast.Node) bool {
		switch t := n.(type) {
		case *ast.SelectorExpr:
			if selName(t) == "math.MaxFloat32" && x.env["maxFloat32"] != nil {
				r["maxFloat32"] = true // the abstract parameter float32(math.MaxFloat32) stands for (spec.Prims)
			}
			for _, m := range x.methods { // the abstract method parameters a call may stand for
				if m.ft != nil && strings.HasSuffix(m.lean, "_"+t.Sel.Name) {
					r[m.lean] = true
				}
			}
			ast.Inspect(t.X, walk)
			return false
		case *ast.CallExpr:
			if isIdent(t.Fun, "append") && x.env["growCap"] != nil {
				r["growCap"] = true
			}
			if isIdent(t.Fun, "cap") && len(t.Args) == 1 {
				if id, ok := t.Args[0].(*ast.Ident); ok && x.capVars[id.Name] != "" {
					r[x.capVars[id.Name]] = true
				}
			}
		case *ast.KeyValueExpr:
			ast.Inspect(t.Value, walk)
			return false
		case *ast.Ident:
			if ty, ok := x.env[t.Name]; ok {
				r[t.Name] = true
				if ty.k == kFunc && ty.oracle {
					r[t.Name+"_calls"] = true
				}
			}
		}
		return true
	}
	for _, n := range nodes {
		if n != nil && !isNilNode(n) {
			ast.Inspect(n, walk)
		}
	}
	return r
}

func isNilNode(n ast.Node) bool {
	switch t := n.(type) {
	case ast.Expr:
		return t == nil
	case ast.Stmt:
		return t == nil
	}
	return false
}

func isIdent(e ast.Expr, name string) bool {
	id, ok := e.(*ast.Ident)
	return ok && id.Name == name
}

// ---------------------------------------------------------------------------------------------
// statements.  Every function returns Lean text at relative indentation 0 without a trailing newline.

func joinLines(parts ...string) string {
	var r []string
	for _, p := range parts {
		if p != "" {
			r = append(r, p)
		}
	}
	return strings.Join(r, "\n")
}

func armBody(s string) string {
	if strings.Contains(s, "match ") || strings.Contains(s, "fun ") {
		return "(" + strings.TrimLeft(indent(s, 1), " ") + ")"
	}
	return s
}

func (x *xtr) block(stmts []ast.Stmt, k func() string) string {
	if len(stmts) == 0 {
		return k()
	}
	s := stmts[0]
	rest := func() string { return x.block(stmts[1:], k) }
	switch t := s.(type) {
	case *ast.ReturnStmt:
		r := x.ctx.ret(x.retValue(t))
		if r == "" {
			x.bad(s, "return is not allowed here")
		}
		return r
	case *ast.BranchStmt:
		if t.Label != nil {
			x.bad(s, "labelled %s", t.Tok)
		}
		switch {
		case t.Tok == token.BREAK && x.ctx.brk != nil:
			return x.ctx.brk()
		case t.Tok == token.CONTINUE && x.ctx.cont != nil:
			return x.ctx.cont()
		}
		x.bad(s, "%s is not allowed here", t.Tok)
	case *ast.DeclStmt:
		gd, ok := t.Decl.(*ast.GenDecl)
		if ok && gd.Tok == token.TYPE {
			// a local type declaration: it must be one of the spec's structs (structSpec.InFunc), already generated
			for _, sp := range gd.Specs {
				ts := sp.(*ast.TypeSpec)
				if _, known := x.structs[ts.Name.Name]; !known {
					x.bad(s, "local type %s is not named in spec.Structs (InFunc)", ts.Name.Name)
				}
			}
			return rest()
		}
		if !ok || gd.Tok != token.VAR {
			x.bad(s, "declaration")
		}
		var lines []string
		for _, sp := range gd.Specs {
			vs := sp.(*ast.ValueSpec)
			if vs.Type == nil || len(vs.Values) > 1 || len(vs.Values) == 1 && len(vs.Names) != 1 {
				x.bad(s, "var declaration form")
			}
			ty := x.goTy(vs.Type)
			for _, n := range vs.Names {
				init := x.zero(s, ty)
				if len(vs.Values) == 1 {
					init = x.co(vs.Values[0], x.expr(vs.Values[0]), ty)
				}
				x.declare(n, n.Name, ty)
				lines = append(lines, fmt.Sprintf("let %s : %s := %s", ident(n.Name), ty.lean(), init))
			}
		}
		return joinLines(strings.Join(lines, "\n"), rest())
	case *ast.AssignStmt:
		if call, ok := x.failingCall(t); ok {
			return x.callIdiom(t, call, stmts[1:], k)
		}
		return joinLines(x.assign(t), rest())
	case *ast.IncDecStmt, *ast.ExprStmt:
		if es, ok := s.(*ast.ExprStmt); ok && x.isLogCall(es) {
			return rest() // a logging call chain (spec.LogCalls): explicitly not translated
		}
		return joinLines(x.simpleStmt(s), rest())
	case *ast.IfStmt:
		return x.ifStmt(t, rest)
	case *ast.ForStmt:
		return x.forStmt(t, rest)
	case *ast.RangeStmt:
		return x.rangeStmt(t, rest)
	case *ast.TypeSwitchStmt:
		return x.typeSwitch(t, rest)
	case *ast.SwitchStmt:
		return x.ifStmt(x.switchToIf(t), rest)
	}
	x.bad(s, "statement %T", s)
	return ""
}

func (x *xtr) simpleStmt(s ast.Stmt) string {
	switch t := s.(type) {
	case *ast.AssignStmt:
		if _, ok := x.failingCall(t); ok {
			x.bad(s, "failing call in a loop header")
		}
		return x.assign(t)
	case *ast.IncDecStmt:
		op := token.ADD_ASSIGN
		if t.Tok == token.DEC {
			op = token.SUB_ASSIGN
		}
		return x.assign(&ast.AssignStmt{Lhs: []ast.Expr{t.X}, Tok: op, TokPos: t.TokPos, Rhs: []ast.Expr{&ast.BasicLit{Kind: token.INT, Value: "1", ValuePos: t.TokPos}}})
	case *ast.ExprStmt:
		c, ok := t.X.(*ast.CallExpr)
		if !ok {
			x.bad(s, "expression statement")
		}
		return x.callStmt(c)
	}
	x.bad(s, "statement %T in this position", s)
	return ""
}

// an expression statement whose text starts with a prefix of spec.LogCalls
func (x *xtr) isLogCall(es *ast.ExprStmt) bool {
	if len(x.sp.LogCalls) == 0 {
		return false
	}
	var b strings.Builder
	printer.Fprint(&b, x.fset, es)
	text := strings.Join(strings.Fields(b.String()), " ")
	for _, p := range x.sp.LogCalls {
		if strings.HasPrefix(text, p) {
			return true
		}
	}
	return false
}

// ---- if

// if err := bucket.Put(k, v); err != nil { … return … }
func (x *xtr) bucketPutIf(t *ast.IfStmt, rest func() string) (string, bool) {
	a, ok := t.Init.(*ast.AssignStmt)
	if !ok || a.Tok != token.DEFINE || len(a.Lhs) != 1 || len(a.Rhs) != 1 || t.Else != nil {
		return "", false
	}
	errId, ok := a.Lhs[0].(*ast.Ident)
	c, ok2 := a.Rhs[0].(*ast.CallExpr)
	if !ok || !ok2 {
		return "", false
	}
	se, ok := c.Fun.(*ast.SelectorExpr)
	if !ok || se.Sel.Name != "Put" || len(c.Args) != 2 {
		return "", false
	}
	b, ok := se.X.(*ast.Ident)
	if !ok || x.env[b.Name] == nil || x.env[b.Name].k != kBucket {
		return "", false
	}
	be, ok := t.Cond.(*ast.BinaryExpr)
	if !ok || be.Op != token.NEQ || !isIdent(be.X, errId.Name) || !isIdent(be.Y, "nil") || len(t.Body.List) == 0 {
		return "", false
	}
	if _, isRet := t.Body.List[len(t.Body.List)-1].(*ast.ReturnStmt); !isRet {
		return "", false
	}
	bt := listOf(tBytex)
	call := fmt.Sprintf("KV.putBolt %s %s %s", ident(b.Name), paren(x.co(c.Args[0], x.expr(c.Args[0]), bt)), paren(x.co(c.Args[1], x.expr(c.Args[1]), bt)))
	saved := x.env
	x.env = copyEnv(saved)
	x.declare(errId, errId.Name, tErr)
	errArm := x.block(t.Body.List, func() string {
		x.bad(t, "control reaches the end of the error branch")
		return ""
	})
	x.env = copyEnv(saved)
	okArm := rest()
	x.env = saved
	return fmt.Sprintf("match %s with\n| .error %s =>\n%s\n| .ok %s =>\n%s", call, ident(errId.Name), indent(armBody(errArm), 1), ident(b.Name), indent(okArm, 1)), true
}

func (x *xtr) ifStmt(t *ast.IfStmt, rest func() string) string {
	if t.Init != nil {
		if s, ok := x.bucketPutIf(t, rest); ok {
			return s
		}
		if a, ok := t.Init.(*ast.AssignStmt); ok && a.Tok == token.DEFINE {
			if _, failing := x.failingCall(a); !failing {
				// `if v, ok := m[k]; ok {..}`: the definition first, then the test; the names are in scope of the `if` only
				saved := x.env
				x.env = copyEnv(saved)
				pre := x.assign(a)
				var names []string
				for _, l := range a.Lhs {
					if id, ok := l.(*ast.Ident); ok {
						names = append(names, id.Name)
					}
				}
				c := *t
				c.Init = nil
				r := joinLines(pre, x.ifStmt(&c, func() string {
					for _, n := range names {
						delete(x.env, n)
					}
					return rest()
				}))
				x.env = saved
				return r
			}
		}
		x.bad(t, "if with an init statement (only `if err := bucket.Put(k, v); err != nil { … return … }` and `if v.. := e; cond`)")
	}
	if pre, ok := x.mutCond(t); ok {
		// `if s.f.M(args) {` with a mutating method M of the opaque field f: the call first, then the test
		c := *t
		c.Cond = &ast.Ident{Name: "c_", NamePos: t.Cond.Pos()}
		saved := x.env
		x.env = copyEnv(saved)
		x.env["c_"] = tBoolx
		r := joinLines(pre, x.ifStmt(&c, func() string { delete(x.env, "c_"); return rest() }))
		x.env = saved
		return r
	}
	cond := x.boolExpr(t.Cond)
	var elseList []ast.Stmt
	if t.Else != nil {
		if b, ok := t.Else.(*ast.BlockStmt); ok {
			elseList = b.List
		} else {
			elseList = []ast.Stmt{t.Else}
		}
	}
	saved := x.env
	if hasControl(t.Body.List) || hasControl(elseList) {
		// control flow: each branch continues with the statements after the `if`
		after := func() string { x.env = copyEnv(saved); return rest() }
		x.env = copyEnv(saved)
		thenS := x.block(t.Body.List, after)
		x.env = copyEnv(saved)
		elseS := x.block(elseList, after)
		x.env = saved
		return fmt.Sprintf("if %s then\n%s\nelse\n%s", cond, indent(thenS, 1), indent(elseS, 1))
	}
	out := map[string]bool{}
	x.assigned(t.Body.List, map[string]bool{}, out)
	x.assigned(elseList, map[string]bool{}, out)
	names := sortedNames(out)
	for _, n := range names {
		if _, ok := x.env[n]; !ok {
			x.bad(t, "assignment to %s, which is not a variable of the function", n)
		}
	}
	tuple := tupleNames(names)
	savedCtx := x.ctx
	x.ctx = xctx{mode: mNone}
	x.env = copyEnv(saved)
	thenS := x.block(t.Body.List, func() string { return tuple })
	x.env = copyEnv(saved)
	elseS := x.block(elseList, func() string { return tuple })
	x.env = saved
	x.ctx = savedCtx
	if len(names) == 0 {
		// nothing is assigned: no effect in the model (both branches were translated, i.e. checked)
		return rest()
	}
	return joinLines(fmt.Sprintf("let %s : %s :=\n  if %s then\n%s\n  else\n%s", tuple, x.tupleType(names), cond, indent(thenS, 2), indent(elseS, 2)), rest())
}

func (x *xtr) mutMethodName(name string) bool {
	for _, m := range x.methods {
		if m.mut && strings.HasSuffix(m.lean, "_"+name) {
			return true
		}
	}
	return false
}

// the condition `v.f.M(args)` where f is an opaque field of the struct variable v and M one of its
// mutating methods (spec.Methods "T.M=mut func(..) bool"): the text that performs the call, binding c_
func (x *xtr) mutCond(t *ast.IfStmt) (string, bool) {
	c, ok := t.Cond.(*ast.CallExpr)
	if !ok {
		return "", false
	}
	se, ok := c.Fun.(*ast.SelectorExpr)
	if !ok || !x.mutMethodName(se.Sel.Name) {
		return "", false
	}
	fe, ok := se.X.(*ast.SelectorExpr)
	if !ok {
		x.bad(c, "mutating method call on something that is not a field of a struct variable")
	}
	id, ok := fe.X.(*ast.Ident)
	if !ok || x.env[id.Name] == nil || x.env[id.Name].k != kStruct {
		x.bad(c, "mutating method call on something that is not a field of a struct variable")
	}
	if x.ptrParams[id.Name] {
		x.bad(c, "mutation through the pointer parameter %s (visible to the caller)", id.Name)
	}
	sty := x.env[id.Name]
	fty := x.structs[sty.name].field(fe.Sel.Name)
	if fty == nil || fty.k != kOpaque {
		x.bad(c, "mutating method call on the field %s, which is not of an opaque type", fe.Sel.Name)
	}
	m, ok := x.methods[fty.name+"."+se.Sel.Name]
	if !ok || !m.mut || len(m.ft.results) != 1 || m.ft.results[0].k != kBool {
		x.bad(c, "%s.%s is not a mutating method with one bool result (spec.Methods)", fty.name, se.Sel.Name)
	}
	call := x.applyFn(c, m.lean+" "+paren(ident(id.Name))+"."+ident(fe.Sel.Name), m.ft)
	return fmt.Sprintf("let (c_, s_) : Bool × %s := %s\nlet %s : %s := { %s with %s := s_ }", fty.lean(), call,
		ident(id.Name), sty.lean(), ident(id.Name), ident(fe.Sel.Name)), true
}

// ---- assignments

func (x *xtr) noteAlias(lhs string, rhs ast.Expr, ty *xty) {
	if ty.k != kList {
		return
	}
	src := rhs
	if se, ok := rhs.(*ast.SliceExpr); ok {
		src = se.X
	}
	if se, ok := src.(*ast.SelectorExpr); ok {
		// b := s.f / b := s.f[i:j]: b and the field share a backing array
		if base := lvalueBase(se); base != "" && x.env[base] != nil {
			x.shared[lhs] = true
			x.shared[exprText(se)] = true
		}
	}
	if id, ok := src.(*ast.Ident); ok && id.Name != lhs {
		if _, isVar := x.env[id.Name]; isVar {
			x.shared[id.Name] = true
			x.shared[lhs] = true
		}
	}
}

var opOfAssign = map[token.Token]token.Token{token.ADD_ASSIGN: token.ADD, token.SUB_ASSIGN: token.SUB, token.MUL_ASSIGN: token.MUL, token.QUO_ASSIGN: token.QUO, token.REM_ASSIGN: token.REM}

func (x *xtr) assign(t *ast.AssignStmt) string {
	if len(t.Lhs) > 1 && len(t.Rhs) == 1 {
		return x.assignTuple(t)
	}
	if len(t.Lhs) != len(t.Rhs) {
		x.bad(t, "assignment arity")
	}
	if len(t.Lhs) > 1 {
		// parallel assignment: all right-hand sides are evaluated first
		if t.Tok != token.DEFINE && t.Tok != token.ASSIGN {
			x.bad(t, "parallel assignment operator")
		}
		allIdents := true
		for _, l := range t.Lhs {
			if _, ok := l.(*ast.Ident); !ok {
				allIdents = false
			}
		}
		if !allIdents {
			return x.parallelStore(t)
		}
		var names, tys, vals []string
		var decl []func()
		for i, l := range t.Lhs {
			id, ok := l.(*ast.Ident)
			if !ok {
				x.bad(l, "parallel assignment to a non-variable")
			}
			v := x.expr(t.Rhs[i])
			var ty *xty
			if t.Tok == token.DEFINE {
				ty = v.ty
				if ty.k == kConst {
					ty = tInt
				}
				if ty.k == kFConst {
					ty = tF64
				}
				name, n := id.Name, l
				decl = append(decl, func() { x.declare(n, name, ty) })
			} else {
				var ok bool
				if ty, ok = x.env[id.Name]; !ok {
					x.bad(l, "assignment to unknown %s", id.Name)
				}
				if _, ok := x.capVars[id.Name]; ok {
					x.bad(l, "assignment to %s, whose capacity is modelled, that is not an append", id.Name)
				}
			}
			names = append(names, id.Name)
			tys = append(tys, parenT(ty.lean()))
			vals = append(vals, x.co(t.Rhs[i], v, ty))
		}
		for _, d := range decl {
			d()
		}
		return fmt.Sprintf("let %s : %s := (%s)", tupleNames(names), strings.Join(tys, " × "), strings.Join(vals, ", "))
	}
	lhs, rhs := t.Lhs[0], t.Rhs[0]
	// value to store, given the current value's type
	value := func(cur func() xval, ty *xty) string {
		if t.Tok == token.ASSIGN || t.Tok == token.DEFINE {
			return x.co(rhs, x.expr(rhs), ty)
		}
		op, ok := opOfAssign[t.Tok]
		if !ok {
			x.bad(t, "assignment operator %s", t.Tok)
		}
		_ = cur
		v := x.binary(&ast.BinaryExpr{X: lhs, Op: op, Y: rhs, OpPos: t.TokPos})
		return x.co(t, v, ty)
	}
	switch l := lhs.(type) {
	case *ast.Ident:
		if t.Tok == token.DEFINE {
			v := x.expr(rhs)
			if v.ty.k == kConst {
				v = xval{s: x.co(rhs, v, tInt), ty: tInt}
			}
			if v.ty.k == kFConst {
				v = xval{s: x.co(rhs, v, tF64), ty: tF64} // Go: an untyped floating-point constant defaults to float64
			}
			if v.ty.k == kNil {
				x.bad(t, "definition from nil")
			}
			x.noteAlias(l.Name, rhs, v.ty)
			x.declare(l, l.Name, v.ty)
			if l.Name == "_" {
				return ""
			}
			return fmt.Sprintf("let %s : %s := %s", ident(l.Name), v.ty.lean(), v.s)
		}
		ty, ok := x.env[l.Name]
		if !ok {
			x.bad(t, "assignment to unknown %s", l.Name)
		}
		if ty.k == kFunc {
			x.bad(t, "assignment to a function variable")
		}
		if cv, ok := x.capVars[l.Name]; ok {
			// the capacity of this slice variable is modelled (spec.CapVars): only `v = append(v, ..)` may assign it
			ap, isCall := rhs.(*ast.CallExpr)
			if !isCall || t.Tok != token.ASSIGN || !isIdent(ap.Fun, "append") || len(ap.Args) < 1 || !isIdent(ap.Args[0], l.Name) {
				x.bad(t, "assignment to %s, whose capacity is modelled, that is not `%s = append(%s, ..)`", l.Name, l.Name, l.Name)
			}
			if x.env["growCap"] == nil || x.env[cv] == nil || x.env[cv].k != kInt {
				x.bad(t, "append to %s needs the parameter growCap (spec.Prims) and the int variable %s", l.Name, cv)
			}
			x.usesRtX = true
			return fmt.Sprintf("let %s : %s := %s\nlet %s : Int := Go.capAppend growCap %s (Go.len %s)", ident(l.Name), ty.lean(), value(nil, ty),
				ident(cv), ident(cv), ident(l.Name))
		}
		x.noteAlias(l.Name, rhs, ty)
		return fmt.Sprintf("let %s : %s := %s", ident(l.Name), ty.lean(), value(nil, ty))
	case *ast.SelectorExpr:
		id, ok := l.X.(*ast.Ident)
		if !ok {
			x.bad(t, "assignment target")
		}
		sty, ok := x.env[id.Name]
		if !ok || sty.k != kStruct {
			x.bad(t, "field assignment on %s", id.Name)
		}
		if x.ptrParams[id.Name] {
			x.bad(t, "assignment through the pointer parameter %s (visible to the caller)", id.Name)
		}
		fty := x.structs[sty.name].field(l.Sel.Name)
		if fty == nil {
			x.bad(t, "field %s of %s is not modelled (spec)", l.Sel.Name, sty.name)
		}
		if x.structs[sty.name].caps[l.Sel.Name] {
			// the capacity of this field is modelled: only `s.f = append(s.f, ..)` may assign it; the
			// capacity stays when the new length fits, else it is whatever the run time chooses (growCap)
			ap, ok := rhs.(*ast.CallExpr)
			if !ok || t.Tok != token.ASSIGN || !isIdent(ap.Fun, "append") || len(ap.Args) < 1 || exprText(ap.Args[0]) != exprText(l) {
				x.bad(t, "assignment to %s.%s, whose capacity is modelled, that is not `%s = append(%s, ..)`", id.Name, l.Sel.Name, exprText(l), exprText(l))
			}
			if x.env["growCap"] == nil {
				x.bad(t, "append to a field with modelled capacity needs the parameter growCap (spec.Prims)")
			}
			x.usesRtX = true
			cp := ident(l.Sel.Name + "_cap")
			return fmt.Sprintf("let %s : %s :=\n  let v_ : %s := %s\n  { %s with %s := v_, %s := Go.capAppend growCap %s.%s (Go.len v_) }", ident(id.Name), sty.lean(), fty.lean(), value(nil, fty),
				ident(id.Name), ident(l.Sel.Name), cp, paren(ident(id.Name)), cp)
		}
		return fmt.Sprintf("let %s : %s := { %s with %s := %s }", ident(id.Name), sty.lean(), ident(id.Name), ident(l.Sel.Name), value(nil, fty))
	case *ast.IndexExpr:
		if fe, ok := l.X.(*ast.SelectorExpr); ok {
			// s.f[i] = v
			return x.storeFieldElem(t, fe, l.Index, func(ety *xty) string { return value(nil, ety) })
		}
		id, ok := l.X.(*ast.Ident)
		if !ok {
			x.bad(t, "assignment target")
		}
		bty, ok := x.env[id.Name]
		if !ok {
			x.bad(t, "assignment to unknown %s", id.Name)
		}
		switch bty.k {
		case kList:
			if x.shared[id.Name] {
				x.bad(t, "element assignment to %s, which may share its backing array with another variable", id.Name)
			}
			i := x.intExpr(l.Index)
			return fmt.Sprintf("let %s : %s := Go.setI %s %s %s", ident(id.Name), bty.lean(), ident(id.Name), paren(i), paren(value(nil, bty.elem)))
		case kMap:
			kk := x.co(l.Index, x.expr(l.Index), bty.key)
			return fmt.Sprintf("let %s : %s := Go.mapSet %s %s %s", ident(id.Name), bty.lean(), ident(id.Name), paren(kk), paren(value(nil, bty.elem)))
		}
	}
	x.bad(t, "assignment target %T", lhs)
	return ""
}

// s.f = <value computed from the current s.f> for a modelled slice field f of the struct variable s (whole-field update:
// the destination of a copy)
func (x *xtr) storeField(n ast.Node, fe *ast.SelectorExpr, value func(cur string, fty *xty) string) string {
	id, ok := fe.X.(*ast.Ident)
	if !ok || x.env[id.Name] == nil || x.env[id.Name].k != kStruct {
		x.bad(n, "field update target")
	}
	if x.ptrParams[id.Name] {
		x.bad(n, "assignment through the pointer parameter %s (visible to the caller)", id.Name)
	}
	sty := x.env[id.Name]
	fty := x.structs[sty.name].field(fe.Sel.Name)
	if fty == nil || fty.k != kList {
		x.bad(n, "update of the field %s of %s, which is not a modelled slice", fe.Sel.Name, sty.name)
	}
	if x.structs[sty.name].caps[fe.Sel.Name] {
		x.bad(n, "update of %s.%s, whose capacity is modelled", id.Name, fe.Sel.Name)
	}
	if x.shared[exprText(fe)] {
		x.bad(n, "update of %s, which may share its backing array with another variable", exprText(fe))
	}
	cur := paren(ident(id.Name)) + "." + ident(fe.Sel.Name)
	return fmt.Sprintf("let %s : %s := { %s with %s := %s }", ident(id.Name), sty.lean(), ident(id.Name), ident(fe.Sel.Name), value(cur, fty))
}

// s.f[i] = v for a slice field f of the struct variable s
func (x *xtr) storeFieldElem(n ast.Node, fe *ast.SelectorExpr, index ast.Expr, value func(ety *xty) string) string {
	id, ok := fe.X.(*ast.Ident)
	if !ok || x.env[id.Name] == nil || x.env[id.Name].k != kStruct {
		x.bad(n, "element assignment target")
	}
	if x.ptrParams[id.Name] {
		x.bad(n, "assignment through the pointer parameter %s (visible to the caller)", id.Name)
	}
	sty := x.env[id.Name]
	fty := x.structs[sty.name].field(fe.Sel.Name)
	if fty == nil || fty.k != kList {
		x.bad(n, "element assignment to the field %s of %s, which is not a modelled slice", fe.Sel.Name, sty.name)
	}
	if x.shared[exprText(fe)] {
		x.bad(n, "element assignment to %s, which may share its backing array with another variable", exprText(fe))
	}
	i := x.intExpr(index)
	return fmt.Sprintf("let %s : %s := { %s with %s := Go.setI %s.%s %s %s }", ident(id.Name), sty.lean(), ident(id.Name), ident(fe.Sel.Name),
		paren(ident(id.Name)), ident(fe.Sel.Name), paren(i), paren(value(fty.elem)))
}

// a[i], b[j] = e1, e2 (targets: variables, elements of slice variables, elements of slice fields):
// all right-hand sides (and, in Go, the index operands) are evaluated first, then the stores run left to right
func (x *xtr) parallelStore(t *ast.AssignStmt) string {
	if t.Tok != token.ASSIGN {
		x.bad(t, "parallel assignment operator")
	}
	bases := map[string]bool{}
	for _, l := range t.Lhs {
		bases[lvalueBase(l)] = true
	}
	var tmps, tys, vals []string
	var etys []*xty
	for i, l := range t.Lhs {
		var ety *xty
		switch lt := l.(type) {
		case *ast.Ident:
			if _, ok := x.capVars[lt.Name]; ok {
				x.bad(l, "assignment to %s, whose capacity is modelled, that is not an append", lt.Name)
			}
			ety = x.env[lt.Name]
		case *ast.IndexExpr:
			for b := range bases {
				if b != "" && x.mentions(lt.Index, b) {
					x.bad(l, "an index operand of a parallel assignment mentions the assigned variable %s", b)
				}
			}
			if b := x.expr(lt.X); b.ty.k == kList {
				ety = b.ty.elem
			}
		}
		if ety == nil {
			x.bad(l, "parallel assignment target")
		}
		etys = append(etys, ety)
		tmps = append(tmps, fmt.Sprintf("t%d_", i))
		tys = append(tys, parenT(ety.lean()))
		vals = append(vals, x.co(t.Rhs[i], x.expr(t.Rhs[i]), ety))
	}
	lines := []string{fmt.Sprintf("let (%s) : %s := (%s)", strings.Join(tmps, ", "), strings.Join(tys, " × "), strings.Join(vals, ", "))}
	for i, l := range t.Lhs {
		tmp := tmps[i]
		switch lt := l.(type) {
		case *ast.Ident:
			lines = append(lines, fmt.Sprintf("let %s : %s := %s", ident(lt.Name), etys[i].lean(), tmp))
		case *ast.IndexExpr:
			if fe, ok := lt.X.(*ast.SelectorExpr); ok {
				lines = append(lines, x.storeFieldElem(t, fe, lt.Index, func(*xty) string { return tmp }))
				continue
			}
			id, ok := lt.X.(*ast.Ident)
			if !ok || x.env[id.Name] == nil || x.env[id.Name].k != kList {
				x.bad(l, "parallel assignment target")
			}
			if x.shared[id.Name] {
				x.bad(t, "element assignment to %s, which may share its backing array with another variable", id.Name)
			}
			lines = append(lines, fmt.Sprintf("let %s : %s := Go.setI %s %s %s", ident(id.Name), x.env[id.Name].lean(), ident(id.Name), paren(x.intExpr(lt.Index)), tmp))
		}
	}
	return strings.Join(lines, "\n")
}

// a, b := <one expression with two results>
func (x *xtr) assignTuple(t *ast.AssignStmt) string {
	if t.Tok != token.DEFINE && t.Tok != token.ASSIGN {
		x.bad(t, "assignment operator")
	}
	var rtys []*xty
	var rs string
	switch r := t.Rhs[0].(type) {
	case *ast.TypeAssertExpr: // p, ok := v.(T) on a value of an opaque (interface) type: the abstract function of spec.Asserts
		v := x.expr(r.X)
		a, ok := x.asserts[exprText(r.Type)]
		if v.ty.k != kOpaque || !ok || len(t.Lhs) != 2 || r.Type == nil {
			x.bad(t, "type assertion (only the comma-ok form on an opaque value, with the target type listed in spec.Asserts)")
		}
		nv := strings.SplitN(a, "=", 2)
		if nv[1] != v.ty.name {
			x.bad(t, "type assertion on a value of type %s, spec.Asserts says %s", v.ty.name, nv[1])
		}
		tt := x.goTy(r.Type)
		rtys = []*xty{tt, tBoolx}
		rs = fmt.Sprintf("(match %s %s with | some v_ => (v_, true) | none => (%s, false))", nv[0], paren(v.s), x.zero(t, tt))
	case *ast.IndexExpr: // v, ok := m[k]
		m := x.expr(r.X)
		if m.ty.k != kMap || len(t.Lhs) != 2 {
			x.bad(t, "comma-ok form on %s", m.ty.lean())
		}
		kk := x.co(r.Index, x.expr(r.Index), m.ty.key)
		rtys = []*xty{m.ty.elem, tBoolx}
		rs = fmt.Sprintf("(match Go.mapGet? %s %s with | some v_ => (v_, true) | none => (%s, false))", paren(m.s), paren(kk), x.zero(t, m.ty.elem))
	case *ast.CallExpr:
		if id, ok := r.Fun.(*ast.Ident); ok {
			if ft, ok := x.env[id.Name]; ok && ft.k == kFunc && !ft.oracle {
				rtys = ft.results
				rs = x.applyFn(r, ident(id.Name), ft)
				break
			}
		}
		if ft, ok := x.known[selName(r.Fun)]; ok {
			rtys = ft.results
			rs = x.applyFn(r, selName(r.Fun), ft)
			break
		}
		if fn, ft, ok := x.knownMethod(r); ok {
			rtys = ft.results
			rs = x.applyFn(r, fn, ft)
			break
		}
		var ok bool
		if rs, rtys, ok = x.callLibTuple(r); !ok {
			x.bad(t, "call %s with several results", selName(r.Fun))
		}
	default:
		x.bad(t, "assignment of several results from %T", r)
	}
	if len(rtys) != len(t.Lhs) {
		x.bad(t, "assignment arity")
	}
	var names []string
	for i, l := range t.Lhs {
		id, ok := l.(*ast.Ident)
		if !ok {
			x.bad(l, "assignment of several results to a non-variable")
		}
		if id.Name == "_" {
			names = append(names, "_")
			continue
		}
		if _, ok := x.capVars[id.Name]; ok {
			x.bad(l, "assignment to %s, whose capacity is modelled, that is not an append", id.Name)
		}
		if t.Tok == token.DEFINE {
			if _, exists := x.env[id.Name]; !exists {
				x.declare(l, id.Name, rtys[i])
			}
		}
		ty, ok := x.env[id.Name]
		if !ok || !sameTy(ty, rtys[i]) {
			x.bad(l, "result %d assigned to %s of another type", i, id.Name)
		}
		names = append(names, ident(id.Name))
	}
	return fmt.Sprintf("let (%s) := %s", strings.Join(names, ", "), rs)
}

// ---- v, err := f(..) followed by if err != nil { … return … }

func (x *xtr) failingCall(t *ast.AssignStmt) (*ast.CallExpr, bool) {
	if len(t.Rhs) != 1 {
		return nil, false
	}
	c, ok := t.Rhs[0].(*ast.CallExpr)
	if !ok {
		return nil, false
	}
	id, ok := c.Fun.(*ast.Ident)
	if !ok {
		return nil, false
	}
	ft, ok := x.env[id.Name]
	if !ok || ft.k != kFunc {
		return nil, false
	}
	if ft.oracle || len(ft.results) > 0 && ft.results[len(ft.results)-1].k == kErr {
		return c, true
	}
	return nil, false
}

// `switch { case c1: … case c2, c3: … default: … }` (no tag, no init) is the chain
// `if c1 {…} else if c2 || c3 {…} else {…}`; `break` / `fallthrough` inside are rejected
func (x *xtr) switchToIf(t *ast.SwitchStmt) *ast.IfStmt {
	if t.Init != nil || t.Tag != nil {
		x.bad(t, "switch with a tag or an init statement (only `switch { case cond: … }`)")
	}
	var deflt *ast.CaseClause
	var cases []*ast.CaseClause
	for _, cl := range t.Body.List {
		cc := cl.(*ast.CaseClause)
		ast.Inspect(cc, func(n ast.Node) bool {
			if b, ok := n.(*ast.BranchStmt); ok && (b.Tok == token.BREAK || b.Tok == token.FALLTHROUGH || b.Tok == token.GOTO) {
				x.bad(b, "%s inside a switch", b.Tok)
			}
			return true
		})
		if cc.List == nil {
			if deflt != nil {
				x.bad(cc, "two default clauses")
			}
			deflt = cc
			continue
		}
		cases = append(cases, cc)
	}
	if len(cases) == 0 {
		x.bad(t, "switch without a case")
	}
	var els ast.Stmt
	if deflt != nil {
		els = &ast.BlockStmt{Lbrace: deflt.Pos(), List: deflt.Body}
	}
	for i := len(cases) - 1; i >= 0; i-- {
		cc := cases[i]
		cond := cc.List[0]
		for _, c := range cc.List[1:] {
			cond = &ast.BinaryExpr{X: cond, Op: token.LOR, OpPos: c.Pos(), Y: c}
		}
		els = &ast.IfStmt{If: cc.Pos(), Cond: cond, Body: &ast.BlockStmt{Lbrace: cc.Pos(), List: cc.Body}, Else: els}
	}
	return els.(*ast.IfStmt)
}

// `v.., err = f(..)` where err is a named error result: every variable is assigned; a failing call
// leaves the zero value beside its error (the convention `Except` already assumes of `(T, error)`)
func (x *xtr) callAssign(t *ast.AssignStmt, c *ast.CallExpr) string {
	fn := c.Fun.(*ast.Ident).Name
	ft := x.env[fn]
	n := len(ft.results)
	if ft.oracle || n == 0 || ft.results[n-1].k != kErr {
		x.bad(t, "assignment from the effectful callback %s (only `v, err := f(..)`)", fn)
	}
	if len(t.Lhs) != n {
		x.bad(t, "assignment arity")
	}
	var names, tys, oks, zeros []string
	for i, l := range t.Lhs {
		id, ok := l.(*ast.Ident)
		if !ok {
			x.bad(l, "result assigned to a non-variable")
		}
		if i == n-1 {
			if ty, ok := x.env[id.Name]; !ok || ty.k != kErrOpt {
				x.bad(l, "the error of %s may be assigned (`=`) only to a named error result", fn)
			}
			names, tys = append(names, id.Name), append(tys, tErrOpt.lean())
			break
		}
		if id.Name == "_" {
			x.bad(l, "a result of %s is dropped", fn)
		}
		ty, ok := x.env[id.Name]
		if !ok || !sameTy(ty, ft.results[i]) {
			x.bad(l, "result %d assigned to %s of another type", i, id.Name)
		}
		names, tys = append(names, id.Name), append(tys, parenT(ty.lean()))
		oks, zeros = append(oks, fmt.Sprintf("v%d_", i)), append(zeros, x.zero(l, ty))
	}
	okPat := "_"
	if len(oks) == 1 {
		okPat = oks[0]
	} else if len(oks) > 1 {
		okPat = "(" + strings.Join(oks, ", ") + ")"
	}
	tup := func(vals []string, e string) string {
		if len(vals) == 0 {
			return e
		}
		return "(" + strings.Join(append(append([]string{}, vals...), e), ", ") + ")"
	}
	return fmt.Sprintf("let %s : %s :=\n  match %s with\n  | .ok %s => %s\n  | .error e_ => %s", tupleNames(names), strings.Join(tys, " × "),
		x.applyFn(c, ident(fn), ft), okPat, tup(oks, "none"), tup(zeros, "some e_"))
}

func (x *xtr) callIdiom(t *ast.AssignStmt, c *ast.CallExpr, after []ast.Stmt, k func() string) string {
	fn := c.Fun.(*ast.Ident).Name
	ft := x.env[fn]
	if t.Tok == token.ASSIGN {
		return joinLines(x.callAssign(t, c), x.block(after, k))
	}
	n := len(ft.results)
	if n == 0 || ft.results[n-1].k != kErr {
		x.bad(t, "effectful callback %s without an error result", fn)
	}
	if t.Tok != token.DEFINE || len(t.Lhs) != n {
		x.bad(t, "a failing call must be of the form `v, err := f(..)`")
	}
	errId, ok := t.Lhs[n-1].(*ast.Ident)
	if !ok || errId.Name == "_" {
		x.bad(t, "the error of %s is dropped", fn)
	}
	if len(after) == 0 {
		x.bad(t, "a failing call must be followed by `if %s != nil { … return … }`", errId.Name)
	}
	ifs, ok := after[0].(*ast.IfStmt)
	okForm := ok && ifs.Init == nil && ifs.Else == nil && len(ifs.Body.List) > 0
	if okForm {
		be, ok := ifs.Cond.(*ast.BinaryExpr)
		okForm = ok && be.Op == token.NEQ && isIdent(be.X, errId.Name) && isIdent(be.Y, "nil")
		_, isRet := ifs.Body.List[len(ifs.Body.List)-1].(*ast.ReturnStmt)
		okForm = okForm && isRet
	}
	if !okForm {
		x.bad(t, "a failing call must be followed by `if %s != nil { … return … }` without else", errId.Name)
	}
	for _, s := range after[1:] {
		if x.mentions(s, errId.Name) {
			x.bad(s, "%s is used after its nil test", errId.Name)
		}
	}
	// the call
	var callS string
	var bump string
	if ft.oracle {
		if len(c.Args) != len(ft.params) {
			x.bad(c, "call arity")
		}
		parts := []string{ident(fn), fn + "_calls"}
		for i, a := range c.Args {
			parts = append(parts, paren(x.co(a, x.expr(a), ft.params[i])))
		}
		callS = strings.Join(parts, " ")
		bump = fmt.Sprintf("let %s_calls : Nat := %s_calls + 1", fn, fn)
	} else {
		callS = x.applyFn(c, ident(fn), ft)
	}
	saved := x.env
	// error arm
	x.env = copyEnv(saved)
	x.declare(errId, errId.Name, tErr)
	errArm := joinLines(bump, x.block(ifs.Body.List, func() string {
		x.bad(ifs, "control reaches the end of the error branch")
		return ""
	}))
	// success arm
	x.env = copyEnv(saved)
	var pats []string
	for i, l := range t.Lhs[:n-1] {
		id, ok := l.(*ast.Ident)
		if !ok {
			x.bad(l, "result assigned to a non-variable")
		}
		x.declare(l, id.Name, ft.results[i])
		if id.Name == "_" {
			pats = append(pats, "_")
		} else {
			pats = append(pats, ident(id.Name))
		}
	}
	pat := "()"
	if len(pats) == 1 {
		pat = pats[0]
	} else if len(pats) > 1 {
		pat = "(" + strings.Join(pats, ", ") + ")"
	}
	if len(pats) == 0 {
		pat = "_"
	}
	okArm := joinLines(bump, x.block(after[1:], k))
	x.env = saved
	return fmt.Sprintf("match %s with\n| .error %s =>\n%s\n| .ok %s =>\n%s", callS, ident(errId.Name), indent(armBody(errArm), 1), pat, indent(okArm, 1))
}

func (x *xtr) mentions(n ast.Node, name string) bool {
	found := false
	ast.Inspect(n, func(m ast.Node) bool {
		if id, ok := m.(*ast.Ident); ok && id.Name == name {
			found = true
		}
		return !found
	})
	return found
}

// ---- return

func isZeroLit(e ast.Expr) bool {
	switch t := e.(type) {
	case *ast.Ident:
		return t.Name == "nil" || t.Name == "false"
	case *ast.BasicLit:
		return t.Value == "0" || t.Value == `""`
	case *ast.CompositeLit:
		return len(t.Elts) == 0
	}
	return false
}

func (x *xtr) retValue(s *ast.ReturnStmt) string {
	rs := x.results
	if x.namedRes != nil && len(s.Results) == 0 {
		// bare return: the current values of the named results
		v := tupleNames(x.namedRes)
		for _, ex := range x.extras {
			v = "(" + v + ", " + ident(ex) + ")"
		}
		return v
	}
	if len(s.Results) != len(rs) {
		x.bad(s, "return with %d values, want %d (named results are not supported)", len(s.Results), len(rs))
	}
	tuple := func(es []ast.Expr, tys []*xty) string {
		var parts []string
		for i, e := range es {
			parts = append(parts, x.co(e, x.expr(e), tys[i]))
		}
		switch len(parts) {
		case 0:
			return "()"
		case 1:
			return parts[0]
		}
		return "(" + strings.Join(parts, ", ") + ")"
	}
	var v string
	if n := len(rs); n > 0 && rs[n-1].k == kErr {
		last := s.Results[n-1]
		if isIdent(last, "nil") {
			v = "Except.ok " + paren(tuple(s.Results[:n-1], rs[:n-1]))
		} else {
			for _, e := range s.Results[:n-1] {
				if !isZeroLit(e) {
					x.bad(e, "a value is returned together with an error")
				}
			}
			e := x.expr(last)
			if e.ty.k != kErr {
				x.bad(last, "error result of type %s", e.ty.lean())
			}
			v = "Except.error " + paren(e.s)
		}
	} else {
		v = tuple(s.Results, rs)
	}
	for i, ex := range x.extras {
		if i == 0 && len(rs) == 0 {
			v = ident(ex) // no results: the returned value is the state alone
			continue
		}
		v = "(" + v + ", " + ident(ex) + ")"
	}
	return v
}
