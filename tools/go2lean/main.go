// go2lean: a deliberately tiny translator from a restricted, pure subset of Go to Lean 4
// definitions over BitVec / List (T1 of DESIGN.md). It reads the *working tree* of the repository
// and writes SemaModel/Generated/*.lean. Anything outside the subset is a hard error: the
// translator never guesses.
//
// usage: go2lean -repo /repo -out /verif/lean/SemaModel/Generated
package main

import (
	"flag"
	"fmt"
	"go/ast"
	"go/parser"
	"go/printer"
	"go/token"
	"os"
	"path/filepath"
	"sort"
	"strconv"
	"strings"
)

type Ty string

const (
	TU64   Ty = "BitVec 64"       // uint64 and int64 (ops chosen by signedness flag)
	TI64   Ty = "BitVec 64 /-i-/" // int64
	TU32   Ty = "BitVec 32"
	TF64   Ty = "BitVec 64 /-f-/" // float64 bit pattern
	TF32   Ty = "BitVec 32 /-f-/" // float32 bit pattern
	TByte  Ty = "Byte"
	TInt   Ty = "Nat"
	TBool  Ty = "Bool"
	TBytes Ty = "Bytes"
	TU64s  Ty = "List (BitVec 64)"
	TF32s  Ty = "List (BitVec 32)"
	TFX    Ty = "Go.FExpr" // symbolic float32 expression (float arithmetic is not interpreted)
	TConst Ty = "<untyped const>"
	TNil   Ty = "<nil>"
)

func leanTy(t Ty) string {
	switch t {
	case TI64, TF64:
		return "BitVec 64"
	case TF32:
		return "BitVec 32"
	}
	return string(t)
}

type spec struct {
	File     string   // path relative to repo
	Func     string   // function or method name
	Recv     string   // receiver type name for methods ("" for functions)
	Module   string   // generated module (file) name
	Fields   []string // receiver fields used, turned into leading parameters: "name:type"
	OutPtr   string   // name of a pointer out-parameter (its pointee is the result)
	FloatSym bool     // float32 results are symbolic float expressions (Go.FExpr)
	// the extended subset (ext.go)
	Ext      bool         // translate with the extended translator
	Structs  []structSpec // struct types the function uses
	Oracles  []string     // function-typed parameters that are effectful callbacks
	Consts   []constSpec  // package-level constants / error values the function mentions
	Prims    []string     // library functions kept abstract as leading parameters (sortFunc)
	WrapInt  bool         // int / int64 `+ - *` wrap at 64 bits (Go.wrap64) instead of assuming no overflow
	Frag     *fragSpec    // translate a run of statements of the function as a function of its own
	Name     string       // Lean name (default: the Go name, Recv_Func for methods)
	Uses     []useSpec    // functions of other generated modules it calls
	Opaque   []string     // "GoType=LeanName": types whose values are only passed on; each is a Lean type parameter
	Methods  []string     // "LeanName.Method=[mut ]func(..) R": abstract methods of opaque types (mut: returns (R, new value))
	FloatAbs string       // float32 is this Lean type parameter with a decidable `<` (only < and > are translated)
	FloatLE  bool         // … and a decidable `≤` (<= and >= are translated too)
	CapVars  []string     // "v=c": cap(v) of the slice variable v is the int variable c; `v = append(v, ..)` updates c
	Asserts  []string     // "name=Opaque:GoType": the comma-ok type assertion `p, ok := v.(GoType)` on a value of the opaque type is the abstract function name : Opaque → Option T
	LogCalls []string     // expression statements whose text starts with one of these prefixes are logging call chains: EXPLICITLY not translated (no result is used)
	// Bind: "canonical=name". The names a spec uses for LOCAL variables of the Go function (fragment parameters, results,
	// the text of First / Last / Abstract, CapVars …) are attached to the variables by POSITION, not by how the working
	// tree spells them: before anything else the variable whose canonical name (astnorm_gen.go: v<k> = k-th declaration of
	// the function, a<k> = k-th declaration inside a function literal; `go2lean -canon file.go:Func` prints a function
	// that way) is `canonical` is renamed to `name` throughout the function. A maintainer's renaming of such a local
	// therefore yields the identical Lean text. (Where the tree already uses `name` this is a no-op.)
	Bind []string
}

// a fragment: the consecutive statements of one block from the one whose text starts with First to
// the one whose text starts with Last; the variables it reads become parameters, Results are returned
type fragSpec struct {
	First, Last string   // several accepted spellings of the same statement are separated by `|` (e.g. "x := |var x T")
	Params      []string // "name type" in Go syntax
	Results     []string // names of parameters / variables returned, in order
	EarlyReturn string   // text of the return statements inside the fragment that mean "the fragment ends here"
	Case        string   // instead of First/Last: the whole body of the case clause with this label text
	ErrLast     bool     // the fragment can fail: a `return .., err` inside (err not nil) is its error result
	Locals      []string // "name type": variables the fragment itself declares that may be named in Results
	Abstract    []string // statements `v.. := call` (full first-line text) that are NOT translated: the variables they
	// define are parameters of the fragment, standing for the values they have after the statement
	Field     string // instead of First/Last: the fragment is the EXPRESSION that initialises the field with this
	FieldType string // name in the one composite literal of the function that sets it; its Go type is FieldType
	Has       string // the WHOLE text of the First statement (all its lines, blanks squeezed) must contain this: tells apart
	// statements with the same first line (two `for j := 0; ..` loops of one block); still exactly one match required
}

var specs = []spec{
	{File: "shard/index/inverted/sortable.go", Func: "toByteSortable", Module: "Sortable"},
	{File: "shard/index/inverted/sortable.go", Func: "fromByteSortable", Module: "Sortable", OutPtr: "v"},
	{File: "conversion/keys.go", Func: "NodeKey", Module: "Keys"},
	{File: "conversion/keys.go", Func: "NodeIdFromKey", Module: "Keys"},
	{File: "shard/pointstore/pointstore.go", Func: "PointKey", Module: "Keys"},
	{File: "shard/index/text/text.go", Func: "documentKey", Module: "Keys"},
	{File: "shard/index/text/text.go", Func: "termKey", Module: "Keys"},
	{File: "shard/index/text/text.go", Func: "IdFromKey", Recv: "docCacheItem", Module: "Keys"},
	{File: "shard/index/text/text.go", Func: "IdFromKey", Recv: "setCacheItem", Module: "Keys"},
	{File: "conversion/conversion.go", Func: "Uint64ToBytes", Module: "Conversion"},
	{File: "conversion/conversion.go", Func: "BytesToUint64", Module: "Conversion"},
	{File: "conversion/conversion.go", Func: "SingleFloat32ToBytes", Module: "Conversion"},
	{File: "conversion/conversion.go", Func: "BytesToSingleFloat32", Module: "Conversion"},
	{File: "conversion/conversion.go", Func: "float32ToBytesSafe", Module: "Conversion"},
	{File: "conversion/conversion.go", Func: "bytesToFloat32Safe", Module: "Conversion"},
	{File: "conversion/conversion.go", Func: "EdgeListToBytes", Module: "Conversion"},
	{File: "conversion/conversion.go", Func: "BytesToEdgeList", Module: "Conversion"},
	{File: "distance/distance.go", Func: "hammingDistance", Module: "BitDist", FloatSym: true},
	{File: "distance/distance.go", Func: "jaccardDistance", Module: "BitDist", FloatSym: true},
	{File: "shard/vectorstore/binary.go", Func: "encode", Recv: "binaryQuantizer", Module: "BitDist", Fields: []string{"threshold:[]float32"}},
	// extended subset
	{File: "cluster/placement.go", Func: "distributePoints", Module: "Placement", Ext: true, Oracles: []string{"createShardFn"},
		Structs: []structSpec{{File: "cluster/actions.go", Name: "shardInfo"}, {File: "models/point.go", Name: "Point"}}},
	{File: "shard/idcounter.go", Func: "MaxId", Recv: "IdCounter", Module: "IdCounter", Ext: true, Structs: idCounterFields},
	{File: "shard/idcounter.go", Func: "NextId", Recv: "IdCounter", Module: "IdCounter", Ext: true, Structs: idCounterFields},
	{File: "shard/idcounter.go", Func: "FreeId", Recv: "IdCounter", Module: "IdCounter", Ext: true, Structs: idCounterFields},
	{File: "cluster/actions.go", Func: "curateFailedPoints", Module: "Curate", Ext: true, Structs: curateStructs, Prims: []string{"sortFunc"},
		Consts: []constSpec{{File: "cluster/errors.go", Name: "ErrShardUnavailable", As: "ErrShardUnavailable"}}},
	{File: "utils/compare.go", Func: "AccessNestedProperty", Module: "Compare", Ext: true},
	{File: "utils/compare.go", Func: "SortSearchResults", Module: "Compare", Ext: true, Structs: sortStructs,
		Prims: []string{"sortFunc", "CompareAny=func(a, b any) int"}},
	pagingSpec,
	{File: "shard/shard.go", Func: "changePointCount", Module: "PointCount", Ext: true,
		Consts: []constSpec{{File: "shard/shard.go", Name: "POINTCOUNTKEY", As: "POINTCOUNTKEY"}},
		Uses: []useSpec{{Go: "conversion.BytesToUint64", Lean: "Gen.Conversion.BytesToUint64", Sig: "func([]byte) uint64", Module: "Conversion"},
			{Go: "conversion.Uint64ToBytes", Lean: "Gen.Conversion.Uint64ToBytes", Sig: "func(uint64) []byte", Module: "Conversion"}}},
	// second round (notes/T1ext.md, section 7)
	{File: "shard/index/utils.go", Func: "getOperation", Module: "IndexOp", Ext: true, Opaque: []string{"*msgpack.Decoder=Decoder"},
		Prims: []string{"fmtAny", "getPropertyFromBytes=func(dec *msgpack.Decoder, data []byte, property string) (any, error)"},
		Consts: []constSpec{{File: "shard/index/utils.go", Name: "opInsert", As: "opInsert"}, {File: "shard/index/utils.go", Name: "opUpdate", As: "opUpdate"},
			{File: "shard/index/utils.go", Name: "opDelete", As: "opDelete"}, {File: "shard/index/utils.go", Name: "opSkip", As: "opSkip"}}},
	distSetSpec("Len"), distSetSpec("AddWithLimit"), distSetSpec("Add"), distSetSpec("AddAlreadyUnique"), distSetSpec("Sort"),
	flatStepSpec,
	invArm("gt", "models.OperatorGreaterThan"), invArm("ge", "models.OperatorGreaterOrEq"), invArm("lt", "models.OperatorLessThan"),
	invArm("le", "models.OperatorLessOrEq"), invArm("inRange", "models.OperatorInRange"),
	// C13: rendezvous hashing. xxhash.Sum64String stays abstract (a parameter), slices.SortFunc too; the
	// struct ServerScore is declared inside the function body
	{File: "cluster/hashing.go", Func: "RendezvousHash", Module: "Rendezvous", Ext: true,
		Structs: []structSpec{{File: "cluster/hashing.go", Name: "ServerScore", InFunc: "RendezvousHash"}},
		Prims:   []string{"sortFunc", "xxhash.Sum64String=func(s string) uint64"}},
	// C15: the quota test of ClusterNode.InsertPoints (sum of the shards' point counts + batch size against the plan)
	quotaInsertSpec,
	// C18: a parameter struct whose Validate is integer range checks only
	{File: "models/quantizer.go", Func: "Validate", Recv: "ProductQuantizerParameters", Module: "Validate", Ext: true,
		Structs: []structSpec{{File: "models/quantizer.go", Name: "ProductQuantizerParameters"}}},
	// third round (notes/T1ext.md, section 8): the FORMULAS.  float32 / float64 are the symbolic Go.FExpr (FloatSym): one
	// constructor per Go operation, operands in source order, every conversion written; IEEE rounding is not interpreted
	distSym("dotProductDistance", true), distSym("cosineDistance", true), distSym("haversineDistance", false),
	{File: "distance/puredist.go", Func: "squaredEuclideanDistancePureGo", Module: "Distance", Ext: true, FloatSym: true},
	{File: "distance/puredist.go", Func: "dotProductPureGo", Module: "Distance", Ext: true, FloatSym: true},
	// the hybrid score of the three leaf searches and the weight default (nil -> 1)
	{File: "shard/index/flat/flat.go", Func: "Search", Recv: "IndexFlat", Module: "Hybrid", Ext: true, FloatSym: true, Name: "flat_weight", Bind: flatSearchBind,
		Structs: []structSpec{{File: "models/search.go", Name: "SearchVectorFlatOptions", Only: []string{"Weight"}}},
		Frag: &fragSpec{First: "var weight float32|weight := ", Last: "if options.Weight != nil {", Params: []string{"options models.SearchVectorFlatOptions"},
			Locals: []string{"weight float32"}, Results: []string{"weight"}}},
	{File: "shard/index/flat/flat.go", Func: "Search", Recv: "IndexFlat", Module: "Hybrid", Ext: true, FloatSym: true, Name: "flat_hybrid", Bind: flatSearchBind,
		Frag: &fragSpec{Field: "HybridScore", FieldType: "float32", Params: []string{"weight float32", "dist float32"}}},
	{File: "shard/index/vamana/vamana.go", Func: "Search", Recv: "IndexVamana", Module: "Hybrid", Ext: true, FloatSym: true, Name: "vamana_weight", Bind: vamanaSearchBind,
		Structs: []structSpec{{File: "models/search.go", Name: "SearchVectorVamanaOptions", Only: []string{"Weight"}}},
		Frag: &fragSpec{First: "weight := |var weight float32", Last: "if query.Weight != nil {", Params: []string{"query models.SearchVectorVamanaOptions"},
			Locals: []string{"weight float32"}, Results: []string{"weight"}}},
	{File: "shard/index/vamana/vamana.go", Func: "Search", Recv: "IndexVamana", Module: "Hybrid", Ext: true, FloatSym: true, Name: "vamana_hybrid", Bind: vamanaSearchBind,
		Structs: []structSpec{{File: "shard/index/vamana/distset.go", Name: "DistSetElem", Only: []string{"Distance"}}},
		Frag:    &fragSpec{Field: "HybridScore", FieldType: "float32", Params: []string{"elem DistSetElem", "weight float32"}}},
	{File: "shard/index/text/text.go", Func: "Search", Recv: "indexText", Module: "Hybrid", Ext: true, FloatSym: true, Name: "text_weight", Bind: textSearchBind,
		Structs: []structSpec{{File: "models/search.go", Name: "SearchTextOptions", Only: []string{"Weight"}}},
		Frag: &fragSpec{First: "weight := |var weight float32", Last: "if options.Weight != nil {", Params: []string{"options models.SearchTextOptions"},
			Locals: []string{"weight float32"}, Results: []string{"weight"}}},
	{File: "shard/index/text/text.go", Func: "Search", Recv: "indexText", Module: "Hybrid", Ext: true, FloatSym: true, Name: "text_hybrid", Bind: textSearchBind,
		Frag: &fragSpec{Field: "HybridScore", FieldType: "float32", Params: []string{"score float32", "weight float32"}}},
	// the tf-idf score of one document: start value, the statements of the loop over the query terms (the loop itself ranges
	// over a Go map: its order is not defined, the theorems quantify over it)
	textScoreLocal("Search_score0", &fragSpec{First: "score := |var score float32", Last: "score := |var score float32", Locals: []string{"score float32"}, Results: []string{"score"}}),
	textScoreLocal("Search_tf", &fragSpec{First: "tf := ", Last: "tf := ", Params: []string{"freq int", "docItem docCacheItem"},
		Locals: []string{"tf float32"}, Results: []string{"tf"}}),
	textScore("Search_idf", &fragSpec{First: "idf := ", Last: "idf := ", Params: []string{"index *indexText", "termSetItem *setCacheItem"},
		Locals: []string{"idf float64"}, Results: []string{"idf"}}),
	textScore("Search_scoreStep", &fragSpec{First: "freq := ", Last: "score += ",
		Params:   []string{"index *indexText", "docItem docCacheItem", "term string", "termSetItem *setCacheItem", "score float32"},
		Abstract: []string{"termSetItem, _ := index.setCache.Get(term)"}, Results: []string{"score"}}),
	// the product quantiser: index arithmetic of its two tables and the two quantised distances (sums of table look-ups)
	pqSpec("centroidDistIdx", "", nil), pqSpec("flatCentroidSlice", "", nil),
	pqSpec("DistanceFromFloat", "pq_tableFromFloat", &fragSpec{First: "dists := make([]float32", Last: "for i := 0; i < pq.params.NumSubVectors; i++ {",
		Params: []string{"pq *productQuantizer", "x []float32"}, Locals: []string{"dists []float32"}, Results: []string{"dists"}}),
	pqSpec("DistanceFromFloat", "pq_lookupFromFloat", &fragSpec{First: "var dist float32", Last: "for i := 0; i < pq.params.NumSubVectors; i++ {",
		Params: []string{"pq *productQuantizer", "dists []float32", "pointY *productQuantizedPoint"}, Locals: []string{"dist float32"}, Results: []string{"dist"}}),
	pqSpec("DistanceFromPoint", "pq_lookupFromPoint", &fragSpec{First: "var dist float32", Last: "for i := 0; i < pq.params.NumSubVectors; i++ {",
		Params: []string{"pq *productQuantizer", "pointX *productQuantizedPoint", "pointY *productQuantizedPoint"}, Locals: []string{"dist float32"}, Results: []string{"dist"}}),
	// Fit(): what each per-sub-vector goroutine does with the k-means result (the statements live inside the `go func(i int) {..}(i)`
	// literal; k-means itself, the goroutine fan-out and the wait group are not translated): the copy of the centroids into
	// flatCentroids and the fill of the centroid-to-centroid distance table
	pqFit("pq_fitFlatCentroids", &fragSpec{First: "for j := 0; j < pq.params.NumCentroids; j++ {", Has: "copy(pq.flatCentroids[", Last: "for j := 0; j < pq.params.NumCentroids; j++ {",
		Params: []string{"pq *productQuantizer", "i int", "kmeans utils.KMeans"}, Results: []string{"pq"}}),
	pqFit("pq_fitCentroidDists", &fragSpec{First: "for j := 0; j < pq.params.NumCentroids; j++ {", Has: "pq.centroidDists[", Last: "for j := 0; j < pq.params.NumCentroids; j++ {",
		Params: []string{"pq *productQuantizer", "i int", "kmeans utils.KMeans"}, Results: []string{"pq"}}),
	// the product quantiser's encode: nearest centroid per sub-vector; float32 is an abstract ordered type (comparisons only)
	pqEnc("flatCentroidSlice", nil), pqEnc("encode", []string{"maxFloat32"}),
	// the binary quantiser: which of bit distance / float distance its two distance closures use
	bqSpec("DistanceFromFloat"), bqSpec("DistanceFromPoint"),
}

// binary.go: the stored point behind the interface (type assertion) and `encode` (translated over bit patterns in
// Generated/BitDist.lean) are abstract; the logging of the impossible case is explicitly left out
func bqSpec(fn string) spec {
	return spec{File: "shard/vectorstore/binary.go", Func: fn, Recv: "binaryQuantizer", Module: "BQDist", Ext: true, FloatSym: true,
		Opaque: []string{"VectorStorePoint=VPoint"}, Asserts: []string{"asBinaryPoint=VPoint:*binaryQuantizedPoint"}, LogCalls: []string{"log.Warn()"},
		Prims: []string{"binaryQuantizer.encode=func(vector []float32) []uint64"},
		Structs: []structSpec{{File: "distance/distance.go", Name: "FloatDistFunc"}, {File: "distance/distance.go", Name: "BitDistFunc"},
			{File: "shard/vectorstore/vectorstore.go", Name: "PointIdDistFn"},
			{File: "shard/vectorstore/binary.go", Name: "binaryQuantizer", Only: []string{"threshold", "floatDistFn", "bitDistFn"}},
			{File: "shard/vectorstore/binary.go", Name: "binaryQuantizedPoint", Only: []string{"Vector", "BinaryVector"}}}}
}

func pqSpec(fn, name string, fr *fragSpec) spec {
	return spec{File: "shard/vectorstore/product.go", Func: fn, Recv: "productQuantizer", Module: "PQDist", Ext: true, FloatSym: true, Name: name,
		Structs: []structSpec{{File: "models/quantizer.go", Name: "ProductQuantizerParameters"}, {File: "distance/distance.go", Name: "FloatDistFunc"},
			{File: "shard/vectorstore/product.go", Name: "productQuantizer", Only: []string{"params", "distFn", "subVectorLen", "centroidDists", "flatCentroids"}},
			{File: "shard/vectorstore/product.go", Name: "productQuantizedPoint", Only: []string{"Vector", "CentroidIds"}}},
		Frag: fr}
}

func pqEnc(fn string, prims []string) spec {
	return spec{File: "shard/vectorstore/product.go", Func: fn, Recv: "productQuantizer", Module: "PQEncode", Ext: true, FloatAbs: "D", Prims: prims,
		Structs: []structSpec{{File: "models/quantizer.go", Name: "ProductQuantizerParameters"}, {File: "distance/distance.go", Name: "FloatDistFunc"},
			{File: "shard/vectorstore/product.go", Name: "productQuantizer", Only: []string{"params", "distFn", "subVectorLen", "flatCentroids"}}}}
}

func pqFit(name string, fr *fragSpec) spec {
	sp := pqSpec("Fit", name, fr)
	sp.Structs = append(sp.Structs, structSpec{File: "utils/kmeans.go", Name: "KMeans", Only: []string{"Centroids"}})
	return sp
}

// the float metrics of distance.go; the dot product implementation (a package variable: AVX kernel or pure Go loop) is abstract
func distSym(fn string, usesDot bool) spec {
	var prims []string
	if usesDot {
		prims = []string{"dotProductImpl=func(x, y []float32) float32"}
	}
	return spec{File: "distance/distance.go", Func: fn, Module: "Distance", Ext: true, FloatSym: true, Prims: prims,
		Consts: []constSpec{{File: "distance/distance.go", Name: "degToRad", As: "degToRad"}, {File: "distance/distance.go", Name: "earthRadius", As: "earthRadius"}}}
}

// fragments of text.indexText.Search that touch neither the index nor a term's posting set
func textScoreLocal(name string, fr *fragSpec) spec {
	return spec{File: "shard/index/text/text.go", Func: "Search", Recv: "indexText", Module: "TextScore", Ext: true, FloatSym: true, Name: name, Bind: textSearchBind,
		Structs: []structSpec{{File: "shard/index/text/text.go", Name: "Term"}, {File: "shard/index/text/text.go", Name: "docCacheItem"}}, Frag: fr}
}

// spec.Bind tables: the names the fragment specs use for the local variables of these functions, by canonical position
// (`go2lean -canon <file>:<Func>` prints the function under canonical names)
var flatSearchBind = []string{"v1=inf", "v3=options", "v4=filter", "v5=distFn", "v6=weight", "v8=res", "a1=point", "a2=dist", "a3=sr", "a4=i"}
var vamanaSearchBind = []string{"v1=v", "v3=query", "v4=filter", "v6=searchSet", "v8=results", "v9=resultSet", "v10=weight", "v11=elem", "v12=sr"}
var textSearchBind = []string{"v1=index", "v2=options", "v3=filter", "v13=weight", "v16=docId", "v17=docItem", "v19=score", "v20=term", "v21=freq",
	"v22=termItem", "v23=ok", "v24=tf", "v25=termSetItem", "v26=idf", "v27=sr"}
var invertedSearchBind = []string{"v1=inv", "v2=query", "v3=endQuery", "v4=operator", "v5=queryKey", "v8=start", "v9=end", "v10=inclusive"}
var quotaBind = []string{"v1=c", "v2=col", "v3=points", "v4=shards", "v6=totalPoints", "v7=shard"}
var pagingBind = []string{"v1=s", "v2=searchRequest", "v3=finalResults", "v21=start", "v22=end"}

// fragments of text.indexText.Search: the roaring bitmap of a term is opaque (only its cardinality is read)
func textScore(name string, fr *fragSpec) spec {
	return spec{File: "shard/index/text/text.go", Func: "Search", Recv: "indexText", Module: "TextScore", Ext: true, FloatSym: true, Name: name, Bind: textSearchBind,
		Opaque: []string{"*roaring64.Bitmap=Bitmap"}, Methods: []string{"Bitmap.GetCardinality=func() uint64"},
		Structs: []structSpec{{File: "shard/index/text/text.go", Name: "Term"}, {File: "shard/index/text/text.go", Name: "docCacheItem"},
			{File: "shard/index/text/text.go", Name: "indexText", Only: []string{"numDocs"}}, {File: "shard/index/text/text.go", Name: "setCacheItem", Only: []string{"set"}}},
		Frag: fr}
}

// the body of the ForEach callback of flat.IndexFlat.Search after the filter test: the bounded insertion of
// one point into `res` (cap(res) is the variable res_cap; HybridScore, float arithmetic, is not modelled)
var flatStepSpec = spec{File: "shard/index/flat/flat.go", Func: "Search", Recv: "IndexFlat", Module: "FlatSearch", Ext: true, Name: "Search_step", Bind: flatSearchBind,
	FloatAbs: "D", FloatLE: true, CapVars: []string{"res=res_cap"}, Prims: []string{"growCap"},
	Opaque:  []string{"vectorstore.VectorStorePoint=VPoint", "VectorStorePoint=VPoint"},
	Methods: []string{"VPoint.Id=func() uint64"},
	Structs: []structSpec{{File: "shard/vectorstore/vectorstore.go", Name: "PointIdDistFn"},
		{File: "models/search.go", Name: "SearchResult", Only: []string{"NodeId", "Distance"}, Drop: []string{"HybridScore"}}},
	Frag: &fragSpec{First: "dist := distFn(point)", Last: "for i := len(res) - 1;", EarlyReturn: "return nil",
		Params:  []string{"distFn vectorstore.PointIdDistFn", "point vectorstore.VectorStorePoint", "res []models.SearchResult", "res_cap int"},
		Results: []string{"res", "res_cap"}}}

// one arm of the operator switch of inverted.IndexInverted[T].Search: what it does to start / end / inclusive
// (the generic value type T is opaque; toByteSortable and the %v text of a T are abstract)
func invArm(name, label string) spec {
	return spec{File: "shard/index/inverted/inverted.go", Func: "Search", Recv: "IndexInverted", Module: "InvertedSearch", Ext: true, Name: "Search_" + name, Bind: invertedSearchBind,
		Opaque: []string{"T=T"}, Prims: []string{"toByteSortable=func(v T) ([]byte, error)", "fmt_T=func(v T) string"},
		Frag: &fragSpec{Case: label, ErrLast: true,
			Params:  []string{"queryKey []byte", "endQuery T", "start []byte", "end []byte", "inclusive bool"},
			Results: []string{"start", "end", "inclusive"}}}
}

// vamana.DistSet: the point (an interface with Id()) and the visited set (an interface with the mutating
// CheckAndVisit) are opaque, float32 distances are an abstract type with `<`, cap(ds.items) is a ghost field
func distSetSpec(fn string) spec {
	return spec{File: "shard/index/vamana/distset.go", Func: fn, Recv: "DistSet", Module: "DistSet", Ext: true, FloatAbs: "D",
		Opaque:  []string{"vectorstore.VectorStorePoint=VPoint", "VectorStorePoint=VPoint", "visitedSet=VSet"},
		Methods: []string{"VPoint.Id=func() uint64", "VSet.CheckAndVisit=mut func(uint64) bool"},
		Prims:   []string{"growCap"},
		Structs: []structSpec{{File: "shard/vectorstore/vectorstore.go", Name: "PointIdDistFn"},
			{File: "shard/index/vamana/distset.go", Name: "DistSetElem"},
			{File: "shard/index/vamana/distset.go", Name: "DistSet", Caps: []string{"items"}}}}
}

// the quota test at the head of ClusterNode.InsertPoints: `totalPoints` over the shard infos, then the comparison
// with the plan's per-collection maximum; the error return is the fragment's failure
var quotaInsertSpec = spec{File: "cluster/actions.go", Func: "InsertPoints", Recv: "ClusterNode", Module: "Quota", Ext: true, Name: "InsertPoints_quota", Bind: quotaBind,
	Structs: []structSpec{{File: "cluster/actions.go", Name: "shardInfo"}, {File: "models/point.go", Name: "Point"},
		{File: "models/userplan.go", Name: "UserPlan", Only: []string{"MaxCollectionPointCount"}},
		{File: "models/collection.go", Name: "Collection", Only: []string{"UserPlan"}}},
	Consts: []constSpec{{File: "cluster/errors.go", Name: "ErrQuotaReached", As: "ErrQuotaReached"}},
	Frag: &fragSpec{First: "totalPoints := int64(0)", Last: "if totalPoints+int64(len(points)) >", ErrLast: true,
		Params: []string{"shards []shardInfo", "points []models.Point", "col models.Collection"}, Results: []string{}}}

// the paging at the end of Shard.SearchPoints
var pagingSpec = spec{File: "shard/shard.go", Func: "SearchPoints", Recv: "Shard", Module: "Paging", Ext: true, WrapInt: true, Name: "SearchPoints_paging", Bind: pagingBind,
	Structs: []structSpec{{File: "models/search.go", Name: "SearchRequest", Only: []string{"Offset", "Limit"}}, {File: "models/search.go", Name: "SearchResult", Only: []string{"NodeId"}}},
	Frag: &fragSpec{First: "if searchRequest.Limit == 0 {", Last: "finalResults = finalResults[start:end]",
		Params: []string{"searchRequest models.SearchRequest", "finalResults []models.SearchResult"}, Results: []string{"finalResults"}}}

// models.SearchResult as far as sorting looks at it, models.SortOption
var sortStructs = []structSpec{{File: "models/point.go", Name: "PointAsMap"}, {File: "models/search.go", Name: "SearchResult", Only: []string{"DecodedData"}},
	{File: "models/search.go", Name: "SortOption"}}

var curateStructs = []structSpec{{File: "cluster/actions.go", Name: "FailedPoint"}}

// the in-memory part of shard.IdCounter (the bucket and its keys are storage, not translated)
var idCounterFields = []structSpec{{File: "shard/idcounter.go", Name: "IdCounter", Only: []string{"freeIds", "nextFreeId"}}}

// a function outside the subset: reported, its module is written WITHOUT it (function granularity, see main), exit status 2
type failure struct{ msg string }

func fail(pos token.Position, format string, a ...any) {
	panic(failure{fmt.Sprintf("go2lean: %s: unsupported: %s", pos, fmt.Sprintf(format, a...))})
}

type tr struct {
	fset     *token.FileSet
	vars     map[string]Ty
	outPtr   string // pointer out-param name
	recv     string
	results  []Ty // declared result types (error dropped)
	dropErr  bool
	loopExit string // inside a range body: the expression `continue` evaluates to (the loop state tuple)
}

func (t *tr) pos(n ast.Node) token.Position { return t.fset.Position(n.Pos()) }

var leanKeywords = map[string]bool{"end": true, "from": true, "at": true, "in": true, "do": true, "then": true, "else": true, "if": true, "let": true, "fun": true, "open": true, "union": true, "with": true, "have": true, "show": true, "by": true}

func ident(s string) string {
	if leanKeywords[s] {
		return s + "_"
	}
	return s
}

func (t *tr) goType(e ast.Expr) Ty {
	switch x := e.(type) {
	case *ast.Ident:
		switch x.Name {
		case "uint64":
			return TU64
		case "int64":
			return TI64
		case "uint32":
			return TU32
		case "float64":
			return TF64
		case "float32":
			return TF32
		case "byte", "uint8":
			return TByte
		case "int":
			return TInt
		case "bool":
			return TBool
		case "string":
			return TBytes
		}
	case *ast.ArrayType:
		el := t.goType(x.Elt)
		switch el {
		case TByte:
			return TBytes
		case TU64:
			return TU64s
		case TF32:
			return TF32s
		}
	case *ast.SelectorExpr:
		if id, ok := x.X.(*ast.Ident); ok && id.Name == "uuid" && x.Sel.Name == "UUID" {
			return TBytes // [16]byte
		}
	case *ast.StarExpr:
		return t.goType(x.X)
	}
	fail(t.pos(e), "type %T", e)
	return ""
}

func isBV(t Ty) bool { return t == TU64 || t == TI64 || t == TU32 || t == TByte }
func width(t Ty) int {
	switch t {
	case TU64, TI64, TF64:
		return 64
	case TU32, TF32:
		return 32
	case TByte:
		return 8
	}
	return 0
}

// constant rendering in a given type
func (t *tr) konst(n ast.Node, v uint64, ty Ty) string {
	switch ty {
	case TU64, TI64, TU32, TByte:
		return fmt.Sprintf("0x%x#%d", v, width(ty))
	case TInt, TConst:
		return fmt.Sprintf("%d", v)
	case TF64:
		if v == 0 {
			return "F64.zero"
		}
	case TF32:
		if v == 0 {
			return "F32.zero"
		}
	case TFX:
		return fmt.Sprintf("(Go.FExpr.lit %d)", v)
	}
	fail(t.pos(n), "constant %d at type %s", v, ty)
	return ""
}

type val struct {
	s  string
	ty Ty
	c  uint64 // value when ty == TConst
}

func paren(s string) string {
	if strings.ContainsAny(s, " ") && !(strings.HasPrefix(s, "(") && strings.HasSuffix(s, ")") && balanced(s[1:len(s)-1])) {
		return "(" + s + ")"
	}
	return s
}
func balanced(s string) bool {
	d := 0
	for _, r := range s {
		if r == '(' {
			d++
		} else if r == ')' {
			d--
			if d < 0 {
				return false
			}
		}
	}
	return d == 0
}

func (t *tr) coerce(n ast.Node, v val, ty Ty) string {
	if v.ty == TNil && (ty == TBytes || ty == TU64s || ty == TF32s) {
		return "[]" // nil and empty slices are identified (they differ only under `== nil`)
	}
	if v.ty == TConst {
		return t.konst(n, v.c, ty)
	}
	if v.ty == ty || leanTy(v.ty) == leanTy(ty) && (isBV(ty) || ty == TF64 || ty == TF32) {
		return v.s
	}
	fail(t.pos(n), "cannot use %s (%s) as %s", v.s, v.ty, ty)
	return ""
}

func (t *tr) expr(e ast.Expr) val {
	switch x := e.(type) {
	case *ast.ParenExpr:
		v := t.expr(x.X)
		return v
	case *ast.Ident:
		if x.Name == "nil" {
			return val{s: "nil", ty: TNil}
		}
		if x.Name == "true" || x.Name == "false" {
			return val{s: x.Name, ty: TBool}
		}
		ty, ok := t.vars[x.Name]
		if !ok {
			fail(t.pos(e), "unknown identifier %s", x.Name)
		}
		return val{s: ident(x.Name), ty: ty}
	case *ast.BasicLit:
		switch x.Kind {
		case token.INT:
			u, err := strconv.ParseUint(x.Value, 0, 64)
			if err != nil {
				fail(t.pos(e), "int literal %s", x.Value)
			}
			return val{ty: TConst, c: u, s: x.Value}
		case token.CHAR:
			r, _, _, err := strconv.UnquoteChar(x.Value[1:len(x.Value)-1], '\'')
			if err != nil || r > 255 {
				fail(t.pos(e), "char literal %s", x.Value)
			}
			return val{ty: TConst, c: uint64(r), s: x.Value}
		case token.STRING:
			s, err := strconv.Unquote(x.Value)
			if err != nil {
				fail(t.pos(e), "string literal")
			}
			parts := []string{}
			for _, b := range []byte(s) {
				parts = append(parts, fmt.Sprintf("0x%x#8", b))
			}
			return val{ty: TBytes, s: "[" + strings.Join(parts, ", ") + "]"}
		}
	case *ast.SelectorExpr:
		if id, ok := x.X.(*ast.Ident); ok {
			if id.Name == "math" && x.Sel.Name == "MinInt64" {
				return val{ty: TConst, c: 0x8000000000000000, s: "math.MinInt64"}
			}
			if id.Name == t.recv && t.recv != "" {
				ty, ok := t.vars[x.Sel.Name]
				if !ok {
					fail(t.pos(e), "receiver field %s not declared in spec", x.Sel.Name)
				}
				return val{s: ident(x.Sel.Name), ty: ty}
			}
		}
	case *ast.UnaryExpr:
		v := t.expr(x.X)
		switch x.Op {
		case token.NOT:
			return val{s: "!" + paren(t.coerce(e, v, TBool)), ty: TBool}
		}
	case *ast.BinaryExpr:
		return t.binary(x)
	case *ast.IndexExpr:
		b := t.expr(x.X)
		i := t.expr(x.Index)
		is := t.coerce(x.Index, i, TInt)
		switch b.ty {
		case TBytes:
			return val{s: fmt.Sprintf("Go.idx %s %s", paren(b.s), paren(is)), ty: TByte}
		case TU64s:
			return val{s: fmt.Sprintf("Go.idx64 %s %s", paren(b.s), paren(is)), ty: TU64}
		case TF32s:
			return val{s: fmt.Sprintf("Go.idx32 %s %s", paren(b.s), paren(is)), ty: TF32}
		}
	case *ast.SliceExpr:
		b := t.expr(x.X)
		if b.ty != TBytes && b.ty != TU64s && b.ty != TF32s {
			fail(t.pos(e), "slice of %s", b.ty)
		}
		if x.Slice3 {
			fail(t.pos(e), "3-index slice")
		}
		switch {
		case x.Low == nil && x.High == nil:
			return b
		case x.High == nil:
			lo := t.coerce(x.Low, t.expr(x.Low), TInt)
			return val{s: fmt.Sprintf("Go.sliceFrom %s %s", paren(b.s), paren(lo)), ty: b.ty}
		default:
			lo := "0"
			if x.Low != nil {
				lo = t.coerce(x.Low, t.expr(x.Low), TInt)
			}
			hi := t.coerce(x.High, t.expr(x.High), TInt)
			return val{s: fmt.Sprintf("Go.slice %s %s %s", paren(b.s), paren(lo), paren(hi)), ty: b.ty}
		}
	case *ast.CompositeLit:
		if at, ok := x.Type.(*ast.ArrayType); ok && len(x.Elts) == 0 && at.Len != nil {
			if t.goType(at.Elt) == TByte {
				n := t.expr(at.Len)
				return val{s: "Go.zeros " + paren(t.coerce(at.Len, n, TInt)), ty: TBytes}
			}
		}
	case *ast.CallExpr:
		return t.call(x)
	}
	fail(t.pos(e), "expression %T", e)
	return val{}
}

func (t *tr) binary(x *ast.BinaryExpr) val {
	a, b := t.expr(x.X), t.expr(x.Y)
	// logical
	if x.Op == token.LAND || x.Op == token.LOR {
		op := map[token.Token]string{token.LAND: "&&", token.LOR: "||"}[x.Op]
		return val{s: fmt.Sprintf("(%s %s %s)", t.coerce(x.X, a, TBool), op, t.coerce(x.Y, b, TBool)), ty: TBool}
	}
	// shifts: result has the type of the left operand; count is a Nat
	if x.Op == token.SHL || x.Op == token.SHR {
		op := map[token.Token]string{token.SHL: "<<<", token.SHR: ">>>"}[x.Op]
		cnt := b
		if cnt.ty != TInt && cnt.ty != TConst {
			fail(t.pos(x), "shift count of type %s", cnt.ty)
		}
		if a.ty == TConst {
			// untyped constant shifted by a variable: its type comes from context; handled by the caller (op-assign)
			return val{s: fmt.Sprintf("%d", a.c), ty: TConst, c: a.c}.withShift(op, t.coerce(x.Y, cnt, TInt))
		}
		if !isBV(a.ty) || a.ty == TI64 && x.Op == token.SHR {
			fail(t.pos(x), "shift of %s", a.ty)
		}
		return val{s: fmt.Sprintf("(%s %s %s)", a.s, op, t.coerce(x.Y, cnt, TInt)), ty: a.ty}
	}
	// slice compared with nil: identified with emptiness
	if (x.Op == token.EQL || x.Op == token.NEQ) && (a.ty == TNil || b.ty == TNil) {
		o := a
		if a.ty == TNil {
			o = b
		}
		if o.ty == TBytes || o.ty == TU64s || o.ty == TF32s {
			if x.Op == token.EQL {
				return val{s: fmt.Sprintf("List.isEmpty %s", paren(o.s)), ty: TBool}
			}
			return val{s: fmt.Sprintf("!List.isEmpty %s", paren(o.s)), ty: TBool}
		}
	}
	// unify operand types
	ty := a.ty
	if ty == TConst {
		ty = b.ty
	}
	if ty == TConst { // both constants
		var r uint64
		switch x.Op {
		case token.ADD:
			r = a.c + b.c
		case token.SUB:
			r = a.c - b.c
		case token.MUL:
			r = a.c * b.c
		default:
			fail(t.pos(x), "constant op %s", x.Op)
		}
		return val{ty: TConst, c: r, s: fmt.Sprint(r)}
	}
	as, bs := t.coerce(x.X, a, ty), t.coerce(x.Y, b, ty)
	switch x.Op {
	case token.XOR, token.AND, token.OR:
		if !isBV(ty) {
			fail(t.pos(x), "bit op on %s", ty)
		}
		op := map[token.Token]string{token.XOR: "^^^", token.AND: "&&&", token.OR: "|||"}[x.Op]
		return val{s: fmt.Sprintf("(%s %s %s)", as, op, bs), ty: ty}
	case token.ADD, token.SUB, token.MUL, token.QUO, token.REM:
		if ty == TFX && x.Op != token.REM {
			fn := map[token.Token]string{token.ADD: "add", token.SUB: "sub", token.MUL: "mul", token.QUO: "div"}[x.Op]
			return val{s: fmt.Sprintf("Go.FExpr.%s %s %s", fn, paren(as), paren(bs)), ty: TFX}
		}
		if ty == TBytes && x.Op == token.ADD { // string concatenation
			return val{s: fmt.Sprintf("(%s ++ %s)", as, bs), ty: TBytes}
		}
		op := map[token.Token]string{token.ADD: "+", token.SUB: "-", token.MUL: "*", token.QUO: "/", token.REM: "%"}[x.Op]
		if ty == TInt || (isBV(ty) && ty != TI64 && x.Op != token.QUO && x.Op != token.REM) || (ty == TI64 && (x.Op == token.ADD || x.Op == token.SUB)) {
			return val{s: fmt.Sprintf("(%s %s %s)", as, op, bs), ty: ty}
		}
		fail(t.pos(x), "arithmetic %s on %s", x.Op, ty)
	case token.EQL, token.NEQ, token.LSS, token.LEQ, token.GTR, token.GEQ:
		switch ty {
		case TF64, TF32:
			ns := map[Ty]string{TF64: "F64", TF32: "F32"}[ty]
			fn := map[token.Token]string{token.EQL: "eq", token.NEQ: "ne", token.LSS: "lt", token.LEQ: "le", token.GTR: "gt", token.GEQ: "ge"}[x.Op]
			return val{s: fmt.Sprintf("%s.%s %s %s", ns, fn, paren(as), paren(bs)), ty: TBool}
		case TInt:
			op := map[token.Token]string{token.EQL: "==", token.NEQ: "!=", token.LSS: "<", token.LEQ: "≤", token.GTR: ">", token.GEQ: "≥"}[x.Op]
			if x.Op == token.EQL || x.Op == token.NEQ {
				return val{s: fmt.Sprintf("(%s %s %s)", as, op, bs), ty: TBool}
			}
			return val{s: fmt.Sprintf("decide (%s %s %s)", as, op, bs), ty: TBool}
		case TU64, TU32, TByte:
			switch x.Op {
			case token.EQL:
				return val{s: fmt.Sprintf("(%s == %s)", as, bs), ty: TBool}
			case token.NEQ:
				return val{s: fmt.Sprintf("(%s != %s)", as, bs), ty: TBool}
			case token.LSS:
				return val{s: fmt.Sprintf("BitVec.ult %s %s", paren(as), paren(bs)), ty: TBool}
			case token.LEQ:
				return val{s: fmt.Sprintf("BitVec.ule %s %s", paren(as), paren(bs)), ty: TBool}
			case token.GTR:
				return val{s: fmt.Sprintf("BitVec.ult %s %s", paren(bs), paren(as)), ty: TBool}
			case token.GEQ:
				return val{s: fmt.Sprintf("BitVec.ule %s %s", paren(bs), paren(as)), ty: TBool}
			}
		case TI64:
			switch x.Op {
			case token.EQL:
				return val{s: fmt.Sprintf("(%s == %s)", as, bs), ty: TBool}
			case token.NEQ:
				return val{s: fmt.Sprintf("(%s != %s)", as, bs), ty: TBool}
			case token.LSS:
				return val{s: fmt.Sprintf("BitVec.slt %s %s", paren(as), paren(bs)), ty: TBool}
			case token.LEQ:
				return val{s: fmt.Sprintf("BitVec.sle %s %s", paren(as), paren(bs)), ty: TBool}
			case token.GTR:
				return val{s: fmt.Sprintf("BitVec.slt %s %s", paren(bs), paren(as)), ty: TBool}
			case token.GEQ:
				return val{s: fmt.Sprintf("BitVec.sle %s %s", paren(bs), paren(as)), ty: TBool}
			}
		case TBool:
			if x.Op == token.EQL {
				return val{s: fmt.Sprintf("(%s == %s)", as, bs), ty: TBool}
			}
		}
	}
	fail(t.pos(x), "binary %s on %s", x.Op, ty)
	return val{}
}

// an untyped constant shifted by a variable count keeps a symbolic form until its type is known
type shifted struct{ op, cnt string }

var pendingShift = map[string]shifted{}

func (v val) withShift(op, cnt string) val {
	key := fmt.Sprintf("§shift%d§", len(pendingShift))
	pendingShift[key] = shifted{op, cnt}
	v.s = key
	return v
}

func (t *tr) coerceShifted(n ast.Node, v val, ty Ty) string {
	if sh, ok := pendingShift[v.s]; ok && v.ty == TConst {
		if !isBV(ty) {
			fail(t.pos(n), "shifted constant at type %s", ty)
		}
		return fmt.Sprintf("(%s %s %s)", t.konst(n, v.c, ty), sh.op, sh.cnt)
	}
	return t.coerce(n, v, ty)
}

func selName(e ast.Expr) string {
	switch x := e.(type) {
	case *ast.Ident:
		return x.Name
	case *ast.SelectorExpr:
		return selName(x.X) + "." + x.Sel.Name
	}
	return "?"
}

func (t *tr) call(x *ast.CallExpr) val {
	name := selName(x.Fun)
	arg := func(i int) val { return t.expr(x.Args[i]) }
	need := func(n int) {
		if len(x.Args) != n {
			fail(t.pos(x), "%s with %d args", name, len(x.Args))
		}
	}
	switch name {
	case "len":
		need(1)
		a := arg(0)
		if a.ty != TBytes && a.ty != TU64s && a.ty != TF32s {
			fail(t.pos(x), "len of %s", a.ty)
		}
		return val{s: paren(a.s) + ".length", ty: TInt}
	case "uint64", "int64":
		need(1)
		a := arg(0)
		to := map[string]Ty{"uint64": TU64, "int64": TI64}[name]
		if a.ty == TU64 || a.ty == TI64 { // same width reinterpretation
			return val{s: a.s, ty: to}
		}
		if a.ty == TConst {
			return val{s: t.konst(x, a.c, to), ty: to}
		}
	case "float32":
		need(1)
		a := arg(0)
		if a.ty == TInt {
			return val{s: "Go.FExpr.ofNat " + paren(a.s), ty: TFX}
		}
	case "byte":
		need(1)
		a := arg(0)
		if a.ty == TConst {
			return val{s: t.konst(x, a.c, TByte), ty: TByte}
		}
	case "string":
		need(1)
		a := arg(0)
		if a.ty == TBytes {
			return a
		}
	case "math.Float64bits":
		need(1)
		return val{s: t.coerce(x, arg(0), TF64), ty: TU64}
	case "math.Float64frombits":
		need(1)
		return val{s: t.coerce(x, arg(0), TU64), ty: TF64}
	case "math.Float32bits":
		need(1)
		return val{s: t.coerce(x, arg(0), TF32), ty: TU32}
	case "math.Float32frombits":
		need(1)
		return val{s: t.coerce(x, arg(0), TU32), ty: TF32}
	case "binary.BigEndian.Uint64", "binary.LittleEndian.Uint64", "binary.LittleEndian.Uint32":
		need(1)
		a := arg(0)
		fn := map[string]string{"binary.BigEndian.Uint64": "Go.getBE64", "binary.LittleEndian.Uint64": "Go.getLE64", "binary.LittleEndian.Uint32": "Go.getLE32"}[name]
		ty := TU64
		if strings.HasSuffix(name, "32") {
			ty = TU32
		}
		return val{s: fmt.Sprintf("%s %s 0", fn, paren(t.coerce(x, a, TBytes))), ty: ty}
	case "bits.OnesCount64":
		need(1)
		return val{s: "Go.popcount64 " + paren(t.coerce(x, arg(0), TU64)), ty: TInt}
	case "make":
		if len(x.Args) == 2 {
			ty := t.goType(x.Args[0])
			n := paren(t.coerce(x, arg(1), TInt))
			switch ty {
			case TBytes:
				return val{s: "Go.zeros " + n, ty: TBytes}
			case TU64s:
				return val{s: "List.replicate " + n + " 0#64", ty: TU64s}
			case TF32s:
				return val{s: "List.replicate " + n + " 0#32", ty: TF32s}
			}
		}
	}
	// []byte(x) conversion
	if at, ok := x.Fun.(*ast.ArrayType); ok && len(x.Args) == 1 {
		if t.goType(at) == TBytes {
			a := arg(0)
			if a.ty == TBytes {
				return a
			}
		}
	}
	fail(t.pos(x), "call %s", name)
	return val{}
}

// string concatenation "t" + term + "s" on byte strings
func (t *tr) concat(e ast.Expr) (string, bool) {
	b, ok := e.(*ast.BinaryExpr)
	if !ok || b.Op != token.ADD {
		return "", false
	}
	var parts []string
	var walk func(e ast.Expr) bool
	walk = func(e ast.Expr) bool {
		if bb, ok := e.(*ast.BinaryExpr); ok && bb.Op == token.ADD {
			return walk(bb.X) && walk(bb.Y)
		}
		v := t.expr(e)
		if v.ty != TBytes {
			return false
		}
		parts = append(parts, paren(v.s))
		return true
	}
	// only attempt when the leftmost leaf is a string literal or a Bytes variable
	if !leftmostIsString(t, b) {
		return "", false
	}
	if !walk(b) {
		fail(t.pos(e), "string concatenation with non-string operand")
	}
	return "(" + strings.Join(parts, " ++ ") + ")", true
}

func leftmostIsString(t *tr, e ast.Expr) bool {
	for {
		if b, ok := e.(*ast.BinaryExpr); ok {
			e = b.X
			continue
		}
		break
	}
	switch x := e.(type) {
	case *ast.BasicLit:
		return x.Kind == token.STRING
	case *ast.Ident:
		return t.vars[x.Name] == TBytes
	}
	return false
}

// ---------------------------------------------------------------------------------------------
// statements

const ind = "  "

// assigned variables (already declared outside) of a statement list
func (t *tr) assigned(stmts []ast.Stmt, declared map[string]bool, out map[string]bool) {
	for _, s := range stmts {
		switch x := s.(type) {
		case *ast.AssignStmt:
			for _, l := range x.Lhs {
				switch lv := l.(type) {
				case *ast.Ident:
					if x.Tok == token.DEFINE {
						declared[lv.Name] = true
					} else if !declared[lv.Name] {
						out[lv.Name] = true
					}
				case *ast.IndexExpr:
					if id, ok := lv.X.(*ast.Ident); ok && !declared[id.Name] {
						out[id.Name] = true
					}
				case *ast.StarExpr:
					out["§out"] = true
				}
			}
		case *ast.IncDecStmt:
			if id, ok := x.X.(*ast.Ident); ok && !declared[id.Name] {
				out[id.Name] = true
			}
		case *ast.ExprStmt:
			if c, ok := x.X.(*ast.CallExpr); ok {
				if base := putTarget(c); base != "" && !declared[base] {
					out[base] = true
				}
			}
		case *ast.IfStmt:
			d2 := copySet(declared)
			t.assigned(x.Body.List, d2, out)
			if x.Else != nil {
				if b, ok := x.Else.(*ast.BlockStmt); ok {
					t.assigned(b.List, copySet(declared), out)
				} else {
					t.assigned([]ast.Stmt{x.Else}, copySet(declared), out)
				}
			}
		case *ast.RangeStmt:
			t.assigned(x.Body.List, copySet(declared), out)
		case *ast.DeclStmt:
			if gd, ok := x.Decl.(*ast.GenDecl); ok {
				for _, sp := range gd.Specs {
					for _, n := range sp.(*ast.ValueSpec).Names {
						declared[n.Name] = true
					}
				}
			}
		}
	}
}

func copySet(m map[string]bool) map[string]bool {
	r := map[string]bool{}
	for k, v := range m {
		r[k] = v
	}
	return r
}

// for binary.X.PutUintNN(dst, v) and copy(dst, src): the base variable of dst
func putTarget(c *ast.CallExpr) string {
	name := selName(c.Fun)
	if !(strings.HasPrefix(name, "binary.") && strings.Contains(name, ".PutUint")) && name != "copy" {
		return ""
	}
	if len(c.Args) < 1 {
		return ""
	}
	d := c.Args[0]
	if s, ok := d.(*ast.SliceExpr); ok {
		d = s.X
	}
	if id, ok := d.(*ast.Ident); ok {
		return id.Name
	}
	return ""
}

func containsReturn(stmts []ast.Stmt) bool {
	found := false
	for _, s := range stmts {
		ast.Inspect(s, func(n ast.Node) bool {
			switch n.(type) {
			case *ast.ReturnStmt, *ast.BranchStmt:
				found = true
			}
			return !found
		})
	}
	return found
}

func endsInReturn(stmts []ast.Stmt) bool {
	if len(stmts) == 0 {
		return false
	}
	_, ok := stmts[len(stmts)-1].(*ast.ReturnStmt)
	return ok
}

// translate a statement list into a Lean expression; `tail` is the expression that follows when
// control falls off the end of the list.
func (t *tr) block(stmts []ast.Stmt, tail func() string, depth int) string {
	pad := strings.Repeat(ind, depth)
	if len(stmts) == 0 {
		tl := strings.TrimLeft(tail(), " ")
		if tl == "" {
			return ""
		}
		return pad + tl
	}
	s := stmts[0]
	rest := func() string { return t.block(stmts[1:], tail, depth) }
	switch x := s.(type) {
	case *ast.ReturnStmt:
		if t.loopExit != "" {
			fail(t.pos(s), "return inside loop")
		}
		return pad + t.ret(x)
	case *ast.BranchStmt:
		if x.Tok == token.CONTINUE && x.Label == nil && t.loopExit != "" {
			return pad + t.loopExit
		}
		fail(t.pos(s), "branch statement %s", x.Tok)
	case *ast.DeclStmt:
		gd, ok := x.Decl.(*ast.GenDecl)
		if !ok || gd.Tok != token.VAR {
			fail(t.pos(s), "declaration")
		}
		out := ""
		for _, sp := range gd.Specs {
			vs := sp.(*ast.ValueSpec)
			if len(vs.Values) != 0 || vs.Type == nil {
				fail(t.pos(s), "var with initialiser")
			}
			for _, n := range vs.Names {
				var init string
				var ty Ty
				if at, ok := vs.Type.(*ast.ArrayType); ok && at.Len != nil && t.goType(at.Elt) == TByte {
					ty = TBytes
					init = "Go.zeros " + paren(t.coerce(at.Len, t.expr(at.Len), TInt))
				} else {
					ty = t.goType(vs.Type)
					switch ty {
					case TInt:
						init = "0"
					case TU64, TI64, TU32, TByte:
						init = t.konst(s, 0, ty)
					default:
						fail(t.pos(s), "zero value of %s", ty)
					}
				}
				t.vars[n.Name] = ty
				out += fmt.Sprintf("%slet %s : %s := %s\n", pad, ident(n.Name), leanTy(ty), init)
			}
		}
		return out + rest()
	case *ast.AssignStmt:
		return t.assign(x, pad) + rest()
	case *ast.IncDecStmt:
		id, ok := x.X.(*ast.Ident)
		if !ok || t.vars[id.Name] != TInt {
			fail(t.pos(s), "inc/dec")
		}
		op := "+"
		if x.Tok == token.DEC {
			op = "-"
		}
		return fmt.Sprintf("%slet %s := %s %s 1\n", pad, ident(id.Name), ident(id.Name), op) + rest()
	case *ast.ExprStmt:
		c, ok := x.X.(*ast.CallExpr)
		if !ok {
			fail(t.pos(s), "expression statement")
		}
		return t.putStmt(c, pad) + rest()
	case *ast.IfStmt:
		if x.Init != nil {
			fail(t.pos(s), "if with init")
		}
		cond := t.coerce(x.Cond, t.expr(x.Cond), TBool)
		var elseList []ast.Stmt
		if x.Else != nil {
			if b, ok := x.Else.(*ast.BlockStmt); ok {
				elseList = b.List
			} else {
				elseList = []ast.Stmt{x.Else}
			}
		}
		if containsReturn(x.Body.List) || containsReturn(elseList) {
			// control flow: both branches continue with the rest
			saved := copyVars(t.vars)
			thenS := t.block(x.Body.List, func() string { return t.block(stmts[1:], tail, depth+1) }, depth+1)
			t.vars = copyVars(saved)
			elseS := t.block(elseList, func() string { return t.block(stmts[1:], tail, depth+1) }, depth+1)
			t.vars = saved
			return fmt.Sprintf("%sif %s then\n%s\n%selse\n%s", pad, cond, strings.TrimRight(thenS, "\n"), pad, strings.TrimRight(elseS, "\n"))
		}
		// data flow only: rebind the variables assigned in either branch
		outSet := map[string]bool{}
		decl := map[string]bool{}
		t.assigned(x.Body.List, copySet(decl), outSet)
		t.assigned(elseList, copySet(decl), outSet)
		names := sortedKeys(outSet)
		if len(names) == 0 {
			// nothing is assigned: the statement has no effect in the model, but every statement
			// inside must still be within the subset (never skip what is not understood)
			saved := copyVars(t.vars)
			t.block(x.Body.List, func() string { return "" }, depth+1)
			t.vars = copyVars(saved)
			t.block(elseList, func() string { return "" }, depth+1)
			t.vars = saved
			return rest()
		}
		tuple := tupleOf(names)
		saved := copyVars(t.vars)
		thenS := t.block(x.Body.List, func() string { return strings.Repeat(ind, depth+1) + tuple }, depth+1)
		t.vars = copyVars(saved)
		elseS := t.block(elseList, func() string { return strings.Repeat(ind, depth+1) + tuple }, depth+1)
		t.vars = saved
		return fmt.Sprintf("%slet %s :=\n%s  if %s then\n%s\n%s  else\n%s\n", pad, tuple, pad, cond, indent(thenS, 1), pad, indent(elseS, 1)) + rest()
	case *ast.RangeStmt:
		return t.rangeStmt(x, pad, depth) + rest()
	}
	fail(t.pos(s), "statement %T", s)
	return ""
}

func indent(s string, n int) string {
	lines := strings.Split(strings.TrimRight(s, "\n"), "\n")
	for i := range lines {
		lines[i] = strings.Repeat(ind, n) + lines[i]
	}
	return strings.Join(lines, "\n")
}

func copyVars(m map[string]Ty) map[string]Ty {
	r := map[string]Ty{}
	for k, v := range m {
		r[k] = v
	}
	return r
}

func sortedKeys(m map[string]bool) []string {
	var r []string
	for k := range m {
		r = append(r, k)
	}
	sort.Strings(r)
	return r
}

func tupleOf(names []string) string {
	var r []string
	for _, n := range names {
		if n == "§out" {
			r = append(r, "out_")
		} else {
			r = append(r, ident(n))
		}
	}
	if len(r) == 1 {
		return r[0]
	}
	return "(" + strings.Join(r, ", ") + ")"
}

func (t *tr) ret(x *ast.ReturnStmt) string {
	res := x.Results
	if t.outPtr != "" {
		// `return nil` of a function with a pointer out-parameter: the pointee is the result;
		// `return fmt.Errorf(...)` is the error arm (not translated: arms are selected statically)
		if len(res) == 1 {
			if id, ok := res[0].(*ast.Ident); ok && id.Name == "nil" {
				return "out_"
			}
		}
		fail(t.pos(x), "return in out-pointer function")
	}
	if t.dropErr {
		if len(res) < 1 {
			fail(t.pos(x), "return arity")
		}
		last := res[len(res)-1]
		if id, ok := last.(*ast.Ident); !ok || id.Name != "nil" {
			fail(t.pos(x), "non-nil error return")
		}
		res = res[:len(res)-1]
	}
	if len(res) != len(t.results) {
		fail(t.pos(x), "return arity %d, want %d", len(res), len(t.results))
	}
	var parts []string
	for i, r := range res {
		if s, ok := t.concat(r); ok && t.results[i] == TBytes {
			parts = append(parts, s)
			continue
		}
		parts = append(parts, t.coerceShifted(r, t.expr(r), t.results[i]))
	}
	if len(parts) == 1 {
		return parts[0]
	}
	return "(" + strings.Join(parts, ", ") + ")"
}

func (t *tr) assign(x *ast.AssignStmt, pad string) string {
	if len(x.Lhs) != 1 || len(x.Rhs) != 1 {
		fail(t.pos(x), "multi-assignment")
	}
	lhs, rhs := x.Lhs[0], x.Rhs[0]
	opOf := map[token.Token]token.Token{token.XOR_ASSIGN: token.XOR, token.OR_ASSIGN: token.OR, token.AND_ASSIGN: token.AND, token.ADD_ASSIGN: token.ADD, token.SUB_ASSIGN: token.SUB}
	switch l := lhs.(type) {
	case *ast.Ident:
		switch x.Tok {
		case token.DEFINE:
			var v val
			if s, ok := t.concat(rhs); ok {
				v = val{s: s, ty: TBytes}
			} else {
				v = t.expr(rhs)
			}
			if v.ty == TConst {
				v = val{s: fmt.Sprint(v.c), ty: TInt} // Go: untyped integer constant defaults to int
			}
			t.vars[l.Name] = v.ty
			return fmt.Sprintf("%slet %s : %s := %s\n", pad, ident(l.Name), leanTy(v.ty), v.s)
		case token.ASSIGN:
			ty, ok := t.vars[l.Name]
			if !ok {
				fail(t.pos(x), "assignment to unknown %s", l.Name)
			}
			return fmt.Sprintf("%slet %s : %s := %s\n", pad, ident(l.Name), leanTy(ty), t.coerceShifted(rhs, t.expr(rhs), ty))
		default:
			op, ok := opOf[x.Tok]
			if !ok {
				fail(t.pos(x), "assignment operator %s", x.Tok)
			}
			v := t.binary(&ast.BinaryExpr{X: lhs, Op: op, Y: rhs, OpPos: x.TokPos})
			return fmt.Sprintf("%slet %s : %s := %s\n", pad, ident(l.Name), leanTy(t.vars[l.Name]), v.s)
		}
	case *ast.IndexExpr:
		id, ok := l.X.(*ast.Ident)
		if !ok {
			fail(t.pos(x), "indexed assignment target")
		}
		bty := t.vars[id.Name]
		var ety Ty
		switch bty {
		case TBytes:
			ety = TByte
		case TU64s:
			ety = TU64
		case TF32s:
			ety = TF32
		default:
			fail(t.pos(x), "indexed assignment into %s", bty)
		}
		i := paren(t.coerce(l.Index, t.expr(l.Index), TInt))
		var rv string
		if x.Tok == token.ASSIGN {
			rv = t.coerceShifted(rhs, t.expr(rhs), ety)
		} else {
			op, ok := opOf[x.Tok]
			if !ok {
				fail(t.pos(x), "assignment operator %s", x.Tok)
			}
			cur := t.expr(lhs)
			r := t.expr(rhs)
			rs := t.coerceShifted(rhs, r, ety)
			ops := map[token.Token]string{token.XOR: "^^^", token.OR: "|||", token.AND: "&&&", token.ADD: "+", token.SUB: "-"}[op]
			rv = fmt.Sprintf("(%s %s %s)", paren(cur.s), ops, rs)
		}
		return fmt.Sprintf("%slet %s : %s := List.set %s %s %s\n", pad, ident(id.Name), leanTy(bty), ident(id.Name), i, paren(rv))
	case *ast.StarExpr:
		id, ok := l.X.(*ast.Ident)
		if !ok || id.Name != t.outPtr || x.Tok != token.ASSIGN {
			fail(t.pos(x), "pointer assignment")
		}
		ty := t.results[0]
		return fmt.Sprintf("%slet out_ : %s := %s\n", pad, leanTy(ty), t.coerceShifted(rhs, t.expr(rhs), ty))
	}
	fail(t.pos(x), "assignment target %T", lhs)
	return ""
}

func (t *tr) putStmt(c *ast.CallExpr, pad string) string {
	name := selName(c.Fun)
	base := putTarget(c)
	if base == "" || t.vars[base] != TBytes {
		fail(t.pos(c), "call statement %s", name)
	}
	off := "0"
	if s, ok := c.Args[0].(*ast.SliceExpr); ok {
		if s.High != nil || s.Slice3 {
			fail(t.pos(c), "destination slice with upper bound")
		}
		if s.Low != nil {
			off = paren(t.coerce(s.Low, t.expr(s.Low), TInt))
		}
	}
	if len(c.Args) != 2 {
		fail(t.pos(c), "%s arity", name)
	}
	var fn string
	var vty Ty
	switch name {
	case "binary.BigEndian.PutUint64":
		fn, vty = "Go.putBE64", TU64
	case "binary.LittleEndian.PutUint64":
		fn, vty = "Go.putLE64", TU64
	case "binary.LittleEndian.PutUint32":
		fn, vty = "Go.putLE32", TU32
	case "copy":
		fn, vty = "Go.copyAt", TBytes
	default:
		fail(t.pos(c), "call statement %s", name)
	}
	v := paren(t.coerce(c.Args[1], t.expr(c.Args[1]), vty))
	return fmt.Sprintf("%slet %s : Bytes := %s %s %s %s\n", pad, ident(base), fn, ident(base), off, v)
}

func (t *tr) rangeStmt(x *ast.RangeStmt, pad string, depth int) string {
	if x.Tok != token.DEFINE || x.Key == nil {
		fail(t.pos(x), "range form")
	}
	key, ok := x.Key.(*ast.Ident)
	if !ok {
		fail(t.pos(x), "range key")
	}
	coll := t.expr(x.X)
	var ety Ty
	switch coll.ty {
	case TBytes:
		ety = TByte
	case TU64s:
		ety = TU64
	case TF32s:
		ety = TF32
	default:
		fail(t.pos(x), "range over %s", coll.ty)
	}
	outSet := map[string]bool{}
	t.assigned(x.Body.List, map[string]bool{}, outSet)
	names := sortedKeys(outSet)
	if len(names) == 0 {
		fail(t.pos(x), "loop without effect")
	}
	tuple := tupleOf(names)
	saved := copyVars(t.vars)
	t.vars[key.Name] = TInt
	var head string
	if x.Value != nil {
		vid, ok := x.Value.(*ast.Ident)
		if !ok {
			fail(t.pos(x), "range value")
		}
		t.vars[vid.Name] = ety
		head = fmt.Sprintf("%slet %s := Go.forRange %s %s (fun %s %s %s =>\n", pad, tuple, paren(coll.s), tuple, ident(key.Name), ident(vid.Name), tuple)
	} else {
		head = fmt.Sprintf("%slet %s := Go.forN %s.length %s (fun %s %s =>\n", pad, tuple, paren(coll.s), tuple, ident(key.Name), tuple)
	}
	savedExit := t.loopExit
	t.loopExit = tuple
	body := t.block(x.Body.List, func() string { return strings.Repeat(ind, depth+2) + tuple }, depth+2)
	t.loopExit = savedExit
	t.vars = saved
	return head + strings.TrimRight(body, "\n") + ")\n"
}

// ---------------------------------------------------------------------------------------------

type genFunc struct {
	name string
	text string
}

// prepareFile: locals get their canonical names (for spec.Bind); the tree itself is left as written
func prepareFile(fset *token.FileSet, f *ast.File) {
	// a constant declared in the same file by a numeric literal (`const maxLen = 24`) is read as that literal, unless a
	// spec names it in Consts (those are translated as named Lean definitions); nothing else is rewritten
	for _, sp := range specs {
		for _, c := range sp.Consts {
			astnormKeepConst[c.Name] = true
		}
	}
	// … and: `x = x op e` is read as `x op= e`; the operands of a chain of && (of ||) whose operands are all pure and
	// total are put in a fixed order (astnorm_gen.go); `x += 1` / `x -= 1` are read as `x++` / `x--` (the spelling the
	// reference tree uses, so that loops counted by `i += 1` translate like loops counted by `i++`)
	NormalizeFile(fset, f, NormOpts{InlineConsts: true, SortBool: true, OpAssign: true})
	incDecForm(f)
}

// incDecForm rewrites every statement `x += 1` / `x -= 1` (x an identifier or a chain of field selections) as x++ / x--
func incDecForm(f *ast.File) {
	conv := func(s ast.Stmt) ast.Stmt {
		as, ok := s.(*ast.AssignStmt)
		if !ok || len(as.Lhs) != 1 || len(as.Rhs) != 1 || (as.Tok != token.ADD_ASSIGN && as.Tok != token.SUB_ASSIGN) || !isPureLvalue(as.Lhs[0]) {
			return s
		}
		if bl, ok := as.Rhs[0].(*ast.BasicLit); !ok || bl.Kind != token.INT || bl.Value != "1" {
			return s
		}
		tok := token.INC
		if as.Tok == token.SUB_ASSIGN {
			tok = token.DEC
		}
		return &ast.IncDecStmt{X: as.Lhs[0], TokPos: as.TokPos, Tok: tok}
	}
	list := func(l []ast.Stmt) {
		for i := range l {
			l[i] = conv(l[i])
		}
	}
	ast.Inspect(f, func(n ast.Node) bool {
		switch x := n.(type) {
		case *ast.BlockStmt:
			list(x.List)
		case *ast.CaseClause:
			list(x.Body)
		case *ast.CommClause:
			list(x.Body)
		case *ast.ForStmt:
			if x.Init != nil {
				x.Init = conv(x.Init)
			}
			if x.Post != nil {
				x.Post = conv(x.Post)
			}
		case *ast.LabeledStmt:
			x.Stmt = conv(x.Stmt)
		}
		return true
	})
}

// applyBind renames the local variables named in sp.Bind (by canonical position) to the names the spec uses
func bindKey(sp spec) string { return sp.File + ":" + sp.Recv + "." + sp.Func }

func applyBind(fd *ast.FuncDecl, sp spec) {
	table := sp.Bind
	if len(table) == 0 {
		table = bindTables[bindKey(sp)] // bind_gen.go: the names of ALL locals of every translated function, as of the reference tree
	}
	if len(table) == 0 {
		return
	}
	want := map[string]string{}
	tableNames := map[string]bool{}
	for _, b := range table {
		if kv := strings.SplitN(b, "=", 2); len(kv) == 2 {
			tableNames[kv[1]] = true
		}
	}
	for _, b := range table {
		kv := strings.SplitN(b, "=", 2)
		if len(kv) != 2 {
			fail(token.Position{Filename: sp.File}, "spec.Bind entry %q", b)
		}
		want[kv[0]] = kv[1]
	}
	// The translator resolves variables by NAME, so a renaming must not capture anything. An entry `c=name` is applied
	// only when NO local of the function is called `name` any more (a maintainer renamed it) and no other identifier of
	// the function is spelled `name` (a package-level function, a builtin …): giving the fresh name to the variable at
	// position c is then an alpha-renaming of the Go function — the translation is a faithful translation of the real
	// code whichever variable sits at c; if it is not the intended one the fragment has an unknown free variable, or the
	// tie theorem fails. While a local of that name exists the spec is read by name as before (no renaming).
	sels := map[*ast.Ident]bool{}
	ast.Inspect(fd, func(n ast.Node) bool {
		if se, ok := n.(*ast.SelectorExpr); ok {
			sels[se.Sel] = true
		}
		return true
	})
	target := map[string]*ast.Object{}
	ast.Inspect(fd, func(n ast.Node) bool {
		if id, ok := n.(*ast.Ident); ok && id.Obj != nil && !astnormField[id] {
			if c, ok := astnormCanon[id.Obj]; ok {
				if _, ok := want[c]; ok {
					target[c] = id.Obj
				}
			}
		}
		return true
	})
	// names the function's own locals carry in the working tree
	localNames := map[string]bool{}
	ast.Inspect(fd, func(n ast.Node) bool {
		if id, ok := n.(*ast.Ident); ok && id.Obj != nil && !astnormField[id] {
			if _, ok := astnormCanon[id.Obj]; ok {
				localNames[id.Obj.Name] = true
			}
		}
		return true
	})
	for c, name := range want {
		if localNames[name] {
			// the working tree still has a local of that name: the spec is read by name, as written (no renaming)
			delete(want, c)
			continue
		}
		o := target[c]
		if o == nil || tableNames[o.Name] {
			// nothing at that position, or a variable that carries another name of the table (the positions have
			// shifted: a local was added or removed): no renaming; the spec is read by name
			delete(want, c)
			continue
		}
		ast.Inspect(fd, func(n ast.Node) bool {
			id, ok := n.(*ast.Ident)
			if !ok || sels[id] || astnormField[id] || id.Name != name || id.Obj == o {
				return true
			}
			fail(token.Position{Filename: sp.File}, "spec.Bind of %s: the variable at canonical position %s is called %s; the name %s the spec has for it is used for something else in the function",
				sp.Func, c, o.Name, name)
			return true
		})
	}
	ast.Inspect(fd, func(n ast.Node) bool {
		if id, ok := n.(*ast.Ident); ok && id.Obj != nil && !astnormField[id] {
			if c, ok := astnormCanon[id.Obj]; ok {
				if name, ok := want[c]; ok {
					id.Name = name
				}
			}
		}
		return true
	})
	for c, name := range want {
		target[c].Name = name
	}
}

// printBinds: see the -dump-binds flag
func printBinds(repo string) {
	fset := token.NewFileSet()
	files := map[string]*ast.File{}
	seen := map[string]bool{}
	var keys []string
	out := map[string][]string{}
	for _, sp := range specs {
		k := bindKey(sp)
		if seen[k] {
			continue
		}
		seen[k] = true
		f, ok := files[sp.File]
		if !ok {
			var err error
			f, err = parser.ParseFile(fset, filepath.Join(repo, sp.File), nil, 0)
			if err != nil {
				fmt.Fprintln(os.Stderr, err)
				os.Exit(2)
			}
			IndexLocals(f)
			files[sp.File] = f
		}
		fd := findFunc(f, sp)
		if fd == nil {
			continue
		}
		type ent struct {
			pos  token.Pos
			text string
		}
		var es []ent
		done := map[*ast.Object]bool{}
		ast.Inspect(fd, func(n ast.Node) bool {
			if id, ok := n.(*ast.Ident); ok && id.Obj != nil && !astnormField[id] && !done[id.Obj] {
				if c, ok := astnormCanon[id.Obj]; ok {
					done[id.Obj] = true
					es = append(es, ent{id.Obj.Pos(), c + "=" + id.Obj.Name})
				}
			}
			return true
		})
		sort.Slice(es, func(i, j int) bool { return es[i].pos < es[j].pos })
		for _, e := range es {
			out[k] = append(out[k], e.text)
		}
		keys = append(keys, k)
	}
	sort.Strings(keys)
	fmt.Println("// Code generated by `go2lean -dump-binds -repo <reference tree>`. DO NOT EDIT.")
	fmt.Println("//")
	fmt.Println("// The names of the local variables of every translated function in the reference tree, by canonical position")
	fmt.Println("// (astnorm_gen.go). applyBind uses them to undo a maintainer's renaming of a local before translating, so that")
	fmt.Println("// the generated Lean text (argument order of loop functions, binder names) does not depend on it.")
	fmt.Println("package main")
	fmt.Println()
	fmt.Println("var bindTables = map[string][]string{")
	for _, k := range keys {
		q := make([]string, len(out[k]))
		for i, e := range out[k] {
			q[i] = strconv.Quote(e)
		}
		fmt.Printf("\t%s: {%s},\n", strconv.Quote(k), strings.Join(q, ", "))
	}
	fmt.Println("}")
}

func printCanon(repo, what string) {
	parts := strings.SplitN(what, ":", 2)
	if len(parts) != 2 {
		fmt.Fprintln(os.Stderr, "go2lean: -canon file.go:Func")
		os.Exit(2)
	}
	fset := token.NewFileSet()
	f, err := parser.ParseFile(fset, filepath.Join(repo, parts[0]), nil, 0)
	if err != nil {
		fmt.Fprintln(os.Stderr, err)
		os.Exit(2)
	}
	IndexLocals(f)
	for _, d := range f.Decls {
		if fd, ok := d.(*ast.FuncDecl); ok && fd.Name.Name == parts[1] {
			withCanon(fd, func() { printer.Fprint(os.Stdout, fset, fd) })
			fmt.Println()
		}
	}
}

func findFunc(f *ast.File, sp spec) *ast.FuncDecl {
	for _, d := range f.Decls {
		fd, ok := d.(*ast.FuncDecl)
		if !ok || fd.Name.Name != sp.Func {
			continue
		}
		if sp.Recv == "" && fd.Recv == nil {
			return fd
		}
		if sp.Recv != "" && fd.Recv != nil && len(fd.Recv.List) == 1 {
			rt := fd.Recv.List[0].Type
			if st, ok := rt.(*ast.StarExpr); ok {
				rt = st.X
			}
			if ix, ok := rt.(*ast.IndexExpr); ok { // receiver of a generic type: T[P]
				rt = ix.X
			}
			if id, ok := rt.(*ast.Ident); ok && id.Name == sp.Recv {
				return fd
			}
		}
	}
	return nil
}

func typeName(e ast.Expr) string {
	switch x := e.(type) {
	case *ast.Ident:
		return x.Name
	case *ast.StarExpr:
		return typeName(x.X)
	}
	return "?"
}

func translate(fset *token.FileSet, f *ast.File, sp spec) []genFunc {
	fd := findFunc(f, sp)
	if fd == nil {
		fmt.Fprintf(os.Stderr, "go2lean: %s: function %s (recv %q) not found\n", sp.File, sp.Func, sp.Recv)
		os.Exit(2)
	}
	applyBind(fd, sp)
	base := &tr{fset: fset, vars: map[string]Ty{}, outPtr: sp.OutPtr}
	var params []string
	if fd.Recv != nil && len(fd.Recv.List[0].Names) == 1 {
		base.recv = fd.Recv.List[0].Names[0].Name
	}
	for _, fld := range sp.Fields {
		nt := strings.SplitN(fld, ":", 2)
		ty := map[string]Ty{"[]float32": TF32s, "[]uint64": TU64s, "[]byte": TBytes}[nt[1]]
		base.vars[nt[0]] = ty
		params = append(params, fmt.Sprintf("(%s : %s)", ident(nt[0]), leanTy(ty)))
	}
	// generic (type-switch) functions: parameters of type parameter type are bound per arm
	generic := map[string]bool{}
	if fd.Type.TypeParams != nil {
		for _, tp := range fd.Type.TypeParams.List {
			for _, n := range tp.Names {
				generic[n.Name] = true
			}
		}
	}
	var genericParam string
	for _, p := range fd.Type.Params.List {
		for _, n := range p.Names {
			if generic[typeName(p.Type)] {
				genericParam = n.Name
				continue
			}
			ty := base.goType(p.Type)
			base.vars[n.Name] = ty
			params = append(params, fmt.Sprintf("(%s : %s)", ident(n.Name), leanTy(ty)))
		}
	}
	// results
	if fd.Type.Results != nil {
		for _, r := range fd.Type.Results.List {
			if id, ok := r.Type.(*ast.Ident); ok && id.Name == "error" {
				base.dropErr = true
				continue
			}
			n := len(r.Names)
			if n == 0 {
				n = 1
			}
			for i := 0; i < n; i++ {
				rt := base.goType(r.Type)
				if rt == TF32 && sp.FloatSym {
					rt = TFX
				}
				base.results = append(base.results, rt)
			}
		}
	}
	lname := sp.Func
	if sp.Recv != "" {
		lname = sp.Recv + "_" + sp.Func
	}
	mk := func(t *tr, name string, ps []string, body []ast.Stmt, tail func() string) genFunc {
		var rts []string
		for _, r := range t.results {
			rts = append(rts, leanTy(r))
		}
		text := fmt.Sprintf("def %s %s : %s :=\n%s\n", name, strings.Join(ps, " "), strings.Join(rts, " × "), strings.TrimRight(t.block(body, tail, 1), "\n"))
		return genFunc{name: name, text: text}
	}
	noTail := func() string {
		fail(fset.Position(fd.End()), "control reaches the end of %s", sp.Func)
		return ""
	}
	if genericParam == "" {
		return []genFunc{mk(base, lname, params, fd.Body.List, noTail)}
	}
	// expect: a single type switch on any(<genericParam>), optionally followed by a return
	if len(fd.Body.List) < 1 {
		fail(fset.Position(fd.Pos()), "generic function body")
	}
	ts, ok := fd.Body.List[0].(*ast.TypeSwitchStmt)
	if !ok {
		fail(fset.Position(fd.Pos()), "generic function must start with a type switch")
	}
	after := fd.Body.List[1:]
	var out []genFunc
	for _, cl := range ts.Body.List {
		cc := cl.(*ast.CaseClause)
		if cc.List == nil {
			continue // default arm: the error path
		}
		if len(cc.List) != 1 {
			fail(fset.Position(cc.Pos()), "multi-type case")
		}
		tn := typeName(cc.List[0])
		t := &tr{fset: fset, vars: copyVars(base.vars), outPtr: sp.OutPtr, dropErr: base.dropErr, results: base.results}
		ps := append([]string{}, params...)
		ty := t.goType(cc.List[0])
		if sp.OutPtr == genericParam {
			t.results = []Ty{ty}
			t.dropErr = false
		} else {
			t.vars[genericParam] = ty
			ps = append(ps, fmt.Sprintf("(%s : %s)", ident(genericParam), leanTy(ty)))
		}
		body := append(append([]ast.Stmt{}, cc.Body...), after...)
		out = append(out, mk(t, lname+"_"+tn, ps, body, noTail))
	}
	return out
}

func main() {
	repo := flag.String("repo", "/repo", "repository root (working tree)")
	out := flag.String("out", "", "output directory for generated Lean modules")
	canon := flag.String("canon", "", "debug: print function `file.go:Func` (path relative to the repository) under canonical local names and exit")
	dumpBinds := flag.Bool("dump-binds", false, "print bind_gen.go (the names of the locals of every translated function in THIS tree, by canonical position) and exit; run it on the reference tree after an intended change of a translated function")
	flag.Parse()
	if *canon != "" {
		printCanon(*repo, *canon)
		return
	}
	if *dumpBinds {
		printBinds(*repo)
		return
	}
	if *out == "" {
		fmt.Fprintln(os.Stderr, "go2lean: -out required")
		os.Exit(2)
	}
	fset := token.NewFileSet()
	files := map[string]*ast.File{}
	mods := map[string][]genFunc{}
	extMods := map[string]bool{}
	failedMods := map[string]bool{}
	failedFuncs := map[string][]string{}
	seenMod := map[string]bool{}
	knownFuncs := map[string]map[string]*xty{}
	var order []string
	for _, sp := range specs {
		f, ok := files[sp.File]
		if !ok {
			var err error
			f, err = parser.ParseFile(fset, filepath.Join(*repo, sp.File), nil, 0)
			if err != nil {
				fmt.Fprintf(os.Stderr, "go2lean: %v\n", err)
				os.Exit(2)
			}
			prepareFile(fset, f)
			files[sp.File] = f
		}
		if _, ok := mods[sp.Module]; !ok && !seenMod[sp.Module] {
			order = append(order, sp.Module)
		}
		seenMod[sp.Module] = true
		var gs []genFunc
		func() {
			defer func() {
				if r := recover(); r != nil {
					f, ok := r.(failure)
					if !ok {
						panic(r)
					}
					fmt.Fprintln(os.Stderr, f.msg)
					// function granularity: the module is written WITHOUT this function (and says so); what refers to the
					// missing definition no longer builds - the theorems about that function, i.e. its property - while
					// the other definitions of the module, which other properties' models import, stay tied
					failedFuncs[sp.Module] = append(failedFuncs[sp.Module], sp.File+" : "+sp.Recv+"."+sp.Func)
					gs = nil
				}
			}()
			if sp.Ext {
				extMods[sp.Module] = true
				if knownFuncs[sp.Module] == nil {
					knownFuncs[sp.Module] = map[string]*xty{}
				}
				gs = translateExt(fset, makeLoader(fset, *repo, files), sp, knownFuncs[sp.Module])
			} else {
				gs = translate(fset, f, sp)
			}
		}()
		for _, g := range gs {
			dup := false
			for _, h := range mods[sp.Module] {
				if h.name == g.name {
					if !strings.HasPrefix(g.name, "structure ") || !strings.HasSuffix(h.text, g.text) {
						fmt.Fprintf(os.Stderr, "go2lean: module %s: two different definitions of %s\n", sp.Module, g.name)
						os.Exit(2)
					}
					dup = true
				}
			}
			if dup {
				continue
			}
			g.text = fmt.Sprintf("/- from %s : %s -/\n", sp.File, sp.Func) + g.text
			mods[sp.Module] = append(mods[sp.Module], g)
		}
	}
	if err := os.MkdirAll(*out, 0o755); err != nil {
		panic(err)
	}
	for _, m := range order {
		if failedMods[m] || (len(failedFuncs[m]) > 0 && len(mods[m]) == 0) {
			fmt.Fprintf(os.Stderr, "go2lean: module %s is not written\n", m)
			continue
		}
		var b strings.Builder
		b.WriteString("-- GENERATED by tools/go2lean from the working tree of the repository. DO NOT EDIT.\n")
		for _, ff := range failedFuncs[m] {
			fmt.Fprintf(os.Stderr, "go2lean: module %s is written without %s\n", m, ff)
			b.WriteString("-- NOT TRANSLATED on this run (outside the translated subset, see the tool's message): " + ff + "\n")
		}
		b.WriteString("import SemaModel.Base.GoRt\n")
		seen := map[string]bool{}
		for _, im := range moduleImports[m] {
			if !seen[im] {
				b.WriteString("import " + im + "\n")
				seen[im] = true
			}
		}
		if extMods[m] {
			b.WriteString("set_option linter.unusedVariables false\n")
		}
		b.WriteString("namespace Sema.Gen." + m + "\nopen Sema\n\n")
		for _, g := range mods[m] {
			b.WriteString(g.text + "\n")
		}
		b.WriteString("end Sema.Gen." + m + "\n")
		if err := os.WriteFile(filepath.Join(*out, m+".lean"), []byte(b.String()), 0o644); err != nil {
			panic(err)
		}
	}
	if len(failedMods) != 0 || len(failedFuncs) != 0 {
		os.Exit(2)
	}
}
