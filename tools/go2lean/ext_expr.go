package main

import (
	"fmt"
	"go/ast"
	"go/constant"
	"go/parser"
	"go/token"
	"math"
	"strconv"
	"strings"
)

// math.Pi as the Go library spells it (src/math/const.go); go2lean reads no library source
const mathPiText = "3.14159265358979323846264338327950288419716939937510582097494459"

// an untyped integer constant used as a float32 / float64 value: exact for |c| < 2^24
func (x *xtr) floatLit(n ast.Node, c int64) string {
	if c >= 1<<24 || c <= -(1<<24) {
		x.bad(n, "integer constant %d as a float (only |c| < 2^24, which float32 and float64 both hold exactly)", c)
	}
	if c < 0 {
		return fmt.Sprintf("(Go.FExpr.neg (Go.FExpr.lit %d))", -c)
	}
	return fmt.Sprintf("(Go.FExpr.lit %d)", c)
}

// an untyped floating-point constant at float32 / float64: the bit pattern of the nearest value (what the Go
// compiler stores), as a leaf of the expression tree
func (x *xtr) floatConst(n ast.Node, v xval, ty *xty) string {
	if i, ok := constant.Int64Val(constant.ToInt(v.fc)); ok && constant.ToInt(v.fc).Kind() == constant.Int {
		return x.floatLit(n, i)
	}
	if ty.k == kF64 {
		f, _ := constant.Float64Val(v.fc)
		return fmt.Sprintf("(Go.FExpr.var64 0x%016x#64 /- %s -/)", math.Float64bits(f), v.s)
	}
	f, _ := constant.Float32Val(v.fc)
	return fmt.Sprintf("(Go.FExpr.var 0x%08x#32 /- %s -/)", math.Float32bits(f), v.s)
}

func isFloatTy(t *xty) bool { return t.k == kF32 || t.k == kF64 }

// ---------------------------------------------------------------------------------------------
// expressions of the extended subset

func (x *xtr) co(n ast.Node, v xval, ty *xty) string {
	switch v.ty.k {
	case kNil:
		if ty.k == kList || ty.k == kMap {
			return "[]" // nil and empty slices / maps are identified
		}
		if ty.k == kAny {
			return "Go.Any.nil"
		}
		if ty.k == kErrOpt || ty.k == kOpt {
			return "none"
		}
	case kErr:
		if ty.k == kErrOpt {
			return "some " + paren(v.s)
		}
		if sameTy(v.ty, ty) {
			return v.s
		}
	case kConst:
		switch ty.k {
		case kInt:
			if v.c < 0 {
				return fmt.Sprintf("(%d)", v.c)
			}
			return fmt.Sprintf("%d", v.c)
		case kU64:
			if v.c >= 0 {
				return fmt.Sprintf("0x%x#64", v.c)
			}
		case kByte:
			if v.c >= 0 && v.c < 256 {
				return fmt.Sprintf("0x%x#8", v.c)
			}
		case kF32, kF64:
			return x.floatLit(n, v.c)
		}
	case kFConst:
		if isFloatTy(ty) {
			return x.floatConst(n, v, ty)
		}
	case kMap:
		if ty.k == kAny && v.ty.key.k == kStr && v.ty.elem.k == kAny {
			return "Go.Any.map " + paren(v.s) // a map[string]any stored in an interface value
		}
		if sameTy(v.ty, ty) {
			return v.s
		}
	default:
		if sameTy(v.ty, ty) {
			return v.s
		}
	}
	x.bad(n, "cannot use %s (%s) as %s", v.s, v.ty.lean(), ty.lean())
	return ""
}

func (x *xtr) boolExpr(e ast.Expr) string { return x.co(e, x.expr(e), tBoolx) }
func (x *xtr) intExpr(e ast.Expr) string  { return x.co(e, x.expr(e), tInt) }

func (x *xtr) expr(e ast.Expr) xval {
	switch t := e.(type) {
	case *ast.ParenExpr:
		return x.expr(t.X)
	case *ast.Ident:
		switch t.Name {
		case "nil":
			return xval{s: "nil", ty: tNilx}
		case "true", "false":
			return xval{s: t.Name, ty: tBoolx}
		}
		if ty, ok := x.env[t.Name]; ok {
			if ty.k == kFunc && ty.oracle {
				x.bad(e, "the effectful callback %s used as a value", t.Name)
			}
			return xval{s: ident(t.Name), ty: ty}
		}
		if v, ok := x.consts[t.Name]; ok {
			return v
		}
		x.bad(e, "unknown identifier %s", t.Name)
	case *ast.BasicLit:
		switch t.Kind {
		case token.INT:
			u, err := strconv.ParseInt(t.Value, 0, 64)
			if err != nil {
				x.bad(e, "int literal %s", t.Value)
			}
			return xval{ty: tCon, c: u, s: t.Value}
		case token.STRING:
			s, err := strconv.Unquote(t.Value)
			if err != nil {
				x.bad(e, "string literal")
			}
			return xval{ty: tStr, s: leanString(x, e, s)}
		case token.FLOAT:
			if x.sp.FloatSym {
				if fc := constant.MakeFromLiteral(t.Value, token.FLOAT, 0); fc.Kind() != constant.Unknown {
					return xval{ty: tFCon, fc: fc, s: t.Value}
				}
			}
		}
	case *ast.SelectorExpr:
		if id, ok := t.X.(*ast.Ident); ok {
			if _, isVar := x.env[id.Name]; !isVar && x.sp.FloatSym && id.Name == "math" && t.Sel.Name == "Pi" {
				return xval{ty: tFCon, fc: constant.MakeFromLiteral(mathPiText, token.FLOAT, 0), s: "math.Pi"}
			}
			if _, isVar := x.env[id.Name]; !isVar && x.sp.FloatSym && id.Name == "math" && t.Sel.Name == "MaxFloat32" {
				// 0x1p127 * (1 + (1 - 0x1p-23)) = 2^128 - 2^104
				v := constant.BinaryOp(constant.Shift(constant.MakeInt64(1), token.SHL, 128), token.SUB, constant.Shift(constant.MakeInt64(1), token.SHL, 104))
				return xval{ty: tFCon, fc: constant.ToFloat(v), s: "math.MaxFloat32"}
			}
			if _, isVar := x.env[id.Name]; !isVar {
				if v, ok := x.consts[id.Name+"."+t.Sel.Name]; ok {
					return v
				}
				x.bad(e, "selector %s.%s", id.Name, t.Sel.Name)
			}
		}
		b := x.expr(t.X)
		if b.ty.k == kStruct {
			st := x.structs[b.ty.name]
			ft := st.field(t.Sel.Name)
			if ft == nil {
				x.bad(e, "field %s of %s is not modelled (spec)", t.Sel.Name, st.name)
			}
			return xval{s: paren(b.s) + "." + ident(t.Sel.Name), ty: ft}
		}
	case *ast.UnaryExpr:
		v := x.expr(t.X)
		switch t.Op {
		case token.NOT:
			return xval{s: "!" + paren(x.co(e, v, tBoolx)), ty: tBoolx}
		case token.AND:
			// &v of a local variable that is assigned exactly once (its definition): the pointer is the value
			if id, ok := t.X.(*ast.Ident); ok && (v.ty.k == kOrd || v.ty.k == kF32) && x.assignedOnce(id.Name) {
				return xval{s: "some " + paren(v.s), ty: &xty{k: kOpt, elem: v.ty}}
			}
			x.bad(e, "address of something that is not a float32 variable assigned exactly once")
		case token.SUB:
			if v.ty.k == kConst {
				return xval{ty: tCon, c: -v.c, s: fmt.Sprint(-v.c)}
			}
			if v.ty.k == kInt {
				if x.sp.WrapInt {
					return xval{s: "Go.wrap64 (-" + paren(v.s) + ")", ty: tInt}
				}
				return xval{s: "(-" + paren(v.s) + ")", ty: tInt}
			}
			if v.ty.k == kFConst {
				return xval{ty: tFCon, fc: constant.UnaryOp(token.SUB, v.fc, 0), s: "-" + v.s}
			}
			if isFloatTy(v.ty) {
				return xval{s: "Go.FExpr.neg " + paren(v.s), ty: v.ty}
			}
		}
	case *ast.BinaryExpr:
		return x.binary(t)
	case *ast.IndexExpr:
		b := x.expr(t.X)
		switch b.ty.k {
		case kList:
			i := x.intExpr(t.Index)
			return xval{s: fmt.Sprintf("Go.getI %s %s", paren(b.s), paren(i)), ty: b.ty.elem}
		case kMap:
			k := x.co(t.Index, x.expr(t.Index), b.ty.key)
			return xval{s: fmt.Sprintf("Go.mapGetD %s %s %s", paren(b.s), paren(k), paren(x.zero(e, b.ty.elem))), ty: b.ty.elem}
		}
	case *ast.SliceExpr:
		b := x.expr(t.X)
		if b.ty.k != kList || t.Slice3 {
			x.bad(e, "slice expression on %s", b.ty.lean())
		}
		switch {
		case t.Low == nil && t.High == nil:
			return b
		case t.High == nil:
			return xval{s: fmt.Sprintf("Go.sliceFromI %s %s", paren(b.s), paren(x.intExpr(t.Low))), ty: b.ty}
		default:
			lo := "0"
			if t.Low != nil {
				lo = x.intExpr(t.Low)
			}
			return xval{s: fmt.Sprintf("Go.sliceI %s %s %s", paren(b.s), paren(lo), paren(x.intExpr(t.High))), ty: b.ty}
		}
	case *ast.StarExpr:
		// *p of a pointer value (nil dereference: Go panics, here the zero value)
		if v := x.expr(t.X); v.ty.k == kOpt {
			x.usesRtX = true
			x.zero(e, v.ty.elem)
			return xval{s: "Go.deref " + paren(v.s), ty: v.ty.elem}
		}
	case *ast.CompositeLit:
		return x.composite(t)
	case *ast.CallExpr:
		return x.call(t)
	case *ast.FuncLit:
		return x.funcLit(t)
	}
	x.bad(e, "expression %T", e)
	return xval{}
}

func (x *xtr) composite(t *ast.CompositeLit) xval {
	ty := x.goTy(t.Type)
	switch ty.k {
	case kStruct:
		st := x.structs[ty.name]
		if len(st.caps) > 0 {
			x.bad(t, "literal of %s, whose slice capacity is modelled (structSpec.Caps)", st.name)
		}
		given := map[string]string{}
		if len(t.Elts) > 0 {
			if _, keyed := t.Elts[0].(*ast.KeyValueExpr); !keyed {
				// positional literal T{a, b}: Go demands every field, in declaration order; only for structs modelled in full
				if st.partial || len(st.drop) > 0 || len(t.Elts) != len(st.fields) {
					x.bad(t, "positional literal of %s, which is not modelled field by field", st.name)
				}
				var parts []string
				for i, el := range t.Elts {
					if _, keyed := el.(*ast.KeyValueExpr); keyed {
						x.bad(el, "mixed struct literal")
					}
					parts = append(parts, fmt.Sprintf("%s := %s", ident(st.fields[i].name), x.co(el, x.expr(el), st.fields[i].ty)))
				}
				return xval{s: "({ " + strings.Join(parts, ", ") + " } : " + ty.lean() + ")", ty: ty}
			}
		}
		for _, el := range t.Elts {
			kv, ok := el.(*ast.KeyValueExpr)
			if !ok {
				x.bad(el, "struct literal without field names")
			}
			k, ok := kv.Key.(*ast.Ident)
			if ok && st.drop[k.Name] {
				// a field the spec leaves out (structSpec.Drop): its initialiser must be free of calls
				ast.Inspect(kv.Value, func(n ast.Node) bool {
					switch n.(type) {
					case *ast.CallExpr, *ast.FuncLit:
						x.bad(kv.Value, "initialiser of the dropped field %s.%s contains a call", st.name, k.Name)
					}
					return true
				})
				continue
			}
			if !ok || st.field(k.Name) == nil {
				x.bad(el, "field of %s that is not modelled", st.name)
			}
			given[k.Name] = x.co(kv.Value, x.expr(kv.Value), st.field(k.Name))
		}
		var parts []string
		for _, f := range st.fields {
			v, ok := given[f.name]
			if !ok {
				v = x.zero(t, f.ty)
			}
			parts = append(parts, fmt.Sprintf("%s := %s", ident(f.name), v))
		}
		return xval{s: "({ " + strings.Join(parts, ", ") + " } : " + ty.lean() + ")", ty: ty}
	case kList:
		var parts []string
		for _, el := range t.Elts {
			if _, ok := el.(*ast.KeyValueExpr); ok {
				x.bad(el, "keyed array literal")
			}
			parts = append(parts, x.co(el, x.expr(el), ty.elem))
		}
		if at, ok := t.Type.(*ast.ArrayType); ok && at.Len != nil {
			n := x.expr(at.Len)
			if n.ty.k != kConst || int(n.c) != len(parts) {
				x.bad(t, "array literal that does not list all its elements")
			}
		}
		return xval{s: "[" + strings.Join(parts, ", ") + "]", ty: ty}
	case kMap:
		if len(t.Elts) == 0 {
			return xval{s: "[]", ty: ty}
		}
	}
	x.bad(t, "composite literal of %s", ty.lean())
	return xval{}
}

func (x *xtr) binary(t *ast.BinaryExpr) xval {
	if t.Op == token.LAND || t.Op == token.LOR {
		op := map[token.Token]string{token.LAND: "&&", token.LOR: "||"}[t.Op]
		return xval{s: fmt.Sprintf("(%s %s %s)", x.boolExpr(t.X), op, x.boolExpr(t.Y)), ty: tBoolx}
	}
	a, b := x.expr(t.X), x.expr(t.Y)
	if (t.Op == token.EQL || t.Op == token.NEQ) && (a.ty.k == kNil || b.ty.k == kNil) {
		o := a
		if a.ty.k == kNil {
			o = b
		}
		if o.ty.k == kList || o.ty.k == kMap {
			if t.Op == token.EQL {
				return xval{s: "List.isEmpty " + paren(o.s), ty: tBoolx}
			}
			return xval{s: "!List.isEmpty " + paren(o.s), ty: tBoolx}
		}
		if o.ty.k == kAny || o.ty.k == kErrOpt || o.ty.k == kOpt {
			// an interface value / a named error result / a pointer to a scalar compared with nil
			fn := map[xkind]string{kAny: "Go.Any.isNil ", kErrOpt: "Option.isNone ", kOpt: "Option.isNone "}[o.ty.k]
			if o.ty.k == kAny {
				x.usesRtX = true
			}
			if t.Op == token.EQL {
				return xval{s: fn + paren(o.s), ty: tBoolx}
			}
			return xval{s: "!" + fn + paren(o.s), ty: tBoolx}
		}
		x.bad(t, "comparison of %s with nil (an error is tested only right after the call that returned it)", o.ty.lean())
	}
	ty := a.ty
	if ty.k == kConst || ty.k == kFConst && b.ty.k != kConst {
		ty = b.ty
	}
	if ty.k == kFConst {
		// untyped constant arithmetic is exact (go/constant), as in the compiler
		fv := func(v xval) constant.Value {
			if v.ty.k == kConst {
				return constant.ToFloat(constant.MakeInt64(v.c))
			}
			return v.fc
		}
		switch t.Op {
		case token.ADD, token.SUB, token.MUL, token.QUO:
			r := constant.BinaryOp(fv(a), t.Op, fv(b))
			if r.Kind() != constant.Unknown {
				return xval{ty: tFCon, fc: r, s: a.s + " " + t.Op.String() + " " + b.s}
			}
		}
		x.bad(t, "constant operation %s", t.Op)
	}
	if isFloatTy(ty) {
		// float arithmetic stays symbolic: one constructor per Go operation, operands in source order
		fn, ok := map[token.Token]string{token.ADD: "add", token.SUB: "sub", token.MUL: "mul", token.QUO: "div"}[t.Op]
		if !ok {
			x.bad(t, "%s on floats (the symbolic float type has arithmetic only)", t.Op)
		}
		return xval{s: fmt.Sprintf("Go.FExpr.%s %s %s", fn, paren(x.co(t.X, a, ty)), paren(x.co(t.Y, b, ty))), ty: ty}
	}
	if ty.k == kConst {
		var r int64
		switch t.Op {
		case token.ADD:
			r = a.c + b.c
		case token.SUB:
			r = a.c - b.c
		case token.MUL:
			r = a.c * b.c
		default:
			x.bad(t, "constant operation %s", t.Op)
		}
		return xval{ty: tCon, c: r, s: fmt.Sprint(r)}
	}
	as, bs := x.co(t.X, a, ty), x.co(t.Y, b, ty)
	switch t.Op {
	case token.ADD, token.SUB, token.MUL:
		op := t.Op.String()
		switch ty.k {
		case kInt:
			if x.sp.WrapInt {
				return xval{s: fmt.Sprintf("Go.wrap64 (%s %s %s)", as, op, bs), ty: ty}
			}
			return xval{s: fmt.Sprintf("(%s %s %s)", as, op, bs), ty: ty}
		case kU64:
			return xval{s: fmt.Sprintf("(%s %s %s)", as, op, bs), ty: ty}
		case kStr:
			if t.Op == token.ADD {
				return xval{s: fmt.Sprintf("(%s ++ %s)", as, bs), ty: tStr}
			}
		}
	case token.QUO, token.REM:
		// Go truncates toward zero: Int.tdiv / Int.tmod
		if ty.k == kInt {
			fn := map[token.Token]string{token.QUO: "Int.tdiv", token.REM: "Int.tmod"}[t.Op]
			return xval{s: fmt.Sprintf("%s %s %s", fn, paren(as), paren(bs)), ty: tInt}
		}
	case token.EQL, token.NEQ:
		switch ty.k {
		case kInt, kU64, kStr, kBool, kByte:
			op := map[token.Token]string{token.EQL: "==", token.NEQ: "!="}[t.Op]
			return xval{s: fmt.Sprintf("(%s %s %s)", as, op, bs), ty: tBoolx}
		}
	case token.LSS, token.LEQ, token.GTR, token.GEQ:
		switch ty.k {
		case kOrd:
			// float32 as an abstract ordered type: `a > b` is `b < a` also for IEEE values (NaN: both false);
			// <= and >= are not (they are not the negations of > and <), so they are rejected
			switch t.Op {
			case token.LSS:
				return xval{s: fmt.Sprintf("decide (%s < %s)", as, bs), ty: tBoolx}
			case token.GTR:
				return xval{s: fmt.Sprintf("decide (%s < %s)", bs, as), ty: tBoolx}
			case token.LEQ:
				if x.sp.FloatLE { // with spec.FloatLE the type parameter also has a decidable ≤
					return xval{s: fmt.Sprintf("decide (%s ≤ %s)", as, bs), ty: tBoolx}
				}
			case token.GEQ:
				if x.sp.FloatLE {
					return xval{s: fmt.Sprintf("decide (%s ≤ %s)", bs, as), ty: tBoolx}
				}
			}
		case kInt:
			op := map[token.Token]string{token.LSS: "<", token.LEQ: "≤", token.GTR: ">", token.GEQ: "≥"}[t.Op]
			return xval{s: fmt.Sprintf("decide (%s %s %s)", as, op, bs), ty: tBoolx}
		case kU64, kByte:
			switch t.Op {
			case token.LSS:
				return xval{s: fmt.Sprintf("BitVec.ult %s %s", paren(as), paren(bs)), ty: tBoolx}
			case token.LEQ:
				return xval{s: fmt.Sprintf("BitVec.ule %s %s", paren(as), paren(bs)), ty: tBoolx}
			case token.GTR:
				return xval{s: fmt.Sprintf("BitVec.ult %s %s", paren(bs), paren(as)), ty: tBoolx}
			case token.GEQ:
				return xval{s: fmt.Sprintf("BitVec.ule %s %s", paren(bs), paren(as)), ty: tBoolx}
			}
		}
	}
	x.bad(t, "binary %s on %s", t.Op, ty.lean())
	return xval{}
}

// fmt.Errorf / fmt.Sprintf with a literal format whose verbs are %w / %s / %v on strings and errors
func (x *xtr) format(c *ast.CallExpr) string {
	if len(c.Args) < 1 {
		x.bad(c, "format call without format")
	}
	lit, ok := c.Args[0].(*ast.BasicLit)
	if !ok || lit.Kind != token.STRING {
		x.bad(c, "format that is not a literal")
	}
	f, err := strconv.Unquote(lit.Value)
	if err != nil {
		x.bad(c, "format literal")
	}
	var parts []string
	arg := 1
	for len(f) > 0 {
		i := strings.IndexByte(f, '%')
		if i < 0 {
			parts = append(parts, leanString(x, c, f))
			break
		}
		if i > 0 {
			parts = append(parts, leanString(x, c, f[:i]))
		}
		if i+1 >= len(f) || !strings.ContainsRune("wsvd", rune(f[i+1])) {
			x.bad(c, "format verb in %q", f)
		}
		if arg >= len(c.Args) {
			x.bad(c, "format with too few arguments")
		}
		v := x.expr(c.Args[arg])
		switch {
		case f[i+1] == 'd':
			// %d of an int / int64: its decimal text
			if v.ty.k != kInt && v.ty.k != kConst {
				x.bad(c.Args[arg], "%%d of %s", v.ty.lean())
			}
			x.usesRtX = true
			parts = append(parts, "Go.fmtInt "+paren(x.co(c.Args[arg], v, tInt)))
		case v.ty.k == kStr || v.ty.k == kErr:
			parts = append(parts, paren(v.s))
		case v.ty.k == kErrOpt:
			// a named error result that may be nil: fmt prints a nil error as <nil> / %!w(<nil>) / %!s(<nil>)
			nilText := map[byte]string{'v': "<nil>", 'w': "%!w(<nil>)", 's': "%!s(<nil>)"}[f[i+1]]
			x.usesRtX = true
			parts = append(parts, fmt.Sprintf("Go.fmtErr %s %s", leanString(x, c, nilText), paren(v.s)))
		case v.ty.k == kOpaque && f[i+1] == 'v' && x.env["fmt_"+v.ty.name] != nil && x.env["fmt_"+v.ty.name].k == kFunc:
			// the text of a value of an opaque type: the abstract function fmt_<Type> (spec.Prims "fmt_T=func(v T) string")
			parts = append(parts, ident("fmt_"+v.ty.name)+" "+paren(v.s))
		case v.ty.k == kAny && f[i+1] == 'v':
			// the text of an arbitrary interface value is not modelled: the abstract parameter fmtAny
			if !x.prims["fmtAny"] {
				x.bad(c.Args[arg], "%%v of an interface value needs the parameter fmtAny (spec.Prims)")
			}
			parts = append(parts, "fmtAny "+paren(v.s))
		default:
			x.bad(c.Args[arg], "format argument of type %s", v.ty.lean())
		}
		arg++
		f = f[i+2:]
	}
	if arg != len(c.Args) {
		x.bad(c, "format with too many arguments")
	}
	if len(parts) == 0 {
		return "\"\""
	}
	if len(parts) == 1 {
		return parts[0]
	}
	return "(" + strings.Join(parts, " ++ ") + ")"
}

// results of a call to a function-typed variable; oracles only through callStmt
func (x *xtr) call(c *ast.CallExpr) xval {
	name := selName(c.Fun)
	need := func(n int) {
		if len(c.Args) != n {
			x.bad(c, "%s with %d arguments", name, len(c.Args))
		}
	}
	if id, ok := c.Fun.(*ast.Ident); ok {
		if ft, ok := x.env[id.Name]; ok {
			if ft.k != kFunc {
				x.bad(c, "call of %s", id.Name)
			}
			if ft.oracle || (len(ft.results) > 0 && ft.results[len(ft.results)-1].k == kErr) {
				x.bad(c, "call of %s (effectful or failing) outside the form `v, err := f(..); if err != nil {..return..}`", id.Name)
			}
			if len(ft.results) != 1 {
				x.bad(c, "call of %s with %d results inside an expression", id.Name, len(ft.results))
			}
			return xval{s: x.applyFn(c, ident(id.Name), ft), ty: ft.results[0]}
		}
	}
	if pn, ok := x.pkgPrims[name]; ok {
		if se, isSel := c.Fun.(*ast.SelectorExpr); isSel {
			if id, isId := se.X.(*ast.Ident); isId {
				if _, shadowed := x.env[id.Name]; !shadowed {
					ft := x.env[pn]
					if len(ft.results) != 1 || ft.results[0].k == kErr {
						x.bad(c, "call of %s with %d results or an error result", name, len(ft.results))
					}
					return xval{s: x.applyFn(c, ident(pn), ft), ty: ft.results[0]}
				}
			}
		}
	}
	if at, ok := c.Fun.(*ast.ArrayType); ok && at.Len == nil && len(c.Args) == 1 {
		if lit, ok := c.Args[0].(*ast.BasicLit); ok && lit.Kind == token.STRING && x.goTy(at).elem.k == kByte {
			str, err := strconv.Unquote(lit.Value)
			if err != nil {
				x.bad(c, "string literal")
			}
			var parts []string
			for _, b := range []byte(str) {
				parts = append(parts, fmt.Sprintf("0x%x#8", b))
			}
			return xval{s: "[" + strings.Join(parts, ", ") + "]", ty: listOf(tBytex)}
		}
	}
	if se, ok := c.Fun.(*ast.SelectorExpr); ok && se.Sel.Name == "Get" && len(c.Args) == 1 {
		if id, ok := se.X.(*ast.Ident); ok {
			if ty, ok := x.env[id.Name]; ok && ty.k == kBucket {
				// nil (absent) and empty values are identified, like nil and empty slices everywhere
				kk := x.co(c.Args[0], x.expr(c.Args[0]), listOf(tBytex))
				return xval{s: fmt.Sprintf("(KV.get %s %s).getD []", ident(id.Name), paren(kk)), ty: listOf(tBytex)}
			}
		}
	}
	if se, ok := c.Fun.(*ast.SelectorExpr); ok {
		if id, ok := se.X.(*ast.Ident); ok {
			if sty, ok := x.env[id.Name]; ok && sty.k == kStruct {
				// a call of a function-typed field of a struct value
				if ft := x.structs[sty.name].field(se.Sel.Name); ft != nil && ft.k == kFunc && !ft.oracle {
					if len(ft.results) != 1 || ft.results[0].k == kErr {
						x.bad(c, "call of the field %s.%s with %d results or an error result", id.Name, se.Sel.Name, len(ft.results))
					}
					return xval{s: x.applyFn(c, paren(ident(id.Name))+"."+ident(se.Sel.Name), ft), ty: ft.results[0]}
				}
			}
		}
		// a method of an opaque value that does not change it: `v.M(..)` or `v.f.M(..)`
		if rt := x.opaqueRecv(se.X); rt != nil {
			rv := x.expr(se.X)
			m, ok := x.methods[rt.name+"."+se.Sel.Name]
			if !ok {
				x.bad(c, "method %s of the opaque type %s (spec.Methods)", se.Sel.Name, rt.name)
			}
			if m.mut {
				x.bad(c, "the mutating method %s.%s may only be the whole condition of an `if` on a struct field", rt.name, se.Sel.Name)
			}
			if len(m.ft.results) != 1 {
				x.bad(c, "method %s with %d results inside an expression", se.Sel.Name, len(m.ft.results))
			}
			return xval{s: x.applyFn(c, m.lean+" "+paren(rv.s), m.ft), ty: m.ft.results[0]}
		}
	}
	if fn, ft, ok := x.knownMethod(c); ok {
		if len(ft.results) != 1 {
			x.bad(c, "call of the method %s with %d results inside an expression", name, len(ft.results))
		}
		return xval{s: x.applyFn(c, fn, ft), ty: ft.results[0]}
	}
	if u, ok := x.uses[name]; ok {
		te, err := parser.ParseExpr(u.Sig)
		if err != nil {
			x.bad(c, "spec.Uses %s: %v", name, err)
		}
		ft := x.goTy(te)
		if ft.k != kFunc || len(ft.results) != 1 {
			x.bad(c, "spec.Uses %s: not a function type with one result", name)
		}
		return xval{s: x.applyFn(c, u.Lean, ft), ty: ft.results[0]}
	}
	if ft, ok := x.known[name]; ok {
		if len(ft.results) != 1 {
			x.bad(c, "call of %s with %d results inside an expression", name, len(ft.results))
		}
		return xval{s: x.applyFn(c, name, ft), ty: ft.results[0]}
	}
	switch name {
	case "min", "max":
		need(2)
		a, b := x.expr(c.Args[0]), x.expr(c.Args[1])
		if (a.ty.k == kInt || a.ty.k == kConst) && (b.ty.k == kInt || b.ty.k == kConst) {
			return xval{s: fmt.Sprintf("%s %s %s", name, paren(x.co(c.Args[0], a, tInt)), paren(x.co(c.Args[1], b, tInt))), ty: tInt}
		}
	case "strings.Split":
		need(2)
		sep, ok := c.Args[1].(*ast.BasicLit)
		if !ok || sep.Kind != token.STRING || sep.Value == `""` {
			x.bad(c, "strings.Split with a separator that is not a non-empty literal")
		}
		return xval{s: fmt.Sprintf("Go.strSplit %s %s", paren(x.co(c.Args[0], x.expr(c.Args[0]), tStr)), x.expr(sep).s), ty: listOf(tStr)}
	case "cap":
		// the capacity of a struct's slice field, kept in the ghost field <f>_cap (structSpec.Caps)
		need(1)
		if se, ok := c.Args[0].(*ast.SelectorExpr); ok {
			if b := x.expr(se.X); b.ty.k == kStruct && x.structs[b.ty.name].caps[se.Sel.Name] {
				return xval{s: paren(b.s) + "." + ident(se.Sel.Name+"_cap"), ty: tInt}
			}
		}
		if id, ok := c.Args[0].(*ast.Ident); ok {
			if cv, ok := x.capVars[id.Name]; ok && x.env[cv] != nil && x.env[cv].k == kInt {
				return xval{s: ident(cv), ty: tInt}
			}
		}
		x.bad(c, "cap of something that is neither a struct field of structSpec.Caps nor a variable of spec.CapVars")
	case "len":
		need(1)
		a := x.expr(c.Args[0])
		switch a.ty.k {
		case kList, kMap:
			return xval{s: "Go.len " + paren(a.s), ty: tInt}
		}
		x.bad(c, "len of %s", a.ty.lean())
	case "int", "int64":
		need(1)
		a := x.expr(c.Args[0])
		if a.ty.k == kInt || a.ty.k == kConst {
			return xval{s: x.co(c, a, tInt), ty: tInt} // int ↔ int64: no overflow assumed
		}
		if a.ty.k == kU64 {
			return xval{s: "BitVec.toInt " + paren(a.s), ty: tInt} // Go reinterprets the 64 bits: exact
		}
		if a.ty.k == kByte {
			return xval{s: "(BitVec.toNat " + paren(a.s) + " : Int)", ty: tInt} // uint8 → int: exact
		}
	case "float32", "float64":
		if x.sp.FloatAbs != "" && name == "float32" && len(c.Args) == 1 && selName(c.Args[0]) == "math.MaxFloat32" {
			// the largest finite float32 as an abstract value of the float type
			if !x.prims["maxFloat32"] {
				x.bad(c, "float32(math.MaxFloat32) needs the parameter maxFloat32 (spec.Prims)")
			}
			return xval{s: "maxFloat32", ty: &xty{k: kOrd, name: x.sp.FloatAbs}}
		}
		if x.sp.FloatSym {
			need(1)
			a := x.expr(c.Args[0])
			to := map[string]*xty{"float32": tF32, "float64": tF64}[name]
			switch a.ty.k {
			case kConst, kFConst:
				return xval{s: x.co(c, a, to), ty: to}
			case kInt:
				return xval{s: "Go.FExpr.ofInt " + paren(a.s), ty: to}
			case kU64:
				return xval{s: "Go.FExpr.ofNat (BitVec.toNat " + paren(a.s) + ")", ty: to}
			case kF32, kF64:
				if a.ty.k == to.k {
					return xval{s: a.s, ty: to}
				}
				return xval{s: map[xkind]string{kF32: "Go.FExpr.toF32 ", kF64: "Go.FExpr.toF64 "}[to.k] + paren(a.s), ty: to}
			}
		}
	case "math.Log10", "math.Sqrt", "math.Sin", "math.Cos", "math.Asin":
		if x.sp.FloatSym {
			need(1)
			fn := map[string]string{"math.Log10": "log10", "math.Sqrt": "sqrt", "math.Sin": "sin", "math.Cos": "cos", "math.Asin": "asin"}[name]
			return xval{s: "Go.FExpr." + fn + " " + paren(x.co(c.Args[0], x.expr(c.Args[0]), tF64)), ty: tF64}
		}
	case "math.Min":
		if x.sp.FloatSym {
			need(2)
			return xval{s: fmt.Sprintf("Go.FExpr.min %s %s", paren(x.co(c.Args[0], x.expr(c.Args[0]), tF64)), paren(x.co(c.Args[1], x.expr(c.Args[1]), tF64))), ty: tF64}
		}
	case "uint8", "byte":
		need(1)
		a := x.expr(c.Args[0])
		if a.ty.k == kByte {
			return a
		}
		if a.ty.k == kInt {
			return xval{s: "BitVec.ofInt 8 " + paren(a.s), ty: tBytex} // exact (keeps the low 8 bits like Go)
		}
	case "uint64":
		need(1)
		a := x.expr(c.Args[0])
		if a.ty.k == kU64 || a.ty.k == kConst {
			return xval{s: x.co(c, a, tU64x), ty: tU64x}
		}
		if a.ty.k == kInt {
			return xval{s: "BitVec.ofInt 64 " + paren(a.s), ty: tU64x} // exact (wraps like Go)
		}
	case "string":
		need(1)
		a := x.expr(c.Args[0])
		if a.ty.k == kStr {
			return a
		}
	case "append":
		if len(c.Args) < 2 {
			x.bad(c, "append with %d arguments", len(c.Args))
		}
		a := x.expr(c.Args[0])
		if a.ty.k != kList {
			x.bad(c, "append to %s", a.ty.lean())
		}
		if id, ok := c.Args[0].(*ast.Ident); ok && x.shared[id.Name] {
			x.bad(c, "append to %s, which may share its backing array with another variable", id.Name)
		}
		if c.Ellipsis.IsValid() {
			need(2)
			b := x.co(c.Args[1], x.expr(c.Args[1]), a.ty)
			return xval{s: fmt.Sprintf("(%s ++ %s)", a.s, b), ty: a.ty}
		}
		var parts []string
		for _, e := range c.Args[1:] {
			parts = append(parts, x.co(e, x.expr(e), a.ty.elem))
		}
		return xval{s: fmt.Sprintf("(%s ++ [%s])", a.s, strings.Join(parts, ", ")), ty: a.ty}
	case "make":
		if len(c.Args) >= 1 {
			ty := x.goTy(c.Args[0])
			switch {
			case ty.k == kMap && len(c.Args) <= 2:
				return xval{s: "[]", ty: ty}
			case ty.k == kList && len(c.Args) == 3: // make([]T, 0, cap)
				if l := x.expr(c.Args[1]); l.ty.k == kConst && l.c == 0 {
					x.intExpr(c.Args[2])
					return xval{s: "[]", ty: ty}
				}
			case ty.k == kList && len(c.Args) == 2:
				n := x.intExpr(c.Args[1])
				return xval{s: fmt.Sprintf("List.replicate (%s).toNat %s", n, paren(x.zero(c, ty.elem))), ty: ty}
			}
		}
	case "fmt.Errorf":
		return xval{s: x.format(c), ty: tErr}
	case "fmt.Sprintf":
		return xval{s: x.format(c), ty: tStr}
	case "errors.New":
		need(1)
		return xval{s: x.co(c, x.expr(c.Args[0]), tStr), ty: tErr}
	case "cmp.Compare":
		need(2)
		a, b := x.expr(c.Args[0]), x.expr(c.Args[1])
		switch {
		case a.ty.k == kU64 && (b.ty.k == kU64 || b.ty.k == kConst) || a.ty.k == kConst && b.ty.k == kU64:
			x.usesRtX = true
			return xval{s: fmt.Sprintf("Go.cmpU64 %s %s", paren(x.co(c.Args[0], a, tU64x)), paren(x.co(c.Args[1], b, tU64x))), ty: tInt}
		case a.ty.k == kInt && (b.ty.k == kInt || b.ty.k == kConst) || a.ty.k == kConst && b.ty.k == kInt:
			x.usesRtX = true
			return xval{s: fmt.Sprintf("Go.cmpInt %s %s", paren(x.co(c.Args[0], a, tInt)), paren(x.co(c.Args[1], b, tInt))), ty: tInt}
		}
		x.bad(c, "cmp.Compare of %s and %s", a.ty.lean(), b.ty.lean())
	case "bytes.Compare":
		need(2)
		bt := listOf(tBytex)
		return xval{s: fmt.Sprintf("Go.bytesCompare %s %s", paren(x.co(c.Args[0], x.expr(c.Args[0]), bt)), paren(x.co(c.Args[1], x.expr(c.Args[1]), bt))), ty: tInt}
	}
	// method call `e.Error()` on an error value: its message
	if se, ok := c.Fun.(*ast.SelectorExpr); ok && se.Sel.Name == "Error" && len(c.Args) == 0 {
		v := x.expr(se.X)
		if v.ty.k == kErr {
			return xval{s: v.s, ty: tStr}
		}
	}
	if v, ok := x.callLib(c, name); ok {
		return v
	}
	x.bad(c, "call %s", name)
	return xval{}
}

// `v.M(..)` where v is a struct value and M a method of its type translated earlier into this module: the Lean
// function (already applied to the receiver) and its type
func (x *xtr) knownMethod(c *ast.CallExpr) (string, *xty, bool) {
	se, ok := c.Fun.(*ast.SelectorExpr)
	if !ok {
		return "", nil, false
	}
	base := lvalueBase(se.X)
	if base == "" || x.env[base] == nil {
		return "", nil, false
	}
	rv := x.expr(se.X)
	if rv.ty.k != kStruct {
		return "", nil, false
	}
	ft, ok := x.known[rv.ty.name+"."+se.Sel.Name]
	if !ok {
		return "", nil, false
	}
	return rv.ty.name + "_" + se.Sel.Name + " " + paren(rv.s), ft, true
}

// is the variable assigned exactly once in the whole function body (so that &v can stand for its value)?
func (x *xtr) assignedOnce(name string) bool {
	if x.fnBody == nil || x.params[name] {
		return false
	}
	n := 0
	ast.Inspect(x.fnBody, func(m ast.Node) bool {
		switch t := m.(type) {
		case *ast.AssignStmt:
			for _, l := range t.Lhs {
				if lvalueBase(l) == name {
					n++
				}
			}
		case *ast.IncDecStmt:
			if lvalueBase(t.X) == name {
				n++
			}
		case *ast.RangeStmt:
			if isIdent(t.Key, name) || isIdent(t.Value, name) {
				n += 2
			}
		case *ast.ValueSpec:
			for _, id := range t.Names {
				if id.Name == name {
					n += 2 // `var v T` followed by assignments: not the single-definition form
				}
			}
		case *ast.UnaryExpr:
			if t.Op == token.AND && isIdent(t.X, name) {
				// fine: taking the address does not assign
			}
		}
		return true
	})
	return n == 1
}

// the opaque type of `v` / `v.f` / `v[i].f` …, nil if the expression is not a variable path of opaque type
func (x *xtr) opaqueRecv(e ast.Expr) *xty {
	if len(x.opaque) == 0 {
		return nil
	}
	base := lvalueBase(e)
	if base == "" || x.env[base] == nil {
		return nil
	}
	if id, ok := e.(*ast.Ident); ok {
		if ty := x.env[id.Name]; ty.k == kOpaque {
			return ty
		}
		return nil
	}
	if se, ok := e.(*ast.SelectorExpr); ok {
		if b := x.expr(se.X); b.ty.k == kStruct {
			if ft := x.structs[b.ty.name].field(se.Sel.Name); ft != nil && ft.k == kOpaque {
				return ft
			}
		}
	}
	return nil
}

func (x *xtr) applyFn(c *ast.CallExpr, fn string, ft *xty) string {
	if len(c.Args) != len(ft.params) {
		x.bad(c, "call arity")
	}
	parts := []string{fn}
	for i, a := range c.Args {
		parts = append(parts, paren(x.co(a, x.expr(a), ft.params[i])))
	}
	if len(c.Args) == 0 && !strings.Contains(fn, " ") { // (a method prim is already applied to its receiver)
		parts = append(parts, "()")
	}
	return strings.Join(parts, " ")
}

// a function literal: a pure Lean lambda (it may read, but not assign, captured variables)
func (x *xtr) funcLit(t *ast.FuncLit) xval {
	ft := x.goTy(t.Type)
	saved, savedCtx, savedRes := x.env, x.ctx, x.results
	x.env = copyEnv(saved)
	var names []string
	for _, p := range t.Type.Params.List {
		for _, n := range p.Names {
			x.declare(n, n.Name, x.goTy(p.Type))
			names = append(names, ident(n.Name))
		}
	}
	if len(names) != len(ft.params) {
		x.bad(t, "unnamed parameters of a function literal")
	}
	out := map[string]bool{}
	x.assigned(t.Body.List, map[string]bool{}, out)
	if len(out) != 0 {
		x.bad(t, "function literal assigns captured variable(s) %v", sortedNames(out))
	}
	if scanCtl(t.Body.List).fuelLoop {
		x.bad(t, "`for` loop inside a function literal")
	}
	x.results = ft.results
	x.ctx = xctx{mode: mPlain}
	savedExtras, savedRho := x.extras, x.rho
	x.extras = nil
	x.rho = resLean(ft.results)
	body := x.block(t.Body.List, func() string {
		x.bad(t, "control reaches the end of a function literal with results")
		return ""
	})
	x.extras, x.rho = savedExtras, savedRho
	x.env, x.ctx, x.results = saved, savedCtx, savedRes
	hd := "fun " + strings.Join(names, " ") + " =>"
	if len(names) == 0 {
		hd = "fun () =>"
	}
	if !strings.Contains(body, "\n") {
		return xval{s: "(" + hd + " " + body + ")", ty: ft}
	}
	return xval{s: "(" + hd + "\n" + indent(body, 2) + ")", ty: ft}
}
