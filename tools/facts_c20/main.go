// facts_c20 (T2): pins the loop structure of the two AVX kernels distance/asm/dot.s and
// distance/asm/euclidean.s.  It parses the Go assembler text, walks it against the one
// program shape the Lean model SemaModel/C20/Model.lean describes (prologue, zeroed
// accumulators, block loop, scalar tail loop, horizontal reduction), evaluates every vector
// instruction of the loop bodies symbolically (which memory operand meets which, which
// accumulator receives the product) and writes the numbers it found to
// Generated/FactsC20.lean.  SemaModel/C20/Props.lean proves `FactsC20.dot = shape …` by
// `decide`, so any change of a bound, an increment, an offset, a register role or the
// reduction sequence breaks a proof obligation.  An instruction the walk does not expect is
// an error (exit 1): a broken tie, never a guess.
package main

import (
	"flag"
	"fmt"
	"os"
	"path/filepath"
	"regexp"
	"strconv"
	"strings"
)

type ins struct {
	op   string
	args []string
	line int
}

type prog struct {
	file   string
	ins    []ins
	labels map[string]int // label -> index of the first instruction after it
	pc     int
}

func fail(format string, a ...any) {
	fmt.Fprintf(os.Stderr, "facts_c20: "+format+"\n", a...)
	os.Exit(1)
}

func parse(path string) *prog {
	b, err := os.ReadFile(path)
	if err != nil {
		fail("%v", err)
	}
	p := &prog{file: path, labels: map[string]int{}}
	var order []string // labels in the order they are defined
	started := false
	for i, raw := range strings.Split(string(b), "\n") {
		l := raw
		if j := strings.Index(l, "//"); j >= 0 {
			l = l[:j]
		}
		l = strings.TrimSpace(l)
		if l == "" || strings.HasPrefix(l, "#include") {
			continue
		}
		if strings.HasPrefix(l, "TEXT") {
			if started {
				fail("%s:%d: more than one TEXT block", path, i+1)
			}
			started = true
			continue
		}
		if !started {
			fail("%s:%d: instruction before TEXT", path, i+1)
		}
		if m := regexp.MustCompile(`^([A-Za-z_][A-Za-z0-9_]*):$`).FindStringSubmatch(l); m != nil {
			if _, dup := p.labels[m[1]]; dup {
				fail("%s:%d: duplicate label %s", path, i+1, m[1])
			}
			p.labels[m[1]] = len(p.ins)
			order = append(order, m[1])
			continue
		}
		f := strings.Fields(l)
		op := f[0]
		rest := strings.TrimSpace(l[len(op):])
		var args []string
		if rest != "" {
			for _, a := range strings.Split(rest, ",") {
				args = append(args, strings.TrimSpace(a))
			}
		}
		p.ins = append(p.ins, ins{op, args, i + 1})
	}
	if !started {
		fail("%s: no TEXT block", path)
	}
	// Label NAMES carry no meaning: the walk below speaks of the four labels of the one program shape by the
	// names the generator gives them; the k-th label defined in the file is taken to be the k-th of these
	// (a file with another number of labels keeps its names and fails the walk).
	canon := []string{"blockloop", "tail", "tailloop", "reduce"}
	if len(order) == len(canon) {
		ren := map[string]string{}
		labels := map[string]int{}
		for k, name := range order {
			ren[name] = canon[k]
			labels[canon[k]] = p.labels[name]
		}
		p.labels = labels
		for i := range p.ins {
			if strings.HasPrefix(p.ins[i].op, "J") { // jumps: the operand is a label
				for j, a := range p.ins[i].args {
					if r, ok := ren[a]; ok {
						p.ins[i].args[j] = r
					}
				}
			}
		}
	}
	return p
}

func (p *prog) bad(i ins, why string) {
	fail("%s:%d: %s %s: %s", p.file, i.line, i.op, strings.Join(i.args, ", "), why)
}

// next returns the next instruction, which must have the given opcode and arity.
func (p *prog) next(op string, nargs int) ins {
	if p.pc >= len(p.ins) {
		fail("%s: unexpected end of text, wanted %s", p.file, op)
	}
	i := p.ins[p.pc]
	if i.op != op || len(i.args) != nargs {
		p.bad(i, fmt.Sprintf("expected %s with %d operands here", op, nargs))
	}
	p.pc++
	return i
}

func (p *prog) peek() ins {
	if p.pc >= len(p.ins) {
		fail("%s: unexpected end of text", p.file)
	}
	return p.ins[p.pc]
}

func (p *prog) atLabel(name string) {
	at, ok := p.labels[name]
	if !ok {
		fail("%s: label %s not found", p.file, name)
	}
	if at != p.pc {
		fail("%s: label %s is at instruction %d, the walk is at %d (line %d)", p.file, name, at, p.pc, p.ins[min(p.pc, len(p.ins)-1)].line)
	}
}

func imm(p *prog, i ins, s string) uint64 {
	if !strings.HasPrefix(s, "$") {
		p.bad(i, "expected an immediate, got "+s)
	}
	v, err := strconv.ParseUint(strings.TrimPrefix(s, "$"), 0, 64)
	if err != nil {
		p.bad(i, "bad immediate "+s)
	}
	return v
}

var memRe = regexp.MustCompile(`^(\d*)\(([A-Z0-9]+)\)$`)
var vregRe = regexp.MustCompile(`^([XY])(\d+)$`)

// mem parses `off(REG)`; ok=false when s is not a memory operand
func mem(s string) (off uint64, reg string, ok bool) {
	m := memRe.FindStringSubmatch(s)
	if m == nil {
		return 0, "", false
	}
	if m[1] != "" {
		off, _ = strconv.ParseUint(m[1], 10, 64)
	}
	return off, m[2], true
}

func vreg(p *prog, i ins, s string, class string) int {
	m := vregRe.FindStringSubmatch(s)
	if m == nil || m[1] != class {
		p.bad(i, "expected a "+class+" register, got "+s)
	}
	n, _ := strconv.Atoi(m[2])
	return n
}

// symbolic lane values of the loop bodies
type sym struct {
	kind string // "x" load from x, "y" load from y, "sub" x-y
	xoff uint64
	yoff uint64
}

type facts struct {
	name                              string
	lenFromX                          bool
	blockCmp                          uint64
	accRegs, xOffs, yOffs, termKinds  []uint64
	accZeroed                         bool
	vecBytes                          uint64
	ptrAddX, ptrAddY, cntSub          uint64
	tailCmp                           uint64
	tailTermKind                      uint64
	tailPtrAddX, tailPtrAddY, tailDec uint64
	tailAccZeroed                     bool
	reduceFold                        []uint64
	reduceTail                        []uint64
}

const (
	termMul   = 0 // acc += x*y          (VFMADD231 mem_y, reg_x, acc)
	termSqDif = 1 // acc += (x-y)*(x-y)  (VSUB mem_y, reg_x, d ; VFMADD231 d, d, acc)
)

// reduction step codes (after the accumulators were folded into the first one)
const (
	redExtractHigh = 1 // VEXTRACTF128 $1, Yacc, Xtop
	redAddHigh     = 2 // VADDPS Xacc, Xtop, Xacc
	redAddTail     = 3 // VADDPS Xacc, Xtail, Xacc
	redHadd        = 4 // VHADDPS Xacc, Xacc, Xacc
	redStoreLane0  = 5 // MOVSS Xacc, ret+48(FP)
)

func extract(path, name string) facts {
	p := parse(path)
	f := facts{name: name}
	// ---- prologue: pointers and length
	var rx, ry, rn string
	for k := 0; k < 3; k++ {
		i := p.next("MOVQ", 2)
		switch i.args[0] {
		case "x_base+0(FP)":
			rx = i.args[1]
		case "y_base+24(FP)":
			ry = i.args[1]
		case "x_len+8(FP)":
			rn = i.args[1]
			f.lenFromX = true
		default:
			p.bad(i, "unexpected prologue load")
		}
	}
	if rx == "" || ry == "" || rn == "" || rx == ry || rx == rn || ry == rn {
		fail("%s: prologue does not load x_base, y_base, x_len into three distinct registers", path)
	}
	// ---- zeroed vector registers
	zeroedY := map[int]bool{}
	for p.peek().op == "VXORPS" {
		i := p.next("VXORPS", 3)
		a, b, c := vreg(p, i, i.args[0], "Y"), vreg(p, i, i.args[1], "Y"), vreg(p, i, i.args[2], "Y")
		if a != b || b != c {
			p.bad(i, "zeroing idiom expected (same register three times)")
		}
		zeroedY[a] = true
	}
	// ---- block loop
	p.atLabel("blockloop")
	i := p.next("CMPQ", 2)
	if i.args[0] != rn {
		p.bad(i, "block loop must compare the remaining length "+rn)
	}
	f.blockCmp = imm(p, i, i.args[1])
	i = p.next("JL", 1)
	if i.args[0] != "tail" {
		p.bad(i, "block loop must leave to label tail when fewer items remain")
	}
	regs := map[int]sym{} // Y register -> symbolic content
	type accTerm struct {
		acc  int
		term sym
	}
	var terms []accTerm
	written := map[int]bool{}
body:
	for {
		i = p.peek()
		switch i.op {
		case "VMOVUPS":
			p.next("VMOVUPS", 2)
			off, base, ok := mem(i.args[0])
			if !ok || base != rx {
				p.bad(i, "vector load must read from the x pointer "+rx)
			}
			r := vreg(p, i, i.args[1], "Y")
			regs[r] = sym{kind: "x", xoff: off}
			written[r] = true
		case "VSUBPS":
			p.next("VSUBPS", 3)
			off, base, ok := mem(i.args[0])
			if !ok || base != ry {
				p.bad(i, "vector subtract must take its subtrahend from the y pointer "+ry)
			}
			src := vreg(p, i, i.args[1], "Y")
			dst := vreg(p, i, i.args[2], "Y")
			s, have := regs[src]
			if !have || s.kind != "x" {
				p.bad(i, "minuend register does not hold a load from x")
			}
			delete(regs, src)
			regs[dst] = sym{kind: "sub", xoff: s.xoff, yoff: off}
			written[dst] = true
		case "VFMADD231PS":
			p.next("VFMADD231PS", 3)
			acc := vreg(p, i, i.args[2], "Y")
			b := vreg(p, i, i.args[1], "Y")
			sb, have := regs[b]
			if !have {
				p.bad(i, "multiplicand register holds no tracked value")
			}
			if off, base, ok := mem(i.args[0]); ok {
				if base != ry || sb.kind != "x" {
					p.bad(i, "fused multiply-add must multiply a load from x with memory at the y pointer")
				}
				terms = append(terms, accTerm{acc, sym{kind: "mul", xoff: sb.xoff, yoff: off}})
			} else {
				a := vreg(p, i, i.args[0], "Y")
				if a != b || sb.kind != "sub" {
					p.bad(i, "register form of the fused multiply-add must square a difference")
				}
				terms = append(terms, accTerm{acc, sym{kind: "sqdif", xoff: sb.xoff, yoff: sb.yoff}})
			}
			delete(regs, b) // every loaded vector is consumed exactly once
		default:
			break body
		}
	}
	if len(regs) != 0 {
		fail("%s: a vector loaded in the block loop is never consumed", path)
	}
	i = p.next("ADDQ", 2)
	if i.args[1] != rx {
		p.bad(i, "expected the x pointer to advance")
	}
	f.ptrAddX = imm(p, i, i.args[0])
	i = p.next("ADDQ", 2)
	if i.args[1] != ry {
		p.bad(i, "expected the y pointer to advance")
	}
	f.ptrAddY = imm(p, i, i.args[0])
	i = p.next("SUBQ", 2)
	if i.args[1] != rn {
		p.bad(i, "expected the remaining length to decrease")
	}
	f.cntSub = imm(p, i, i.args[0])
	i = p.next("JMP", 1)
	if i.args[0] != "blockloop" {
		p.bad(i, "block loop must jump back to blockloop")
	}
	f.vecBytes = 32 // Y registers, packed single precision: 8 float32 lanes
	f.accZeroed = true
	seen := map[int]bool{}
	accIndex := map[int]int{} // Y register number -> canonical accumulator index
	for _, t := range terms {
		if seen[t.acc] {
			fail("%s: accumulator Y%d receives two products in one block iteration (the model has one per accumulator)", path, t.acc)
		}
		seen[t.acc] = true
		if !zeroedY[t.acc] || written[t.acc] {
			f.accZeroed = false
		}
		accIndex[t.acc] = len(f.accRegs)
		f.accRegs = append(f.accRegs, uint64(len(f.accRegs))) // canonical numbering: k-th accumulator of the block body
		f.xOffs = append(f.xOffs, t.term.xoff)
		f.yOffs = append(f.yOffs, t.term.yoff)
		if t.term.kind == "mul" {
			f.termKinds = append(f.termKinds, termMul)
		} else {
			f.termKinds = append(f.termKinds, termSqDif)
		}
	}
	if len(terms) == 0 {
		fail("%s: no fused multiply-add in the block loop", path)
	}
	// ---- tail
	p.atLabel("tail")
	zeroedX := map[int]bool{}
	for p.peek().op == "VXORPS" {
		i := p.next("VXORPS", 3)
		a, b, c := vreg(p, i, i.args[0], "X"), vreg(p, i, i.args[1], "X"), vreg(p, i, i.args[2], "X")
		if a != b || b != c {
			p.bad(i, "zeroing idiom expected")
		}
		if seen[a] {
			p.bad(i, "zeroing an X register that aliases a block accumulator")
		}
		zeroedX[a] = true
	}
	p.atLabel("tailloop")
	i = p.next("CMPQ", 2)
	if i.args[0] != rn {
		p.bad(i, "tail loop must compare the remaining length")
	}
	f.tailCmp = imm(p, i, i.args[1])
	i = p.next("JE", 1)
	if i.args[0] != "reduce" {
		p.bad(i, "tail loop must leave to label reduce")
	}
	i = p.next("VMOVSS", 2)
	if off, base, ok := mem(i.args[0]); !ok || base != rx || off != 0 {
		p.bad(i, "scalar load must read the item at the x pointer")
	}
	xs := vreg(p, i, i.args[1], "X")
	tailAcc := -1
	if p.peek().op == "VSUBSS" {
		i = p.next("VSUBSS", 3)
		if off, base, ok := mem(i.args[0]); !ok || base != ry || off != 0 {
			p.bad(i, "scalar subtract must take the item at the y pointer")
		}
		if vreg(p, i, i.args[1], "X") != xs {
			p.bad(i, "scalar subtract must start from the loaded x item")
		}
		d := vreg(p, i, i.args[2], "X")
		i = p.next("VFMADD231SS", 3)
		if vreg(p, i, i.args[0], "X") != d || vreg(p, i, i.args[1], "X") != d {
			p.bad(i, "scalar fused multiply-add must square the difference")
		}
		tailAcc = vreg(p, i, i.args[2], "X")
		f.tailTermKind = termSqDif
		if tailAcc == d {
			p.bad(i, "tail accumulator is also the difference register")
		}
	} else {
		i = p.next("VFMADD231SS", 3)
		if off, base, ok := mem(i.args[0]); !ok || base != ry || off != 0 {
			p.bad(i, "scalar fused multiply-add must multiply with the item at the y pointer")
		}
		if vreg(p, i, i.args[1], "X") != xs {
			p.bad(i, "scalar fused multiply-add must use the loaded x item")
		}
		tailAcc = vreg(p, i, i.args[2], "X")
		f.tailTermKind = termMul
		if tailAcc == xs {
			p.bad(i, "tail accumulator is also the load register")
		}
	}
	f.tailAccZeroed = zeroedX[tailAcc] && !seen[tailAcc]
	i = p.next("ADDQ", 2)
	if i.args[1] != rx {
		p.bad(i, "expected the x pointer to advance")
	}
	f.tailPtrAddX = imm(p, i, i.args[0])
	i = p.next("ADDQ", 2)
	if i.args[1] != ry {
		p.bad(i, "expected the y pointer to advance")
	}
	f.tailPtrAddY = imm(p, i, i.args[0])
	i = p.next("DECQ", 1)
	if i.args[0] != rn {
		p.bad(i, "expected the remaining length to decrease by one")
	}
	f.tailDec = 1
	i = p.next("JMP", 1)
	if i.args[0] != "tailloop" {
		p.bad(i, "tail loop must jump back to tailloop")
	}
	// ---- reduce
	p.atLabel("reduce")
	acc0 := terms[0].acc
	for p.peek().op == "VADDPS" && strings.HasPrefix(p.peek().args[0], "Y") {
		i = p.next("VADDPS", 3)
		a, b, c := vreg(p, i, i.args[0], "Y"), vreg(p, i, i.args[1], "Y"), vreg(p, i, i.args[2], "Y")
		if a != acc0 || c != acc0 {
			p.bad(i, fmt.Sprintf("accumulators must be folded into Y%d", acc0))
		}
		k, isAcc := accIndex[b]
		if !isAcc {
			p.bad(i, "folding a register that is not a block accumulator")
		}
		f.reduceFold = append(f.reduceFold, uint64(k))
	}
	i = p.next("VEXTRACTF128", 3)
	if imm(p, i, i.args[0]) != 1 || vreg(p, i, i.args[1], "Y") != acc0 {
		p.bad(i, "expected the upper 128 bits of the folded accumulator")
	}
	top := vreg(p, i, i.args[2], "X")
	if top == acc0 || top == tailAcc {
		p.bad(i, "upper half extracted over a live register")
	}
	f.reduceTail = append(f.reduceTail, redExtractHigh)
	i = p.next("VADDPS", 3)
	if vreg(p, i, i.args[0], "X") != acc0 || vreg(p, i, i.args[1], "X") != top || vreg(p, i, i.args[2], "X") != acc0 {
		p.bad(i, "expected low half += upper half")
	}
	f.reduceTail = append(f.reduceTail, redAddHigh)
	i = p.next("VADDPS", 3)
	if vreg(p, i, i.args[0], "X") != acc0 || vreg(p, i, i.args[1], "X") != tailAcc || vreg(p, i, i.args[2], "X") != acc0 {
		p.bad(i, "expected the tail accumulator to be added")
	}
	f.reduceTail = append(f.reduceTail, redAddTail)
	for p.peek().op == "VHADDPS" {
		i = p.next("VHADDPS", 3)
		if vreg(p, i, i.args[0], "X") != acc0 || vreg(p, i, i.args[1], "X") != acc0 || vreg(p, i, i.args[2], "X") != acc0 {
			p.bad(i, "expected a horizontal add of the result register with itself")
		}
		f.reduceTail = append(f.reduceTail, redHadd)
	}
	i = p.next("MOVSS", 2)
	if vreg(p, i, i.args[0], "X") != acc0 || i.args[1] != "ret+48(FP)" {
		p.bad(i, "expected lane 0 of the result register to be stored as the return value")
	}
	f.reduceTail = append(f.reduceTail, redStoreLane0)
	p.next("RET", 0)
	if p.pc != len(p.ins) {
		p.bad(p.ins[p.pc], "text after RET")
	}
	return f
}

func natList(xs []uint64) string {
	s := make([]string, len(xs))
	for i, x := range xs {
		s[i] = strconv.FormatUint(x, 10)
	}
	return "[" + strings.Join(s, ", ") + "]"
}

func (f facts) lean() string {
	b := func(x bool) string {
		if x {
			return "true"
		}
		return "false"
	}
	return fmt.Sprintf(`def %s : KernelFacts :=
  { lenFromX := %s, blockCmp := %d, accRegs := %s, accZeroed := %s, xOffs := %s, yOffs := %s,
    termKinds := %s, vecBytes := %d, ptrAddX := %d, ptrAddY := %d, cntSub := %d,
    tailCmp := %d, tailTermKind := %d, tailPtrAddX := %d, tailPtrAddY := %d, tailDec := %d,
    tailAccZeroed := %s, reduceFold := %s, reduceTail := %s }
`, f.name, b(f.lenFromX), f.blockCmp, natList(f.accRegs), b(f.accZeroed), natList(f.xOffs), natList(f.yOffs),
		natList(f.termKinds), f.vecBytes, f.ptrAddX, f.ptrAddY, f.cntSub,
		f.tailCmp, f.tailTermKind, f.tailPtrAddX, f.tailPtrAddY, f.tailDec,
		b(f.tailAccZeroed), natList(f.reduceFold), natList(f.reduceTail))
}

// the pure-Go fallbacks and the dispatch are two-line functions; pin their text too, so that the
// harness' re-implementation of the reference loops stays the reference
func mustContain(path string, needles ...string) {
	b, err := os.ReadFile(path)
	if err != nil {
		fail("%v", err)
	}
	flat := strings.Join(strings.Fields(string(b)), " ")
	for _, n := range needles {
		if !strings.Contains(flat, strings.Join(strings.Fields(n), " ")) {
			fail("%s: expected text not found: %q", path, n)
		}
	}
}

func main() {
	repo := flag.String("repo", "/repo", "repository root (working tree)")
	out := flag.String("out", "", "output directory for generated Lean modules")
	flag.Parse()
	if *out == "" {
		fail("-out is required")
	}
	dot := extract(filepath.Join(*repo, "distance/asm/dot.s"), "dot")
	euc := extract(filepath.Join(*repo, "distance/asm/euclidean.s"), "euclidean")
	mustContain(filepath.Join(*repo, "distance/distance_amd64.go"),
		"dotProductImpl = asm.Dot", "euclideanDistance = asm.SquaredEuclideanDistance")
	// (the bodies of dotProductDistance / cosineDistance / haversineDistance are no longer pinned as text: they are
	// translated by tools/go2lean into Generated/Distance.lean and the theorems of C20/Formula.lean state their expression trees)
	mustContain(filepath.Join(*repo, "distance/distance.go"),
		"case models.DistanceEuclidean: return euclideanDistance, nil",
		"case models.DistanceDot: return dotProductDistance, nil",
		"case models.DistanceCosine: return cosineDistance, nil",
		"case models.DistanceHaversine: return haversineDistance, nil",
		"case models.DistanceHamming: return hammingDistance, nil",
		"case models.DistanceJaccard: return jaccardDistance, nil")
	var sb strings.Builder
	sb.WriteString("-- GENERATED by tools/facts_c20 from distance/asm/dot.s and distance/asm/euclidean.s. DO NOT EDIT.\n")
	sb.WriteString(`namespace Sema.Gen.FactsC20

/-- what the walk over one kernel found.  Offsets and increments are in bytes (a float32 item is 4),
accumulators are numbered in the order in which the block body uses them.  termKinds: 0 = acc += x*y (fused), 1 = acc += (x-y)*(x-y) (subtract,
then fused square).  reduceTail: 1 extract upper 128 bits, 2 add them to the low half, 3 add the
tail accumulator, 4 horizontal add, 5 store lane 0. -/
structure KernelFacts where
  lenFromX : Bool
  blockCmp : Nat
  accRegs : List Nat
  accZeroed : Bool
  xOffs : List Nat
  yOffs : List Nat
  termKinds : List Nat
  vecBytes : Nat
  ptrAddX : Nat
  ptrAddY : Nat
  cntSub : Nat
  tailCmp : Nat
  tailTermKind : Nat
  tailPtrAddX : Nat
  tailPtrAddY : Nat
  tailDec : Nat
  tailAccZeroed : Bool
  reduceFold : List Nat
  reduceTail : List Nat
  deriving DecidableEq, Repr

`)
	sb.WriteString(dot.lean())
	sb.WriteString("\n")
	sb.WriteString(euc.lean())
	sb.WriteString("\nend Sema.Gen.FactsC20\n")
	if err := os.WriteFile(filepath.Join(*out, "FactsC20.lean"), []byte(sb.String()), 0o644); err != nil {
		fail("%v", err)
	}
}
