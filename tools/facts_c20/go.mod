module facts_c20

go 1.23
