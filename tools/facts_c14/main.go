// facts_c14 (T2): syntactic facts of cluster/sync.go and cluster/rpchandlers.go that the C14 model
// takes as parameters or pins: CHUNKSIZE, the open flags of the shard receiver (always / only at
// chunk 0), where MkdirAll happens, when the checksum is computed, and the order
// send -> compare -> delete in both synchronisation phases.  Anything it cannot find is an error
// (a broken tie), never a guess.
package main

import (
	"bytes"
	"flag"
	"fmt"
	"go/ast"
	"go/parser"
	"go/printer"
	"go/token"
	"os"
	"path/filepath"
	"sort"
	"strconv"
	"strings"
)

var fset = token.NewFileSet()

func die(f string, a ...any) {
	fmt.Fprintf(os.Stderr, "facts_c14: "+f+"\n", a...)
	os.Exit(1)
}

func src(n ast.Node) string {
	var b bytes.Buffer
	printer.Fprint(&b, fset, n)
	return b.String()
}

func parse(path string) *ast.File {
	f, err := parser.ParseFile(fset, path, nil, 0)
	if err != nil {
		die("cannot parse %s: %v", path, err)
	}
	// behaviour-preserving normal form (astnorm_gen.go): log calls dropped, x++ / x += 1, := / var, order of pure
	// conjunctions, orientation of if/else. Identifiers are still matched and printed by NAME in this tool.
	NormalizeFile(fset, f, AllNorm)
	return f
}

func findFunc(f *ast.File, name string) *ast.FuncDecl {
	for _, d := range f.Decls {
		if fd, ok := d.(*ast.FuncDecl); ok && fd.Name.Name == name && fd.Body != nil {
			return fd
		}
	}
	die("function %s not found", name)
	return nil
}

func evalInt(e ast.Expr) (int64, bool) {
	switch v := e.(type) {
	case *ast.BasicLit:
		if v.Kind == token.INT {
			n, err := strconv.ParseInt(v.Value, 0, 64)
			return n, err == nil
		}
	case *ast.ParenExpr:
		return evalInt(v.X)
	case *ast.BinaryExpr:
		a, ok1 := evalInt(v.X)
		b, ok2 := evalInt(v.Y)
		if !ok1 || !ok2 {
			return 0, false
		}
		switch v.Op {
		case token.MUL:
			return a * b, true
		case token.ADD:
			return a + b, true
		case token.SHL:
			return a << uint(b), true
		}
	}
	return 0, false
}

// names of os.O_* selectors occurring in e
func oFlags(e ast.Node) []string {
	var out []string
	ast.Inspect(e, func(n ast.Node) bool {
		if s, ok := n.(*ast.SelectorExpr); ok {
			if x, ok := s.X.(*ast.Ident); ok && x.Name == "os" && strings.HasPrefix(s.Sel.Name, "O_") {
				out = append(out, s.Sel.Name)
			}
		}
		return true
	})
	sort.Strings(out)
	return out
}

func isCall(n ast.Node, recv, name string) (*ast.CallExpr, bool) {
	c, ok := n.(*ast.CallExpr)
	if !ok {
		return nil, false
	}
	switch f := c.Fun.(type) {
	case *ast.SelectorExpr:
		if f.Sel.Name != name {
			return nil, false
		}
		if recv == "" {
			return c, true
		}
		if x, ok := f.X.(*ast.Ident); ok && x.Name == recv {
			return c, true
		}
	case *ast.Ident:
		if recv == "" && f.Name == name {
			return c, true
		}
	}
	return nil, false
}

func containsCall(n ast.Node, recv, name string) (pos token.Pos, found bool) {
	ast.Inspect(n, func(m ast.Node) bool {
		if found || m == nil {
			return false
		}
		if c, ok := isCall(m, recv, name); ok {
			pos, found = c.Pos(), true
			return false
		}
		return true
	})
	return
}

func hasReturn(n ast.Node) bool {
	r := false
	ast.Inspect(n, func(m ast.Node) bool {
		if _, ok := m.(*ast.ReturnStmt); ok {
			r = true
		}
		// a send on the error channel followed by return is how the goroutine of phase 1 bails out
		return !r
	})
	return r
}

func isChunk0Cond(e ast.Expr) bool {
	s := strings.ReplaceAll(src(e), " ", "")
	return s == "args.ChunkIndex==0"
}

type ev struct {
	pos  token.Pos
	name string
}

func order(evs []ev) []string {
	sort.Slice(evs, func(i, j int) bool { return evs[i].pos < evs[j].pos })
	out := make([]string, len(evs))
	for i, e := range evs {
		out[i] = e.name
	}
	return out
}

func leanList(xs []string) string {
	q := make([]string, len(xs))
	for i, x := range xs {
		q[i] = strconv.Quote(x)
	}
	return "[" + strings.Join(q, ", ") + "]"
}

func main() {
	repo := flag.String("repo", "/repo", "")
	out := flag.String("out", "", "")
	flag.Parse()
	syncF := parse(filepath.Join(*repo, "cluster", "sync.go"))
	rpcF := parse(filepath.Join(*repo, "cluster", "rpchandlers.go"))

	// ---- CHUNKSIZE
	chunk := int64(-1)
	for _, d := range syncF.Decls {
		gd, ok := d.(*ast.GenDecl)
		if !ok || gd.Tok != token.CONST {
			continue
		}
		for _, sp := range gd.Specs {
			vs := sp.(*ast.ValueSpec)
			for i, n := range vs.Names {
				if n.Name == "CHUNKSIZE" && i < len(vs.Values) {
					v, ok := evalInt(vs.Values[i])
					if !ok {
						die("cannot evaluate CHUNKSIZE = %s", src(vs.Values[i]))
					}
					chunk = v
				}
			}
		}
	}
	if chunk < 0 {
		die("const CHUNKSIZE not found in cluster/sync.go")
	}

	// ---- receiver: RPCSendShard
	recv := findFunc(rpcF, "RPCSendShard")
	var always, chunk0 []string
	mkdirAtChunk0, mkdirElsewhere := false, false
	sumCond := ""
	openSeen := false
	flagVar := ""
	// the OpenFile call
	ast.Inspect(recv.Body, func(n ast.Node) bool {
		if c, ok := isCall(n, "os", "OpenFile"); ok {
			if openSeen {
				die("RPCSendShard: more than one os.OpenFile")
			}
			openSeen = true
			if len(c.Args) != 3 {
				die("RPCSendShard: unexpected os.OpenFile arity")
			}
			if id, ok := c.Args[1].(*ast.Ident); ok {
				flagVar = id.Name
			} else {
				always = oFlags(c.Args[1])
			}
		}
		return true
	})
	if !openSeen {
		die("RPCSendShard: os.OpenFile not found")
	}
	var walk func(stmts []ast.Stmt, underChunk0 bool, nested bool)
	walk = func(stmts []ast.Stmt, underChunk0 bool, nested bool) {
		for _, st := range stmts {
			switch s := st.(type) {
			case *ast.AssignStmt:
				if flagVar != "" && len(s.Lhs) == 1 {
					if id, ok := s.Lhs[0].(*ast.Ident); ok && id.Name == flagVar {
						fl := oFlags(s.Rhs[0])
						switch {
						case !nested && (s.Tok == token.DEFINE || s.Tok == token.ASSIGN || s.Tok == token.OR_ASSIGN):
							always = append(always, fl...)
						case underChunk0 && s.Tok == token.OR_ASSIGN:
							chunk0 = append(chunk0, fl...)
						default:
							die("RPCSendShard: assignment to %s in a context the model does not cover: %s", flagVar, src(s))
						}
					}
				}
			case *ast.IfStmt:
				c0 := isChunk0Cond(s.Cond)
				if _, found := containsCall(s.Body, "os", "MkdirAll"); found {
					if c0 && !nested {
						mkdirAtChunk0 = true
					} else {
						mkdirElsewhere = true
					}
				}
				if _, found := containsCall(s.Body, "", "FileHash"); found {
					if sumCond != "" {
						die("RPCSendShard: FileHash computed in more than one place")
					}
					sumCond = strings.Join(strings.Fields(src(s.Cond)), " ")
				}
				if s.Init != nil && !underChunk0 {
					if _, found := containsCall(s.Init, "os", "MkdirAll"); found {
						mkdirElsewhere = true
					}
				}
				walk(s.Body.List, underChunk0 || (c0 && !nested), true)
				if s.Else != nil {
					if b, ok := s.Else.(*ast.BlockStmt); ok {
						walk(b.List, false, true)
					}
				}
			}
		}
	}
	walk(recv.Body.List, false, false)
	sort.Strings(always)
	sort.Strings(chunk0)
	if sumCond == "" {
		die("RPCSendShard: no FileHash under an if")
	}
	has := func(xs []string, x string) bool {
		for _, y := range xs {
			if y == x {
				return true
			}
		}
		return false
	}

	// ---- sender: sendShardFile, order of send / compare / remove
	send := findFunc(syncF, "sendShardFile")
	var sevs []ev
	ast.Inspect(send.Body, func(n ast.Node) bool {
		switch s := n.(type) {
		case *ast.IfStmt:
			cond := strings.ReplaceAll(src(s.Cond), " ", "")
			switch {
			case cond == "rpcResp.BytesWritten!=n" && hasReturn(s.Body):
				sevs = append(sevs, ev{s.Pos(), "check-bytes-written"})
			case cond == "checksum!=rpcResp.Checksum" && hasReturn(s.Body):
				sevs = append(sevs, ev{s.Pos(), "compare-checksum"})
			}
			if s.Init != nil {
				if p, ok := containsCall(s.Init, "c", "RPCSendShard"); ok && hasReturn(s.Body) {
					sevs = append(sevs, ev{p, "send-chunk"})
				}
				if p, ok := containsCall(s.Init, "os", "RemoveAll"); ok {
					sevs = append(sevs, ev{p, "remove-source"})
				}
			}
		case *ast.AssignStmt:
			if p, ok := containsCall(s, "", "FileHash"); ok {
				sevs = append(sevs, ev{p, "local-checksum"})
			}
		}
		return true
	})
	sendOrder := order(sevs)

	// ---- phase 1: syncUserCollections, order inside the per-destination goroutine
	p1 := findFunc(syncF, "syncUserCollections")
	var revs []ev
	deleteRange := ""
	ast.Inspect(p1.Body, func(n ast.Node) bool {
		switch s := n.(type) {
		case *ast.IfStmt:
			cond := strings.ReplaceAll(src(s.Cond), " ", "")
			if cond == "rpcResp.Count!=len(req.KeyValues)" && hasReturn(s.Body) {
				revs = append(revs, ev{s.Pos(), "compare-count"})
			}
			if s.Init != nil {
				if p, ok := containsCall(s.Init, "c", "RPCSetNodeKeyValue"); ok && hasReturn(s.Body) {
					revs = append(revs, ev{p, "send-records"})
				}
			}
		case *ast.RangeStmt:
			inner := false
			ast.Inspect(s.Body, func(m ast.Node) bool {
				if r, ok := m.(*ast.RangeStmt); ok {
					if _, ok := containsCall(r.Body, "b", "Delete"); ok {
						inner = true
					}
				}
				return true
			})
			if p, ok := containsCall(s.Body, "b", "Delete"); ok && !inner {
				revs = append(revs, ev{p, "delete-local"})
				deleteRange = strings.ReplaceAll(src(s.X), " ", "")
			}
		}
		return true
	})
	recOrder := order(revs)

	// ---- receiver of phase 1: RPCSetNodeKeyValue stores EVERY pair of the request, whatever it holds
	setFn := findFunc(rpcF, "RPCSetNodeKeyValue")
	var recvLoop []string
	recvRange, recvPut, recvReply := "", "", ""
	loops := 0
	ast.Inspect(setFn.Body, func(n ast.Node) bool {
		switch r := n.(type) {
		case *ast.RangeStmt:
			loops++
			recvRange = strings.ReplaceAll(src(r.X), " ", "")
			for _, st := range r.Body.List {
				switch t := st.(type) {
				case *ast.IfStmt:
					if t.Init != nil && t.Else == nil && hasReturn(t.Body) && strings.ReplaceAll(src(t.Cond), " ", "") == "err!=nil" {
						if _, ok := containsCall(t.Init, "b", "Put"); ok {
							recvLoop = append(recvLoop, "put-or-return")
							ast.Inspect(t.Init, func(m ast.Node) bool {
								if c, ok := isCall(m, "b", "Put"); ok {
									var as []string
									for _, a := range c.Args {
										as = append(as, strings.ReplaceAll(src(a), " ", ""))
									}
									recvPut = strings.Join(as, ",")
								}
								return true
							})
							continue
						}
					}
					recvLoop = append(recvLoop, "other: "+strings.Join(strings.Fields(src(t)), " "))
				case *ast.IncDecStmt:
					if t.Tok == token.INC && src(t.X) == "count" {
						recvLoop = append(recvLoop, "count")
					} else {
						recvLoop = append(recvLoop, "other: "+src(t))
					}
				case *ast.AssignStmt: // `count += 1`, the normal form of count++
					if t.Tok == token.ADD_ASSIGN && len(t.Lhs) == 1 && len(t.Rhs) == 1 && src(t.Lhs[0]) == "count" && src(t.Rhs[0]) == "1" {
						recvLoop = append(recvLoop, "count")
					} else {
						recvLoop = append(recvLoop, "other: "+strings.Join(strings.Fields(src(st)), " "))
					}
				default:
					recvLoop = append(recvLoop, "other: "+strings.Join(strings.Fields(src(st)), " "))
				}
			}
			return false
		case *ast.AssignStmt:
			if len(r.Lhs) == 1 && strings.ReplaceAll(src(r.Lhs[0]), " ", "") == "reply.Count" {
				recvReply = strings.ReplaceAll(src(r), " ", "")
			}
		}
		return true
	})
	if loops != 1 {
		die("RPCSetNodeKeyValue: expected exactly one range loop, found %d", loops)
	}

	// ---- routing keys
	routeKey := func(fn *ast.FuncDecl) string {
		r := ""
		ast.Inspect(fn.Body, func(n ast.Node) bool {
			if c, ok := isCall(n, "", "RendezvousHash"); ok && len(c.Args) == 3 {
				if id, ok := c.Args[0].(*ast.Ident); ok {
					// find its definition
					ast.Inspect(fn.Body, func(m ast.Node) bool {
						if a, ok := m.(*ast.AssignStmt); ok && a.Tok == token.DEFINE && len(a.Lhs) == 1 {
							if l, ok := a.Lhs[0].(*ast.Ident); ok && l.Name == id.Name {
								r = id.Name + " := " + strings.ReplaceAll(src(a.Rhs[0]), " ", "")
							}
						}
						return true
					})
				}
			}
			return true
		})
		if r == "" {
			die("%s: routing key of RendezvousHash not found", fn.Name.Name)
		}
		return r
	}
	shardKey := routeKey(findFunc(syncF, "syncShards"))
	userKey := routeKey(p1)

	// ---- Sync: phase order
	syncFn := findFunc(syncF, "Sync")
	var pevs []ev
	ast.Inspect(syncFn.Body, func(n ast.Node) bool {
		if s, ok := n.(*ast.IfStmt); ok && s.Init != nil && hasReturn(s.Body) {
			if p, ok := containsCall(s.Init, "c", "syncUserCollections"); ok {
				pevs = append(pevs, ev{p, "syncUserCollections"})
			}
			if p, ok := containsCall(s.Init, "c", "syncShards"); ok {
				pevs = append(pevs, ev{p, "syncShards"})
			}
		}
		return true
	})

	var b strings.Builder
	b.WriteString("-- GENERATED by tools/facts_c14 from the working tree of the repository. DO NOT EDIT.\n")
	b.WriteString("namespace Sema.Gen.C14\n\n")
	fmt.Fprintf(&b, "/-- cluster/sync.go: const CHUNKSIZE -/\ndef chunkSize : Nat := %d\n\n", chunk)
	fmt.Fprintf(&b, "/-- RPCSendShard: flags of os.OpenFile on every chunk / added under `if args.ChunkIndex == 0` -/\ndef openFlagsAlways : List String := %s\ndef openFlagsChunk0 : List String := %s\n\n", leanList(always), leanList(chunk0))
	fmt.Fprintf(&b, "/-- the receiver truncates the file when a transfer starts (chunk 0) and only then -/\ndef truncAtChunk0 : Bool := %v\ndef truncEveryChunk : Bool := %v\n\n", has(chunk0, "O_TRUNC") && !has(always, "O_TRUNC"), has(always, "O_TRUNC"))
	fmt.Fprintf(&b, "def mkdirOnlyAtChunk0 : Bool := %v\n\n", mkdirAtChunk0 && !mkdirElsewhere)
	fmt.Fprintf(&b, "/-- RPCSendShard: condition under which the reply carries FileHash of the whole file -/\ndef checksumCond : String := %s\n\n", strconv.Quote(sumCond))
	fmt.Fprintf(&b, "/-- sendShardFile: program order of the steps that matter -/\ndef sendOrder : List String := %s\n\n", leanList(sendOrder))
	fmt.Fprintf(&b, "/-- syncUserCollections (per destination): program order; the local delete ranges over -/\ndef recOrder : List String := %s\ndef deleteRange : String := %s\n\n", leanList(recOrder), strconv.Quote(deleteRange))
	fmt.Fprintf(&b, "/-- RPCSetNodeKeyValue: what the loop ranges over, its statements (anything but the put with its error return and the counter is listed verbatim), the arguments of the put, the reply -/\ndef recvRange : String := %s\ndef recvLoop : List String := %s\ndef recvPut : String := %s\ndef recvReply : String := %s\n\n", strconv.Quote(recvRange), leanList(recvLoop), strconv.Quote(recvPut), strconv.Quote(recvReply))
	fmt.Fprintf(&b, "def shardRouteKey : String := %s\ndef userRouteKey : String := %s\n\n", strconv.Quote(shardKey), strconv.Quote(userKey))
	fmt.Fprintf(&b, "def phaseOrder : List String := %s\n\n", leanList(order(pevs)))
	b.WriteString("end Sema.Gen.C14\n")
	if *out == "" {
		fmt.Print(b.String())
		return
	}
	if err := os.WriteFile(filepath.Join(*out, "FactsC14.lean"), []byte(b.String()), 0o644); err != nil {
		die("%v", err)
	}
}
