module facts_c14

go 1.23
