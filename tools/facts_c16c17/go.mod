module facts_c16c17

go 1.23
