// facts_c16c17: T2 fact extractor for properties C16 (tenant isolation) and C17 (fan-out/merge).
// Reads the repository's *working tree* with go/ast and writes Generated/FactsC16.lean and
// Generated/FactsC17.lean: constants, how node-db keys / scan prefixes / shard directories are
// concatenated, the collection-id validation limits of both API versions, which user ids the header
// middleware refuses, and the constants / expression text of the per-shard search limit heuristic.
// Anything it cannot find makes it exit non-zero (a broken tie is never a guess).
package main

import (
	"bytes"
	"flag"
	"fmt"
	"go/ast"
	"go/constant"
	"go/parser"
	"go/printer"
	"go/token"
	"math"
	"os"
	"path/filepath"
	"sort"
	"strconv"
	"strings"
)

var fset = token.NewFileSet()

func die(f string, a ...any) {
	fmt.Fprintf(os.Stderr, "facts_c16c17: "+f+"\n", a...)
	os.Exit(1)
}

func parse(repo, rel string) *ast.File {
	f, err := parser.ParseFile(fset, filepath.Join(repo, rel), nil, 0)
	if err != nil {
		die("cannot parse %s: %v", rel, err)
	}
	// behaviour-preserving normal form (astnorm_gen.go); limits spelled as constants of the same file are
	// replaced by their literal. Identifiers are still matched and printed by NAME in this tool.
	o := AllNorm
	o.InlineConsts = true
	NormalizeFile(fset, f, o)
	return f
}

func show(n ast.Node) string {
	var b bytes.Buffer
	printer.Fprint(&b, fset, n)
	return strings.Join(strings.Fields(b.String()), " ")
}

func leanStr(s string) string { return strconv.Quote(s) }
func leanStrs(xs []string) string {
	q := make([]string, len(xs))
	for i, x := range xs {
		q[i] = leanStr(x)
	}
	return "[" + strings.Join(q, ", ") + "]"
}

// string constant / var declared at package level
func strDecl(f *ast.File, name string) (string, bool) {
	for _, d := range f.Decls {
		g, ok := d.(*ast.GenDecl)
		if !ok {
			continue
		}
		for _, s := range g.Specs {
			vs, ok := s.(*ast.ValueSpec)
			if !ok {
				continue
			}
			for i, n := range vs.Names {
				if n.Name == name && i < len(vs.Values) {
					if bl, ok := vs.Values[i].(*ast.BasicLit); ok && bl.Kind == token.STRING {
						v, _ := strconv.Unquote(bl.Value)
						return v, true
					}
				}
			}
		}
	}
	return "", false
}

func numDecl(f *ast.File, name string) (constant.Value, bool) {
	for _, d := range f.Decls {
		g, ok := d.(*ast.GenDecl)
		if !ok {
			continue
		}
		for _, s := range g.Specs {
			vs, ok := s.(*ast.ValueSpec)
			if !ok {
				continue
			}
			for i, n := range vs.Names {
				if n.Name == name && i < len(vs.Values) {
					if bl, ok := vs.Values[i].(*ast.BasicLit); ok && (bl.Kind == token.FLOAT || bl.Kind == token.INT) {
						return constant.MakeFromLiteral(bl.Value, bl.Kind, 0), true
					}
				}
			}
		}
	}
	return nil, false
}

func funcDecl(f *ast.File, recv, name string) *ast.FuncDecl {
	for _, d := range f.Decls {
		fd, ok := d.(*ast.FuncDecl)
		if !ok || fd.Name.Name != name {
			continue
		}
		r := ""
		if fd.Recv != nil && len(fd.Recv.List) > 0 {
			r = show(fd.Recv.List[0].Type)
			r = strings.TrimPrefix(r, "*")
		}
		if r == recv {
			return fd
		}
	}
	return nil
}

// `len(X) < A || len(X) > B` anywhere inside n → (A, B)
func lenBounds(n ast.Node) (lo, hi int, found bool) {
	ast.Inspect(n, func(x ast.Node) bool {
		be, ok := x.(*ast.BinaryExpr)
		if !ok || be.Op != token.LOR || found {
			return true
		}
		l, ok1 := be.X.(*ast.BinaryExpr)
		r, ok2 := be.Y.(*ast.BinaryExpr)
		if ok1 && ok2 && l.Op == token.GTR && r.Op == token.LSS {
			l, r = r, l // the operands of the pure disjunction in either order
		}
		if !ok1 || !ok2 || l.Op != token.LSS || r.Op != token.GTR {
			return true
		}
		if !strings.HasPrefix(show(l.X), "len(") || show(l.X) != show(r.X) {
			return true
		}
		a, e1 := strconv.Atoi(show(l.Y))
		b, e2 := strconv.Atoi(show(r.Y))
		if e1 != nil || e2 != nil {
			return true
		}
		lo, hi, found = a, b, true
		return false
	})
	return
}

// every `r >= 'x' && r <= 'y'` inside n → [(x,y)...]
func runeRanges(n ast.Node) [][2]int {
	var out [][2]int
	ast.Inspect(n, func(x ast.Node) bool {
		be, ok := x.(*ast.BinaryExpr)
		if !ok || be.Op != token.LAND {
			return true
		}
		l, ok1 := be.X.(*ast.BinaryExpr)
		r, ok2 := be.Y.(*ast.BinaryExpr)
		if ok1 && ok2 && l.Op == token.LEQ && r.Op == token.GEQ {
			l, r = r, l // the operands of the pure conjunction in either order
		}
		if !ok1 || !ok2 || l.Op != token.GEQ || r.Op != token.LEQ {
			return true
		}
		lc, ok1 := l.Y.(*ast.BasicLit)
		rc, ok2 := r.Y.(*ast.BasicLit)
		if !ok1 || !ok2 || lc.Kind != token.CHAR || rc.Kind != token.CHAR {
			return true
		}
		a, _, _, _ := strconv.UnquoteChar(lc.Value[1:len(lc.Value)-1], '\'')
		b, _, _, _ := strconv.UnquoteChar(rc.Value[1:len(rc.Value)-1], '\'')
		out = append(out, [2]int{int(a), int(b)})
		return true
	})
	return out
}

func leanRanges(r [][2]int) string {
	var p []string
	for _, x := range r {
		p = append(p, fmt.Sprintf("(%d, %d)", x[0], x[1]))
	}
	return "[" + strings.Join(p, ", ") + "]"
}

// control skeleton of internalRoute: the for loop (header), and inside it — in program order, with the
// enclosing if / select-case structure — every statement that assigns the loop variable or retryErr,
// touches c.rpcClients, obtains the client, issues the call, continues, breaks or returns; then the
// statements of the same kinds after the loop.  Error values are abbreviated to `err`.
func routeSkeleton(fd *ast.FuncDecl) []string {
	var loop *ast.ForStmt
	loopIdx := -1
	for i, st := range fd.Body.List {
		if f, ok := st.(*ast.ForStmt); ok {
			if loop != nil {
				die("internalRoute: more than one top-level loop")
			}
			loop, loopIdx = f, i
		}
	}
	if loop == nil || loop.Init == nil || loop.Cond == nil || loop.Post == nil {
		die("internalRoute: retry loop `for i := …; …; …` not found")
	}
	ia, ok := loop.Init.(*ast.AssignStmt)
	if !ok || len(ia.Lhs) != 1 {
		die("internalRoute: unexpected loop init %s", show(loop.Init))
	}
	iv := show(ia.Lhs[0])
	val := func(e ast.Expr) string {
		s := show(e)
		if s == "nil" || s == "retryErr" {
			return s
		}
		return "err"
	}
	var out []string
	var walk func(list []ast.Stmt)
	interesting := func(n ast.Node) bool {
		found := false
		ast.Inspect(n, func(x ast.Node) bool {
			switch s := x.(type) {
			case *ast.BranchStmt, *ast.ReturnStmt:
				found = true
			case *ast.IncDecStmt:
				if show(s.X) == iv {
					found = true
				}
			case *ast.AssignStmt:
				for _, l := range s.Lhs {
					if n := show(l); n == iv || n == "retryErr" {
						found = true
					}
				}
			case *ast.CallExpr:
				if strings.Contains(show(s), "rpcClients") {
					found = true
				}
			}
			return !found
		})
		return found
	}
	walk = func(list []ast.Stmt) {
		for _, st := range list {
			switch s := st.(type) {
			case *ast.IfStmt:
				if !interesting(s) {
					continue
				}
				out = append(out, "if "+show(s.Cond)+" {")
				walk(s.Body.List)
				if s.Else != nil {
					out = append(out, "} else {")
					switch e := s.Else.(type) {
					case *ast.BlockStmt:
						walk(e.List)
					default:
						walk([]ast.Stmt{e})
					}
				}
				out = append(out, "}")
			case *ast.SelectStmt:
				for _, cc := range s.Body.List {
					c := cc.(*ast.CommClause)
					h := "default"
					if c.Comm != nil {
						h = "case " + show(c.Comm)
					}
					out = append(out, h+" {")
					walk(c.Body)
					out = append(out, "}")
				}
			case *ast.BlockStmt:
				walk(s.List)
			case *ast.ForStmt, *ast.RangeStmt, *ast.SwitchStmt, *ast.TypeSwitchStmt, *ast.GoStmt, *ast.LabeledStmt:
				if interesting(s) {
					out = append(out, "?"+show(s))
				}
			case *ast.BranchStmt:
				out = append(out, s.Tok.String())
			case *ast.ReturnStmt:
				r := "return"
				for _, e := range s.Results {
					r += " " + val(e)
				}
				out = append(out, r)
			case *ast.IncDecStmt:
				if show(s.X) == iv {
					out = append(out, show(s))
				}
			case *ast.AssignStmt:
				rhs := show(s)
				switch {
				case len(s.Lhs) == 1 && show(s.Lhs[0]) == "retryErr":
					out = append(out, "retryErr "+s.Tok.String()+" "+val(s.Rhs[0]))
				case len(s.Lhs) == 1 && show(s.Lhs[0]) == iv:
					out = append(out, rhs)
				case strings.Contains(rhs, "rpcClient(") || strings.Contains(rhs, ".Go("):
					out = append(out, show(s.Rhs[0].(*ast.CallExpr).Fun))
				case strings.Contains(rhs, "rpcClients"):
					out = append(out, rhs)
				}
			case *ast.ExprStmt:
				if strings.Contains(show(s), "rpcClients") && !strings.Contains(show(s), "Mu.") {
					out = append(out, show(s))
				}
			case *ast.DeclStmt:
			}
		}
	}
	out = append(out, "for "+show(loop.Init)+"; "+show(loop.Cond)+"; "+show(loop.Post)+" {")
	walk(loop.Body.List)
	out = append(out, "}")
	walk(fd.Body.List[loopIdx+1:])
	return out
}

func main() {
	repo := flag.String("repo", "/repo", "repository working tree")
	out := flag.String("out", "", "output directory for generated Lean files")
	flag.Parse()
	if *out == "" {
		die("-out required")
	}
	// ------------------------------------------------------------------ constants
	cn := parse(*repo, "cluster/clusternode.go")
	sm := parse(*repo, "cluster/shardmgr.go")
	rh := parse(*repo, "cluster/rpchandlers.go")
	act := parse(*repo, "cluster/actions.go")
	delim, ok := strDecl(cn, "DBDELIMITER")
	if !ok {
		die("DBDELIMITER not found in cluster/clusternode.go")
	}
	bucket, ok := strDecl(cn, "USERCOLSBUCKETKEY")
	if !ok {
		die("USERCOLSBUCKETKEY not found")
	}
	colsDir, ok := strDecl(sm, "USERCOLSDIR")
	if !ok {
		die("USERCOLSDIR not found in cluster/shardmgr.go")
	}
	// ------------------------------------------------------------------ key / prefix / path expressions
	// every []byte(<string concatenation mentioning DBDELIMITER>) in rpchandlers.go, normalised:
	// operands that end in UserId → U, in CollectionId or .Id → C, DBDELIMITER → D
	norm := func(e ast.Expr) string {
		var parts []string
		var walk func(e ast.Expr)
		walk = func(e ast.Expr) {
			if be, ok := e.(*ast.BinaryExpr); ok && be.Op == token.ADD {
				walk(be.X)
				walk(be.Y)
				return
			}
			s := show(e)
			switch {
			case s == "DBDELIMITER":
				parts = append(parts, "D")
			case strings.HasSuffix(s, "UserId"):
				parts = append(parts, "U")
			case strings.HasSuffix(s, "CollectionId") || strings.HasSuffix(s, "Collection.Id"):
				parts = append(parts, "C")
			default:
				parts = append(parts, "?"+s)
			}
		}
		walk(e)
		return strings.Join(parts, "+")
	}
	keyShapes := map[string]int{}
	ast.Inspect(rh, func(x ast.Node) bool {
		ce, ok := x.(*ast.CallExpr)
		if !ok || len(ce.Args) != 1 {
			return true
		}
		if at, ok := ce.Fun.(*ast.ArrayType); !ok || show(at) != "[]byte" {
			return true
		}
		if strings.Contains(show(ce.Args[0]), "DBDELIMITER") {
			keyShapes[norm(ce.Args[0])]++
		}
		return true
	})
	if len(keyShapes) == 0 {
		die("no node-db key expressions found in cluster/rpchandlers.go")
	}
	var shapes []string
	for k, n := range keyShapes {
		shapes = append(shapes, fmt.Sprintf("%s x%d", k, n))
	}
	sort.Strings(shapes)
	// filepath.Join calls mentioning USERCOLSDIR (shardmgr.go, rpchandlers.go, sync.go)
	var joins []string
	for _, rel := range []string{"cluster/shardmgr.go", "cluster/rpchandlers.go", "cluster/sync.go"} {
		f := parse(*repo, rel)
		ast.Inspect(f, func(x ast.Node) bool {
			ce, ok := x.(*ast.CallExpr)
			if !ok || show(ce.Fun) != "filepath.Join" {
				return true
			}
			if !strings.Contains(show(ce), "USERCOLSDIR") {
				return true
			}
			var args []string
			for _, a := range ce.Args {
				s := show(a)
				switch {
				case s == "USERCOLSDIR":
					args = append(args, "DIR")
				case strings.HasSuffix(s, "RootDir") || s == "rootDir":
					args = append(args, "ROOT")
				case strings.HasSuffix(s, "UserId") || s == "userId":
					args = append(args, "U")
				case strings.HasSuffix(s, "CollectionId") || strings.HasSuffix(s, "ollection.Id") || s == "collectionId":
					args = append(args, "C")
				case strings.HasSuffix(s, "ShardId") || s == "shardId":
					args = append(args, "S")
				case strings.HasPrefix(s, "\""):
					args = append(args, s)
				default:
					args = append(args, "?"+s)
				}
			}
			joins = append(joins, strings.Join(args, ","))
			return true
		})
	}
	sort.Strings(joins)
	if len(joins) == 0 {
		die("no filepath.Join(…USERCOLSDIR…) found")
	}
	// ------------------------------------------------------------------ shared state of a node
	// the fields of struct ClusterNode (everything requests of different tenants can share), and which
	// of them / which methods the collection-level actions reach through their receiver
	var nodeFields []string
	ast.Inspect(cn, func(x ast.Node) bool {
		ts, ok := x.(*ast.TypeSpec)
		if !ok || ts.Name.Name != "ClusterNode" {
			return true
		}
		if st, ok := ts.Type.(*ast.StructType); ok {
			for _, f := range st.Fields.List {
				for _, n := range f.Names {
					nodeFields = append(nodeFields, n.Name+" "+show(f.Type))
				}
				if len(f.Names) == 0 {
					nodeFields = append(nodeFields, "embedded "+show(f.Type))
				}
			}
		}
		return false
	})
	if len(nodeFields) == 0 {
		die("struct ClusterNode not found in cluster/clusternode.go")
	}
	recvUse := func(name string) string {
		fd := funcDecl(act, "ClusterNode", name)
		if fd == nil || fd.Recv == nil || len(fd.Recv.List) != 1 || len(fd.Recv.List[0].Names) != 1 {
			die("ClusterNode.%s not found in cluster/actions.go", name)
		}
		recv := fd.Recv.List[0].Names[0].Name
		seen := map[string]bool{}
		ast.Inspect(fd, func(x ast.Node) bool {
			if se, ok := x.(*ast.SelectorExpr); ok {
				if id, ok := se.X.(*ast.Ident); ok && id.Name == recv {
					seen[se.Sel.Name] = true
				}
			}
			return true
		})
		var l []string
		for k := range seen {
			l = append(l, k)
		}
		sort.Strings(l)
		return name + ": " + strings.Join(l, ",")
	}
	var actionUses []string
	for _, n := range []string{"CreateCollection", "ListCollections", "GetCollection", "DeleteCollection"} {
		actionUses = append(actionUses, recvUse(n))
	}
	// ------------------------------------------------------------------ collection id validation
	type lim struct {
		lo, hi       int
		ranges       [][2]int
		uriLo, uriHi int
	}
	getLim := func(rel string) lim {
		f := parse(*repo, rel)
		v := funcDecl(f, "CreateCollectionRequest", "Validate")
		if v == nil {
			die("%s: CreateCollectionRequest.Validate not found", rel)
		}
		lo, hi, ok := lenBounds(v)
		if !ok {
			die("%s: length bounds of the collection id not found", rel)
		}
		rr := runeRanges(v)
		if len(rr) == 0 {
			die("%s: allowed rune ranges of the collection id not found", rel)
		}
		u := funcDecl(f, "SemaDBHandlers", "CollectionURIMiddleware")
		if u == nil {
			die("%s: CollectionURIMiddleware not found", rel)
		}
		ulo, uhi, ok := lenBounds(u)
		if !ok {
			die("%s: length bounds in CollectionURIMiddleware not found", rel)
		}
		return lim{lo, hi, rr, ulo, uhi}
	}
	v1 := getLim("httpapi/v1/handlers.go")
	v2 := getLim("httpapi/v2/handlers.go")
	// ------------------------------------------------------------------ header middleware
	mw := parse(*repo, "httpapi/middleware/appheaders.go")
	mf := funcDecl(mw, "", "AppHeaderMiddleware")
	if mf == nil {
		die("AppHeaderMiddleware not found")
	}
	var refusedEq, refusedChars []string
	ast.Inspect(mf, func(x ast.Node) bool {
		switch e := x.(type) {
		case *ast.BinaryExpr:
			if e.Op == token.EQL && strings.HasSuffix(show(e.X), "UserId") {
				if bl, ok := e.Y.(*ast.BasicLit); ok && bl.Kind == token.STRING {
					v, _ := strconv.Unquote(bl.Value)
					refusedEq = append(refusedEq, v)
				}
			}
		case *ast.CallExpr:
			if show(e.Fun) == "strings.ContainsAny" && len(e.Args) == 2 && strings.HasSuffix(show(e.Args[0]), "UserId") {
				if bl, ok := e.Args[1].(*ast.BasicLit); ok && bl.Kind == token.STRING {
					v, _ := strconv.Unquote(bl.Value)
					for _, c := range v {
						refusedChars = append(refusedChars, string(c))
					}
				}
			}
		}
		return true
	})
	sort.Strings(refusedEq)
	sort.Strings(refusedChars)
	var b strings.Builder
	b.WriteString("-- GENERATED by tools/facts_c16c17 from the repository working tree. DO NOT EDIT.\n")
	b.WriteString("namespace Sema.Gen.FactsC16\n")
	fmt.Fprintf(&b, "def dbDelimiter : String := %s\n", leanStr(delim))
	fmt.Fprintf(&b, "def userColsBucket : String := %s\n", leanStr(bucket))
	fmt.Fprintf(&b, "def userColsDir : String := %s\n", leanStr(colsDir))
	b.WriteString("/-- shapes of every `[]byte(… DBDELIMITER …)` in cluster/rpchandlers.go (U user id, D delimiter, C collection id) with multiplicity -/\n")
	fmt.Fprintf(&b, "def keyShapes : List String := %s\n", leanStrs(shapes))
	b.WriteString("/-- argument shapes of every `filepath.Join(… USERCOLSDIR …)` in cluster/{shardmgr,rpchandlers,sync}.go -/\n")
	fmt.Fprintf(&b, "def joinShapes : List String := %s\n", leanStrs(joins))
	fmt.Fprintf(&b, "def v1IdMin : Nat := %d\ndef v1IdMax : Nat := %d\ndef v1IdRanges : List (Nat × Nat) := %s\ndef v1UriMin : Nat := %d\ndef v1UriMax : Nat := %d\n", v1.lo, v1.hi, leanRanges(v1.ranges), v1.uriLo, v1.uriHi)
	fmt.Fprintf(&b, "def v2IdMin : Nat := %d\ndef v2IdMax : Nat := %d\ndef v2IdRanges : List (Nat × Nat) := %s\ndef v2UriMin : Nat := %d\ndef v2UriMax : Nat := %d\n", v2.lo, v2.hi, leanRanges(v2.ranges), v2.uriLo, v2.uriHi)
	b.WriteString("/-- user ids the header middleware compares `UserId ==` against (besides the empty string) -/\n")
	fmt.Fprintf(&b, "def mwRefusedIds : List String := %s\n", leanStrs(refusedEq))
	b.WriteString("/-- characters of `strings.ContainsAny(UserId, …)` in the header middleware -/\n")
	fmt.Fprintf(&b, "def mwRefusedChars : List String := %s\n", leanStrs(refusedChars))
	b.WriteString("/-- the fields of struct ClusterNode (name and type): all the state requests of different tenants share inside a node -/\n")
	fmt.Fprintf(&b, "def nodeFields : List String := %s\n", leanStrs(nodeFields))
	b.WriteString("/-- what the collection-level actions of cluster/actions.go reach through their receiver -/\n")
	fmt.Fprintf(&b, "def actionUses : List String := %s\n", leanStrs(actionUses))
	b.WriteString("end Sema.Gen.FactsC16\n")
	if err := os.WriteFile(filepath.Join(*out, "FactsC16.lean"), []byte(b.String()), 0o644); err != nil {
		die("%v", err)
	}
	// ------------------------------------------------------------------ C17: search plan
	av, ok1 := numDecl(act, "poissonApproxA")
	bv, ok2 := numDecl(act, "poissonApproxB")
	if !ok1 || !ok2 {
		die("poissonApproxA / poissonApproxB not found in cluster/actions.go")
	}
	sp := funcDecl(act, "ClusterNode", "SearchPoints")
	if sp == nil {
		die("ClusterNode.SearchPoints not found")
	}
	targetExpr, offsetCond, offsetAssign, cutCond, sortCmp := "", "", "", "", ""
	ast.Inspect(sp, func(x ast.Node) bool {
		switch s := x.(type) {
		case *ast.AssignStmt:
			if len(s.Lhs) == 1 && show(s.Lhs[0]) == "targetLimit" && s.Tok == token.DEFINE {
				targetExpr = show(s.Rhs[0])
			}
		case *ast.IfStmt:
			c := show(s.Cond)
			if strings.Contains(c, "sr.Offset%") || strings.Contains(c, "sr.Offset %") {
				offsetCond = c
				if len(s.Body.List) == 1 {
					offsetAssign = show(s.Body.List[0])
				}
			}
			if strings.Contains(c, "originalLimit") {
				cutCond = c + " => " + show(s.Body.List[0])
			}
		case *ast.ReturnStmt:
			if len(s.Results) == 1 && strings.Contains(show(s.Results[0]), "HybridScore") {
				sortCmp = show(s.Results[0])
			}
		}
		return true
	})
	// the merge: `if <more than one shard> { if <no sort option> { slices.SortFunc(results, <score closure>) } else
	// { utils.SortSearchResults(results, sr.Sort) } }` — which function orders the concatenated shard answers, on
	// what, and under which guards (calls are shown with their arguments, a function literal as `func`)
	var mergeSkel []string
	callText := func(st ast.Stmt) string {
		es, ok := st.(*ast.ExprStmt)
		if !ok {
			return "stmt:" + show(st)
		}
		call, ok := es.X.(*ast.CallExpr)
		if !ok {
			return "stmt:" + show(st)
		}
		var args []string
		for _, a := range call.Args {
			if _, isLit := a.(*ast.FuncLit); isLit {
				args = append(args, "func")
			} else {
				args = append(args, show(a))
			}
		}
		return show(call.Fun) + "(" + strings.Join(args, ", ") + ")"
	}
	ast.Inspect(sp, func(x ast.Node) bool {
		outer, ok := x.(*ast.IfStmt)
		if !ok || len(outer.Body.List) != 1 || mergeSkel != nil {
			return true
		}
		inner, ok := outer.Body.List[0].(*ast.IfStmt)
		if !ok || !strings.Contains(show(inner.Cond), "sr.Sort") {
			return true
		}
		mergeSkel = append(mergeSkel, "if "+show(outer.Cond)+" {", "if "+show(inner.Cond)+" {")
		for _, st := range inner.Body.List {
			mergeSkel = append(mergeSkel, callText(st))
		}
		if eb, ok := inner.Else.(*ast.BlockStmt); ok {
			mergeSkel = append(mergeSkel, "} else {")
			for _, st := range eb.List {
				mergeSkel = append(mergeSkel, callText(st))
			}
		} else if inner.Else != nil {
			mergeSkel = append(mergeSkel, "} else "+show(inner.Else))
		}
		mergeSkel = append(mergeSkel, "}", "}")
		if outer.Else != nil {
			mergeSkel = append(mergeSkel, "else "+show(outer.Else))
		}
		return true
	})
	if mergeSkel == nil {
		die("SearchPoints: the merge of the shard answers (`if … { if … sr.Sort … { sort } else { sort } }`) not found")
	}
	if targetExpr == "" || offsetCond == "" || cutCond == "" || sortCmp == "" {
		die("SearchPoints: could not find targetLimit (%q), offset rule (%q), cut (%q) or score comparison (%q)", targetExpr, offsetCond, cutCond, sortCmp)
	}
	// ------------------------------------------------------------------ C17: the retry loop of internalRoute
	rp := parse(*repo, "cluster/rpc.go")
	ir := funcDecl(rp, "ClusterNode", "internalRoute")
	if ir == nil {
		die("ClusterNode.internalRoute not found in cluster/rpc.go")
	}
	skeleton := routeSkeleton(ir)
	af, _ := constant.Float64Val(av)
	bf, _ := constant.Float64Val(bv)
	var c strings.Builder
	c.WriteString("-- GENERATED by tools/facts_c16c17 from the repository working tree. DO NOT EDIT.\n")
	c.WriteString("namespace Sema.Gen.FactsC17\n")
	fmt.Fprintf(&c, "/-- float32 bit patterns of poissonApproxA = %s and poissonApproxB = %s -/\n", av.ExactString(), bv.ExactString())
	fmt.Fprintf(&c, "def poissonABits : Nat := %d\ndef poissonBBits : Nat := %d\n", math.Float32bits(float32(af)), math.Float32bits(float32(bf)))
	fmt.Fprintf(&c, "def targetLimitExpr : String := %s\n", leanStr(targetExpr))
	fmt.Fprintf(&c, "def offsetCond : String := %s\n", leanStr(offsetCond))
	fmt.Fprintf(&c, "def offsetAssign : String := %s\n", leanStr(offsetAssign))
	fmt.Fprintf(&c, "def cutRule : String := %s\n", leanStr(cutCond))
	fmt.Fprintf(&c, "def scoreCmp : String := %s\n", leanStr(sortCmp))
	c.WriteString("/-- the merge of ClusterNode.SearchPoints: guards and the two sort calls with their arguments -/\n")
	fmt.Fprintf(&c, "def mergeSkeleton : List String := %s\n", leanStrs(mergeSkel))
	c.WriteString("/-- control skeleton of ClusterNode.internalRoute: the retry loop with everything that touches the loop\nvariable, retryErr, the client cache, or leaves the loop / the function -/\n")
	fmt.Fprintf(&c, "def routeSkeleton : List String := %s\n", leanStrs(skeleton))
	c.WriteString("end Sema.Gen.FactsC17\n")
	if err := os.WriteFile(filepath.Join(*out, "FactsC17.lean"), []byte(c.String()), 0o644); err != nil {
		die("%v", err)
	}
}
