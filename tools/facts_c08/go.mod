module facts_c08

go 1.23
