// facts_c08: T2 fact extractor for C08 — the syntactic facts about dirty flags, Flush and persisted
// parameters that the cache-coherence theorems lean on.  Writes SemaModel/Generated/FactsC08.lean.
//
//   - shard/cache/itemcache.go: Put stores the element with IsDirty: true; Delete marks IsDeleted;
//     Flush deletes-and-forgets deleted elements, writes when `IsDirty || CheckAndClearDirty()`, and
//     clears IsDirty after writing; ForEach skips deleted elements and sets isAllInCache.
//   - "who sets isDirty": every function of the anchored files that rewrites, in place, a field of a
//     cached value (BinaryVector, CentroidIds, edges, set membership, Terms/Length) and whether the
//     same function raises the value's dirty flag (isDirty = true / … || isDirty) or re-Puts it.
//   - persisted parameters: the key constants and that the flush functions Put them and the
//     constructors Get them (_vamanaMaxNodeId, _numDocuments; the quantiser keys are in FactsC04).
//   - persist order: the sequence of mutate / fit / flush calls of the index write paths that train a
//     quantiser (vamana insertUpdateDelete, flat InsertUpdateDelete) in program order — the model's
//     transaction is "program; Flush": whatever rewrites cached values must come before the flush.
//   - lifetimes of bucket memory: every variable bound to a byte slice handed out by the storage
//     layer (result of bucket.Get, key / value parameters of ForEach / PrefixScan / RangeScan
//     callbacks, and parameters of same-file functions they are passed to) in the files whose values
//     live in shared caches, and whether any use of it lets the slice escape un-copied (assigned,
//     returned, stored, passed to a function not known to copy or decode).
//
// Anything it cannot find is a hard error.
package main

import (
	"flag"
	"fmt"
	"go/ast"
	"go/parser"
	"go/token"
	"os"
	"path/filepath"
	"sort"
	"strconv"
	"strings"
)

var fset = token.NewFileSet()

func die(format string, a ...any) {
	fmt.Fprintf(os.Stderr, "facts_c08: "+format+"\n", a...)
	os.Exit(1)
}

func parse(repo, rel string) *ast.File {
	f, err := parser.ParseFile(fset, filepath.Join(repo, rel), nil, parser.SkipObjectResolution)
	if err != nil {
		die("cannot parse %s: %v", rel, err)
	}
	return f
}

func recvName(fd *ast.FuncDecl) string {
	if fd.Recv == nil || len(fd.Recv.List) != 1 {
		return ""
	}
	t := fd.Recv.List[0].Type
	if s, ok := t.(*ast.StarExpr); ok {
		t = s.X
	}
	if ix, ok := t.(*ast.IndexExpr); ok {
		t = ix.X
	}
	if ix, ok := t.(*ast.IndexListExpr); ok {
		t = ix.X
	}
	if id, ok := t.(*ast.Ident); ok {
		return id.Name
	}
	return ""
}

func method(f *ast.File, typ, name string) *ast.FuncDecl {
	for _, d := range f.Decls {
		if fd, ok := d.(*ast.FuncDecl); ok && fd.Name.Name == name && recvName(fd) == typ && fd.Body != nil {
			return fd
		}
	}
	die("method %s.%s not found", typ, name)
	return nil
}

func src(n ast.Node) string {
	var sb strings.Builder
	ast.Inspect(n, func(x ast.Node) bool {
		switch v := x.(type) {
		case *ast.Ident:
			sb.WriteString(v.Name + " ")
		case *ast.BasicLit:
			sb.WriteString(v.Value + " ")
		case *ast.BinaryExpr:
			sb.WriteString("(" + v.Op.String() + ") ")
		case *ast.UnaryExpr:
			sb.WriteString("(" + v.Op.String() + ") ")
		}
		return true
	})
	return sb.String()
}

// ---------------------------------------------------------------- itemcache.go

type cacheFacts struct {
	putSetsDirty, deleteMarks, flushDeletes, flushForgets, flushCondBoth, flushClears, flushWrites, forEachSkipsDeleted, forEachSetsAll bool
}

func hasKV(cl *ast.CompositeLit, key, val string) bool {
	for _, e := range cl.Elts {
		if kv, ok := e.(*ast.KeyValueExpr); ok {
			k, _ := kv.Key.(*ast.Ident)
			v, _ := kv.Value.(*ast.Ident)
			if k != nil && v != nil && k.Name == key && v.Name == val {
				return true
			}
		}
	}
	return false
}

func assignsField(n ast.Node, field, val string) bool {
	found := false
	ast.Inspect(n, func(x ast.Node) bool {
		if as, ok := x.(*ast.AssignStmt); ok && len(as.Lhs) == 1 && len(as.Rhs) == 1 {
			if s, ok := as.Lhs[0].(*ast.SelectorExpr); ok && s.Sel.Name == field {
				if id, ok := as.Rhs[0].(*ast.Ident); ok && id.Name == val {
					found = true
				}
			}
		}
		return true
	})
	return found
}

func callsMethod(n ast.Node, name string) bool {
	found := false
	ast.Inspect(n, func(x ast.Node) bool {
		if c, ok := x.(*ast.CallExpr); ok {
			if s, ok := c.Fun.(*ast.SelectorExpr); ok && s.Sel.Name == name {
				found = true
			}
			if id, ok := c.Fun.(*ast.Ident); ok && id.Name == name {
				found = true
			}
		}
		return true
	})
	return found
}

func extractCache(repo string) cacheFacts {
	f := parse(repo, "shard/cache/itemcache.go")
	var cf cacheFacts
	put := method(f, "ItemCache", "Put")
	ast.Inspect(put.Body, func(x ast.Node) bool {
		if cl, ok := x.(*ast.CompositeLit); ok && hasKV(cl, "IsDirty", "true") {
			cf.putSetsDirty = true
		}
		return true
	})
	cf.deleteMarks = assignsField(method(f, "ItemCache", "Delete").Body, "IsDeleted", "true")
	fl := method(f, "ItemCache", "Flush")
	ast.Inspect(fl.Body, func(x ast.Node) bool {
		is, ok := x.(*ast.IfStmt)
		if !ok {
			return true
		}
		c := src(is.Cond)
		switch {
		case strings.Contains(c, "IsDeleted") && !strings.Contains(c, "IsDirty"):
			cf.flushDeletes = callsMethod(is.Body, "DeleteFrom")
			cf.flushForgets = callsMethod(is.Body, "delete")
		case strings.Contains(c, "IsDirty"):
			be, isB := is.Cond.(*ast.BinaryExpr)
			cf.flushCondBoth = isB && be.Op == token.LOR && strings.Contains(src(be.X), "IsDirty") && strings.Contains(src(be.Y), "CheckAndClearDirty")
			cf.flushWrites = callsMethod(is.Body, "WriteTo")
			cf.flushClears = assignsField(is.Body, "IsDirty", "false")
		}
		return true
	})
	fe := method(f, "ItemCache", "ForEach")
	cf.forEachSetsAll = assignsField(fe.Body, "isAllInCache", "true")
	ast.Inspect(fe.Body, func(x ast.Node) bool {
		if is, ok := x.(*ast.IfStmt); ok && strings.Contains(src(is.Cond), "IsDeleted") {
			for _, st := range is.Body.List {
				if b, ok := st.(*ast.BranchStmt); ok && b.Tok == token.CONTINUE {
					cf.forEachSkipsDeleted = true
				}
			}
		}
		return true
	})
	return cf
}

// ---------------------------------------------------------------- who sets isDirty

// fields of cached values that are rewritten in place somewhere
var tracked = map[string]bool{"BinaryVector": true, "CentroidIds": true, "edges": true, "Terms": true, "Length": true}

type mutFact struct {
	file, fn  string
	fields    []string
	setsDirty bool
}

func baseSelector(e ast.Expr) *ast.SelectorExpr {
	for {
		switch v := e.(type) {
		case *ast.SelectorExpr:
			return v
		case *ast.IndexExpr:
			e = v.X
		case *ast.SliceExpr:
			e = v.X
		case *ast.ParenExpr:
			e = v.X
		default:
			return nil
		}
	}
}

func extractMutations(repo string, rels []string) []mutFact {
	var out []mutFact
	for _, rel := range rels {
		f := parse(repo, rel)
		for _, d := range f.Decls {
			fd, ok := d.(*ast.FuncDecl)
			if !ok || fd.Body == nil {
				continue
			}
			// constructors of fresh values are not mutations of cached ones
			if fd.Name.Name == "ReadFrom" || strings.HasPrefix(fd.Name.Name, "New") || strings.HasPrefix(fd.Name.Name, "new") {
				continue
			}
			fields := map[string]bool{}
			dirty := false
			ast.Inspect(fd.Body, func(x ast.Node) bool {
				switch v := x.(type) {
				case *ast.AssignStmt:
					for _, l := range v.Lhs {
						if s := baseSelector(l); s != nil {
							if tracked[s.Sel.Name] {
								fields[s.Sel.Name] = true
							}
							if s.Sel.Name == "isDirty" && len(v.Rhs) == 1 {
								r := src(v.Rhs[0])
								if strings.TrimSpace(r) == "true" || strings.Contains(r, "(||)") {
									dirty = true
								}
							}
						}
					}
				case *ast.CallExpr:
					if s, ok := v.Fun.(*ast.SelectorExpr); ok {
						// set membership changes of the text / inverted indexes
						if s.Sel.Name == "CheckedAdd" || s.Sel.Name == "CheckedRemove" {
							fields["set"] = true
						}
						if s.Sel.Name == "Put" {
							if x, ok := s.X.(*ast.SelectorExpr); ok && strings.HasSuffix(x.Sel.Name, "Cache") || func() bool { x, ok := s.X.(*ast.SelectorExpr); return ok && x.Sel.Name == "items" }() {
								dirty = true // re-Put through the item cache raises IsDirty
							}
						}
					}
				}
				return true
			})
			if len(fields) == 0 {
				continue
			}
			// the value must come out of a cache: the function is a method of the cached type itself, or
			// it fetches values (Get… / ForEach…); otherwise it fills in a fresh local (e.g. parallelAnalyse)
			fetches := false
			ast.Inspect(fd.Body, func(x ast.Node) bool {
				if c, ok := x.(*ast.CallExpr); ok {
					if s, ok := c.Fun.(*ast.SelectorExpr); ok {
						n := strings.ToLower(s.Sel.Name)
						if strings.HasPrefix(n, "get") || strings.HasPrefix(n, "foreach") {
							fetches = true
						}
					}
				}
				return true
			})
			cachedTypes := map[string]bool{"graphNode": true, "binaryQuantizedPoint": true, "productQuantizedPoint": true, "setCacheItem": true, "docCacheItem": true}
			if !fetches && !cachedTypes[recvName(fd)] {
				continue
			}
			var fs []string
			for k := range fields {
				fs = append(fs, k)
			}
			sort.Strings(fs)
			name := fd.Name.Name
			if r := recvName(fd); r != "" {
				name = r + "." + name
			}
			out = append(out, mutFact{rel, name, fs, dirty})
		}
	}
	if len(out) == 0 {
		die("no in-place mutation of cached values found (the extractor no longer matches the source)")
	}
	return out
}

// ---------------------------------------------------------------- persist order

// phasesOf: the persist-relevant calls of a function in source order: "mutate" (the index changes
// cached values), "fit" (the vector store trains and re-encodes cached values in place), "flush"
func phasesOf(fd *ast.FuncDecl) []string {
	var out []string
	ast.Inspect(fd.Body, func(n ast.Node) bool {
		c, ok := n.(*ast.CallExpr)
		if !ok {
			return true
		}
		name := ""
		switch f := c.Fun.(type) {
		case *ast.SelectorExpr:
			name = f.Sel.Name
		case *ast.Ident:
			name = f.Name
		}
		switch name {
		case "Fit":
			out = append(out, "fit")
		case "flush", "Flush":
			out = append(out, "flush")
		case "Set", "Delete", "Put", "insertSinglePoint", "insertWorker", "removeInboundEdges", "robustPrune", "pruneDeleteNeighbour":
			if len(out) == 0 || out[len(out)-1] != "mutate" {
				out = append(out, "mutate")
			}
		}
		return true
	})
	return out
}

// ---------------------------------------------------------------- lifetimes of bucket memory

type readFact struct {
	file, fn, v string
	aliased     bool
	how         string
}

// functions known to copy or decode their byte-slice argument (argument index; -1 = any)
var copying = map[string]int{
	"len": -1, "cap": -1, "string": -1,
	"BytesToFloat32": 0, "BytesToEdgeList": 0, "BytesToUint64": 0, "BytesToSingleFloat32": 0,
	"NodeIdFromKey": 0, "IdFromKey": 0, "fromByteSortable": 0,
	"NewReader": 0, "Clone": 0, "Equal": -1, "Compare": -1, "HasPrefix": -1, "Unmarshal": 0,
}

func exprText(e ast.Expr) string {
	switch v := e.(type) {
	case *ast.Ident:
		return v.Name
	case *ast.SelectorExpr:
		return exprText(v.X) + "." + v.Sel.Name
	case *ast.CallExpr:
		return exprText(v.Fun) + "()"
	case *ast.StarExpr:
		return exprText(v.X)
	case *ast.ParenExpr:
		return exprText(v.X)
	}
	return "?"
}

func isBucketExpr(e ast.Expr) bool { return strings.Contains(strings.ToLower(exprText(e)), "bucket") }

func calleeName(c *ast.CallExpr) string {
	switch f := c.Fun.(type) {
	case *ast.SelectorExpr:
		return f.Sel.Name
	case *ast.Ident:
		return f.Name
	case *ast.IndexExpr: // generic instantiation f[T](…)
		if id, ok := f.X.(*ast.Ident); ok {
			return id.Name
		}
	}
	return ""
}

// classify one use of a borrowed slice; path = the ancestors of the identifier, innermost last
func classifyUse(id *ast.Ident, path []ast.Node, local map[string]*ast.FuncDecl, taintParam func(fn string, i int)) (aliased bool, how string) {
	var child ast.Node = id
	for i := len(path) - 1; i >= 0; i-- {
		switch p := path[i].(type) {
		case *ast.ParenExpr:
			child = p
			continue
		case *ast.SliceExpr:
			if p.X == child { // a sub-slice is still the same memory
				child = p
				continue
			}
			return false, "" // used as an index bound
		case *ast.IndexExpr:
			if i > 0 && p.X == child {
				if u, ok := path[i-1].(*ast.UnaryExpr); ok && u.Op == token.AND {
					return true, "address of an element taken (unsafe re-slicing)"
				}
			}
			return false, "" // element read (or used as an index)
		case *ast.BinaryExpr:
			return false, "" // comparison (== nil, != nil)
		case *ast.UnaryExpr:
			return false, ""
		case *ast.RangeStmt:
			if p.X == child {
				return false, "" // ranging copies the elements
			}
			return false, ""
		case *ast.CallExpr:
			name := calleeName(p)
			argi := -1
			for k, a := range p.Args {
				if a == child {
					argi = k
				}
			}
			if argi < 0 {
				return false, "" // the callee expression itself
			}
			if want, ok := copying[name]; ok && (want == -1 || want == argi) {
				return false, ""
			}
			if name == "copy" && argi == 1 {
				return false, ""
			}
			if name == "append" && argi > 0 && p.Ellipsis.IsValid() && argi == len(p.Args)-1 {
				return false, "" // append(dst, x...) copies the elements
			}
			if _, ok := local[name]; ok {
				taintParam(name, argi) // followed into the same-file callee
				return false, ""
			}
			return true, "passed to " + name
		case *ast.AssignStmt:
			for _, l := range p.Lhs {
				if l == child {
					return false, "" // (re)definition
				}
			}
			return true, "assigned to " + exprText(p.Lhs[0])
		case *ast.ReturnStmt:
			return true, "returned"
		case *ast.KeyValueExpr, *ast.CompositeLit:
			return true, "stored in a composite literal"
		case *ast.SendStmt:
			return true, "sent on a channel"
		case *ast.IfStmt, *ast.ExprStmt, *ast.BlockStmt, *ast.SwitchStmt, *ast.CaseClause, *ast.Field:
			return false, "" // *ast.Field: the declaration of a callback parameter
		default:
			return true, fmt.Sprintf("used in %T", p)
		}
	}
	return false, ""
}

func extractBucketReads(repo string, rels []string) []readFact {
	var out []readFact
	for _, rel := range rels {
		f := parse(repo, rel)
		local := map[string]*ast.FuncDecl{}
		for _, d := range f.Decls {
			if fd, ok := d.(*ast.FuncDecl); ok && fd.Body != nil {
				local[fd.Name.Name] = fd
			}
		}
		// tainted names per function; parameters tainted through same-file calls are added until nothing changes
		tainted := map[*ast.FuncDecl]map[string]bool{}
		for _, d := range f.Decls {
			if fd, ok := d.(*ast.FuncDecl); ok {
				tainted[fd] = map[string]bool{}
			}
		}
		paramName := func(fd *ast.FuncDecl, i int) string {
			k := 0
			for _, fl := range fd.Type.Params.List {
				for _, n := range fl.Names {
					if k == i {
						return n.Name
					}
					k++
				}
			}
			return ""
		}
		results := map[string]readFact{}
		for pass := 0; pass < 4; pass++ {
			changed := false
			for _, d := range f.Decls {
				fd, ok := d.(*ast.FuncDecl)
				if !ok || fd.Body == nil {
					continue
				}
				tset := tainted[fd]
				// sources
				ast.Inspect(fd.Body, func(n ast.Node) bool {
					switch v := n.(type) {
					case *ast.AssignStmt:
						if len(v.Rhs) == 1 {
							if c, ok := v.Rhs[0].(*ast.CallExpr); ok {
								if s, ok := c.Fun.(*ast.SelectorExpr); ok && s.Sel.Name == "Get" && isBucketExpr(s.X) {
									if id, ok := v.Lhs[0].(*ast.Ident); ok && !tset[id.Name] {
										tset[id.Name] = true
										changed = true
									}
								}
							}
						}
					case *ast.CallExpr:
						if s, ok := v.Fun.(*ast.SelectorExpr); ok && isBucketExpr(s.X) && len(v.Args) > 0 &&
							(s.Sel.Name == "ForEach" || s.Sel.Name == "PrefixScan" || s.Sel.Name == "RangeScan") {
							if fl, ok := v.Args[len(v.Args)-1].(*ast.FuncLit); ok {
								for _, p := range fl.Type.Params.List {
									for _, nm := range p.Names {
										if nm.Name != "_" && !tset[nm.Name] {
											tset[nm.Name] = true
											changed = true
										}
									}
								}
							}
						}
					}
					return true
				})
				// uses
				name := fd.Name.Name
				if r := recvName(fd); r != "" {
					name = r + "." + name
				}
				var path []ast.Node
				ast.Inspect(fd.Body, func(n ast.Node) bool {
					if n == nil {
						path = path[:len(path)-1]
						return false
					}
					if id, ok := n.(*ast.Ident); ok && tset[id.Name] {
						// a selector's field name is not a use of the variable
						if len(path) > 0 {
							if se, ok := path[len(path)-1].(*ast.SelectorExpr); ok && se.Sel == id {
								path = append(path, n)
								return true
							}
						}
						al, how := classifyUse(id, path, local, func(fn string, i int) {
							callee := local[fn]
							if pn := paramName(callee, i); pn != "" && !tainted[callee][pn] {
								tainted[callee][pn] = true
								changed = true
							}
						})
						key := rel + "|" + name + "|" + id.Name
						cur, seen := results[key]
						if !seen || (al && !cur.aliased) {
							results[key] = readFact{rel, name, id.Name, al, how}
						}
					}
					path = append(path, n)
					return true
				})
			}
			if !changed {
				break
			}
		}
		var keys []string
		for k := range results {
			keys = append(keys, k)
		}
		sort.Strings(keys)
		for _, k := range keys {
			out = append(out, results[k])
		}
	}
	// the extractor must still see the reads the model talks about
	need := map[string]bool{"plainPoint.ReadFrom": false, "binaryQuantizedPoint.ReadFrom": false, "productQuantizedPoint.ReadFrom": false,
		"graphNode.ReadFrom": false, "setCacheItem.ReadFrom": false, "docCacheItem.ReadFrom": false, "newBinaryQuantizer": false, "newProductQuantizer": false}
	for _, r := range out {
		if _, ok := need[r.fn]; ok {
			need[r.fn] = true
		}
	}
	for fn, ok := range need {
		if !ok {
			die("no read of bucket memory found in %s (the extractor no longer matches the source)", fn)
		}
	}
	return out
}

// ---------------------------------------------------------------- persisted parameters

func constStr(f *ast.File, name string) string {
	for _, d := range f.Decls {
		gd, ok := d.(*ast.GenDecl)
		if !ok || gd.Tok != token.CONST {
			continue
		}
		for _, s := range gd.Specs {
			vs := s.(*ast.ValueSpec)
			for i, n := range vs.Names {
				if n.Name == name && i < len(vs.Values) {
					if bl, ok := vs.Values[i].(*ast.BasicLit); ok {
						v, _ := strconv.Unquote(bl.Value)
						return v
					}
				}
			}
		}
	}
	die("constant %s not found", name)
	return ""
}

func callsOnKey(fd *ast.FuncDecl, op, constName string) bool {
	found := false
	ast.Inspect(fd.Body, func(n ast.Node) bool {
		c, ok := n.(*ast.CallExpr)
		if !ok {
			return true
		}
		s, ok := c.Fun.(*ast.SelectorExpr)
		if !ok || s.Sel.Name != op || len(c.Args) < 1 {
			return true
		}
		conv, ok := c.Args[0].(*ast.CallExpr)
		if !ok || len(conv.Args) != 1 {
			return true
		}
		if id, ok := conv.Args[0].(*ast.Ident); ok && id.Name == constName {
			found = true
		}
		return true
	})
	return found
}

func fn(f *ast.File, name string) *ast.FuncDecl {
	for _, d := range f.Decls {
		if fd, ok := d.(*ast.FuncDecl); ok && fd.Name.Name == name && fd.Body != nil {
			return fd
		}
	}
	die("function %s not found", name)
	return nil
}

func main() {
	repo := flag.String("repo", "/repo", "repository working tree")
	out := flag.String("out", "", "output directory")
	flag.Parse()
	if *out == "" {
		die("-out required")
	}
	cf := extractCache(*repo)
	muts := extractMutations(*repo, []string{
		"shard/vectorstore/binary.go", "shard/vectorstore/product.go", "shard/index/vamana/node.go",
		"shard/index/text/text.go", "shard/index/inverted/inverted.go",
	})
	vam := parse(*repo, "shard/index/vamana/vamana.go")
	txt := parse(*repo, "shard/index/text/text.go")
	var sb strings.Builder
	sb.WriteString("-- GENERATED by tools/facts_c08 from the working tree of the repository. DO NOT EDIT.\nnamespace Sema.Gen.FactsC08\n\n")
	sb.WriteString("/- shard/cache/itemcache.go -/\n")
	b := func(name string, v bool) { fmt.Fprintf(&sb, "def %s : Bool := %v\n", name, v) }
	b("putSetsIsDirty", cf.putSetsDirty)
	b("deleteMarksIsDeleted", cf.deleteMarks)
	b("flushDeletedCallsDeleteFrom", cf.flushDeletes)
	b("flushDeletedForgetsItem", cf.flushForgets)
	b("flushWritesWhenIsDirtyOrCheckAndClearDirty", cf.flushCondBoth)
	b("flushDirtyCallsWriteTo", cf.flushWrites)
	b("flushClearsIsDirty", cf.flushClears)
	b("forEachSkipsDeleted", cf.forEachSkipsDeleted)
	b("forEachSetsIsAllInCache", cf.forEachSetsAll)
	sb.WriteString("\n/-- a function that rewrites fields of a cached value in place, and whether it raises a dirty flag\n(`isDirty = true`, `… || isDirty`) or re-Puts the value -/\nstructure Mutation where\n  file : String\n  fn : String\n  fields : List String\n  setsDirty : Bool\n  deriving Repr, DecidableEq\n\n")
	sb.WriteString("def inPlaceMutations : List Mutation := [\n")
	for i, m := range muts {
		var fs []string
		for _, f := range m.fields {
			fs = append(fs, strconv.Quote(f))
		}
		comma := ","
		if i == len(muts)-1 {
			comma = ""
		}
		fmt.Fprintf(&sb, "  { file := %q, fn := %q, fields := [%s], setsDirty := %v }%s\n", m.file, m.fn, strings.Join(fs, ", "), m.setsDirty, comma)
	}
	sb.WriteString("]\n\n/- persisted parameters -/\n")
	fmt.Fprintf(&sb, "def vamanaMaxNodeIdKey : String := %q\n", constStr(vam, "MAXNODEIDKEY"))
	b("vamanaFlushPutsMaxNodeId", callsOnKey(method(vam, "IndexVamana", "flush"), "Put", "MAXNODEIDKEY"))
	b("vamanaNewGetsMaxNodeId", callsOnKey(fn(vam, "NewIndexVamana"), "Get", "MAXNODEIDKEY"))
	fmt.Fprintf(&sb, "def textNumDocumentsKey : String := %q\n", constStr(txt, "numDocumentsKey"))
	b("textFlushPutsNumDocuments", callsOnKey(method(txt, "indexText", "flush"), "Put", "numDocumentsKey"))
	b("textInitGetsNumDocuments", callsOnKey(method(txt, "indexText", "initSize"), "Get", "numDocumentsKey"))
	// persist order
	flat := parse(*repo, "shard/index/flat/flat.go")
	strList := func(xs []string) string {
		var q []string
		for _, x := range xs {
			q = append(q, strconv.Quote(x))
		}
		return "[" + strings.Join(q, ", ") + "]"
	}
	vph, fph := phasesOf(method(vam, "IndexVamana", "insertUpdateDelete")), phasesOf(method(flat, "IndexFlat", "InsertUpdateDelete"))
	if len(vph) == 0 || len(fph) == 0 {
		die("no mutate / fit / flush call found in the index write paths")
	}
	sb.WriteString("\n/- persist order: mutate / fit / flush calls of the index write paths in program order -/\n")
	fmt.Fprintf(&sb, "def vamanaWritePhases : List String := %s\n", strList(vph))
	fmt.Fprintf(&sb, "def flatWritePhases : List String := %s\n", strList(fph))
	// lifetimes of bucket memory
	reads := extractBucketReads(*repo, []string{
		"shard/vectorstore/plain.go", "shard/vectorstore/binary.go", "shard/vectorstore/product.go",
		"shard/index/vamana/node.go", "shard/index/vamana/vamana.go", "shard/index/text/text.go", "shard/index/inverted/inverted.go",
	})
	sb.WriteString("\n/-- a variable holding a byte slice handed out by the storage layer (valid for the life of the\ntransaction only) and whether some use lets it escape un-copied -/\nstructure BucketRead where\n  file : String\n  fn : String\n  var : String\n  aliased : Bool\n  how : String\n  deriving Repr, DecidableEq\n\n")
	sb.WriteString("def bucketReads : List BucketRead := [\n")
	for i, r := range reads {
		comma := ","
		if i == len(reads)-1 {
			comma = ""
		}
		fmt.Fprintf(&sb, "  { file := %q, fn := %q, var := %q, aliased := %v, how := %q }%s\n", r.file, r.fn, r.v, r.aliased, r.how, comma)
	}
	sb.WriteString("]\n")
	sb.WriteString("\nend Sema.Gen.FactsC08\n")
	if err := os.WriteFile(filepath.Join(*out, "FactsC08.lean"), []byte(sb.String()), 0o644); err != nil {
		die("%v", err)
	}
}
