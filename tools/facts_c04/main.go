// facts_c04: T2 fact extractor for C04 (and the Storable part of C08).
//
// Reads the *working tree* of the repository with go/ast and writes
// SemaModel/Generated/FactsC04.lean:
//
//   - for every vector-store point type (plainPoint, binaryQuantizedPoint, productQuantizedPoint)
//     and the graph node (graphNode): the "storage plan" of its Storable methods, i.e. which key
//     suffix WriteTo writes under which guard (and whether it returns right after), which suffixes
//     ReadFrom tries in which order and what it does when a key is present / missing, which
//     suffixes DeleteFrom deletes, which suffixes IdFromKey recognises, and whether
//     CheckAndClearDirty tracks a flag;
//   - the parameter keys the quantisers persist and whether Flush writes / the constructor reads them;
//   - the three comparison facts of the bounded insertion in flat.Search.
//
// The Lean model *interprets* these tables (SemaModel/C04/Model.lean) and the theorems are proved
// about the interpreted tables, so a source edit is re-proved or breaks the build.  A method whose
// shape this tool does not recognise is a hard error (a broken tie), never a guess.
//
// usage: facts_c04 -repo /repo -out /verif/lean/SemaModel/Generated
package main

import (
	"flag"
	"fmt"
	"go/ast"
	"go/parser"
	"go/token"
	"os"
	"path/filepath"
	"strconv"
	"strings"
)

var fset = token.NewFileSet()

func die(format string, a ...any) {
	fmt.Fprintf(os.Stderr, "facts_c04: "+format+"\n", a...)
	os.Exit(1)
}

func pos(n ast.Node) string { return fset.Position(n.Pos()).String() }

// field name of the Go struct -> model field
var fieldMap = map[string]string{
	"Vector":       ".vec",
	"BinaryVector": ".code",
	"CentroidIds":  ".code",
	"edges":        ".vec",
}

type wstep struct {
	guard  string // "" = unguarded, else model field
	suffix byte
	src    string
	ret    bool
}
type rstep struct {
	suffix        byte
	dst           string
	stopIfFound   bool
	failIfMissing bool
}
type plan struct {
	name       string
	write      []wstep
	read       []rstep
	del        []byte
	ids        []byte
	trackDirty bool
}

func parseFile(repo, rel string) *ast.File {
	f, err := parser.ParseFile(fset, filepath.Join(repo, rel), nil, 0)
	if err != nil {
		die("cannot parse %s: %v", rel, err)
	}
	// behaviour-preserving normal form (astnorm_gen.go): `if x != nil {A} else {B}` is `if x == nil {B} else {A}`,
	// x++ is x += 1, log calls are dropped …
	NormalizeFile(fset, f, AllNorm)
	return f
}

func recvTypeName(fd *ast.FuncDecl) (typ, recvVar string) {
	if fd.Recv == nil || len(fd.Recv.List) != 1 {
		return "", ""
	}
	t := fd.Recv.List[0].Type
	if st, ok := t.(*ast.StarExpr); ok {
		t = st.X
	}
	if ix, ok := t.(*ast.IndexExpr); ok {
		t = ix.X
	}
	if ix, ok := t.(*ast.IndexListExpr); ok {
		t = ix.X
	}
	id, ok := t.(*ast.Ident)
	if !ok {
		return "", ""
	}
	if len(fd.Recv.List[0].Names) == 1 {
		recvVar = fd.Recv.List[0].Names[0].Name
	}
	return id.Name, recvVar
}

func findMethod(f *ast.File, typ, name string) *ast.FuncDecl {
	for _, d := range f.Decls {
		if fd, ok := d.(*ast.FuncDecl); ok && fd.Name.Name == name {
			if t, _ := recvTypeName(fd); t == typ {
				return fd
			}
		}
	}
	return nil
}

func findFunc(f *ast.File, name string) *ast.FuncDecl {
	for _, d := range f.Decls {
		if fd, ok := d.(*ast.FuncDecl); ok && fd.Name.Name == name && fd.Recv == nil {
			return fd
		}
	}
	return nil
}

// isCall(e, "conversion", "NodeKey") etc.
func isSelCall(e ast.Expr, pkg, fn string) (*ast.CallExpr, bool) {
	c, ok := e.(*ast.CallExpr)
	if !ok {
		return nil, false
	}
	s, ok := c.Fun.(*ast.SelectorExpr)
	if !ok || s.Sel.Name != fn {
		return nil, false
	}
	if pkg != "" {
		x, ok := s.X.(*ast.Ident)
		if !ok || x.Name != pkg {
			return nil, false
		}
	}
	return c, true
}

func charLit(e ast.Expr) (byte, bool) {
	bl, ok := e.(*ast.BasicLit)
	if !ok || bl.Kind != token.CHAR {
		return 0, false
	}
	s, err := strconv.Unquote(bl.Value)
	if err != nil || len(s) != 1 {
		return 0, false
	}
	return s[0], true
}

// suffix of conversion.NodeKey(id, 'c')
func nodeKeySuffix(e ast.Expr) (byte, bool) {
	c, ok := isSelCall(keyExpr(e), "conversion", "NodeKey")
	if !ok || len(c.Args) != 2 {
		return 0, false
	}
	return charLit(c.Args[1])
}

// the model field a selector on variable v refers to (v.F, v.F[i], …) inside e; "" if none
func fieldOf(e ast.Node, v string) string {
	found := ""
	ast.Inspect(e, func(n ast.Node) bool {
		if s, ok := n.(*ast.SelectorExpr); ok {
			if x, ok := s.X.(*ast.Ident); ok && x.Name == v {
				if m, ok := fieldMap[s.Sel.Name]; ok && found == "" {
					found = m
				}
			}
		}
		return true
	})
	return found
}

// bucketVar: the name of the bucket parameter (the second parameter of ReadFrom / WriteTo / DeleteFrom) of the
// method that is being read
var bucketVar = "bucket"

func setBucketVar(fd *ast.FuncDecl) {
	var names []string
	for _, f := range fd.Type.Params.List {
		for _, n := range f.Names {
			names = append(names, n.Name)
		}
	}
	if len(names) != 2 {
		die("%s: %s: expected the parameters (id, bucket)", pos(fd), fd.Name.Name)
	}
	bucketVar = names[1]
}

// keyExpr: the expression a key argument stands for — itself, or, when it is a local variable defined once by
// `k := conversion.NodeKey(…)`, that call
func keyExpr(e ast.Expr) ast.Expr {
	if id, ok := e.(*ast.Ident); ok && id.Obj != nil {
		if as, ok := id.Obj.Decl.(*ast.AssignStmt); ok && as.Tok == token.DEFINE && len(as.Lhs) == 1 && len(as.Rhs) == 1 {
			if _, ok := isSelCall(as.Rhs[0], "conversion", "NodeKey"); ok {
				return as.Rhs[0]
			}
		}
	}
	return e
}

// isKeyDefine: `k := conversion.NodeKey(id, 'c')` — a key bound to a local before it is used
func isKeyDefine(st ast.Stmt) bool {
	as, ok := st.(*ast.AssignStmt)
	if !ok || as.Tok != token.DEFINE || len(as.Lhs) != 1 || len(as.Rhs) != 1 {
		return false
	}
	_, ok = nodeKeySuffix(as.Rhs[0])
	return ok
}

func isNilIdent(e ast.Expr) bool { id, ok := e.(*ast.Ident); return ok && id.Name == "nil" }

// `if err := bucket.<op>(conversion.NodeKey(id,'c') [, value]); err != nil { return … }`
func bucketOpIf(st ast.Stmt, op string) (suffix byte, value ast.Expr, ok bool) {
	is, isIf := st.(*ast.IfStmt)
	if !isIf || is.Init == nil || is.Else != nil {
		return
	}
	as, isAs := is.Init.(*ast.AssignStmt)
	if !isAs || len(as.Rhs) != 1 {
		return
	}
	c, isC := isSelCall(as.Rhs[0], bucketVar, op)
	if !isC || len(c.Args) < 1 {
		return
	}
	sfx, isK := nodeKeySuffix(c.Args[0])
	if !isK {
		return
	}
	be, isB := is.Cond.(*ast.BinaryExpr)
	if !isB || be.Op != token.NEQ || !isNilIdent(be.Y) {
		return
	}
	if len(is.Body.List) != 1 {
		return
	}
	if _, isR := is.Body.List[0].(*ast.ReturnStmt); !isR {
		return
	}
	if len(c.Args) > 1 {
		value = c.Args[1]
	}
	return sfx, value, true
}

func isReturnNil(st ast.Stmt) bool {
	r, ok := st.(*ast.ReturnStmt)
	return ok && len(r.Results) == 1 && isNilIdent(r.Results[0])
}

// len(recv.F) != 0   /  len(recv.F) > 0
func lenGuard(e ast.Expr, recv string) (string, bool) {
	be, ok := e.(*ast.BinaryExpr)
	if !ok || (be.Op != token.NEQ && be.Op != token.GTR) {
		return "", false
	}
	if bl, ok := be.Y.(*ast.BasicLit); !ok || bl.Value != "0" {
		return "", false
	}
	c, ok := be.X.(*ast.CallExpr)
	if !ok || len(c.Args) != 1 {
		return "", false
	}
	if id, ok := c.Fun.(*ast.Ident); !ok || id.Name != "len" {
		return "", false
	}
	f := fieldOf(c.Args[0], recv)
	return f, f != ""
}

func extractWrite(fd *ast.FuncDecl) []wstep {
	_, recv := recvTypeName(fd)
	setBucketVar(fd)
	var steps []wstep
	body := fd.Body.List
	for i, st := range body {
		if i == len(body)-1 && isReturnNil(st) {
			continue
		}
		if isKeyDefine(st) {
			continue
		}
		// a value computed first: `edgeBytes := conversion.EdgeListToBytes(g.edges)`
		if as, ok := st.(*ast.AssignStmt); ok && as.Tok == token.DEFINE && len(as.Lhs) == 1 && len(as.Rhs) == 1 {
			if f := fieldOf(as.Rhs[0], recv); f != "" {
				if id, ok := as.Lhs[0].(*ast.Ident); ok {
					fieldMap["\x00local:"+id.Name] = f
					continue
				}
			}
		}
		if sfx, val, ok := bucketOpIf(st, "Put"); ok {
			steps = append(steps, wstep{"", sfx, valueField(val, recv, st), false})
			continue
		}
		is, ok := st.(*ast.IfStmt)
		if !ok || is.Init != nil || is.Else != nil {
			die("%s: WriteTo statement of unknown shape", pos(st))
		}
		g, ok := lenGuard(is.Cond, recv)
		if !ok {
			die("%s: WriteTo guard is not `len(recv.Field) != 0`", pos(is.Cond))
		}
		if len(is.Body.List) < 1 || len(is.Body.List) > 2 {
			die("%s: guarded WriteTo block of unknown shape", pos(is))
		}
		sfx, val, ok := bucketOpIf(is.Body.List[0], "Put")
		if !ok {
			die("%s: expected `if err := bucket.Put(conversion.NodeKey(id,'c'), …); err != nil {return …}`", pos(is.Body.List[0]))
		}
		ret := false
		if len(is.Body.List) == 2 {
			if !isReturnNil(is.Body.List[1]) {
				die("%s: expected `return nil`", pos(is.Body.List[1]))
			}
			ret = true
		}
		steps = append(steps, wstep{g, sfx, valueField(val, recv, st), ret})
	}
	if len(steps) == 0 {
		die("%s: WriteTo writes nothing", pos(fd))
	}
	return steps
}

func valueField(val ast.Expr, recv string, at ast.Node) string {
	if val == nil {
		die("%s: Put without value", pos(at))
	}
	if f := fieldOf(val, recv); f != "" {
		return f
	}
	// a local computed from a field
	found := ""
	ast.Inspect(val, func(n ast.Node) bool {
		if id, ok := n.(*ast.Ident); ok {
			if f, ok := fieldMap["\x00local:"+id.Name]; ok && found == "" {
				found = f
			}
		}
		return true
	})
	if found == "" {
		die("%s: cannot tell which field is written", pos(val))
	}
	return found
}

func extractDelete(fd *ast.FuncDecl) []byte {
	setBucketVar(fd)
	var out []byte
	body := fd.Body.List
	for i, st := range body {
		if i == len(body)-1 && isReturnNil(st) {
			continue
		}
		if isKeyDefine(st) {
			continue
		}
		sfx, _, ok := bucketOpIf(st, "Delete")
		if !ok {
			die("%s: DeleteFrom statement of unknown shape", pos(st))
		}
		out = append(out, sfx)
	}
	if len(out) == 0 {
		die("%s: DeleteFrom deletes nothing", pos(fd))
	}
	return out
}

func extractIds(fd *ast.FuncDecl) []byte {
	var out []byte
	idCall := func(e ast.Expr) (byte, bool) {
		c, ok := isSelCall(e, "conversion", "NodeIdFromKey")
		if !ok || len(c.Args) != 2 {
			return 0, false
		}
		if id, ok := c.Args[0].(*ast.Ident); !ok || id.Name != fd.Type.Params.List[0].Names[0].Name {
			return 0, false
		}
		return charLit(c.Args[1])
	}
	body := fd.Body.List
	for i, st := range body {
		switch s := st.(type) {
		case *ast.ReturnStmt:
			if i != len(body)-1 || len(s.Results) != 1 {
				die("%s: IdFromKey: unexpected return", pos(st))
			}
			b, ok := idCall(s.Results[0])
			if !ok {
				die("%s: IdFromKey: expected `return conversion.NodeIdFromKey(key, 'c')`", pos(st))
			}
			out = append(out, b)
		case *ast.IfStmt:
			// if id, ok := conversion.NodeIdFromKey(key, 'c'); ok { return id, true }
			as, isAs := s.Init.(*ast.AssignStmt)
			if !isAs || len(as.Lhs) != 2 || len(as.Rhs) != 1 || s.Else != nil {
				die("%s: IdFromKey: if statement of unknown shape", pos(st))
			}
			b, ok := idCall(as.Rhs[0])
			okVar, isId := as.Lhs[1].(*ast.Ident)
			cond, isC := s.Cond.(*ast.Ident)
			if !ok || !isId || !isC || cond.Name != okVar.Name || len(s.Body.List) != 1 {
				die("%s: IdFromKey: if statement of unknown shape", pos(st))
			}
			r, isR := s.Body.List[0].(*ast.ReturnStmt)
			if !isR || len(r.Results) != 2 {
				die("%s: IdFromKey: if body of unknown shape", pos(st))
			}
			idVar, _ := as.Lhs[0].(*ast.Ident)
			r0, _ := r.Results[0].(*ast.Ident)
			r1, _ := r.Results[1].(*ast.Ident)
			if idVar == nil || r0 == nil || r1 == nil || r0.Name != idVar.Name || (r1.Name != "true" && r1.Name != okVar.Name) {
				die("%s: IdFromKey: if body does not return the recognised id", pos(st))
			}
			out = append(out, b)
		default:
			die("%s: IdFromKey statement of unknown shape", pos(st))
		}
	}
	if len(out) == 0 {
		die("%s: IdFromKey recognises nothing", pos(fd))
	}
	return out
}

func mentionsNotFound(n ast.Node) bool {
	found := false
	ast.Inspect(n, func(x ast.Node) bool {
		if s, ok := x.(*ast.SelectorExpr); ok && s.Sel.Name == "ErrNotFound" {
			found = true
		}
		return true
	})
	return found
}

func hasReturn(b *ast.BlockStmt) bool {
	for _, st := range b.List {
		if _, ok := st.(*ast.ReturnStmt); ok {
			return true
		}
	}
	return false
}

func extractRead(fd *ast.FuncDecl) []rstep {
	if fd.Type.Results == nil || len(fd.Type.Results.List) < 1 || len(fd.Type.Results.List[0].Names) != 1 {
		die("%s: ReadFrom must have a named result", pos(fd))
	}
	res := fd.Type.Results.List[0].Names[0].Name
	setBucketVar(fd)
	vars := map[string]byte{}    // local -> suffix it was read from
	pending := map[string]bool{} // local checked with `== nil { NotFound; return }`
	var steps []rstep
	body := fd.Body.List
	for i, st := range body {
		switch s := st.(type) {
		case *ast.AssignStmt:
			// x := bucket.Get(conversion.NodeKey(id,'c'))
			if len(s.Rhs) == 1 {
				if c, ok := isSelCall(s.Rhs[0], bucketVar, "Get"); ok && len(c.Args) == 1 {
					sfx, ok := nodeKeySuffix(c.Args[0])
					id, isId := s.Lhs[0].(*ast.Ident)
					if !ok || !isId {
						die("%s: ReadFrom: Get of an unknown key", pos(st))
					}
					vars[id.Name] = sfx
					continue
				}
			}
			if isKeyDefine(s) {
				continue
			}
			// `err = cache.ErrNotFound` at the top level, after a found-branch that returned: nothing was found
			// under the suffixes tried so far — the last step fails when its key is missing
			if len(s.Lhs) == 1 && len(s.Rhs) == 1 && mentionsNotFound(s.Rhs[0]) {
				if _, isId := s.Lhs[0].(*ast.Ident); isId && len(steps) > 0 && steps[len(steps)-1].stopIfFound && len(pending) == 0 {
					steps[len(steps)-1].failIfMissing = true
					continue
				}
			}
			// result initialisation: point = &T{…} / point.id = id
			if len(s.Lhs) == 1 {
				if id, ok := s.Lhs[0].(*ast.Ident); ok && id.Name == res {
					continue
				}
				if sel, ok := s.Lhs[0].(*ast.SelectorExpr); ok {
					if x, ok := sel.X.(*ast.Ident); ok && x.Name == res {
						if f, ok := fieldMap[sel.Sel.Name]; ok {
							// result.F = conv(x) after a `x == nil` check
							src := ""
							ast.Inspect(s.Rhs[0], func(n ast.Node) bool {
								if id, ok := n.(*ast.Ident); ok {
									if _, ok := vars[id.Name]; ok {
										src = id.Name
									}
								}
								return true
							})
							if src == "" || !pending[src] {
								die("%s: ReadFrom: field assigned from a value that was not nil-checked", pos(st))
							}
							steps = append(steps, rstep{vars[src], f, true, true})
							delete(pending, src)
							continue
						}
						continue // point.id = id
					}
				}
			}
			die("%s: ReadFrom assignment of unknown shape", pos(st))
		case *ast.IfStmt:
			be, ok := s.Cond.(*ast.BinaryExpr)
			if !ok || s.Init != nil || !isNilIdent(be.Y) {
				die("%s: ReadFrom: if of unknown shape", pos(st))
			}
			id, ok := be.X.(*ast.Ident)
			if !ok {
				die("%s: ReadFrom: if of unknown shape", pos(st))
			}
			sfx, known := vars[id.Name]
			if !known {
				die("%s: ReadFrom: nil check of an unknown value", pos(st))
			}
			switch be.Op {
			case token.NEQ: // found
				f := fieldOf(s.Body, res)
				if f == "" {
					die("%s: ReadFrom: found-branch does not fill a known field", pos(st))
				}
				stop := hasReturn(s.Body)
				fail := false
				if s.Else != nil {
					if !mentionsNotFound(s.Else) {
						die("%s: ReadFrom: else branch of unknown shape", pos(st))
					}
					fail = true
					stop = true
				}
				steps = append(steps, rstep{sfx, f, stop, fail})
			case token.EQL: // missing
				if s.Else != nil {
					// if x == nil { NotFound } else { fill the field from x }   (normal form of the if/else in either orientation)
					eb, isBlock := s.Else.(*ast.BlockStmt)
					if !isBlock || !mentionsNotFound(s.Body) {
						die("%s: ReadFrom: missing-branch of unknown shape", pos(st))
					}
					f := fieldOf(eb, res)
					if f == "" {
						die("%s: ReadFrom: found-branch does not fill a known field", pos(st))
					}
					steps = append(steps, rstep{sfx, f, true, true})
					break
				}
				if !mentionsNotFound(s.Body) || !hasReturn(s.Body) {
					die("%s: ReadFrom: missing-branch of unknown shape", pos(st))
				}
				pending[id.Name] = true
			default:
				die("%s: ReadFrom: if of unknown shape", pos(st))
			}
		case *ast.ReturnStmt:
			if i != len(body)-1 {
				die("%s: ReadFrom: early return of unknown shape", pos(st))
			}
		default:
			die("%s: ReadFrom statement of unknown shape", pos(st))
		}
	}
	if len(pending) != 0 {
		die("%s: ReadFrom: nil-checked value never used", pos(fd))
	}
	if len(steps) == 0 {
		die("%s: ReadFrom reads nothing", pos(fd))
	}
	return steps
}

func extractTrackDirty(fd *ast.FuncDecl) bool {
	if len(fd.Body.List) == 1 {
		if r, ok := fd.Body.List[0].(*ast.ReturnStmt); ok && len(r.Results) == 1 {
			if id, ok := r.Results[0].(*ast.Ident); ok && id.Name == "false" {
				return false
			}
		}
	}
	uses := false
	ast.Inspect(fd.Body, func(n ast.Node) bool {
		if s, ok := n.(*ast.SelectorExpr); ok && s.Sel.Name == "isDirty" {
			uses = true
		}
		return true
	})
	if !uses {
		die("%s: CheckAndClearDirty neither returns false nor uses isDirty", pos(fd))
	}
	return true
}

func extractPlan(repo, rel, typ string) plan {
	f := parseFile(repo, rel)
	get := func(name string) *ast.FuncDecl {
		fd := findMethod(f, typ, name)
		if fd == nil || fd.Body == nil {
			die("%s: method %s.%s not found", rel, typ, name)
		}
		return fd
	}
	for k := range fieldMap {
		if strings.HasPrefix(k, "\x00local:") {
			delete(fieldMap, k)
		}
	}
	return plan{
		name:       typ,
		write:      extractWrite(get("WriteTo")),
		read:       extractRead(get("ReadFrom")),
		del:        extractDelete(get("DeleteFrom")),
		ids:        extractIds(get("IdFromKey")),
		trackDirty: extractTrackDirty(get("CheckAndClearDirty")),
	}
}

func b8(b byte) string { return fmt.Sprintf("0x%02x#8", b) }
func optFld(s string) string {
	if s == "" {
		return "none"
	}
	return "some " + s
}
func blist(bs []byte) string {
	var p []string
	for _, b := range bs {
		p = append(p, b8(b))
	}
	return "[" + strings.Join(p, ", ") + "]"
}

func (p plan) lean() string {
	var sb strings.Builder
	fmt.Fprintf(&sb, "def %s : Plan :=\n  { write := [", p.name)
	for i, w := range p.write {
		if i > 0 {
			sb.WriteString(", ")
		}
		fmt.Fprintf(&sb, "{ guard := %s, suffix := %s, src := %s, ret := %v }", optFld(w.guard), b8(w.suffix), w.src, w.ret)
	}
	sb.WriteString("],\n    read := [")
	for i, r := range p.read {
		if i > 0 {
			sb.WriteString(", ")
		}
		fmt.Fprintf(&sb, "{ suffix := %s, dst := %s, stopIfFound := %v, failIfMissing := %v }", b8(r.suffix), r.dst, r.stopIfFound, r.failIfMissing)
	}
	fmt.Fprintf(&sb, "],\n    delete := %s,\n    ids := %s,\n    trackDirty := %v }\n", blist(p.del), blist(p.ids), p.trackDirty)
	return sb.String()
}

// ---------------------------------------------------------------- quantiser parameter keys

func constString(f *ast.File, name string) string {
	for _, d := range f.Decls {
		gd, ok := d.(*ast.GenDecl)
		if !ok || gd.Tok != token.CONST {
			continue
		}
		for _, s := range gd.Specs {
			vs := s.(*ast.ValueSpec)
			for i, n := range vs.Names {
				if n.Name == name && i < len(vs.Values) {
					if bl, ok := vs.Values[i].(*ast.BasicLit); ok && bl.Kind == token.STRING {
						v, _ := strconv.Unquote(bl.Value)
						return v
					}
				}
			}
		}
	}
	die("constant %s not found", name)
	return ""
}

// does fd contain  <recv>.<op>([]byte(<constName>) …)  ?
func callsOnKey(fd *ast.FuncDecl, op, constName string) bool {
	found := false
	ast.Inspect(fd.Body, func(n ast.Node) bool {
		c, ok := n.(*ast.CallExpr)
		if !ok {
			return true
		}
		s, ok := c.Fun.(*ast.SelectorExpr)
		if !ok || s.Sel.Name != op || len(c.Args) < 1 {
			return true
		}
		conv, ok := c.Args[0].(*ast.CallExpr)
		if !ok || len(conv.Args) != 1 {
			return true
		}
		if id, ok := conv.Args[0].(*ast.Ident); ok && id.Name == constName {
			found = true
		}
		return true
	})
	return found
}

// ---------------------------------------------------------------- flat.Search facts

type flatFacts struct {
	skipOp, swapOp string
	loopLow        string
}

func isCallResult(id *ast.Ident) bool {
	if id.Obj == nil {
		return false
	}
	as, ok := id.Obj.Decl.(*ast.AssignStmt)
	if !ok || len(as.Rhs) != 1 {
		return false
	}
	_, ok = as.Rhs[0].(*ast.CallExpr)
	return ok
}

func extractFlat(repo string) flatFacts {
	f := parseFile(repo, "shard/index/flat/flat.go")
	fd := findMethod(f, "IndexFlat", "Search")
	if fd == nil {
		die("flat.go: IndexFlat.Search not found")
	}
	var ff flatFacts
	ast.Inspect(fd.Body, func(n ast.Node) bool {
		switch s := n.(type) {
		case *ast.IfStmt:
			// if len(res) == cap(res) && dist >= *res[len(res)-1].Distance { return nil }
			if be, ok := s.Cond.(*ast.BinaryExpr); ok && be.Op == token.LAND {
				if r, ok := be.Y.(*ast.BinaryExpr); ok {
					// the candidate's distance: a local variable computed by a call (whatever it is called)
					if id, ok := r.X.(*ast.Ident); ok && isCallResult(id) {
						if l, ok := be.X.(*ast.BinaryExpr); ok && l.Op == token.EQL && len(s.Body.List) == 1 && isReturnNil(s.Body.List[0]) {
							ff.skipOp = r.Op.String()
						}
					}
				}
			}
		case *ast.ForStmt:
			// for i := len(res) - 1; i > 0 && *res[i].Distance < *res[i-1].Distance; i-- { swap }
			if be, ok := s.Cond.(*ast.BinaryExpr); ok && be.Op == token.LAND {
				l, ok1 := be.X.(*ast.BinaryExpr)
				r, ok2 := be.Y.(*ast.BinaryExpr)
				if ok1 && ok2 && l.Op == token.GTR {
					if bl, ok := l.Y.(*ast.BasicLit); ok {
						ff.loopLow = bl.Value
						ff.swapOp = r.Op.String()
					}
				}
			}
		}
		return true
	})
	if ff.skipOp == "" || ff.swapOp == "" || ff.loopLow == "" {
		die("flat.go: the bounded insertion of IndexFlat.Search was not recognised (skip test / swap loop)")
	}
	return ff
}

func main() {
	repo := flag.String("repo", "/repo", "repository working tree")
	out := flag.String("out", "", "output directory (SemaModel/Generated)")
	flag.Parse()
	if *out == "" {
		die("-out required")
	}
	plans := []plan{
		extractPlan(*repo, "shard/vectorstore/plain.go", "plainPoint"),
		extractPlan(*repo, "shard/vectorstore/binary.go", "binaryQuantizedPoint"),
		extractPlan(*repo, "shard/vectorstore/product.go", "productQuantizedPoint"),
		extractPlan(*repo, "shard/index/vamana/node.go", "graphNode"),
	}
	bin := parseFile(*repo, "shard/vectorstore/binary.go")
	prod := parseFile(*repo, "shard/vectorstore/product.go")
	binFlush, binNew := findMethod(bin, "binaryQuantizer", "Flush"), findFunc(bin, "newBinaryQuantizer")
	prodFlush, prodNew := findMethod(prod, "productQuantizer", "Flush"), findFunc(prod, "newProductQuantizer")
	if binFlush == nil || binNew == nil || prodFlush == nil || prodNew == nil {
		die("quantiser Flush / constructor not found")
	}
	ff := extractFlat(*repo)

	var sb strings.Builder
	sb.WriteString("-- GENERATED by tools/facts_c04 from the working tree of the repository. DO NOT EDIT.\n")
	sb.WriteString("import SemaModel.Base.Bytes\nnamespace Sema.Gen.FactsC04\nopen Sema\n\n")
	sb.WriteString("/-- the two persisted representations of a stored vector -/\ninductive Fld where\n  | vec | code\n  deriving Repr, DecidableEq\nopen Fld\n\n")
	sb.WriteString("/-- one `bucket.Put(conversion.NodeKey(id, suffix), <src>)` of WriteTo: executed when `guard` is\n`none` or the guard field is non-empty; `ret` = WriteTo returns right after it -/\n")
	sb.WriteString("structure WStep where\n  guard : Option Fld\n  suffix : Byte\n  src : Fld\n  ret : Bool\n  deriving Repr, DecidableEq\n\n")
	sb.WriteString("/-- one `bucket.Get(conversion.NodeKey(id, suffix))` of ReadFrom: when present the field `dst` is\nfilled (and ReadFrom returns if `stopIfFound`); when missing ReadFrom reports ErrNotFound if\n`failIfMissing`, otherwise goes on -/\n")
	sb.WriteString("structure RStep where\n  suffix : Byte\n  dst : Fld\n  stopIfFound : Bool\n  failIfMissing : Bool\n  deriving Repr, DecidableEq\n\n")
	sb.WriteString("structure Plan where\n  write : List WStep\n  read : List RStep\n  delete : List Byte\n  ids : List Byte\n  trackDirty : Bool\n  deriving Repr, DecidableEq\n\n")
	for _, p := range plans {
		fmt.Fprintf(&sb, "/- from the Storable methods of %s -/\n%s\n", p.name, p.lean())
	}
	bk := constString(bin, "binaryQuantizerThresholdKey")
	pk1 := constString(prod, "productQuantizerCentroidDistsKey")
	pk2 := constString(prod, "productQuantizerFlatCentroidsKey")
	keyBytes := func(k string) string { return blist([]byte(k)) }
	fmt.Fprintf(&sb, "def binaryThresholdKey : String := %q\n", bk)
	fmt.Fprintf(&sb, "def binaryThresholdKeyBytes : Bytes := %s\n", keyBytes(bk))
	fmt.Fprintf(&sb, "def binaryFlushPutsThreshold : Bool := %v\n", callsOnKey(binFlush, "Put", "binaryQuantizerThresholdKey"))
	fmt.Fprintf(&sb, "def binaryNewGetsThreshold : Bool := %v\n", callsOnKey(binNew, "Get", "binaryQuantizerThresholdKey"))
	fmt.Fprintf(&sb, "def productCentroidDistsKey : String := %q\n", pk1)
	fmt.Fprintf(&sb, "def productFlatCentroidsKey : String := %q\n", pk2)
	fmt.Fprintf(&sb, "def productCentroidDistsKeyBytes : Bytes := %s\n", keyBytes(pk1))
	fmt.Fprintf(&sb, "def productFlatCentroidsKeyBytes : Bytes := %s\n", keyBytes(pk2))
	fmt.Fprintf(&sb, "def productFlushPutsCentroids : Bool := %v\n", callsOnKey(prodFlush, "Put", "productQuantizerCentroidDistsKey") && callsOnKey(prodFlush, "Put", "productQuantizerFlatCentroidsKey"))
	fmt.Fprintf(&sb, "def productNewGetsCentroids : Bool := %v\n\n", callsOnKey(prodNew, "Get", "productQuantizerCentroidDistsKey") && callsOnKey(prodNew, "Get", "productQuantizerFlatCentroidsKey"))
	fmt.Fprintf(&sb, "/- bounded insertion of flat.Search: `len(res) == cap(res) && dist <skipOp> last` skips; the swap loop\nruns `for i := len-1; i > <loopLow> && d[i] <swapOp> d[i-1]; i--` -/\n")
	fmt.Fprintf(&sb, "def flatSkipOp : String := %q\ndef flatSwapOp : String := %q\ndef flatLoopLow : Nat := %s\n", ff.skipOp, ff.swapOp, ff.loopLow)
	sb.WriteString("\nend Sema.Gen.FactsC04\n")
	if err := os.WriteFile(filepath.Join(*out, "FactsC04.lean"), []byte(sb.String()), 0o644); err != nil {
		die("%v", err)
	}
}
