module facts_c04

go 1.23
