module facts_c10

go 1.23
