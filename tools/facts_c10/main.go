// facts_c10 (T2): syntactic facts of the Vamana index that the hand-written models of C10 / C03 rely on,
// re-extracted from the working tree on every check and pinned by `example … := by decide` in the Props files:
// the entry node id, the first point node id, the phase order inside insertUpdateDelete and
// removeInboundEdges, and the order "skip the entry node, then cut at the limit" in IndexVamana.Search.
// A fact that cannot be found is an error (broken tie), never a guess.
package main

import (
	"flag"
	"fmt"
	"go/ast"
	"go/parser"
	"go/token"
	"os"
	"path/filepath"
	"strings"
)

// src: the node in the normal form of astnorm_gen.go (function-local identifiers under canonical names)
func src(fs *token.FileSet, n ast.Node) string {
	return CanonPrint(fs, n)
}

// transformFacts: the function literal handed to utils.TransformWithContext inside method `name` of
// shard.go turns one element of a write batch into an IndexPointChange. Facts: the conditions under which
// it sets `skip = true` (the element is withheld from EVERY index), in source order, and the fields of the
// change it assigns (`ipc.X = …`), in source order.
func transformFacts(fs *token.FileSet, f *ast.File, name string) (skips, fields []string) {
	fd := funcDecl(f, name)
	if fd == nil {
		die("func %s not found in shard.go", name)
	}
	var lit *ast.FuncLit
	ast.Inspect(fd.Body, func(n ast.Node) bool {
		c, ok := n.(*ast.CallExpr)
		if !ok || lit != nil {
			return true
		}
		if s := sel(c.Fun); s == "TransformWithContext" || strings.HasSuffix(s, ".TransformWithContext") {
			for _, a := range c.Args {
				if fl, ok := a.(*ast.FuncLit); ok {
					lit = fl
				}
			}
		}
		return true
	})
	if lit == nil {
		die("%s: no function literal passed to TransformWithContext", name)
	}
	// the named results of the callback by position: (change, skip, err)
	var ipcObj, skipObj *ast.Object
	if rs := lit.Type.Results; rs != nil {
		var names []*ast.Ident
		for _, f := range rs.List {
			names = append(names, f.Names...)
		}
		if len(names) == 3 {
			ipcObj, skipObj = names[0].Obj, names[1].Obj
		}
	}
	if ipcObj == nil || skipObj == nil {
		die("%s: the transform callback does not have the three named results (change, skip, err)", name)
	}
	isSkip := func(st ast.Stmt) bool {
		as, ok := st.(*ast.AssignStmt)
		if !ok || len(as.Lhs) != 1 || len(as.Rhs) != 1 {
			return false
		}
		l, ok1 := as.Lhs[0].(*ast.Ident)
		r, ok2 := as.Rhs[0].(*ast.Ident)
		return ok1 && ok2 && l.Obj == skipObj && r.Name == "true"
	}
	var walk func(stmts []ast.Stmt, guard string)
	walk = func(stmts []ast.Stmt, guard string) {
		for _, st := range stmts {
			if isSkip(st) {
				skips = append(skips, guard)
			}
			switch t := st.(type) {
			case *ast.AssignStmt:
				for _, l := range t.Lhs {
					if se, ok := l.(*ast.SelectorExpr); ok {
						if id, ok := se.X.(*ast.Ident); ok && id.Obj == ipcObj {
							fields = append(fields, se.Sel.Name)
						}
					}
				}
			case *ast.IfStmt:
				g := src(fs, t.Cond)
				if guard != "always" {
					g = guard + " && " + g
				}
				walk(t.Body.List, g)
				if t.Else != nil {
					if eb, ok := t.Else.(*ast.BlockStmt); ok {
						walk(eb.List, "else of "+g)
					} else {
						walk([]ast.Stmt{t.Else}, "else of "+g)
					}
				}
			case *ast.BlockStmt:
				walk(t.List, guard)
			case *ast.ForStmt:
				walk(t.Body.List, guard+" (loop)")
			case *ast.RangeStmt:
				walk(t.Body.List, guard+" (loop)")
			case *ast.SwitchStmt:
				for _, c := range t.Body.List {
					walk(c.(*ast.CaseClause).Body, guard+" (switch)")
				}
			}
		}
	}
	walk(lit.Body.List, "always")
	return
}

// startIdLiteral: the value the constructor puts into the field nextFreeId when the bucket holds none — the
// initial value of the variable that the composite literal `IdCounter{… nextFreeId: x …}` reads (an integer
// literal, possibly behind a conversion, or a constant of the same file declared with one)
func startIdLiteral(nic *ast.FuncDecl) string {
	var fieldVar *ast.Object
	ast.Inspect(nic.Body, func(n ast.Node) bool {
		cl, ok := n.(*ast.CompositeLit)
		if !ok {
			return true
		}
		if t, ok := cl.Type.(*ast.Ident); !ok || t.Name != "IdCounter" {
			return true
		}
		for _, e := range cl.Elts {
			if kv, ok := e.(*ast.KeyValueExpr); ok {
				if k, ok := kv.Key.(*ast.Ident); ok && k.Name == "nextFreeId" {
					if v, ok := kv.Value.(*ast.Ident); ok {
						fieldVar = v.Obj
					}
				}
			}
		}
		return true
	})
	if fieldVar == nil {
		return ""
	}
	var init ast.Expr
	ast.Inspect(nic.Body, func(n ast.Node) bool {
		switch x := n.(type) {
		case *ast.ValueSpec:
			for i, nm := range x.Names {
				if nm.Obj == fieldVar && i < len(x.Values) && init == nil {
					init = x.Values[i]
				}
			}
		case *ast.AssignStmt:
			if x.Tok == token.DEFINE {
				for i, l := range x.Lhs {
					if id, ok := l.(*ast.Ident); ok && id.Obj == fieldVar && i < len(x.Rhs) && init == nil {
						init = x.Rhs[i]
					}
				}
			}
		}
		return true
	})
	for {
		call, ok := init.(*ast.CallExpr)
		if !ok || len(call.Args) != 1 {
			break
		}
		init = call.Args[0]
	}
	switch x := init.(type) {
	case *ast.BasicLit:
		if x.Kind == token.INT {
			return x.Value
		}
	case *ast.Ident:
		if x.Obj != nil && x.Obj.Kind == ast.Con {
			if vs, ok := x.Obj.Decl.(*ast.ValueSpec); ok {
				for i, nm := range vs.Names {
					if nm.Name == x.Name && i < len(vs.Values) {
						if bl, ok := vs.Values[i].(*ast.BasicLit); ok && bl.Kind == token.INT {
							return bl.Value
						}
					}
				}
			}
		}
	}
	return ""
}

func die(f string, a ...any) {
	fmt.Fprintf(os.Stderr, "facts_c10: "+f+"\n", a...)
	os.Exit(1)
}

func parse(path string) (*token.FileSet, *ast.File) {
	fs := token.NewFileSet()
	f, err := parser.ParseFile(fs, path, nil, 0)
	if err != nil {
		die("cannot parse %s: %v", path, err)
	}
	NormalizeFile(fs, f, AllNorm) // behaviour-preserving normal form, see astnorm_gen.go
	return fs, f
}

func funcDecl(f *ast.File, name string) *ast.FuncDecl {
	for _, d := range f.Decls {
		if fd, ok := d.(*ast.FuncDecl); ok && fd.Name.Name == name && fd.Body != nil {
			return fd
		}
	}
	return nil
}

func sel(e ast.Expr) string {
	switch t := e.(type) {
	case *ast.SelectorExpr:
		return sel(t.X) + "." + t.Sel.Name
	case *ast.Ident:
		return t.Name
	case *ast.CallExpr:
		return sel(t.Fun) + "()"
	}
	return "?"
}

// calls lists, in source order, the calls of body whose selector path ends with one of the wanted suffixes.
func calls(body *ast.BlockStmt, wanted map[string]string) []string {
	type hit struct {
		pos  token.Pos
		name string
	}
	var hs []hit
	ast.Inspect(body, func(n ast.Node) bool {
		c, ok := n.(*ast.CallExpr)
		if !ok {
			return true
		}
		s := sel(c.Fun)
		for suf, name := range wanted {
			if s == suf || strings.HasSuffix(s, "."+suf) {
				hs = append(hs, hit{c.Pos(), name})
			}
		}
		return true
	})
	for i := 1; i < len(hs); i++ {
		for j := i; j > 0 && hs[j].pos < hs[j-1].pos; j-- {
			hs[j], hs[j-1] = hs[j-1], hs[j]
		}
	}
	var r []string
	for _, h := range hs {
		if len(r) == 0 || r[len(r)-1] != h.name {
			r = append(r, h.name)
		}
	}
	return r
}

func leanList(xs []string) string {
	q := make([]string, len(xs))
	for i, x := range xs {
		q[i] = fmt.Sprintf("%q", x)
	}
	return "[" + strings.Join(q, ", ") + "]"
}

func main() {
	repo := flag.String("repo", "/repo", "repository working tree")
	out := flag.String("out", "", "output directory")
	flag.Parse()
	vdir := filepath.Join(*repo, "shard", "index", "vamana")
	_, vf := parse(filepath.Join(vdir, "vamana.go"))
	// const STARTID = 1
	start := ""
	for _, d := range vf.Decls {
		gd, ok := d.(*ast.GenDecl)
		if !ok || gd.Tok != token.CONST {
			continue
		}
		for _, s := range gd.Specs {
			vs := s.(*ast.ValueSpec)
			for i, n := range vs.Names {
				if n.Name == "STARTID" && i < len(vs.Values) {
					if bl, ok := vs.Values[i].(*ast.BasicLit); ok && bl.Kind == token.INT {
						start = bl.Value
					}
				}
			}
		}
	}
	if start == "" {
		die("const STARTID with an integer literal not found in vamana.go")
	}
	iud := funcDecl(vf, "insertUpdateDelete")
	if iud == nil {
		die("func insertUpdateDelete not found")
	}
	phases := calls(iud.Body, map[string]string{
		"TransformWithContext": "classify", "insertWorker": "insertWorkers", "MergeErrorsWithContext": "waitForInserts",
		"removeInboundEdges": "removeInboundEdges", "vecStore.Delete": "deleteVectors", "nodeStore.Delete": "deleteNodes",
		"insertSinglePoint": "reinsertUpdated", "vecStore.Fit": "fit", "flush": "flush"})
	// Search: the entry node is skipped before the limit is tested
	sf := funcDecl(vf, "Search")
	if sf == nil {
		die("func Search not found")
	}
	var cuts []string
	ast.Inspect(sf.Body, func(n ast.Node) bool {
		is, ok := n.(*ast.IfStmt)
		if !ok || len(is.Body.List) != 1 {
			return true
		}
		br, ok := is.Body.List[0].(*ast.BranchStmt)
		if !ok {
			return true
		}
		be, ok := is.Cond.(*ast.BinaryExpr)
		if !ok {
			return true
		}
		l, r := sel(be.X), sel(be.Y)
		switch {
		case br.Tok == token.CONTINUE && be.Op == token.EQL && strings.HasSuffix(l, ".Id()") && r == "STARTID":
			cuts = append(cuts, "skipEntry")
		case br.Tok == token.BREAK && be.Op == token.GEQ && l == "len()" && strings.HasSuffix(r, ".Limit"):
			cuts = append(cuts, "limitCut")
		}
		return true
	})
	_, pf := parse(filepath.Join(vdir, "prune.go"))
	rie := funcDecl(pf, "removeInboundEdges")
	if rie == nil {
		die("func removeInboundEdges not found")
	}
	rphases := calls(rie.Body, map[string]string{"EdgeScan": "edgeScan", "pruneDeleteNeighbour": "pruneDeleteNeighbour", "AddNeighbourIfNotExists": "rescueOntoEntry"})
	// id counter: first point id
	_, cf := parse(filepath.Join(*repo, "shard", "idcounter.go"))
	nic := funcDecl(cf, "NewIdCounter")
	first := ""
	if nic != nil {
		first = startIdLiteral(nic)
	}
	if first == "" {
		die("initial nextFreeId literal not found in NewIdCounter")
	}
	// the point store -> index change stream: shard.go transform functions and the dispatcher
	sfs, shf := parse(filepath.Join(*repo, "shard", "shard.go"))
	insSkips, insFields := transformFacts(sfs, shf, "InsertPoints")
	updSkips, updFields := transformFacts(sfs, shf, "UpdatePoints")
	delSkips, delFields := transformFacts(sfs, shf, "DeletePoints")
	dfs, df := parse(filepath.Join(*repo, "shard", "index", "dispatch.go"))
	disp := funcDecl(df, "Dispatch")
	if disp == nil {
		die("func Dispatch not found in dispatch.go")
	}
	// inside Dispatch: `for propName, params := range im.indexSchema { … getOperation(dec, propName,
	// change.PreviousData, change.NewData) … if op == opSkip { continue } … }`
	var opArgs, dispSkips []string
	rangeOver := ""
	ast.Inspect(disp.Body, func(n ast.Node) bool {
		rs, ok := n.(*ast.RangeStmt)
		if !ok || rangeOver != "" {
			return true
		}
		found := false
		ast.Inspect(rs.Body, func(m ast.Node) bool {
			if c, ok := m.(*ast.CallExpr); ok && sel(c.Fun) == "getOperation" {
				found = true
				opArgs = nil
				for _, a := range c.Args {
					opArgs = append(opArgs, src(dfs, a))
				}
			}
			return true
		})
		if !found {
			return true
		}
		rangeOver = src(dfs, rs.X)
		if k, ok := rs.Key.(*ast.Ident); ok {
			rangeOver = src(dfs, k) + " of " + rangeOver
		}
		for _, st := range rs.Body.List {
			if is, ok := st.(*ast.IfStmt); ok {
				for _, b := range is.Body.List {
					if br, ok := b.(*ast.BranchStmt); ok && br.Tok == token.CONTINUE {
						dispSkips = append(dispSkips, src(dfs, is.Cond))
					}
				}
			}
		}
		return true
	})
	if rangeOver == "" {
		die("Dispatch: no range loop calling getOperation found")
	}
	// getOperation: the case that yields opSkip
	ufs, uf := parse(filepath.Join(*repo, "shard", "index", "utils.go"))
	gop := funcDecl(uf, "getOperation")
	if gop == nil {
		die("func getOperation not found in utils.go")
	}
	var opCases []string
	ast.Inspect(gop.Body, func(n ast.Node) bool {
		cc, ok := n.(*ast.CaseClause)
		if !ok || len(cc.List) != 1 {
			return true
		}
		for _, st := range cc.Body {
			if as, ok := st.(*ast.AssignStmt); ok && len(as.Lhs) == 1 && len(as.Rhs) == 1 && sel(as.Lhs[0]) == "op" {
				opCases = append(opCases, src(ufs, cc.List[0])+" => "+sel(as.Rhs[0]))
			}
		}
		return true
	})
	if len(opCases) == 0 {
		die("getOperation: no `case …: op = …` found")
	}
	var b strings.Builder
	b.WriteString("-- GENERATED by tools/facts_c10 from the repository working tree. DO NOT EDIT.\n")
	b.WriteString("namespace Sema.Gen.FactsC10\n\n")
	fmt.Fprintf(&b, "/-- `vamana.STARTID` -/\ndef startId : Nat := %s\n\n", start)
	fmt.Fprintf(&b, "/-- first node id handed out by `IdCounter` -/\ndef firstPointId : Nat := %s\n\n", first)
	fmt.Fprintf(&b, "/-- calls of `insertUpdateDelete` in source order -/\ndef phases : List String := %s\n\n", leanList(phases))
	fmt.Fprintf(&b, "/-- calls of `removeInboundEdges` in source order -/\ndef removeInboundPhases : List String := %s\n\n", leanList(rphases))
	fmt.Fprintf(&b, "/-- the two early exits of the result loop of `IndexVamana.Search`, in source order -/\ndef searchCuts : List String := %s\n\n", leanList(cuts))
	fmt.Fprintf(&b, "/-- conditions under which the transform function of `InsertPoints` / `UpdatePoints` / `DeletePoints` sets\n`skip = true` (the batch element is withheld from every index), in source order -/\ndef insertSkips : List String := %s\ndef updateSkips : List String := %s\ndef deleteSkips : List String := %s\n\n", leanList(insSkips), leanList(updSkips), leanList(delSkips))
	fmt.Fprintf(&b, "/-- fields of the `IndexPointChange` those transform functions assign, in source order -/\ndef insertChange : List String := %s\ndef updateChange : List String := %s\ndef deleteChange : List String := %s\n\n", leanList(insFields), leanList(updFields), leanList(delFields))
	fmt.Fprintf(&b, "/-- `Dispatch`: what the loop calling `getOperation` ranges over, the arguments of that call, and the\nconditions of the `continue`s at the top level of the loop body -/\ndef dispatchRange : String := %q\ndef dispatchOperationArgs : List String := %s\ndef dispatchSkips : List String := %s\n\n", rangeOver, leanList(opArgs), leanList(dispSkips))
	fmt.Fprintf(&b, "/-- `getOperation`: the cases of its switch, `condition => op` -/\ndef operationCases : List String := %s\n\n", leanList(opCases))
	b.WriteString("end Sema.Gen.FactsC10\n")
	if err := os.WriteFile(filepath.Join(*out, "FactsC10.lean"), []byte(b.String()), 0o644); err != nil {
		die("%v", err)
	}
}
