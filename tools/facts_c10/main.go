// facts_c10 (T2): syntactic facts of the Vamana index that the hand-written models of C10 / C03 rely on,
// re-extracted from the working tree on every check and pinned by `example … := by decide` in the Props files:
// the entry node id, the first point node id, the phase order inside insertUpdateDelete and
// removeInboundEdges, and the order "skip the entry node, then cut at the limit" in IndexVamana.Search.
// A fact that cannot be found is an error (broken tie), never a guess.
package main

import (
	"flag"
	"fmt"
	"go/ast"
	"go/parser"
	"go/token"
	"os"
	"path/filepath"
	"strings"
)

func die(f string, a ...any) {
	fmt.Fprintf(os.Stderr, "facts_c10: "+f+"\n", a...)
	os.Exit(1)
}

func parse(path string) (*token.FileSet, *ast.File) {
	fs := token.NewFileSet()
	f, err := parser.ParseFile(fs, path, nil, 0)
	if err != nil {
		die("cannot parse %s: %v", path, err)
	}
	return fs, f
}

func funcDecl(f *ast.File, name string) *ast.FuncDecl {
	for _, d := range f.Decls {
		if fd, ok := d.(*ast.FuncDecl); ok && fd.Name.Name == name && fd.Body != nil {
			return fd
		}
	}
	return nil
}

func sel(e ast.Expr) string {
	switch t := e.(type) {
	case *ast.SelectorExpr:
		return sel(t.X) + "." + t.Sel.Name
	case *ast.Ident:
		return t.Name
	case *ast.CallExpr:
		return sel(t.Fun) + "()"
	}
	return "?"
}

// calls lists, in source order, the calls of body whose selector path ends with one of the wanted suffixes.
func calls(body *ast.BlockStmt, wanted map[string]string) []string {
	type hit struct {
		pos  token.Pos
		name string
	}
	var hs []hit
	ast.Inspect(body, func(n ast.Node) bool {
		c, ok := n.(*ast.CallExpr)
		if !ok {
			return true
		}
		s := sel(c.Fun)
		for suf, name := range wanted {
			if s == suf || strings.HasSuffix(s, "."+suf) {
				hs = append(hs, hit{c.Pos(), name})
			}
		}
		return true
	})
	for i := 1; i < len(hs); i++ {
		for j := i; j > 0 && hs[j].pos < hs[j-1].pos; j-- {
			hs[j], hs[j-1] = hs[j-1], hs[j]
		}
	}
	var r []string
	for _, h := range hs {
		if len(r) == 0 || r[len(r)-1] != h.name {
			r = append(r, h.name)
		}
	}
	return r
}

func leanList(xs []string) string {
	q := make([]string, len(xs))
	for i, x := range xs {
		q[i] = fmt.Sprintf("%q", x)
	}
	return "[" + strings.Join(q, ", ") + "]"
}

func main() {
	repo := flag.String("repo", "/repo", "repository working tree")
	out := flag.String("out", "", "output directory")
	flag.Parse()
	vdir := filepath.Join(*repo, "shard", "index", "vamana")
	_, vf := parse(filepath.Join(vdir, "vamana.go"))
	// const STARTID = 1
	start := ""
	for _, d := range vf.Decls {
		gd, ok := d.(*ast.GenDecl)
		if !ok || gd.Tok != token.CONST {
			continue
		}
		for _, s := range gd.Specs {
			vs := s.(*ast.ValueSpec)
			for i, n := range vs.Names {
				if n.Name == "STARTID" && i < len(vs.Values) {
					if bl, ok := vs.Values[i].(*ast.BasicLit); ok && bl.Kind == token.INT {
						start = bl.Value
					}
				}
			}
		}
	}
	if start == "" {
		die("const STARTID with an integer literal not found in vamana.go")
	}
	iud := funcDecl(vf, "insertUpdateDelete")
	if iud == nil {
		die("func insertUpdateDelete not found")
	}
	phases := calls(iud.Body, map[string]string{
		"TransformWithContext": "classify", "insertWorker": "insertWorkers", "MergeErrorsWithContext": "waitForInserts",
		"removeInboundEdges": "removeInboundEdges", "vecStore.Delete": "deleteVectors", "nodeStore.Delete": "deleteNodes",
		"insertSinglePoint": "reinsertUpdated", "vecStore.Fit": "fit", "flush": "flush"})
	// Search: the entry node is skipped before the limit is tested
	sf := funcDecl(vf, "Search")
	if sf == nil {
		die("func Search not found")
	}
	var cuts []string
	ast.Inspect(sf.Body, func(n ast.Node) bool {
		is, ok := n.(*ast.IfStmt)
		if !ok || len(is.Body.List) != 1 {
			return true
		}
		br, ok := is.Body.List[0].(*ast.BranchStmt)
		if !ok {
			return true
		}
		be, ok := is.Cond.(*ast.BinaryExpr)
		if !ok {
			return true
		}
		l, r := sel(be.X), sel(be.Y)
		switch {
		case br.Tok == token.CONTINUE && be.Op == token.EQL && strings.HasSuffix(l, ".Id()") && r == "STARTID":
			cuts = append(cuts, "skipEntry")
		case br.Tok == token.BREAK && be.Op == token.GEQ && l == "len()" && strings.HasSuffix(r, ".Limit"):
			cuts = append(cuts, "limitCut")
		}
		return true
	})
	_, pf := parse(filepath.Join(vdir, "prune.go"))
	rie := funcDecl(pf, "removeInboundEdges")
	if rie == nil {
		die("func removeInboundEdges not found")
	}
	rphases := calls(rie.Body, map[string]string{"EdgeScan": "edgeScan", "pruneDeleteNeighbour": "pruneDeleteNeighbour", "AddNeighbourIfNotExists": "rescueOntoEntry"})
	// id counter: first point id
	_, cf := parse(filepath.Join(*repo, "shard", "idcounter.go"))
	nic := funcDecl(cf, "NewIdCounter")
	first := ""
	if nic != nil {
		ast.Inspect(nic.Body, func(n ast.Node) bool {
			as, ok := n.(*ast.AssignStmt)
			if !ok || len(as.Lhs) != 1 || len(as.Rhs) != 1 || as.Tok != token.DEFINE {
				return true
			}
			if id, ok := as.Lhs[0].(*ast.Ident); ok && id.Name == "nextFreeId" {
				if c, ok := as.Rhs[0].(*ast.CallExpr); ok && len(c.Args) == 1 {
					if bl, ok := c.Args[0].(*ast.BasicLit); ok && bl.Kind == token.INT {
						first = bl.Value
					}
				}
			}
			return true
		})
	}
	if first == "" {
		die("initial nextFreeId literal not found in NewIdCounter")
	}
	var b strings.Builder
	b.WriteString("-- GENERATED by tools/facts_c10 from the repository working tree. DO NOT EDIT.\n")
	b.WriteString("namespace Sema.Gen.FactsC10\n\n")
	fmt.Fprintf(&b, "/-- `vamana.STARTID` -/\ndef startId : Nat := %s\n\n", start)
	fmt.Fprintf(&b, "/-- first node id handed out by `IdCounter` -/\ndef firstPointId : Nat := %s\n\n", first)
	fmt.Fprintf(&b, "/-- calls of `insertUpdateDelete` in source order -/\ndef phases : List String := %s\n\n", leanList(phases))
	fmt.Fprintf(&b, "/-- calls of `removeInboundEdges` in source order -/\ndef removeInboundPhases : List String := %s\n\n", leanList(rphases))
	fmt.Fprintf(&b, "/-- the two early exits of the result loop of `IndexVamana.Search`, in source order -/\ndef searchCuts : List String := %s\n\n", leanList(cuts))
	b.WriteString("end Sema.Gen.FactsC10\n")
	if err := os.WriteFile(filepath.Join(*out, "FactsC10.lean"), []byte(b.String()), 0o644); err != nil {
		die("%v", err)
	}
}
