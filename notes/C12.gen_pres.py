# Development helper (not run by the check): regenerates lean/SemaModel/C12/Inv.lean (the `Inv` structure
# after the hand-written prefix), lean/SemaModel/C12/Pres/<Field>.lean and lean/SemaModel/C12/Lemmas_gen.lean
# (rename to Lemmas.lean) from the table F below: field name -> (statement over S, invariant fields handed
# to grind, definitions unfolded[, smaller field list tried first]).   usage: python3 C12.gen_pres.py split
import sys, re
import os
ROOT = os.path.join(os.path.dirname(os.path.abspath(__file__)), '..', 'lean', 'SemaModel', 'C12')
_inv = open(os.path.join(ROOT, 'Inv.lean')).read()
HEAD = _inv[:_inv.index('structure Inv (s : St) : Prop where')].rstrip() + '\n'
B = "(t : Tid) (pc : PC) (o : Oid) (ob : Obj) (d : Dir) (r : List Dir)"
# name: (statement over S, inv fields handed to grind, unfolded defs)
F = {
 'lockA': ("∀ (t : Tid) (pc : PC), S.thr[t]? = some pc → holdsStore pc = true → S.lock = some t", ['lockA','lockB'], ['holdsStore']),
 'lockB': ("∀ (t : Tid), S.lock = some t → ∃ pc : PC, S.thr[t]? = some pc ∧ holdsStore pc = true", ['lockA','lockB'], ['holdsStore']),
 'refs': ("∀ (t : Tid) (pc : PC) (o : Oid), S.thr[t]? = some pc → pc.ref = some o → o < S.objs.length", ['refs','stObj'], ['PC.ref']),
 'wrA': ("∀ (t : Tid) (pc : PC) (o : Oid), S.thr[t]? = some pc → wslot pc = some o → ∃ ob : Obj, S.objs[o]? = some ob ∧ ob.wr = some t", ['wrA','wrB','refs'], ['wslot','PC.ref']),
 'wrB': ("∀ (o : Oid) (ob : Obj) (t : Tid), S.objs[o]? = some ob → ob.wr = some t → ∃ pc : PC, S.thr[t]? = some pc ∧ wslot pc = some o", ['wrA','wrB','refs'], ['wslot','PC.ref','Obj.fresh']),
 'rdA': ("∀ (t : Tid) (pc : PC) (o : Oid), S.thr[t]? = some pc → rslot pc = some o → ∃ ob : Obj, S.objs[o]? = some ob ∧ t ∈ ob.readers", ['rdA','rdB','rwA','rwB','wrA','wact','refs'], ['rslot','wslot','wactive','PC.ref']),
 'rdB': ("∀ (o : Oid) (ob : Obj) (t : Tid), S.objs[o]? = some ob → t ∈ ob.readers → ∃ pc : PC, S.thr[t]? = some pc ∧ (rslot pc = some o ∨ pc = PC.rqRWait o)", ['rdA','rdB','rwA','rwB','wrA','wact','refs'], ['rslot','wslot','wactive','PC.ref','Obj.fresh']),
 'rwA': ("∀ (t : Tid) (o : Oid), S.thr[t]? = some (PC.rqRWait o) → ∃ ob : Obj, S.objs[o]? = some ob ∧ (t ∈ ob.readers ∨ t ∈ ob.rwait)", ['rdA','rdB','rwA','rwB','refs'], ['rslot','PC.ref']),
 'rwB': ("∀ (o : Oid) (ob : Obj) (t : Tid), S.objs[o]? = some ob → t ∈ ob.rwait → ob.wr ≠ none ∧ t ∉ ob.readers ∧ S.thr[t]? = some (PC.rqRWait o)", ['rdA','rdB','rwA','rwB','wrA','wrB','wact','refs'], ['rslot','wslot','wactive','PC.ref','Obj.fresh']),
 'wact': ("∀ (t : Tid) (pc : PC) (o : Oid) (ob : Obj), S.thr[t]? = some pc → wactive pc = some o → S.objs[o]? = some ob → ob.readers = []", ['wact','wrA','wrB','rdA','rdB','refs'], ['wactive','wslot','rslot','PC.ref','Obj.fresh']),
 'shOpen': ("∀ (t : Tid) (pc : PC) (o : Oid) (ob : Obj), S.thr[t]? = some pc → needsOpen pc = some o → S.objs[o]? = some ob → ob.sh = Sh.opened", ['shOpen','shClW','shClR','shClT','wact','wrA','rdA','refs','shNil'], ['needsOpen','wactive','wslot','rslot','PC.ref','knowsNil','setsNil','Obj.fresh']),
 'shClW': ("∀ (o : Oid) (ob : Obj), S.objs[o]? = some ob → ob.sh = Sh.closed → ob.wr ≠ none", ['shClW','wrA','shNil','refs'], ['wslot','knowsNil','PC.ref','Obj.fresh']),
 'shClR': ("∀ (o : Oid) (ob : Obj), S.objs[o]? = some ob → ob.sh = Sh.closed → ob.readers = []", ['shClR','shClW','wact','wrA','shNil','refs'], ['wslot','wactive','knowsNil','PC.ref','Obj.fresh']),
 'shCl': ("∀ (t : Tid) (pc : PC) (o : Oid) (ob : Obj), S.thr[t]? = some pc → setsNil pc = some o → S.objs[o]? = some ob → ob.sh = Sh.closed", ['shCl','wrA','refs'], ['setsNil','wslot','wactive','PC.ref']),
 'shClT': ("∀ (o : Oid) (ob : Obj) (t : Tid), S.objs[o]? = some ob → ob.sh = Sh.closed → ob.wr = some t → ∃ pc : PC, S.thr[t]? = some pc ∧ setsNil pc = some o", ['shClT','shClW','wrA','wrB','shNil','shCl','refs'], ['setsNil','wslot','wactive','knowsNil','PC.ref','Obj.fresh']),
 'shNil': ("∀ (t : Tid) (pc : PC) (o : Oid) (ob : Obj), S.thr[t]? = some pc → knowsNil pc = some o → S.objs[o]? = some ob → ob.sh = Sh.nil", ['shNil','shOpen','wrA','refs'], ['knowsNil','needsOpen','wslot','PC.ref']),
 'stObj': ("∀ (d : Dir) (o : Oid), S.store d = some o → o < S.objs.length ∧ ∀ (ob : Obj), S.objs[o]? = some ob → ob.dir = d", ['stObj','putDir','refs'], ['upd','PC.ref']),
 'openSt': ("∀ (o : Oid) (ob : Obj), S.objs[o]? = some ob → ob.sh = Sh.opened → S.store ob.dir ≠ some o → S.lock ≠ none ∧ ∀ (t : Tid), S.lock = some t → S.thr[t]? = some (PC.rqPut ob.dir o)", ['openSt','putDir','miss','lockA','lockB','shNil','dlDel','stObj','refs','dlSt'], ['upd','holdsStore','knowsNil','missDir','PC.ref','Obj.fresh','dlObj']),
 'putDir': ("∀ (t : Tid) (d : Dir) (o : Oid) (ob : Obj), S.thr[t]? = some (PC.rqPut d o) → S.objs[o]? = some ob → ob.dir = d", ['putDir','refs'], ['PC.ref','Obj.fresh']),
 'miss': ("∀ (t : Tid) (pc : PC) (d : Dir), S.thr[t]? = some pc → missDir pc = some d → S.store d = none", ['miss','lockA'], ['missDir','holdsStore','upd']),
 'dlSt': ("∀ (t : Tid) (pc : PC) (o : Oid) (d : Dir), S.thr[t]? = some pc → dlObj pc = some (o, d) → S.store d = some o", ['dlSt','lockA','stObj'], ['dlObj','holdsStore','upd']),
 'dlDel': ("∀ (t : Tid) (d : Dir) (r : List Dir) (o : Oid) (ob : Obj), S.thr[t]? = some (PC.dlMapDel d r) → S.store d = some o → S.objs[o]? = some ob → ob.sh = Sh.nil", ['dlDel','dlSt','shNil','lockA','shOpen','refs','stObj'], ['dlObj','holdsStore','upd','knowsNil','needsOpen','PC.ref'], ['dlDel','refs','lockA']),
 'clA': ("∀ (t : Tid) (pc : PC) (o : Oid) (ob : Obj), S.thr[t]? = some pc → cleanerOf pc = some o → S.objs[o]? = some ob → ob.cl = some t", ['clA','noCl','refs','lockA'], ['cleanerOf','preSpawn','PC.ref','holdsStore','Obj.fresh'], ['clA','refs']),
 'noCl': ("∀ (t : Tid) (pc : PC) (o : Oid) (ob : Obj), S.thr[t]? = some pc → preSpawn pc = some o → S.objs[o]? = some ob → ob.cl = none", ['noCl','refs','lockA'], ['preSpawn','PC.ref','holdsStore','Obj.fresh'], ['noCl','refs']),
 'msgTrue': ("∀ (o : Oid) (ob : Obj), S.objs[o]? = some ob → ob.msg = some true → ob.sh ≠ Sh.opened ∨ ob.wr ≠ none", ['msgTrue','wrA','shNil','refs'], ['wslot','knowsNil','PC.ref','Obj.fresh']),
 'recvTrue': ("∀ (t : Tid) (o : Oid) (ob : Obj), S.thr[t]? = some (PC.clRecv o true) → S.objs[o]? = some ob → ob.sh ≠ Sh.opened ∨ ob.wr ≠ none", ['recvTrue','msgTrue','wrA','shNil','refs'], ['wslot','knowsNil','PC.ref','Obj.fresh']),
 'selA': ("∀ (t : Tid) (o : Oid) (ob : Obj), S.thr[t]? = some (PC.clSelect o) → S.objs[o]? = some ob → ob.msg = none → ob.sel = true", ['selA','clA','refs'], ['cleanerOf','PC.ref','Obj.fresh'], ['selA','refs']),
 'clAlive': ("∀ (o : Oid) (ob : Obj) (c : Tid), S.objs[o]? = some ob → ob.sh = Sh.opened → ob.cl = some c → ob.wr = none → ∃ pc : PC, S.thr[c]? = some pc ∧ alive pc = some o", ['clAlive','clA','noCl','recvTrue','wrA','shNil','refs'], ['alive','cleanerOf','preSpawn','wslot','knowsNil','PC.ref','Obj.fresh'], ['clAlive','refs']),
 'putNotSt': ("∀ (t : Tid) (d : Dir) (o : Oid) (d' : Dir), S.thr[t]? = some (PC.rqPut d o) → S.store d' ≠ some o", ['putNotSt','lockA','refs','stObj'], ['holdsStore','PC.ref','upd']),
 'putOpen': ("∀ (t : Tid) (d : Dir) (o : Oid) (ob : Obj), S.thr[t]? = some (PC.rqPut d o) → S.objs[o]? = some ob → ob.sh = Sh.opened ∧ ob.wr = none", ['putOpen','noCl','clA','wrA','dlSt','putNotSt','refs','lockA'], ['preSpawn','cleanerOf','wslot','dlObj','holdsStore','PC.ref','Obj.fresh'], ['putOpen','refs','wrA']),
 'stNil': ("∀ (d : Dir) (o : Oid) (ob : Obj), S.store d = some o → S.objs[o]? = some ob → ob.sh ≠ Sh.opened → ob.closedBy ≠ none ∧ ∀ (t : Tid), ob.closedBy = some t → ∃ pc : PC, S.thr[t]? = some pc ∧ (dutyO pc = some o ∨ delOf pc = some d)", ['stNil','lockA','refs','stObj','shOpen','shCl','dlSt','putOpen','putNotSt'], ['dutyO','delOf','holdsStore','needsOpen','setsNil','dlObj','PC.ref','upd','Obj.fresh'], ['stNil','refs','stObj']),
 'stCl': ("∀ (d : Dir) (o : Oid) (ob : Obj), S.store d = some o → S.objs[o]? = some ob → ob.cl = none → S.lock ≠ none ∧ ∀ (t : Tid), S.lock = some t → S.thr[t]? = some (PC.rqSpawn o)", ['stCl','lockA','lockB','refs','stObj','noCl','putNotSt'], ['holdsStore','preSpawn','PC.ref','upd','Obj.fresh'], ['stCl','refs','stObj']),
 'opensC': ("∀ (d : Dir), S.opens d = cnt d S.objs", ['opensC','shOpen','shNil','shCl','refs'], ['upd','needsOpen','knowsNil','setsNil','Obj.fresh','PC.ref','ind']),
}
def field_decl(name):
    return f"  {name} : " + re.sub(r"\bS\b", "s", F[name][0])
CLS = ['holdsStore','wslot','wactive','rslot','PC.ref','needsOpen','knowsNil','missDir','dlObj','setsNil','cleanerOf','preSpawn','alive','dutyO','delOf']
def gens(defs):
    return "\n".join(f"      generalize hk{i} : {c} pc0 = k{i}" for i,c in enumerate(CLS) if c in defs)
def subS(x):
    return re.sub(r'\bS\b', "s'", x)
def tac(name):
    ent = F[name]
    stmt, invs, defs = ent[0], ent[1], ent[2]
    d = ", ".join(defs)
    full = "; ".join(f"have i_{f} := hI.{f}" for f in invs)
    if len(ent) > 3:
        core = "; ".join(f"have i_{f} := hI.{f}" for f in ent[3])
        return f"first | ({core}; grind [{d}]) | ({full}; grind (instances := 4000) [{d}])"
    return f"({full}; grind [{d}])"
def pres(name):
    stmt, invs, defs = F[name][0], F[name][1], F[name][2]
    haves = ""
    d = ", ".join(defs)
    T = tac(name)
    return f"""set_option maxHeartbeats 1600000 in
theorem pres_{name} {{s s' : St}} {{a : Act}} (hI : Inv s) (h : step .repaired s a = some s') :
    {subS(stmt)} := by
{haves}
  cases a with
  | newReq d => simp only [step] at h; cases h; simp only []; {T}
  | newDel c => simp only [step] at h; cases h; simp only []; {T}
  | fire t0 =>
    simp only [step] at h
    (repeat' (split at h)) <;> (try cases h) <;> (simp only [St.setPc, St.setObj]; {T})
  | corrupt d =>
    simp only [step] at h
    (repeat' (split at h)) <;> (try cases h) <;> (simp only []; {T})
  | block d =>
    simp only [step] at h
    (repeat' (split at h)) <;> (try cases h) <;> (simp only []; {T})
  | repair d =>
    simp only [step] at h
    (repeat' (split at h)) <;> (try cases h) <;> (simp only []; {T})
  | run t0 =>
    simp only [step] at h
    split at h
    · rename_i pc0 hpc0
{gens(defs)}
      cases pc0 <;> simp only [stepPc] at h <;> (repeat' (split at h)) <;> (try cases h) <;>
        (simp only [St.setPc, St.setObj]; {T})
    · cases h
"""
if __name__ == '__main__':
    mode = sys.argv[1]
    inv = "structure Inv (s : St) : Prop where\n" + "\n".join(field_decl(n) for n in F) + "\n\ntheorem inv_init (dirs : List Dir) : Inv (St.init dirs) := by\n  constructor <;> simp [St.init, cnt]\n"
    if mode == 'head':   # Lemmas.lean with Inv only (for experiments)
        print(HEAD + "\n" + inv + "\nend Sema.C12")
    elif mode == 'one':
        print("import SemaModel.C12.Inv\nnamespace Sema.C12\n" + pres(sys.argv[2]) + "\nend Sema.C12")
    elif mode == 'split':
        import os
        root=ROOT
        os.makedirs(root+'/Pres', exist_ok=True)
        open(root+'/Inv.lean','w').write(HEAD + "\n" + inv + "\nend Sema.C12\n")
        for n in F:
            N = n[0].upper()+n[1:]
            open(f"{root}/Pres/{N}.lean",'w').write(f"/- C12: preservation of invariant field `{n}` (see SemaModel/C12/Inv.lean) -/\nimport SemaModel.C12.Inv\nnamespace Sema.C12\n\n" + pres(n) + "\nend Sema.C12\n")
        imps = "".join(f"import SemaModel.C12.Pres.{n[0].upper()+n[1:]}\n" for n in F)
        fin = "theorem inv_step {s s' : St} {a : Act} (hI : Inv s) (h : step .repaired s a = some s') : Inv s' :=\n  { " + ",\n    ".join(f"{n} := pres_{n} hI h" for n in F) + " }\n\ntheorem inv_reachable {s : St} (h : Reachable .repaired s) : Inv s := by\n  induction h with\n  | init dirs => exact inv_init dirs\n  | step _ hs ih => exact inv_step ih hs\n\ntheorem reachable_run {v : Variant} {s : St} (h : Reachable v s) (acts : List Act) : Reachable v (runSched v s acts).1 := by\n  induction acts generalizing s with\n  | nil => simpa [runSched] using h\n  | cons a as ih =>\n    simp only [runSched]\n    split\n    · rename_i s' hs; exact ih (Reachable.step h hs)\n    · exact h\n\ntheorem reachable_runSched (v : Variant) (acts : List Act) : Reachable v (runSched v (St.init []) acts).1 :=\n  reachable_run (Reachable.init []) acts\n"
        open(root+'/Lemmas_gen.lean','w').write("/- C12: the invariant is inductive (`inv_step`), hence holds in every reachable state of the repaired model. -/\n" + imps + "namespace Sema.C12\n\n" + fin + "\nend Sema.C12\n")
    elif mode == 'full':
        body = "\n".join(pres(n) for n in F)
        fin = "theorem inv_step {s s' : St} {a : Act} (hI : Inv s) (h : step .repaired s a = some s') : Inv s' :=\n  { " + ",\n    ".join(f"{n} := pres_{n} hI h" for n in F) + " }\n\ntheorem inv_reachable {s : St} (h : Reachable .repaired s) : Inv s := by\n  induction h with\n  | init dirs => exact inv_init dirs\n  | step _ hs ih => exact inv_step ih hs\n"
        print(HEAD + "\n" + inv + "\n" + body + "\n" + fin + "\nend Sema.C12")

def pres_case(name, ctor, extra=""):
    stmt, invs, defs = F[name][0], F[name][1], F[name][2]
    haves = ""
    d = ", ".join(defs)
    T = tac(name)
    return f"""import SemaModel.C12.Inv
namespace Sema.C12
theorem pres_{name} {{s s' : St}} {{a : Act}} (hI : Inv s) (h : step .repaired s a = some s') :
    {subS(stmt)} := by
{haves}
  cases a with
  | run t0 =>
    simp only [step] at h
    split at h
    · rename_i pc0 hpc0
{gens(F[name][2])}
      cases pc0
      case {ctor} =>
        simp only [stepPc] at h <;> (repeat' (split at h)) <;> (try cases h) <;>
        (simp only [St.setPc, St.setObj]; {extra} {T})
      all_goals sorry
    · cases h
  | _ => sorry
end Sema.C12
"""
if __name__ == '__main__' and sys.argv[1] == 'case':
    print(pres_case(sys.argv[2], sys.argv[3], sys.argv[4] if len(sys.argv) > 4 else ""))
