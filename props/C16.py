import json, os

SPEC = {
    "lean_modules": ["SemaModel.C16.Props", "SemaModel.C16.Pins"],
    "lean_dirs": ["SemaModel/C16"],
    "harness": "c16",
    "harness_args": {"quick": ["-n", 600, "-storm", 150], "thorough": ["-n", 5000, "-storm", 1500]},
    "timeout": {"quick": 600, "thorough": 3000},
    "level": "proof",
    "tie": "T2: tools/facts_c16c17 regenerates Generated/FactsC16.lean from the working tree (DBDELIMITER, USERCOLSDIR, the shape of every node-db key / scan prefix / filepath.Join below userCollections, the collection-id limits of the v1 and v2 handlers) and Props.lean pins the model to it; T3: go/cmd/c16 drives interleaved multi-user HTTP histories (httptest server, production router, real single node) and the Lean model on the same op lines, and evaluates the isolation oracle (responses and on-disk shard directories of every user equal those of a run without the other users) directly on the real node; the middleware variant (does it refuse 'X-User-Id: .') is probed at run time and told to the model; concurrent phase (go/cmd/c16/storm.go): one HTTP client per (tenant, collection) of tenants whose ids and collection names collide under every delimiter-free or reversed gluing, all clients at once, each tenant's answers and shard directories compared with a run of that tenant alone; the CONCURRENT model is executed on the storm's own schedule: every storm line carries the request's window (global sequence counter before sending / after the answer) and the real answer, and the driver searches for a schedule of the two-atomic-step system `crun` (C16_concurrent / C16_any_interleaving) that respects the observed partial order and reproduces every answer, then runs `crun` on it (`storm end` => ok / no-linearisation); T2 also pins the field list of struct ClusterNode and what the collection-level actions reach through their receiver",
    "required_theorems": [
        "Sema.C16.C16_key_inj", "Sema.C16.C16_prefix", "Sema.C16.C16_path_inj", "Sema.C16.C16_path_not_nested",
        "Sema.C16.C16_accept_valid", "Sema.C16.C16_accept_complete", "Sema.C16.C16_collid_valid",
        "Sema.C16.C16_wf_empty", "Sema.C16.C16_wf_step",
        "Sema.C16.C16_noninterference", "Sema.C16.C16_self", "Sema.C16.C16_histories", "Sema.C16.C16_rejected",
        "Sema.C16.C16_pinned_violation", "Sema.C16.C16_pinned_path_collision", "Sema.C16.C16_histories_pinned_partial",
        "Sema.C16.C16_atomic", "Sema.C16.C16_concurrent", "Sema.C16.C16_only_filter", "Sema.C16.C16_any_interleaving", "Sema.C16.C16_client_fresh",
    ],
    "trusted_base": [
        "tools/facts_c16c17 (go/ast extractor) and the hand-written model SemaModel/C16/Model.lean; mitigated by the line-by-line correspondence over HTTP",
        "the bucket is an association list whose PrefixScan visits exactly the keys having the prefix (bbolt cursor order is Base/KV's concern); bbolt atomicity assumed",
        "filepath.Join on Linux = split on '/', drop '' and '.', '..' pops; the root directory is absolute and clean; the file system is a map from shard directory to contents",
        "a shard file is the list of its points (id, integer payload): shard internals are C01-C06; at most one shard per collection (per-shard limits are large in the harness); uuid.New() for a new shard is an oracle argument",
        "net/http header parsing (values arrive as sent, minus surrounding blanks) and the Go 1.22 ServeMux path matching",
        "loaded-shard cache of the shard manager is not modelled: the model answers from disk; on the pinned variant the harness waits for the idle unload before comparing",
    ],
    "assumptions": ["concurrency: a collection-scoped request is two atomic steps (look-up of the collection record, handler); the handler bodies are atomic in the model; the Go memory model is outside it",
                    "user ids are byte strings without '/' (property text); on the repaired tree the middleware enforces it, so the theorems need no hypothesis on the other users at all",
                    "single node (the harness runs one server); multi-node routing of the same keys and paths is C13/C17"],
}


def search(ctx):
    """A proof obligation or the correspondence broke and the standard run saw no isolation failure:
    run many more (and longer) interleaved histories and return the first failure of the isolation
    oracle on the real node."""
    r = ctx["runner"]
    out = os.path.join(ctx["rundir"], "search")
    rc, o, dt = r.sh([ctx["hbin"], "-seed", str(ctx["seed"] + 7919), "-n", "900" if ctx["tier"] == "quick" else "4000", "-storm", "400", "-out", out], env=r.GOENV, timeout=2400)
    sp = os.path.join(out, "stats.json")
    if not os.path.exists(sp):
        return None
    import re
    for f in json.load(open(sp)).get("oracle_failures", []):
        if not any(k.get("status") == "open" and re.fullmatch(k["signature"], f["signature"]) for k in ctx.get("known", [])):
            return {"signature": f["signature"], "what": f["what"], "replay": f["replay"]}
    return None
