import json, os, re

SPEC = {
    "lean_modules": ["SemaModel.C08.Props", "SemaModel.C08.Pins"],
    "lean_dirs": ["SemaModel/C08", "SemaModel/C04"],
    "harness": "c08",
    "harness_args": {
        "quick": ["-cache", 120, "-ops", 50, "-hist", 18, "-batches", 9, "-queries", 12],
        "thorough": ["-cache", 4000, "-ops", 70, "-hist", 200, "-batches", 14, "-queries", 14],
    },
    "timeout": {"quick": 600, "thorough": 3000},
    "level": "proof",
    "tie": ("T2: tools/facts_c08 extracts from itemcache.go that Put stores the element dirty, that Flush writes when "
            "`IsDirty || CheckAndClearDirty()`, deletes-and-forgets deleted elements and clears the flag, that every function rewriting a "
            "cached value in place raises its dirty flag, that the flush functions put / the constructors get the persisted parameters, "
            "that the write paths of the two vector indexes end `...; Fit; flush` (call order), and that no ReadFrom / constructor of the files "
            "whose values are cached lets a byte slice handed out by the storage layer escape un-copied (taint extraction); "
            "tools/facts_c04 extracts the Storable plans of the vector-store points and the graph node; the theorems C08_flush_* / "
            "C08_answer_indep_partial / C08_history_partial / C08_params_persist_* are proved about those generated tables. "
            "T3: (A) random programs (Get / Put / Delete / in-place mutation / ForEach / Count / Flush / eviction) on the real generic "
            "cache.ItemCache are replayed line by line on the Lean model of itemcache.go; (B) histories of batches on real shards carrying "
            "every index kind (flat and Vamana indexes under every quantiser, with trigger thresholds crossed inside a batch; dense and "
            "chain-shaped graphs): after every batch the same queries are answered by the live shard, by fresh shards on a copy of the file "
            "(cold / cache disabled / tiny cache asked twice), by shards that ran the history with cache disabled / tiny / LRU-limited, by "
            "a memory-backed shard, and by a shard that is restarted at random points of the history and runs behind a storage proxy which "
            "hands out private copies of every key / value and turns them into garbage when the transaction ends (compared with a fresh shard on "
            "a copy of its own file); batches whose storage transaction fails at commit time must leave no trace; answers compared exactly "
            "(filters, graph search), modulo ties (flat search), modulo 4 ulp (text scores)"),
    "required_theorems": [
        "Sema.C08.CacheCoherent_fresh", "Sema.C08.CacheCoherent_fate", "Sema.C08.CacheCoherent_view",
        "Sema.C08.C08_flush", "Sema.C08.C08_mutation_dirty", "Sema.C08.C08_ops_refine", "Sema.C08.C08_batch",
        "Sema.C08.C08_history", "Sema.C08.C08_fate_indep", "Sema.C08.C08_answer_indep_get", "Sema.C08.C08_answer_indep",
        "Sema.C08.C08_backend", "Sema.C08.C08_backend_rollback",
        "Sema.C08.C08_flush_plain", "Sema.C08.C08_flush_binary", "Sema.C08.C08_flush_product", "Sema.C08.C08_flush_graphNode",
        "Sema.C08.C08_answer_indep_partial", "Sema.C08.C08_history_partial", "Sema.C08.C08_history_graphNode",
        "Sema.C08.C08_params_persist_binary", "Sema.C08.C08_params_persist_product",
        "Sema.C08.C08_fit_then_flush", "Sema.C08.C08_fit_then_flush_binary", "Sema.C08.C08_flush_before_fit_witness",
        "Sema.C08.C08_flush_before_fit_params_witness", "Sema.C08.C08_train_in_batch_binary",
        "Sema.C08.C08_read_copies_stable", "Sema.C08.C08_read_copies_warm_cold", "Sema.C08.C08_alias_unstable_witness",
        # read-only transactions (searches) and failed writes in the histories (SemaModel/C08/ReadOnly.lean)
        "Sema.C08.C08_search_coherent", "Sema.C08.C08_history_mixed", "Sema.C08.C08_failed_kept_witness",
        "Sema.C08.C08_search_coherent_partial", "Sema.C08.C08_history_mixed_partial",
        # training is an allowed operation of a history (OpOk of `.mutate` is satisfiable, product quantiser included)
        "Sema.C08.C08_fit_opok_binary", "Sema.C08.C08_fit_opok_product",
    ],
    "trusted_base": [
        "tools/facts_c08 and tools/facts_c04 (go/ast pattern extraction; an unrecognised shape is a hard error)",
        "bbolt: atomic commit, MVCC snapshots, durability of a committed transaction and the ordered cursor are assumed (a reopened copy of the file is what the harness observes)",
        "the memory backend is the same key-value map without rollback; only histories of successful batches are compared across backends",
        "the cache manager is modelled as `a shared cache may be replaced by a fresh one between two transactions` (its locking is C11's subject)",
        "the text index' setCacheItem / docCacheItem and the inverted index' private set cache are not instantiated in the proofs (covered by T3 only); msgpack / roaring / bleve as in DESIGN section 5",
        "a query is a function of the overlay map `view` (it reaches the data only through Get / GetMany / ForEach)",
    ],
    "assumptions": [
        "every Put in a transaction satisfies the Storable's write precondition w.r.t. the bucket of that transaction (OkRun / OkMixed): a vector or code is present, and a point without code is not shadowed by a stale code key; an in-place rewrite (`.mutate`, the quantisers' Fit) is judged on the values a transaction can hold for an id (agreeing with the bucket, or waiting to be written): C08_fit_opok_binary / _product discharge it for Fit",
        "a failed write transaction leaves the bucket unchanged (bbolt rollback, assumed) and its caches are dropped (C11_failed_dropped); C08_failed_kept_witness shows that keeping them would break `view = obs`",
        "randomised construction (k-means of the product quantiser, the random entry vector and insert-worker interleaving of the Vamana graph) is part of the committed history: graph answers are compared between cache states of the same file, not between separately built shards",
        "repeated ids inside one update / delete batch are excluded (they are findings of C03/C05/C10: DESIGN section 8 nos. 12, 13)",
    ],
}


def search(ctx):
    r = ctx["runner"]
    for k in range(1, 4):
        out = os.path.join(ctx["rundir"], f"search{k}")
        args = [ctx["hbin"], "-seed", str(ctx["seed"] * 1000 + k), "-out", out, "-cache", "1000", "-ops", "70", "-hist", "30", "-batches", "12", "-queries", "14"]
        r.sh(args, env=r.GOENV, timeout=1500)
        p = os.path.join(out, "stats.json")
        if not os.path.exists(p):
            continue
        fails = json.load(open(p)).get("oracle_failures") or []
        known = [k_ for k_ in ctx.get("known", []) if k_.get("status") == "open"]
        for f in fails:
            if not any(re.fullmatch(k_["signature"], f["signature"]) for k_ in known):
                return {"signature": f["signature"], "what": f["what"], "replay": f["replay"]}
    return None
