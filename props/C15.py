import json, os, re, shutil

SPEC = {
    "lean_modules": ["SemaModel.C15.Props", "SemaModel.C15.Tie"],
    "lean_dirs": ["SemaModel/C15"],
    "harness": "c15",
    "harness_args": {"quick": ["-n", 3000, "-hist", 6, "-steps", 25], "thorough": ["-n", 40000, "-hist", 40, "-steps", 40]},
    "timeout": {"quick": 170, "thorough": 1100},
    "level": "proof",
    "tie": "T1: cluster/placement.go distributePoints is translated to SemaModel/Generated/Placement.lean on every run (tools/go2lean, extended subset) and "
           "C15_tie proves that the hand-written C15.distribute equals the translated function for all inputs (representation maps in C15/Tie.lean); "
           "C15_map_bridge / C15_tie_assignments: the Go map built by shardAssignments[id] = [2]int{lo, hi} (Go.mapSet of the generated module) IS the model's assignment list when the ids are distinct; "
           "the quota test at the head of ClusterNode.InsertPoints (from `totalPoints := int64(0)` to the comparison with col.UserPlan.MaxCollectionPointCount) is translated as a fragment to SemaModel/Generated/Quota.lean on every run and C15_tie_quota proves it equal to the model's overQuota (error ErrQuotaReached, no other effect); the quota lines of RPCCreateCollection are outside the translator's subset (a PrefixScan callback assigning a captured counter, a write through the reply pointer) and stay with the hand model + T3; "
           "T3: the real cluster.distributePoints (tagged wrapper cluster.VerifDistributePoints) and the hand-written Lean model are run on the same op lines "
           "(boundary grid: count limit 1..3, size limit 16..48, 0..2 shards at / just below / above each limit, 0..4 points; random: 0..5 shards, 0..13 points, "
           "limits incl. 0 and negative, point sizes from 16 (empty Data) to a whole shard +-1, createShardFn failing after 0..29 calls); "
           "end to end: histories of collection creations and inserts around the quota boundaries on one in-process cluster node "
           "(ClusterNode.CreateCollection / InsertPoints / GetShardsInfo), each step compared with the model's quota test, per-shard distribution and RPCCreateCollection model",
    "required_theorems": [
        "Sema.C15.C15_partition", "Sema.C15.C15_exactly_one", "Sema.C15.C15_shard_order", "Sema.C15.C15_limits",
        "Sema.C15.C15_ids_nodup", "Sema.C15.C15_fuel", "Sema.C15.C15_fuel_stable",
        "Sema.C15.C15_diverges_without_fits", "Sema.C15.C15_fits_or_stuck",
        "Sema.C15.C15_quota_insert", "Sema.C15.C15_count", "Sema.C15.C15_quota_respected", "Sema.C15.C15_quota_create",
        "Sema.C15.C15_tie",
        # the Go map of the assignments is the model's list (ids distinct); the tie read off as the Go result
        "Sema.C15.C15_map_bridge", "Sema.C15.C15_tie_assignments",
        # the quota test of ClusterNode.InsertPoints: generated fragment (Generated/Quota.lean) = the model's overQuota
        "Sema.C15.C15_tie_quota",
    ],
    "trusted_base": [
        "int64 sizes / counts / limits are modelled in Int: sums are assumed not to overflow 2^63",
        "createShardFn is an arbitrary oracle Nat -> Option String in every theorem; the Go map shardAssignments is the model's assignment list when shard ids are pairwise distinct (C15_ids_nodup; uuids in production, e<i>/n<i> in the harness)",
        "the unbounded Go loop is modelled with fuel; C15_fuel / C15_fuel_stable: the result does not depend on the fuel once it is large enough, |shards|+|points|+1 is large enough under fits",
        "C15_count takes from C01 that a shard whose RPCInsertPoints succeeded stored exactly its range and one that failed stored nothing (shard.InsertPoints is one bbolt transaction); bbolt atomicity assumed",
        "RPCCreateCollection: the user-collections bucket is Base/KV.lean (sorted association list, PrefixScan = seek + take while prefix); msgpack encoding of the record is opaque",
        "cluster/verif_export.go (build tag verif): alias of shardInfo and a pass-through wrapper of distributePoints",
    ],
    "assumptions": [
        "fits: every single point fits an empty shard (size <= MaxShardSize, 1 <= MaxShardPointCount); stated in the property. Outside it the real loop creates shards for ever (C15_diverges_without_fits; observed on the real function, aborted after 5000 shards)",
        "existing fill levels are non-negative (file size, stored counter) for the divergence theorem only",
        "no concurrent insert into the same collection between GetShardsInfo and the RPCs (the quota and the distribution are computed from one snapshot; concurrency is outside this property's quantifier)",
    ],
}


def search(ctx):
    """A tie or obligation broke without an oracle failure in the standard run: more seeds, more cases."""
    r = ctx["runner"]
    for extra in range(1, 5):
        d = os.path.join(ctx["rundir"], f"search{extra}")
        os.makedirs(d, exist_ok=True)
        rc, out, _ = r.sh([ctx["hbin"], "-seed", str(ctx["seed"] * 1000 + extra), "-out", d, "-n", "20000", "-hist", "10", "-steps", "30"], env=r.GOENV, timeout=900)
        p = os.path.join(d, "stats.json")
        if rc == 0 and os.path.exists(p):
            st = json.load(open(p))
            for f in st.get("oracle_failures", []):
                if not any(k.get("status") == "open" and re.fullmatch(k["signature"], f["signature"]) for k in ctx.get("known", [])):
                    shutil.rmtree(d, ignore_errors=True)
                    return f
        shutil.rmtree(d, ignore_errors=True)
    return None
