import json, os, shutil

SPEC = {
    "lean_modules": ["SemaModel.C13.Props", "SemaModel.C13.Tie", "SemaModel.C13.SitesProps", "SemaModel.C13.Pins"],
    "lean_dirs": ["SemaModel/C13"],
    "harness": "c13",
    "harness_args": {"quick": ["-n", 600, "-sharekeys", 20000, "-syncscen", 24, "-shsyncscen", 8, "-reqscen", 80],
                     "thorough": ["-n", 6000, "-sharekeys", 100000, "-syncscen", 150, "-shsyncscen", 40, "-reqscen", 500]},
    "timeout": {"quick": 600, "thorough": 2400},
    "level": "proof",
    "tie": "T1: cluster/hashing.go RendezvousHash is translated to SemaModel/Generated/Rendezvous.lean on every run (tools/go2lean, extended mode: the local struct ServerScore, the scoring loop, the comparator cmp.Compare(a.Score, b.Score), the topK clamp, the result loop; xxhash.Sum64String and slices.SortFunc stay abstract parameters); C13_tie_spec proves that the generated definition meets IsRendezvous for every hash, every sort function returning an ordered permutation and every concatenation-preserving reading of strings as bytes, C13_tie that under NoTies it EQUALS the model's rendezvous, C13_tie_owner that RendezvousHash(key, servers, 1)[0] is the model's owner. "
           "T3: cluster.RendezvousHash and the hand-written Lean model (h := XXH64 written in Lean) are run on the same op lines "
           "(boundary/random strings for the hash; random keys x server lists of size 0..46 with duplicates, permutations, one server added/removed; k = 0..n+1); "
           "the XXH64 model is compared with cespare/xxhash Sum64String on every length 0..100 and random strings; "
           "T3 (call sites): real in-process cluster nodes (cluster.NewNode + Serve on loopback addresses of a private network namespace, every node configured with its own permutation of the server list) are driven through the code that routes, one cluster per op line: `sync` - node database records `user/collection` of adversarially chosen user ids (ids that are prefixes / extensions of each other by bytes sorting before and after the delimiter `/`, case variants, ids glued from another id + collection id, non-ASCII and long ids) are planted on one node which runs the real Sync(); `shsync` - the same for shard directories `user/collection/shard`; answer = the node that holds each key afterwards; `req` / `shreq` - CreateCollection, GetCollection, ListCollections, DeleteCollection, InsertPoints (new shard), GetShardsInfo, InsertPoints, SearchPoints, UpdatePoints, DeletePoints issued at one node while a chosen subset of the servers answers (in about 70 % of the lines the first ranked server does not, the second ranked mostly does); answer = the node that SERVED the request (node database that changed, planted record that came back, disk on which the shard was opened) or `fail`. The model answers the same lines with afterSync / shardDest / route of SemaModel/C13/Sites.lean (owner of the routed part of the key over the set of names); the oracle compares with the real RendezvousHash. "
           "T2: tools/facts_c13 regenerates the hashed concatenation (key+server), the comparator direction, the clamp and every call site "
           "(RendezvousHash(<user|shard id>, c.Servers, 1)[0]) of package cluster; SemaModel/C13/Lemmas.lean pins them",
    "required_theorems": [
        "Sema.C13.C13_model_is_rendezvous", "Sema.C13.C13_deterministic",
        "Sema.C13.C13_perm", "Sema.C13.C13_perm_spec", "Sema.C13.C13_set",
        "Sema.C13.C13_owner_iff", "Sema.C13.C13_owner_set", "Sema.C13.C13_owner_some", "Sema.C13.C13_owner_mem",
        "Sema.C13.C13_add_cons", "Sema.C13.C13_add", "Sema.C13.C13_add_topk",
        "Sema.C13.C13_remove", "Sema.C13.C13_remove_all",
        "Sema.C13.C13_length", "Sema.C13.C13_clamp", "Sema.C13.C13_sub", "Sema.C13.C13_prefix",
        # the call sites that route (SemaModel/C13/SitesProps.lean)
        "Sema.C13.C13_userOf_recKey", "Sema.C13.C13_shardOf_path",
        "Sema.C13.C13_sync_plan_iff", "Sema.C13.C13_sync_dest_is_owner", "Sema.C13.C13_after_sync",
        "Sema.C13.C13_sync_agrees_with_request", "Sema.C13.C13_sync_cached_delim",
        "Sema.C13.C13_route_owner", "Sema.C13.C13_route_indep", "Sema.C13.C13_route_up", "Sema.C13.C13_route_down",
        "Sema.C13.C13_failover_one", "Sema.C13.C13_failover_depends",
        "Sema.C13.C13_sync_dest_set", "Sema.C13.C13_shard_dest_set", "Sema.C13.C13_route_set",
        # tie theorems (SemaModel/C13/Tie.lean): the model functions = the definition generated from cluster/hashing.go
        "Sema.C13.C13_tie_shape", "Sema.C13.C13_tie_spec", "Sema.C13.C13_tie", "Sema.C13.C13_tie_owner",
    ],
    "trusted_base": [
        "xxhash is an arbitrary function Bytes -> Nat in every theorem; the executable XXH64 of SemaModel/C13/Model.lean is only the driver's instance, compared with github.com/cespare/xxhash v1.1.0 on every run",
        "Go strings are byte strings; `key + server` is list append (the tie theorems hold for every map String -> Bytes that turns string concatenation into list append)",
        "tools/go2lean (extended mode) for RendezvousHash: `make([]T, n)` is n zero values, `scores[i] = v` / `res[i] = v` are list updates (an out-of-range index would panic in Go; the loops stay in range), `int` does not overflow",
        "slices.SortFunc returns a permutation of its input that is sorted w.r.t. the comparator (pdqsort, unstable): modelled by IsRendezvous; the stable insertion sort of the driver coincides with it under NoTies (C13_deterministic)",
        "a negative topK (Go: panic in make) is outside the model; tools/facts_c13 pins that every call site passes the constant 1",
        "tools/facts_c13 (go/ast): the regenerated call-site table and shape of RendezvousHash",
        "call sites (Sites.lean): hand-written model of the per-key loop of syncUserCollections (destination = owner of the bytes before the first `/`), of syncShards (owner of the last path segment) and of a request (served by the owner or failing); tied by T3 on real nodes, not translated. Observation of `who served`: the node database / shard directory that changed or the planted record returned; net/rpc + loopback TCP deliver a call to the named address or fail",
        "user ids contain no `/` (httpapi/middleware/appheaders.go rejects them) - hypothesis `delim not in u` of the sync theorems",
    ],
    "assumptions": [
        "NoTies: different server names of one list never get the same 64-bit score for the key (duplicates of one name are allowed); never observed, cases with a tie would be counted in routing_cases_with_tie and left unjudged",
        "'every server owns a share of a large key set' is a statement about the distribution of xxhash: evaluated as a TEST (share_test in the evidence), an oracle failure only if some server owns none of the keys",
        "all nodes are configured with the same multiset of server names (c.Servers comes from the config file)",
    ],
}


def search(ctx):
    """A tie or obligation broke without an oracle failure in the standard run: run the real code on more
    seeds and larger inputs - more random routing cases AND many more clusters (adversarial user-id
    families through the real Sync, requests with the first ranked server down) - and look for a
    property violation."""
    import re
    r = ctx["runner"]
    for extra in range(1, 7):
        d = os.path.join(ctx["rundir"], f"search{extra}")
        os.makedirs(d, exist_ok=True)
        rc, out, _ = r.sh([ctx["hbin"], "-seed", str(ctx["seed"] * 1000 + extra), "-out", d, "-n", "3000", "-sharekeys", "20000",
                           "-syncscen", "120", "-shsyncscen", "30", "-reqscen", "400"], env=r.GOENV, timeout=1200)
        p = os.path.join(d, "stats.json")
        if rc == 0 and os.path.exists(p):
            st = json.load(open(p))
            for f in st.get("oracle_failures", []):
                if not any(k.get("status") == "open" and re.fullmatch(k["signature"], f["signature"]) for k in ctx.get("known", [])):
                    shutil.rmtree(d, ignore_errors=True)
                    return f
        shutil.rmtree(d, ignore_errors=True)
    return None
