import json, os, shutil

SPEC = {
    "lean_modules": ["SemaModel.C13.Props", "SemaModel.C13.Tie", "SemaModel.C13.Pins"],
    "lean_dirs": ["SemaModel/C13"],
    "harness": "c13",
    "harness_args": {"quick": ["-n", 600, "-sharekeys", 20000], "thorough": ["-n", 6000, "-sharekeys", 100000]},
    "level": "proof",
    "tie": "T1: cluster/hashing.go RendezvousHash is translated to SemaModel/Generated/Rendezvous.lean on every run (tools/go2lean, extended mode: the local struct ServerScore, the scoring loop, the comparator cmp.Compare(a.Score, b.Score), the topK clamp, the result loop; xxhash.Sum64String and slices.SortFunc stay abstract parameters); C13_tie_spec proves that the generated definition meets IsRendezvous for every hash, every sort function returning an ordered permutation and every concatenation-preserving reading of strings as bytes, C13_tie that under NoTies it EQUALS the model's rendezvous, C13_tie_owner that RendezvousHash(key, servers, 1)[0] is the model's owner. "
           "T3: cluster.RendezvousHash and the hand-written Lean model (h := XXH64 written in Lean) are run on the same op lines "
           "(boundary/random strings for the hash; random keys x server lists of size 0..46 with duplicates, permutations, one server added/removed; k = 0..n+1); "
           "the XXH64 model is compared with cespare/xxhash Sum64String on every length 0..100 and random strings; "
           "T2: tools/facts_c13 regenerates the hashed concatenation (key+server), the comparator direction, the clamp and every call site "
           "(RendezvousHash(<user|shard id>, c.Servers, 1)[0]) of package cluster; SemaModel/C13/Lemmas.lean pins them",
    "required_theorems": [
        "Sema.C13.C13_model_is_rendezvous", "Sema.C13.C13_deterministic",
        "Sema.C13.C13_perm", "Sema.C13.C13_perm_spec", "Sema.C13.C13_set",
        "Sema.C13.C13_owner_iff", "Sema.C13.C13_owner_set", "Sema.C13.C13_owner_some", "Sema.C13.C13_owner_mem",
        "Sema.C13.C13_add_cons", "Sema.C13.C13_add", "Sema.C13.C13_add_topk",
        "Sema.C13.C13_remove", "Sema.C13.C13_remove_all",
        "Sema.C13.C13_length", "Sema.C13.C13_clamp", "Sema.C13.C13_sub", "Sema.C13.C13_prefix",
        # tie theorems (SemaModel/C13/Tie.lean): the model functions = the definition generated from cluster/hashing.go
        "Sema.C13.C13_tie_shape", "Sema.C13.C13_tie_spec", "Sema.C13.C13_tie", "Sema.C13.C13_tie_owner",
    ],
    "trusted_base": [
        "xxhash is an arbitrary function Bytes -> Nat in every theorem; the executable XXH64 of SemaModel/C13/Model.lean is only the driver's instance, compared with github.com/cespare/xxhash v1.1.0 on every run",
        "Go strings are byte strings; `key + server` is list append (the tie theorems hold for every map String -> Bytes that turns string concatenation into list append)",
        "tools/go2lean (extended mode) for RendezvousHash: `make([]T, n)` is n zero values, `scores[i] = v` / `res[i] = v` are list updates (an out-of-range index would panic in Go; the loops stay in range), `int` does not overflow",
        "slices.SortFunc returns a permutation of its input that is sorted w.r.t. the comparator (pdqsort, unstable): modelled by IsRendezvous; the stable insertion sort of the driver coincides with it under NoTies (C13_deterministic)",
        "a negative topK (Go: panic in make) is outside the model; tools/facts_c13 pins that every call site passes the constant 1",
        "tools/facts_c13 (go/ast): the regenerated call-site table and shape of RendezvousHash",
    ],
    "assumptions": [
        "NoTies: different server names of one list never get the same 64-bit score for the key (duplicates of one name are allowed); never observed, cases with a tie would be counted in routing_cases_with_tie and left unjudged",
        "'every server owns a share of a large key set' is a statement about the distribution of xxhash: evaluated as a TEST (share_test in the evidence), an oracle failure only if some server owns none of the keys",
        "all nodes are configured with the same multiset of server names (c.Servers comes from the config file)",
    ],
}


def search(ctx):
    """A tie or obligation broke without an oracle failure in the standard run: run the real function
    on more seeds and larger inputs and look for a property violation."""
    r = ctx["runner"]
    for extra in range(1, 7):
        d = os.path.join(ctx["rundir"], f"search{extra}")
        os.makedirs(d, exist_ok=True)
        rc, out, _ = r.sh([ctx["hbin"], "-seed", str(ctx["seed"] * 1000 + extra), "-out", d, "-n", "3000", "-sharekeys", "20000"], env=r.GOENV, timeout=600)
        p = os.path.join(d, "stats.json")
        if rc == 0 and os.path.exists(p):
            st = json.load(open(p))
            for f in st.get("oracle_failures", []):
                if not any(k.get("status") == "open" and __import__("re").fullmatch(k["signature"], f["signature"]) for k in ctx.get("known", [])):
                    shutil.rmtree(d, ignore_errors=True)
                    return f
        shutil.rmtree(d, ignore_errors=True)
    return None
