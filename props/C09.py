import json, os, subprocess, time

SPEC = {
    "lean_modules": ["SemaModel.C09.Props", "SemaModel.C09.CachePins"],
    "lean_dirs": ["SemaModel/C09"],
    "harness": "c09",
    "harness_args": {"quick": ["-tier", "quick"], "thorough": ["-tier", "thorough"]},
    "timeout": {"quick": 600, "thorough": 2400},
    "level": "proof",
    "tie": "T3 by forced schedules: every schedule family is run on the real shard (child process; pausing storage proxy installed with VerifWrapDB + the vamana yield hook + the yield hooks of the cache manager) and on the Lean model (semadriver C09), outcomes per thread are compared; the families around the cache manager are also compared, record by record, with a sequential reference (fresh shard, successful batches applied in commit order); plus unforced stress (one shard; two shards on one size-limited manager) with validation of every returned point against the timeline of committed states, final state vs sequential application, warm vs cold",
    "required_theorems": [
        "Sema.C09.C09_private_safe",
        "Sema.C09.C09_serial_equiv",
        "Sema.C09.C09_quiescent_warm_cold",
        "Sema.C09.C09_partial",
        "Sema.C09.C09_shared_unsafe",
        "Sema.C09.C09_shared_unsafe_w1",
        "Sema.C09.C09_shared_unsafe_w2a",
        "Sema.C09.C09_shared_unsafe_w2b",
        "Sema.C09.C09_handoff_needed",
        "Sema.C09.C09_partial_coherent",
        "Sema.C09.C09_cache_protocol_pinned",
    ],
    "trusted_base": [
        "bbolt: atomic commit, one writer at a time, a read transaction sees the snapshot of its begin (MVCC), a bucket handle is dead once its transaction has ended - modelled (Model.lean: view copied at begin, closeTx), not verified",
        "the cache manager is modelled at interface level (With / Commit / TryRLock fallback / scrapping / eviction); its lock protocol is C11's subject; the lock skeleton regenerated from shard/cache/manager.go (tools/facts_c11) is pinned here too (C09_cache_protocol_pinned), so a changed manager protocol breaks this tie and starts C09's search",
        "Go memory model: data races on plain fields (ItemCache.bucket, sharedCacheElem.scrapped/lastAccessed, graphNode.edges ...) are outside the model; the stress part runs without the race detector",
        "the forced schedules pause goroutines at transaction boundaries (storage proxy), before each node visit of vamana.greedySearch and at the lock / map / callback boundaries of cache.Transaction.With / Commit (verif hooks); finer interleavings are reached only by the unforced stress",
        "single-point batches are applied deterministically by every index (the record-by-record comparison with the sequential reference treats documents, the set of free node ids and the edge lists of the graph as unordered where the code writes them in Go map order)",
        "the harness' sequential reference (map uuid -> document, shallow-merge update, no repeated id inside a batch) and its canonical document rendering",
    ],
    "assumptions": [
        "every committed batch leaves each indexed id with a point record (Disk.WF; C01/C10)",
        "C09_serial_equiv is about the operations a writer performs; that the index contents a writer derives from a (possibly stale) shared cache are the ones a cold sequential run would derive is not covered (warm = cold is checked by the harness after quiescence)",
    ],
}


def run(ctx):
    r = ctx["runner"]
    tier, seed, rundir = ctx["tier"], ctx["seed"], ctx["rundir"]
    res = {"stats": {}, "disagreements": [], "compared": 0, "broken": []}
    if not ctx["hok"]:
        return res
    args = [ctx["hbin"], "-seed", str(seed), "-out", rundir] + [str(a) for a in SPEC["harness_args"][tier]]
    t0 = time.time()
    try:
        rc, out, dt = r.sh(args, env=r.GOENV, timeout=SPEC["timeout"][tier])
    except subprocess.TimeoutExpired:
        res["broken"].append(("harness-run", "c09", "harness exceeded its time budget"))
        return res
    r.log(f"harness c09: rc={rc} ({dt:.1f}s)")
    sp = os.path.join(rundir, "stats.json")
    if rc != 0 or not os.path.exists(sp):
        res["broken"].append(("harness-run", "c09", out[-3000:]))
        return res
    res["stats"] = json.load(open(sp))
    if not ctx["dok"]:
        res["broken"].append(("driver-build", "semadriver", "semadriver did not build"))
        return res
    ok, err = r.run_driver("C09", os.path.join(rundir, "ops.txt"), os.path.join(rundir, "model.txt"))
    if not ok:
        res["broken"].append(("driver-run", "semadriver C09", err[-2000:]))
        return res
    res["disagreements"], res["compared"] = r.diff_lines(os.path.join(rundir, "ops.txt"), os.path.join(rundir, "impl.txt"), os.path.join(rundir, "model.txt"))
    return res


def search(ctx):
    """A proof obligation, the pin of the cache manager's lock skeleton or the correspondence broke and
    the standard run found no property violation: look harder. First the families that drive the
    yield points inside the cache manager (cold construction against a committing writer at every
    boundary of the new-cache path; a late-failing / committing writer with a second writer or a
    reader queued on its cache, with and without a third party holding the manager lock; two write
    batches on one point interleaved at every storage transaction boundary of the first), each with
    several data variants, plus the stress on one size-limited manager shared by two shards
    (`-tier focus`); then one more standard run with another seed."""
    import re
    r = ctx["runner"]
    for k, tier in enumerate(["focus", "quick"]):
        out = os.path.join(ctx["rundir"], f"search{k}")
        os.makedirs(out, exist_ok=True)
        try:
            rc, o, dt = r.sh([ctx["hbin"], "-seed", str(ctx["seed"] * 100 + 17 + k), "-out", out, "-tier", tier], env=r.GOENV, timeout=600)
        except subprocess.TimeoutExpired:
            continue
        r.log(f"search: harness c09 -tier {tier}: rc={rc} ({dt:.1f}s)")
        sp = os.path.join(out, "stats.json")
        if not os.path.exists(sp):
            continue
        for f in json.load(open(sp)).get("oracle_failures", []):
            listed = any(k_.get("status") == "open" and re.fullmatch(k_["signature"], f["signature"]) for k_ in ctx["known"])
            if not listed:
                return f
    return None
