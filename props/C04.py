import json, os

SPEC = {
    "lean_modules": ["SemaModel.C04.Props", "SemaModel.C04.Tie", "SemaModel.C04.Formula"],
    "lean_dirs": ["SemaModel/C04", "SemaModel/C08"],
    "harness": "c04",
    "harness_args": {
        "quick": ["-store", 150, "-ops", 45, "-hist", 30, "-batches", 10, "-queries", 3],
        "thorough": ["-store", 2000, "-ops", 60, "-hist", 300, "-batches", 14, "-queries", 4, "-big", 3],
    },
    "timeout": {"quick": 600, "thorough": 3000},
    "level": "proof",
    "tie": "T1 (formula): the hybrid expression and the weight default of IndexFlat.Search are regenerated on every run into SemaModel/Generated/Hybrid.lean (floats symbolic, Go.FExpr); C04_hybrid_formula / C04_hybrid_generated are stated about them and the driver evaluates the generated tree against every real _hybridScore (hyb lines, bit for bit). The harness' metric oracle evaluates the documented metrics (float metrics, bit metrics of thresholded vectors, the product quantiser's sum) from their definitions in float64, independently of the repository's distance package (c04lib.RefDist). " +
           ("T2: tools/facts_c04 extracts, on every run, the storage plans of plainPoint / binaryQuantizedPoint / "
            "productQuantizedPoint (which suffix WriteTo writes under which guard, what ReadFrom tries, what DeleteFrom deletes, "
            "what IdFromKey recognises, whether CheckAndClearDirty tracks a flag), the persisted parameter keys and the comparison "
            "operators of flat.Search into Generated/FactsC04.lean; the model interprets those tables and C04_enumerable / "
            "C04_forEach_complete / C04_warm_cold are proved about them. "
            "T3: (1) random op sequences on the real vector stores (vectorstore.New over a memory bucket) and (2) histories of "
            "batches on real shards are replayed line by line on the Lean model: bucket contents after every Flush, trained flags, "
            "ForEach id sets, Exists, and the canonical form of every warm flat-search answer over the harness-supplied distance table"),
    "required_theorems": [
        # formula theorems (Formula.lean; notes/T1ext.md section 8): the hybrid expression generated from flat.go
        "Sema.C04.C04_weight_default", "Sema.C04.C04_hybrid_formula", "Sema.C04.C04_hybrid_generated",
        "Sema.C04.C04_exact", "Sema.C04.C04_candidates", "Sema.C04.C04_no_closer_left_out", "Sema.C04.C04_sorted_prefix",
        "Sema.C04.C04_nodup", "Sema.C04.C04_order_indep", "Sema.C04.C04_hybrid", "Sema.C04.C04_enumerable",
        "Sema.C04.C04_forEach_complete", "Sema.C04.C04_warm_cold",
        # the closure of the code reads only the persisted projection (the side condition `hmode` of C04_warm_cold is what makes it true)
        "Sema.C04.distKey_norm",
        # tie theorems (SemaModel/C04/Tie.lean, notes/T1ext.md section 7): step / search = the callback fragment of IndexFlat.Search generated from flat.go
        "Sema.C04.C04_tie_step", "Sema.C04.C04_tie_search",
    ],
    "trusted_base": [
        "the hybrid formula theorem fixes the expression structure `((-1) * weight) * dist` only; IEEE rounding is not interpreted; which metric `dist` is: C20's formula theorems and the independent float64 oracle of the harness (a test with the worst-case float32 rounding bound as tolerance)",
        "tools/facts_c04 (go/ast pattern extraction of the Storable methods; an unrecognised shape is a hard error) and the plan interpreter of C04/Model.lean",
        "floats: distances are elements of an abstract linear order in the theorems; the executable model receives the real float32 distances from the harness as order-preserving bit patterns (-0.0 = +0.0) and only orders them; NaN distances are outside the property and such queries are skipped (counted)",
        "the distance kernels themselves (distance package) are used by the oracle as the definition of the metrics (C20 is about them)",
        "quantiser arithmetic is an oracle: binary encode is re-stated in the harness (bit i = v[i] > threshold[i]), the learned threshold, the k-means centroids and labels are read back from the bucket",
        "C19 (node keys round-trip, are injective, suffixes separate) is imported as proved; Float32ToBytes / EdgeListToBytes are treated as identity on byte strings",
        "bbolt atomic commit and ordered cursor; msgpack codec; roaring bitmaps (the pre-filter is evaluated by the oracle on the shadow documents)",
    ],
    "assumptions": [
        "limit is 1..75 (validation); with limit 0 flat.Search would index res[-1]",
        "C04_warm_cold compares two caches over the same committed bucket with the same persisted quantiser parameters; that the Fit trigger (ItemCache.Count) fires in the same batch warm and cold is checked by the correspondence (trained flags per batch), not proved",
        "a product quantiser configured with cosine computes squared euclidean distances, trained or not (documented in product.go); the oracle demands exactly that",
        "separately trained product quantisers (k-means is randomised) are judged each against its own centroids, not against each other",
    ],
}


def search(ctx):
    """An obligation or a tie broke but the standard run found no failing input: run the harness on
    more and longer histories with other seeds and report the first oracle failure."""
    r = ctx["runner"]
    for k in range(1, 4):
        out = os.path.join(ctx["rundir"], f"search{k}")
        args = [ctx["hbin"], "-seed", str(ctx["seed"] * 1000 + k), "-out", out, "-store", "300", "-ops", "60", "-hist", "40", "-batches", "12", "-queries", "4"]
        rc, o, dt = r.sh(args, env=r.GOENV, timeout=1500)
        p = os.path.join(out, "stats.json")
        if not os.path.exists(p):
            continue
        fails = json.load(open(p)).get("oracle_failures") or []
        known = [k_ for k_ in ctx.get("known", []) if k_.get("status") == "open"]
        import re
        for f in fails:
            if not any(re.fullmatch(k_["signature"], f["signature"]) for k_ in known):
                return {"signature": f["signature"], "what": f["what"], "replay": f["replay"]}
    return None
