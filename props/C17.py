import json, os, re

SPEC = {
    "lean_modules": ["SemaModel.C17.Props", "SemaModel.C17.Tie", "SemaModel.C17.TieSort", "SemaModel.ClusterCompose.Props"],
    "lean_dirs": ["SemaModel/C17", "SemaModel/ClusterCompose"],
    # modules of the list outside SemaModel/C17 are the cluster COMPOSITION (C13 + C14 + C15 + C16 + C17): when they no longer build because a proof
    # obligation of ANOTHER property broke (its own check reports that), this check notes it and goes on with its own modules (verifcore/blame.py)
    "composition_dirs": ["SemaModel/ClusterCompose"],
    "harness": "c17",
    "harness_args": {"quick": ["-n", 400, "-big", 15, "-curate", 3000, "-fault", 24, "-cluster", 16], "thorough": ["-n", 3000, "-big", 100, "-curate", 50000, "-fault", 160, "-cluster", 150]},
    "timeout": {"quick": 900, "thorough": 3000},
    "level": "proof",
    "tie": "T1: cluster/actions.go curateFailedPoints is translated to SemaModel/Generated/Curate.lean on every run (slices.SortFunc abstract, slices.BinarySearchFunc = Go.binarySearchFunc of Base/GoRt.lean); C17_tie proves that the model's curateWith / binarySearch compute the same for all inputs (uuids read as big-endian numbers). T3: go/cmd/c17 builds fresh clusters of 1..3 real in-process servers (NewNode + Serve on loopback) with small per-shard point limits (1..8 shards per collection), drives insert / update / delete / search through every live entry node, stops one server in many scenarios, and runs the Lean model on the same op lines; what is an oracle for the model (placement of inserted points, each shard's answer to a query) is read from the shards directly; the property oracles are evaluated on the real responses; the real curateFailedPoints is also called directly through cluster/verif_export.go; fault scenarios (go/cmd/c17/fault.go, faultnet.go): real nodes whose RPC service runs on a transport the harness controls (requests swallowed past the time-out, connections killed mid-call / during the back-off / while idle so that the caller's cached client is shut down, dials refused), RpcRetries 1..3, update / delete / search and single calls of the real internalRoute under those scripts, with 'which shard's handler completed' measured by a recorder in front of the handlers and the Lean model of the retry loop run on the scripted event list. T1 (merge comparator): ClusterNode.SearchPoints orders the concatenated shard answers with utils.SortSearchResults(results, sr.Sort) (pinned: Generated/FactsC17.mergeSkeleton); the model's comparator leKeys is C06's sortCmp over cmpAny (imported from SemaModel/C06/Model.lean, not copied: every integer width and signedness, float32/float64 incl. NaN, -0, Inf, strings, nil, bool, slices, maps), and C17_tie_merge_cmp / C17_tie_merge_sorted / C17_tie_merge_isort (SemaModel/C17/TieSort.lean over C06_tie_sortCmp) prove that the comparison closure of the function translated from utils/compare.go on every run (Generated/Compare.lean) is that comparator and that its output is sortCmp-ordered; utils.CompareAny itself (reflect) is compared with cmpAny on the search lines of this stream (sort properties whose values mix kinds across points and shards the way MessagePack produces them, go/cmd/c17/mixed.go) and on the cmp lines of the C06 stream. T2: the control skeleton of internalRoute's retry loop (Generated/FactsC17.routeSkeleton); Generated/FactsC17.lean pins the constants (as float32 bit patterns, used by the driver) and the expression text of the per-shard limit, the offset rule, the cut and the score comparison of ClusterNode.SearchPoints",
    "required_theorems": [
        "Sema.C17.C17_curate", "Sema.C17.C17_binarySearch", "Sema.C17.C17_curate_mergeSort", "Sema.C17.C17_curate_precondition",
        "Sema.C17.C17_failed_update", "Sema.C17.C17_failed_delete", "Sema.C17.C17_failed_message",
        "Sema.C17.C17_once", "Sema.C17.C17_once_update", "Sema.C17.C17_once_delete",
        "Sema.C17.C17_once_count_update", "Sema.C17.C17_once_count_delete",
        "Sema.C17.C17_search", "Sema.C17.C17_search_unavailable", "Sema.C17.C17_search_all",
        "Sema.C17.C17_sort_score", "Sema.C17.C17_sort_keys",
        "Sema.C17.C17_route_nil", "Sema.C17.C17_routed_up", "Sema.C17.C17_route_unreachable", "Sema.C17.C17_route_zero_retries",
        "Sema.C17.C17_failed_message_routed", "Sema.C17.C17_failed_message_delete", "Sema.C17.C17_failed_message_routed_delete", "Sema.C17.C17_search_routed",
        "Sema.C17.C17_failed_count_delete", "Sema.C17.C17_failed_count_update", "Sema.C17.C17_curate_count",
        "Sema.C17.C17_tie", "Sema.C17.C17_tie_sorted",
        # the cluster-level composition C13 + C14 + C15 + C16 + C17 (SemaModel/ClusterCompose, notes/ClusterCompose.md)
        "Sema.ClusterCompose.Cluster_entry_independent",
        "Sema.ClusterCompose.Cluster_refines_collection", "Sema.ClusterCompose.Cluster_refines_init",
        "Sema.ClusterCompose.Cluster_refines_readout", "Sema.ClusterCompose.Cluster_refines_search", "Sema.ClusterCompose.Cluster_refines_limits",
        "Sema.ClusterCompose.Cluster_refines_listed", "Sema.ClusterCompose.Cluster_refines_side",
        "Sema.ClusterCompose.Cluster_tenant_isolation",
        "Sema.ClusterCompose.Cluster_sync_preserves", "Sema.ClusterCompose.Cluster_sync_exists",
        "Sema.ClusterCompose.Cluster_sync_add", "Sema.ClusterCompose.Cluster_sync_remove", "Sema.ClusterCompose.Cluster_sync_side",
        # the chain Go source -> generated definition -> model -> specification closed: C17_tie composed with the specification
        "Sema.C17.C17_tie_curate", "Sema.C17.C17_curate_generated",
        # the comparator of the merge on sort keys IS C06's sortCmp over cmpAny (all kinds msgpack decodes into); its tie to utils/compare.go
        "Sema.C17.C17_search_multi", "Sema.C17.C17_search_keys", "Sema.C17.C17_merge_cmp_preorder", "Sema.C17.C17_merge_keys", "Sema.C17.C17_merge_missing_last", "Sema.C17.C17_merge_numeric",
        "Sema.C17.C17_tie_merge_cmp", "Sema.C17.C17_tie_merge_sorted", "Sema.C17.C17_tie_merge_isort",
    ],
    "trusted_base": [
        "SemaModel/ClusterCompose/Model.lean (the composed cluster model: per server a node database and a shard store, the operations of cluster/actions.go written over C13.owner, C15.distribute / overQuota, C16.key / scanPrefix, C17.updatePoints / deletePoints / searchPoints; C14's St / round for Sync) is tied to the code by a second correspondence run: the compiled composed model (`semadriver C17 cluster`) answers the op lines of go/cmd/c17/compose.go — 1..3 real in-process servers, every node configured with its own permutation of the server list, several tenants whose ids are prefixes of each other, create / insert / update / delete / get / drop through every node — and a dump of EVERY node (the records of its node database, every shard directory on its disk with its points) after every few calls; the abstract hash of the theorems is instantiated by the real one (score lines: xxhash.Sum64String(key + server) for every routed key and server); the shard uuids RPCCreateShard draws are read back and passed to the model; not in this stream: search (the main stream covers the merge), Sync (C14's harness), refused shard batches, failures",
        "the hand-written model SemaModel/C17/Model.lean (transcription of cluster/actions.go UpdatePoints, DeletePoints, curateFailedPoints incl. the loop of slices.BinarySearchFunc, SearchPoints); mitigated by the line-by-line correspondence on real clusters",
        "slices.SortFunc (pdqsort) returns a sorted permutation of its input (assumed; the theorems hold for every such function, the driver uses insertion sort); ties are compared as groups",
        "one shard = a finite map id -> payload with paging = drop offset / take limit of its ranking (shard/shard.go); ranking inside a shard is C03-C06 and is an oracle argument here; placement of inserted points (distributePoints) is C15 and is an oracle argument",
        "net/rpc client + msgpack codec: Go() on a client whose connection has ended answers rpc.ErrShutdown, a pending call whose connection ends gets another error, an answered call gets the handler's answer (the retry loop of internalRoute around these outcomes is modelled — Sema.C17.route — and driven on a controllable transport; time, i.e. the back-off sleeps, is not modelled)",
        "fault scenarios: a request swallowed by a stalled connection is never delivered later (the harness only ends a stall by killing the connection), so 'handler completed' = 'delivered and answered'",
        "float32 arithmetic of the per-shard limit is evaluated by Lean's Float32 (IEEE single) in the driver; the theorems hold for every heuristic function",
        "uuid order (bytes.Compare) is abstracted to a linear order on id tokens; curateFailedPoints' result does not depend on it (C17_curate)",
        "utils.CompareAny (reflect-based) = Sema.C06.cmpAny: not translated; compared on every search line whose sort properties mix kinds (int8..int64, uint8..uint64, float32/64 incl. -0, Inf, NaN, strings, nil, bool, []any, []byte, maps; nested paths) through the merged order the model predicts, and judged independently of both by the harness's reference order (exact rationals, math/big); float semantics as in C06's trusted base (a float64 bit pattern denotes m * 2^(e-1075), validated against Go on C06's cmp lines)",
    ],
    "assumptions": ["point ids are unique per collection (the API's requirement; stated in the property)",
                    "the composition (SemaModel/ClusterCompose): all servers up and every RPC delivered and answered; requests one at a time; user ids without '/'; every insert satisfies InsertOK (ids new to the collection, C15's fits, fresh shard uuids); NoTies on the routed keys; Sync: no client traffic and no failure during the round, every server that holds something is started",
                    "xxhash gives distinct rendezvous scores for distinct servers (C13)"],
}


# ------------------------------------------------------------------------------------------------------------------
# Whose disagreement is it?  The cluster stream runs the COMPOSED model (C13 routing + C15 placement / quota + C16 keys and
# directories + C17 update / delete); its `dump` lines show every node's records and shard directories.  Per scenario
# (from its `newcluster` line) only the FIRST differing line is evidence - what follows is downstream of a state that has
# already diverged - and it is classified by what differs:
#   * a `dump` with the same records and the same shard directories overall, only held by other NODES: the owner
#     computation (rendezvous routing) -> C13
#   * a `dump` whose record keys / directory names differ as TEXT while the values they carry are the same -> C16
#   * a `dump` that follows only `create` / `insert` calls since the last agreeing dump and differs in shard lists or in the
#     distribution of points over shards: placement / quota of the insert -> C15
# Anything else (a differing response, a dump after update / delete, a first difference that fits no rule) stays here.

def _parse_dump(ans):
    """`n0 db[k=v,…] sh[dir=pts,…] n1 …` -> {node: (set of db items, set of sh items)} or None"""
    out, node = {}, None
    for tok in ans.split(" "):
        if tok.startswith("db[") and tok.endswith("]") and node is not None:
            out[node][0].update(x for x in tok[3:-1].split(",") if x)
        elif tok.startswith("sh[") and tok.endswith("]") and node is not None:
            out[node][1].update(x for x in tok[3:-1].split(",") if x)
        elif tok and tok[0] == "n" and tok[1:].isdigit():
            node = tok
            out[node] = (set(), set())
        else:
            return None
    return out or None


def _classify_dump(impl, model, writes_since):
    a, b = _parse_dump(impl), _parse_dump(model)
    if not a or not b or set(a) != set(b):
        return None
    union = lambda d, i: sorted(x for n in d for x in d[n][i])
    if union(a, 0) == union(b, 0) and union(a, 1) == union(b, 1):
        return ["C13"], "every node database record and every shard directory is the same in implementation and model, only held by other nodes: the owner computation (rendezvous routing) differs"
    vals = lambda d, i: sorted(x.split("=", 1)[-1] for n in d for x in d[n][i])
    keys = lambda d, i: sorted(x.split("=", 1)[0] for n in d for x in d[n][i])
    if vals(a, 0) == vals(b, 0) and vals(a, 1) == vals(b, 1) and (keys(a, 0) != keys(b, 0) or keys(a, 1) != keys(b, 1)):
        return ["C16"], "the records and shard contents are the same, the record keys / directory names they are stored under differ as text: key or path construction"
    if writes_since and all(w in ("create", "insert") for w in writes_since) and "insert" in writes_since and keys(a, 0) == keys(b, 0):
        return ["C15"], "the first difference of the scenario appears right after insert calls, under the same record keys: shard lists / distribution of the points over shards (placement, quota) differ"
    return None


def _classify_cluster(dis, ops, routing_diverged=()):
    """-> (own, foreign); `dis`: every differing line of the cluster stream; `routing_diverged`: op-line numbers of the
    newcluster lines of scenarios in which the harness MEASURED that cluster.RendezvousHash names another owner than the
    smallest real score (go/cmd/c17/compose.go): those scenarios diverge by routing, C13"""
    start = [i for i, o in enumerate(ops) if o.startswith("newcluster")]
    def scen(i):
        s = -1
        for k in start:
            if k <= i:
                s = k
        return s
    by = {}
    for d in dis:
        by.setdefault(scen(d["line"] - 1), []).append(d)
    own, foreign = [], []
    for s, ds in sorted(by.items()):
        first = ds[0]
        i = first["line"] - 1
        who = None
        if s >= 0 and (s + 1) in routing_diverged:
            who = (["C13"], "in this scenario the real owner computation (cluster.RendezvousHash through a node's own server list) names another server than the smallest real score, measured by the harness on the routed keys; the composed model routes by the scores")
        elif s >= 0 and first["op"].split(" ", 1)[0] == "dump":
            # write calls since the last dump before this one
            ws, k = [], i - 1
            while k > s and not ops[k].startswith("dump"):
                kind = ops[k].split(" ", 1)[0]
                if kind not in ("score", "get"):
                    ws.append(kind)
                k -= 1
            who = _classify_dump(first["impl"], first["model"], ws)
        if who:
            foreign.append(dict(first, owners=who[0], why=who[1] + f" ({len(ds) - 1} later differing line(s) of the same scenario are downstream of this one)", stream="cluster (semadriver C17 cluster)"))
        else:
            own += ds
    return own, foreign


def run(ctx):
    """The standard correspondence (C17 model on ops.txt) and the cluster-level correspondence of the COMPOSED model
    of SemaModel/ClusterCompose (`semadriver C17 cluster` on cluster/ops.txt: API calls through every entry node and
    dumps of every node's records and shard directories)."""
    r = ctx["runner"]
    rundir, tier = ctx["rundir"], ctx["tier"]
    res = {"stats": {}, "disagreements": [], "compared": 0, "broken": [], "foreign": []}
    if not ctx["hok"]:
        return res
    args = [ctx["hbin"], "-seed", str(ctx["seed"]), "-out", rundir] + [str(a) for a in SPEC["harness_args"][tier]]
    rc, hout, dt = r.sh(args, env=r.GOENV, timeout=SPEC["timeout"][tier])
    r.log(f"harness c17: rc={rc} ({dt:.1f}s)")
    if rc != 0 or not os.path.exists(os.path.join(rundir, "stats.json")):
        res["broken"].append(("harness-run", "c17", hout[-3000:]))
        return res
    stats = json.load(open(os.path.join(rundir, "stats.json")))
    res["stats"] = stats
    if not ctx["dok"]:
        res["broken"].append(("driver-build", "semadriver", "lake build semadriver failed"))
        return res
    p = lambda *a: os.path.join(rundir, *a)
    ok, err = r.run_driver("C17", p("ops.txt"), p("model.txt"))
    if not ok:
        res["broken"].append(("driver-run", "semadriver C17", err[-2000:]))
    else:
        dis, n = r.diff_lines(p("ops.txt"), p("impl.txt"), p("model.txt"))
        res["disagreements"] += dis
        res["compared"] += n
    if os.path.exists(p("cluster", "ops.txt")):
        ok2, err2 = r.run_driver("C17", p("cluster", "ops.txt"), p("cluster", "model.txt"), ("cluster",))
        if not ok2:
            res["broken"].append(("driver-run", "semadriver C17 cluster", err2[-2000:]))
        else:
            dis, n = r.diff_lines(p("cluster", "ops.txt"), p("cluster", "impl.txt"), p("cluster", "model.txt"), limit=1 << 30)
            cst0 = json.load(open(p("cluster", "stats.json")))
            dis, foreign = _classify_cluster(dis, open(p("cluster", "ops.txt")).read().splitlines(), set(cst0.get("routing_diverged") or []))
            if not dis and not foreign:
                pass
            # what the cluster harness itself measured to be another property's (vh.Out.Note) - only worth a note when something differs
            if foreign:
                for f in cst0.get("foreign") or []:
                    res["foreign"].append({"owners": f.get("owners"), "stream": f.get("stream"), "oracle": f.get("op"), "what": f.get("why"), "why": f.get("why"), "replay": f.get("replay", "")})
            for d in dis:
                d["mode"] = "composed cluster model (semadriver C17 cluster); replay the scenario from its newcluster line up to this line"
            res["disagreements"] += dis[:20]
            res["foreign"] += foreign
            res["compared"] += n
            cst = json.load(open(p("cluster", "stats.json")))
            stats["cluster_op_lines"] = cst.get("evaluations", 0)
            stats["cluster_distinct_nontrivial"] = cst.get("distinct_nontrivial", 0)
            stats["cluster_configurations"] = cst.get("configurations", {})
            for k, v in cst.get("distribution", {}).items():
                stats.setdefault("distribution", {})["cluster:" + k] = v
                if k != "score":
                    stats["evaluations"] = stats.get("evaluations", 0) + v
            stats["samples"] = stats.get("samples", []) + [x[:400] for x in cst.get("samples", []) if not x.startswith("score")][:4]
    else:
        res["broken"].append(("harness-run", "c17 -cluster", "the harness wrote no cluster/ops.txt"))
    return res


def search(ctx):
    """A proof obligation or the correspondence broke and the standard run saw no oracle failure: run
    many more clusters (other seed) and return the first property-oracle failure on the real code."""
    r = ctx["runner"]
    out = os.path.join(ctx["rundir"], "search")
    n = "600" if ctx["tier"] == "quick" else "3000"
    rc, o, dt = r.sh([ctx["hbin"], "-seed", str(ctx["seed"] + 7919), "-n", n, "-big", "20", "-curate", "20000", "-fault", "48", "-out", out], env=r.GOENV, timeout=2400)
    sp = os.path.join(out, "stats.json")
    if not os.path.exists(sp):
        return None
    for f in json.load(open(sp)).get("oracle_failures", []):
        if not any(k.get("status") == "open" and re.fullmatch(k["signature"], f["signature"]) for k in ctx.get("known", [])):
            return {"signature": f["signature"], "what": f["what"], "replay": f["replay"]}
    return None
