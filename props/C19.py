SPEC = {
    "lean_modules": ["SemaModel.C19.Props", "SemaModel.C19.TextKeys", "SemaModel.C19.Range"],
    "lean_dirs": ["SemaModel/C19"],
    "harness": "c19",
    "harness_args": {"quick": ["-n", 1500], "thorough": ["-n", 60000]},
    "level": "proof",
    "tie": "T1: theorems are stated about SemaModel/Generated/{Sortable,Keys,Conversion}.lean, regenerated from the working tree on every run; T3: the generated definitions and the Go functions are run on the same boundary/random values (incl. the unsafe raw float32 copy, which is not translatable)",
    "required_theorems": [
        "Sema.C19.uint_roundtrip", "Sema.C19.uint_order", "Sema.C19.uint_inj",
        "Sema.C19.int_roundtrip", "Sema.C19.int_order", "Sema.C19.int_inj",
        "Sema.C19.float_roundtrip", "Sema.C19.float_order", "Sema.C19.float_inj",
        "Sema.C19.string_roundtrip", "Sema.C19.string_order", "Sema.C19.string_inj",
        "Sema.C19.nodeKey_roundtrip", "Sema.C19.nodeKey_inj", "Sema.C19.nodeKey_suffix_sep",
        "Sema.C19.pointKey_inj", "Sema.C19.nodeKey_ne_pointKey",
        "Sema.C19.documentKey_roundtrip", "Sema.C19.documentKey_inj",
        "Sema.C19.termKey_roundtrip", "Sema.C19.termKey_inj",
        "Sema.C19.termKey_not_document", "Sema.C19.documentKey_not_term",
        "Sema.C19.uint64_roundtrip", "Sema.C19.singleFloat32_roundtrip",
        "Sema.C19.f32vec_roundtrip", "Sema.C19.edgeList_roundtrip", "Sema.C19.f32vec_inj", "Sema.C19.edgeList_inj",
        "Sema.C19.uint_order_le", "Sema.C19.uint_range", "Sema.C19.int_order_le", "Sema.C19.int_range",
        "Sema.C19.float_order_le", "Sema.C19.float_range", "Sema.C19.string_range",
    ],
    "trusted_base": [
        "SemaModel/Base/Float.lean: IEEE-754 comparison on bit patterns (sign-magnitude order, NaN unordered, -0 = +0); validated against Go's <, <=, ==, >= 0 on all pairs of a boundary pool and random pairs ('fcmp' op lines)",
        "encoding/binary Put/Get are modelled arithmetically (Base/Bytes.lean: be64/le64/le32, natBE/natLE); Go panics on short inputs, the model reads what is there - every theorem supplies full-width inputs",
        "int lengths/indices are modelled in Nat (all index expressions occur under guards that make them non-negative)",
        "nil and empty slices are identified",
        "the text index' key functions are exercised through tagged exports (shard/index/text/verif_export.go)",
    ],
    "assumptions": ["strings are byte strings; Go's string order is bytes.Compare (lexLt)", "NaN is outside the property's domain (stated in the property)"],
}


def search(ctx):
    """Called when a proof obligation / the translator / the correspondence broke but the standard
    run's oracle saw no failing input: look harder (more cases, more seeds) for an input on which
    the real code violates round-trip / order / injectivity."""
    import json, os
    r = ctx["runner"]
    for k in range(1, 6):
        d = os.path.join(ctx["rundir"], f"search{k}")
        rc, out, _ = r.sh([ctx["hbin"], "-seed", str(ctx["seed"] * 1000 + k), "-n", "40000", "-out", d], env=r.GOENV, timeout=600)
        p = os.path.join(d, "stats.json")
        if rc != 0 or not os.path.exists(p):
            continue
        fails = json.load(open(p)).get("oracle_failures") or []
        import re
        for f in fails:
            if not any(k_.get("status") == "open" and re.fullmatch(k_["signature"], f["signature"]) for k_ in ctx["known"]):
                return f
    return None
