import json, os, re

SPEC = {
    "lean_modules": ["SemaModel.C03.Props", "SemaModel.C03.Tie", "SemaModel.C03.Formula"],
    "lean_dirs": ["SemaModel/C03", "SemaModel/C10"],
    "harness": "c03",
    "harness_args": {"quick": ["-n", 1000, "-len", 11], "thorough": ["-n", 7000, "-len", 14]},
    "timeout": {"quick": 600, "thorough": 2400},
    "level": "proof",
    "tie": "T1 (formula): the hybrid expression and the weight default of IndexVamana.Search are regenerated on every run into SemaModel/Generated/Hybrid.lean (floats symbolic, Go.FExpr); C03_hybrid_formula / C03_hybrid_generated (C03_safe with Safe.hybrid instantiated) are stated about them and the driver evaluates the generated tree against real _hybridScore values (hyb lines, bit for bit). "
           "T3 dump-and-search: after every batch of random histories (inserts, vector updates, vector removal, deletes, id reuse, batches naming a point twice, whole neighbourhoods deleted; degree bounds 1..5, search sizes 1..39, six metrics, none/binary/product quantisers, warm and cold cache) on a real file-backed shard the index is dumped through (*Shard).VerifDB(); for every query the dump, the real distance of the query to every stored vector (vectorstore.DistanceFromFloat of a store opened on the persisted bucket) and the pre-filter's node ids go to the Lean model of IndexVamana.Search/greedySearch/DistSet, whose answer (ids, order, distances, hybrid scores) must equal the answer of Shard.SearchPoints; the property oracle (brute force over the dump) judges the real answer directly, including each reported distance against the index's distance to the vector the point's DOCUMENT carries at the schema path right now (scratch vector store on the persisted bucket); the vector index is on a flat property in 45 % and on a NESTED path (n.v, n.m.v, a.b.c.v) in 55 % of the configurations, with updates that replace / delete the top-level object above the leaf, carry a sibling only, an empty object, a nil leaf or an unrelated key",
    "required_theorems": [
        # formula theorems (Formula.lean; notes/T1ext.md section 8): the hybrid expression generated from vamana.go
        "Sema.C03.C03_weight_default", "Sema.C03.C03_hybrid_formula", "Sema.C03.C03_hybrid_generated",
        "Sema.C03.C03_safe", "Sema.C03.C03_safe_shard", "Sema.C03.C03_rejects", "Sema.C03.C03_exact_filter",
        "Sema.C03.C03_exact_connected", "Sema.C03.C03_exact_small",
        # tie theorems (SemaModel/C03/Tie.lean, notes/T1ext.md section 7): the model's DistSet = the definitions generated from shard/index/vamana/distset.go
        "Sema.C03.C03_tie_len", "Sema.C03.C03_tie_addWithLimit", "Sema.C03.C03_tie_addWithLimit_eq", "Sema.C03.C03_tie_add",
        "Sema.C03.C03_tie_addAlreadyUnique", "Sema.C03.C03_tie_sort",
    ],
    "trusted_base": [
        "the hybrid formula theorem fixes the expression structure `((-1) * distance) * weight` only; IEEE rounding is not interpreted; the distance function dq stays a free parameter of the search theorems",
        "SemaModel/C03/Model.lean (DistSet, greedySearch, Search) and SemaModel/C10/Model.lean (graph build used by C03_exact_small): hand-written, tied to the code by the correspondence above",
        "float arithmetic: distances are elements of an abstract linear order; the harness supplies the real float32 values through the order-preserving map of their bit patterns (-0.0 identified with +0.0, NaN/Inf excluded: such queries are skipped and counted); the hybrid score -(weight*distance) is computed by the harness in float32 and compared bit for bit with the reported one",
        "C03_safe's hypothesis WF is C10's theorem (C10_step / C10_history) and is observed on every dump by the C10 harness",
        "C03_exact_small is PARTIAL with respect to the property text: it is proved for graphs built by `C10.run` (insert workers sequential, batch order) and is not lifted to `shardRun` (C03_exact_connected, the search half, needs reachability as a hypothesis and is general); for the real NumCPU-1 parallel workers the exactness clause is judged on the real answers by the harness only (the names are kept: the runner pins required theorem names and statement hashes)",
        "the pre-filter is the node-id set the filter query returns (inverted index / _id lookup: C02); roaring bitmap iteration is ascending",
        "an index bucket that was never written is identified with the fresh index (entry node only)",
    ],
    "assumptions": [
        "1 <= limit (validation: 1..75); limit <= searchSize, otherwise the request is rejected (C03_rejects)",
        "distances are finite (property text)",
        "pre-filter node ids are >= 2 (the id counter starts at 2: C01)",
    ],
}


def search(ctx):
    r = ctx["runner"]
    for extra in range(1, 4):
        out = os.path.join(ctx["rundir"], f"search{extra}")
        rc, o, _ = r.sh([ctx["hbin"], "-seed", str(ctx["seed"] * 7919 + extra), "-out", out, "-n", "1500", "-len", "14"], env=r.GOENV, timeout=1500)
        try:
            st = json.load(open(os.path.join(out, "stats.json")))
        except Exception:
            continue
        for f in st.get("oracle_failures", []):
            if not any(k.get("status") == "open" and re.fullmatch(k["signature"], f["signature"]) for k in ctx.get("known", [])):
                return {"signature": f["signature"], "what": f["what"], "replay": f["replay"]}
    return None
