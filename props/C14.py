"""C14 - start-up rebalancing moves every record and shard to its owner without loss.

Standard runner flow: the harness (go/cmd/c14) builds real clusters, changes the server list, runs
`Sync` with enumerated faults (in-process fault hook, destinations down, lost replies, killed
child processes) and writes scenario lines; the Lean model driver executes the same lines; the
property oracle (no loss after every round, everything at its owner after a failure-free round,
all points readable through every node) is evaluated on the real nodes."""
import json, os, shutil

SPEC = {
    "lean_modules": ["SemaModel.C14.Props"],
    "lean_dirs": ["SemaModel/C14"],
    "harness": "c14",
    "harness_args": {"quick": ["-tier", "quick"], "thorough": ["-tier", "thorough"]},
    "timeout": {"quick": 600, "thorough": 2400},
    "level": "proof",
    "tie": "T3: real in-process nodes (NewNode+Serve on loopback ports, child processes for kills) and the Lean model are run on the same scenario lines - who holds which record / shard file (by content digest) after every interrupted and every failure-free round, Sync results, chunk sequences seen at the sender, replies of RPCSendShard to hand-made chunk sequences; histories over several server lists (interrupted change, roll-back without draining, client writes through the real cluster API declared to the model as writes at the routing owner, list applied again / random walks): the predicate Safe of every list change and the write precondition are evaluated on the real disks with the real RendezvousHash and by the model, and compared; CONCURRENT rounds: about 7 of 12 failure-free rounds (and every one of the scenarios with several senders of multi-chunk shard files) start all nodes first and let them call Sync at the same moment - goroutines of the harness process with a small seeded jitter at every chunk, or one child process per node as at a real start-up - and the op line `csync` is answered by the model from the SPECIFICATION of C14_converges_concurrent / C14_epochs_converges_concurrent (every current record / shard file at its routing owner and on no other started node, no Sync failed: `placedSpec`), whatever the real interleaving was; the following dump compares file trees and node databases with that prediction; in addition the driver executes the concurrent program of Concurrent.lean (`cstepT`) under a pseudo-random schedule taken from the line and reports if that run fails, does not finish, or ends in a state other than the specified one; T2: tools/facts_c14 regenerates CHUNKSIZE, the receiver's open flags (O_TRUNC only at chunk 0), MkdirAll only at chunk 0, the checksum condition, the order send -> compare -> delete of both phases, the receive loop of RPCSetNodeKeyValue (every pair is put unconditionally and counted) and the routing keys from the working tree; C14_converges_repo is proved for the generated configuration",
    "required_theorems": [
        "Sema.C14.C14_chunks", "Sema.C14.C14_no_loss", "Sema.C14.C14_remove_only_after_confirm",
        "Sema.C14.C14_converges", "Sema.C14.C14_converges_repo",
        "Sema.C14.C14_converges_pinned_false", "Sema.C14.C14_pinned_stuck",
        "Sema.C14.C14_empty_file_never_moves",
        "Sema.C14.C14_epochs_no_loss", "Sema.C14.C14_epochs_remove_only_after_confirm",
        "Sema.C14.C14_epochs_converges", "Sema.C14.C14_epochs_safe_change",
        "Sema.C14.C14_converges_concurrent", "Sema.C14.C14_converges_concurrent_repo",
        "Sema.C14.C14_converges_concurrent_maximal", "Sema.C14.C14_epochs_converges_concurrent",
        "Sema.C14.C14_concurrent_never_blocks", "Sema.C14.C14_concurrent_terminates",
        "Sema.C14.C14_readable_through_any_node", "Sema.C14.C14_readable_after_round",
        "Sema.C14.C14_sender_emits_messages", "Sema.C14.C14_concurrent_sends_messages",
    ],
    "trusted_base": [
        "OS file semantics: a file is a byte list; O_APPEND|O_CREATE appends / creates, O_TRUNC empties; os.File.Read returns (n>0, nil) until the end and then (0, io.EOF); RemoveAll removes the shard directory; writes of a killed process that returned are on disk",
        "net/rpc + cluster/mrpc: a call is executed once and answered, or the caller gets an error (a time-out retry of internalRoute that duplicates a chunk is outside the model: it can only make a checksum mismatch, never a loss)",
        "bbolt: RPCSetNodeKeyValue / the local delete are atomic write transactions; the read transaction at the start of phase 1 is a consistent snapshot",
        "granularity of the concurrent model (Concurrent.lean): the receiver's handling of ONE rpc is atomic (a bbolt write transaction; open-append-write-close of one chunk of a file that only ONE sender writes: Inv.f4 / Safe.fc - with two senders of the same shard the handler is not atomic and the real code fails, see assumptions), one local transaction of the sender is atomic, every gap between two calls of a goroutine and between the main goroutine's actions is a scheduling point; filepath.Walk is one step (what it selects - shards the node holds and does not own - is changed by no other node: step_priv); a node that failed keeps answering as a receiver in the model (irrelevant for failure-free runs); every started node serves before any Sync contacts it (otherwise the rpc fails: that is the fault `down`)",
        "FileHash (xxhash64) is collision-free on the files involved and FileHash of the empty file is not 0 (hypothesis SumOK of every theorem; the second half is checked on every run)",
        "routing is an arbitrary function key -> node in the theorems (C13 is about RendezvousHash); the harness supplies the real RendezvousHash owner per key",
        "no client traffic during the synchronisation (sync.go says so): client writes happen while no started node other than the owner holds the key (QuietR / QuietF; established by every failure-free round, C14_epochs_converges); every started node runs with the same server list",
        "a change of the server list is Safe (Model.lean): an out-of-date copy (older record, left-over of an interrupted transfer, copy of something deleted) on a node that is started sits at the new routing owner, the current content is on a started node, at most one started non-owner holds a shard. Sync ships whatever a non-owner holds as if it were current, so without this the property is false for the code as written (Props.lean: example with eWbad; DESIGN section 8). The harness generates only Safe changes (checked on the real disks and by the model); rolling an interrupted change back and applying it again is Safe because rendezvous hashing gives the same owner for the same list",
        "Content symbols of the executable comparison: bytes for records and hand-made chunks, 4 KiB pages (FNV-1a) for shard files, CHUNKSIZE = 2048 pages",
    ],
    "assumptions": [
        "concurrent rounds: at most one started node other than the routing owner holds a given shard file (Inv.f4; in histories part of Safe: Safe.fc). Within the property's quantifier (one change of the list, faults anywhere) this always holds. With two such holders - possible only if the list changes AGAIN before an interrupted move was completed - the real code does NOT converge when both start at once: the two senders' chunks interleave in the owner's file (multi-chunk shards: always; single-chunk shards: when the two chunk-0 handlers overlap), both get `checksum mismatch`, both Syncs fail, nothing is lost (go/cmd/c14 -dupshard; Props.lean example dSchedMix; notes/C14.md round 4)",
        "shard files are non-empty (bbolt files are): an empty sharddb.bbolt can never be moved (C14_empty_file_never_moves)",
        "before the first change every record / shard is on exactly one node (Init / WInit)",
        "a record of a DELETED collection that an out-of-date node brings back is not judged (the property speaks about the records that exist)",
    ],
}


def search(ctx):
    """A proof obligation or a tie broke but the standard run saw no oracle failure: run the
    harness on further seeds (and the thorough generator) and return the first failing scenario."""
    r = ctx["runner"]
    tries = [(ctx["seed"] + i, "quick") for i in range(1, 4)] + [(ctx["seed"], "thorough")]
    for seed, tier in tries:
        out = os.path.join(ctx["rundir"], f"search-{seed}-{tier}")
        shutil.rmtree(out, ignore_errors=True)
        rc, _, _ = r.sh([ctx["hbin"], "-seed", str(seed), "-tier", tier, "-out", out], env=r.GOENV, timeout=2400)
        p = os.path.join(out, "stats.json")
        if not os.path.exists(p):
            continue
        fails = json.load(open(p)).get("oracle_failures") or []
        known = [k for k in ctx.get("known", []) if k.get("status") == "open"]
        import re
        for f in fails:
            if not any(re.fullmatch(k["signature"], f["signature"]) for k in known):
                return {"signature": f["signature"], "what": f["what"], "replay": f["replay"]}
    return None
