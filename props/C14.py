"""C14 - start-up rebalancing moves every record and shard to its owner without loss.

Standard runner flow: the harness (go/cmd/c14) builds real clusters, changes the server list, runs
`Sync` with enumerated faults (in-process fault hook, destinations down, lost replies, killed
child processes) and writes scenario lines; the Lean model driver executes the same lines; the
property oracle (no loss after every round, everything at its owner after a failure-free round,
all points readable through every node) is evaluated on the real nodes."""
import json, os, shutil

SPEC = {
    "lean_modules": ["SemaModel.C14.Props"],
    "lean_dirs": ["SemaModel/C14"],
    "harness": "c14",
    "harness_args": {"quick": ["-tier", "quick"], "thorough": ["-tier", "thorough"]},
    "timeout": {"quick": 600, "thorough": 2400},
    "level": "proof",
    "tie": "T3: real in-process nodes (NewNode+Serve on loopback ports, child processes for kills) and the Lean model are run on the same scenario lines - who holds which record / shard file (by content digest) after every interrupted and every failure-free round, Sync results, chunk sequences seen at the sender, replies of RPCSendShard to hand-made chunk sequences; histories over several server lists (interrupted change, roll-back without draining, client writes through the real cluster API declared to the model as writes at the routing owner, list applied again / random walks): the predicate Safe of every list change and the write precondition are evaluated on the real disks with the real RendezvousHash and by the model, and compared; T2: tools/facts_c14 regenerates CHUNKSIZE, the receiver's open flags (O_TRUNC only at chunk 0), MkdirAll only at chunk 0, the checksum condition, the order send -> compare -> delete of both phases, the receive loop of RPCSetNodeKeyValue (every pair is put unconditionally and counted) and the routing keys from the working tree; C14_converges_repo is proved for the generated configuration",
    "required_theorems": [
        "Sema.C14.C14_chunks", "Sema.C14.C14_no_loss", "Sema.C14.C14_remove_only_after_confirm",
        "Sema.C14.C14_converges", "Sema.C14.C14_converges_repo",
        "Sema.C14.C14_converges_pinned_false", "Sema.C14.C14_pinned_stuck",
        "Sema.C14.C14_empty_file_never_moves",
        "Sema.C14.C14_epochs_no_loss", "Sema.C14.C14_epochs_remove_only_after_confirm",
        "Sema.C14.C14_epochs_converges", "Sema.C14.C14_epochs_safe_change",
    ],
    "trusted_base": [
        "OS file semantics: a file is a byte list; O_APPEND|O_CREATE appends / creates, O_TRUNC empties; os.File.Read returns (n>0, nil) until the end and then (0, io.EOF); RemoveAll removes the shard directory; writes of a killed process that returned are on disk",
        "net/rpc + cluster/mrpc: a call is executed once and answered, or the caller gets an error (a time-out retry of internalRoute that duplicates a chunk is outside the model: it can only make a checksum mismatch, never a loss)",
        "bbolt: RPCSetNodeKeyValue / the local delete are atomic write transactions",
        "FileHash (xxhash64) is collision-free on the files involved and FileHash of the empty file is not 0 (hypothesis SumOK of every theorem; the second half is checked on every run)",
        "routing is an arbitrary function key -> node in the theorems (C13 is about RendezvousHash); the harness supplies the real RendezvousHash owner per key",
        "no client traffic during the synchronisation (sync.go says so): client writes happen while no started node other than the owner holds the key (QuietR / QuietF; established by every failure-free round, C14_epochs_converges); every started node runs with the same server list",
        "a change of the server list is Safe (Model.lean): an out-of-date copy (older record, left-over of an interrupted transfer, copy of something deleted) on a node that is started sits at the new routing owner, the current content is on a started node, at most one started non-owner holds a shard. Sync ships whatever a non-owner holds as if it were current, so without this the property is false for the code as written (Props.lean: example with eWbad; DESIGN section 8). The harness generates only Safe changes (checked on the real disks and by the model); rolling an interrupted change back and applying it again is Safe because rendezvous hashing gives the same owner for the same list",
        "Content symbols of the executable comparison: bytes for records and hand-made chunks, 4 KiB pages (FNV-1a) for shard files, CHUNKSIZE = 2048 pages",
    ],
    "assumptions": [
        "shard files are non-empty (bbolt files are): an empty sharddb.bbolt can never be moved (C14_empty_file_never_moves)",
        "before the first change every record / shard is on exactly one node (Init / WInit)",
        "a record of a DELETED collection that an out-of-date node brings back is not judged (the property speaks about the records that exist)",
    ],
}


def search(ctx):
    """A proof obligation or a tie broke but the standard run saw no oracle failure: run the
    harness on further seeds (and the thorough generator) and return the first failing scenario."""
    r = ctx["runner"]
    tries = [(ctx["seed"] + i, "quick") for i in range(1, 4)] + [(ctx["seed"], "thorough")]
    for seed, tier in tries:
        out = os.path.join(ctx["rundir"], f"search-{seed}-{tier}")
        shutil.rmtree(out, ignore_errors=True)
        rc, _, _ = r.sh([ctx["hbin"], "-seed", str(seed), "-tier", tier, "-out", out], env=r.GOENV, timeout=2400)
        p = os.path.join(out, "stats.json")
        if not os.path.exists(p):
            continue
        fails = json.load(open(p)).get("oracle_failures") or []
        known = [k for k in ctx.get("known", []) if k.get("status") == "open"]
        import re
        for f in fails:
            if not any(re.fullmatch(k["signature"], f["signature"]) for k in known):
                return {"signature": f["signature"], "what": f["what"], "replay": f["replay"]}
    return None
