import json, os, shutil, subprocess

SPEC = {
    "lean_modules": ["SemaModel.C01.Props", "SemaModel.C01.Tie", "SemaModel.C01.Accept", "SemaModel.C01.Pins"],
    "lean_dirs": ["SemaModel/C01"],
    "harness": "c01",
    "harness_args": {"quick": ["-hist", 500, "-batches", 10], "thorough": ["-hist", 4000, "-batches", 14, "-thorough"]},
    "timeout": {"quick": 900, "thorough": 3000},
    "level": "proof",
    "tie": "T3: random histories of insert/update/delete batches (accepted and REJECTED: a batch the reference model rejects inside the transaction runs in a child process on a copy of the db file) on a real shard (bbolt file and memory backend, index schemas none / string+integer+float+stringArray+nested string / text+string / flat vector+integer / vamana vector+string) are replayed line by line on the Lean model; compared after every batch: the batch result and, beside it, the real verdict against the independent acceptance predicate `StoreAcceptable` evaluated in Lean on the reference map (`acc=`), the full points and internal buckets in the model's symbolic keys (through Shard.VerifDB), the select-all read of the whole id pool, Info().PointCount and two reads by id (answered by the Lean *spec*). The oracles of the model (free-id order, delete iteration order) are read back from the implementation. T2: tools/facts_c01 pins DELETEVALUE, the start value of the id counter, the bodies of IdCounter.NextId / FreeId and that count and counter are written after the pipeline's error check. T1: IdCounter.NextId / FreeId / MaxId are translated from shard/idcounter.go on every run (Generated/IdCounter.lean) and C01_tie_nextId / C01_tie_freeId prove that the model's Ctr.nextId / Ctr.freeId compute the same (ids as toNat; no wrap of nextFreeId++); changePointCount is translated with the bucket as Base/KV.lean (Generated/PointCount.lean) and C01_tie_count_add / C01_tie_count_sub prove the model's count arithmetic (countV + n; reject when countV < k, else countV - k).",
    "required_theorems": [
        "Sema.C01.C01_step", "Sema.C01.C01_run", "Sema.C01.C01_history",
        "Sema.C01.C01_read", "Sema.C01.C01_read_all",
        "Sema.C01.C01_merge", "Sema.C01.C01_insert_ok", "Sema.C01.C01_insert_rejected",
        "Sema.C01.C01_update_reports", "Sema.C01.C01_update_ids", "Sema.C01.C01_delete_reports",
        "Sema.C01.C01_setPoint_delete_noop",
        "Sema.C01.C01_tie_nextId", "Sema.C01.C01_tie_freeId", "Sema.C01.C01_tie_maxId",
        "Sema.C01.C01_tie_count_add", "Sema.C01.C01_tie_count_sub",
        # acceptance characterised independently (SemaModel/C01/Accept.lean, notes/Accept.md): WHICH batches the point store
        # takes is a predicate on the reference map (`StoreAcceptable`: ids distinct and not stored / every written
        # document fits, in closed form `mergedAt` — no update loop), proved equivalent to the model's verdict
        "Sema.C01.C01_coll_accept_iff", "Sema.C01.C01_accept_iff", "Sema.C01.C01_update_stores",
        "Sema.C01.C01_step_written", "Sema.C01.C01_rejects_all_refuted",
    ],
    "trusted_base": [
        "SemaModel/C01/Model.lean is a hand transcription of Shard.InsertPoints/UpdatePoints/DeletePoints, pointstore.SetPoint/DeletePoint/GetPointByUUID/GetPointByNodeId, IdCounter, changePointCount and the _id branch of SearchPoints; tied to the code by the correspondence only (plus the facts of tools/facts_c01)",
        "msgpack is the identity on documents; a field value is opaque text (the model only tests equality with the string \"_delete\"); the msgpack length of a merged document is supplied by the harness (Cfg.size is abstract in the theorems)",
        "bbolt's write transaction is all-or-nothing (every error path of the model returns the unchanged state); the memory backend has no rollback and is only driven with batches that are not rejected inside the transaction",
        "bucket keys are symbolic (n<id>i, n<id>d, p<uuid>i); their byte encodings and injectivity are C19's theorems",
        "index effects are outside C01: whether the indexes accept a batch is the oracle bit indexOk, computed by the harness from the schema (type conformance of indexed fields) and compared with the real outcome; the bit is CHARACTERISED in the composition (Sema.Compose.Accept_iff, registered under C02: the model's computed verdict is equivalent to `Acceptable`, a predicate on the reference map and the documents). The oracle-free part of acceptance (repeated id, stored id, merged size, zero-length data) is characterised here: C01_accept_iff, with `StoreAcceptable` evaluated by the driver beside every batch result (`acc=`) and compared with the real verdict, rejected batches included (they run in child processes)",
        "go/cmd/c01: the Go transcription of the spec used as property oracle, the canonical text of documents, the classification of error messages",
    ],
    "assumptions": [
        "no indexed string value (or string-array element) is \"\" (DESIGN.md section 8 no. 14: bbolt refuses the empty posting key; probed once per run, outcome in side_probes)",
        "Point.Data is the msgpack encoding of a map; zero-length Data is modelled (stored as 'no document', an update of such a point fails as a whole) but lies outside the property text and is not judged by the property oracle",
        "when a batch has both a store-level and an index-level reason to fail, the reported reason may be either (goroutine order); the canonical answer is the store-level one",
        "uint64 node ids and counts do not overflow",
        "`Coll.updateLoop` (the reference map's update) and the model's `updateLoop` have the same recursive shape; what an update STORES and WHEN it is accepted are therefore also stated without the loop (C01_update_stores: every stored document with all patches of the batch for its id merged in, in order; C01_accept_iff / StoreAcceptable: `mergedAt`, closed form) and proved equal to the loop's result",
    ],
}


def _run_harness(ctx, seed, hist, outdir, nodata):
    os.makedirs(outdir, exist_ok=True)
    args = [ctx["hbin"], "-seed", str(seed), "-out", outdir, "-hist", str(hist), "-batches", "12", "-nodata", str(nodata)]
    try:
        subprocess.run(args, stdout=subprocess.PIPE, stderr=subprocess.STDOUT, timeout=900, env=ctx["runner"].GOENV)
        return json.load(open(os.path.join(outdir, "stats.json")))
    except Exception:
        return None


def _first_disagreement_replay(ctx):
    """model and implementation disagree on some op line: save the history that leads to the first
    such line as a replayable file (./check C01 quick --replay FILE prints both sides line by line)"""
    dis = ctx.get("disagreements") or []
    ops_path = os.path.join(ctx["rundir"], "ops.txt")
    if not dis or not os.path.exists(ops_path):
        return
    ops = open(ops_path).read().splitlines()
    last = dis[0]["line"] - 1
    first = last
    while first > 0 and not ops[first].startswith("new\t"):
        first -= 1
    path = os.path.join(ctx["runner"].VERIF, "replays", f"C01-correspondence-seed{ctx['seed']}.txt")
    os.makedirs(os.path.dirname(path), exist_ok=True)
    with open(path, "w") as f:
        f.write("# property C01: the Lean model and the implementation disagree on the last line of this history\n")
        f.write("# implementation: " + dis[0]["impl"][:2000] + "\n# model:          " + dis[0]["model"][:2000] + "\n")
        f.write("# replay with: ./check C01 quick --replay <this file>\n")
        f.write("\n".join(ops[first:last + 1]) + "\n")
    ctx["runner"].log(f"C01: history leading to the first model/implementation disagreement: {path}")


def search(ctx):
    """A proof obligation or the correspondence broke without an oracle failure in the standard run:
    look wider (other seeds, more histories) for a history on which the real shard leaves the
    reference model."""
    _first_disagreement_replay(ctx)
    base = os.path.join(ctx["rundir"], "search")
    try:
        for k in range(1, 5):
            # zero-length Data (rare in the main stream) is what turns a stale n<id>d entry into a wrong read
            st = _run_harness(ctx, ctx["seed"] * 101 + k, 250 if ctx["tier"] == "quick" else 800, os.path.join(base, str(k)), [1, 25, 10, 40][k - 1])
            if not st:
                continue
            for f in st.get("oracle_failures", []):
                listed = any(kf.get("status") == "open" and __import__("re").fullmatch(kf["signature"], f["signature"]) for kf in ctx.get("known", []))
                if not listed:
                    return {"signature": f["signature"], "what": f["what"], "replay": f["replay"]}
    finally:
        shutil.rmtree(base, ignore_errors=True)
    return None
