import json, os, re, subprocess

SPEC = {
    "lean_modules": ["SemaModel.C06.Props", "SemaModel.C06.Tie", "SemaModel.C06.Formula", "SemaModel.C06.Paging"],
    "lean_dirs": ["SemaModel/C06"],
    "harness": "c06",
    "harness_args": {"quick": ["-n", 200, "-q", 25], "thorough": ["-n", 2500, "-q", 30]},
    "level": "proof",
    "tie": "T1 (formula): the three leaf hybrid expressions (text: score * weight; flat: (-1 * weight) * dist; vamana: (-1 * dist) * weight; weight 1 when absent) are regenerated on every run into SemaModel/Generated/Hybrid.lean; C06_leaf_hybrid_formula and C06_merge_generated (C06_merge at the symbolic float type) are stated about them, the driver evaluates them against the real leaf answers (hyb lines, bit for bit). "
           "T1: utils/compare.go AccessNestedProperty and SortSearchResults (with its comparison closure; CompareAny and slices.SortFunc stay parameters) are translated to SemaModel/Generated/Compare.lean on every run; C06_tie_access / C06_tie_sortCmp / C06_tie_sort prove that the model's access / sortCmp compute the same for all documents, paths and sort options; the offset/limit statements at the end of Shard.SearchPoints are translated as a fragment with wrapping int arithmetic (Generated/Paging.lean) and C06_tie_page proves they are the model's pageRepaired. T3: the hand-written model (evalTree = indexManager.Search recursing through _and/_or, searchParallel incl. the stable sort of its single-sub-query shortcut, back-fill, select via msgpack Query + nested rebuild, CompareAny / SortSearchResults, the offset/limit slice in both variants) is run by the Lean driver on the same requests as a real shard (bbolt file and memory backend alternate). The answers of the query-tree leaves (ids, _hybridScore bit patterns) and the stored documents are taken from the real shard; the driver merges, back-fills, selects, sorts and pages and must print exactly the rows the shard returns (ids in order, _hybridScore bits, decoded data). CompareAny (pairs of random scalars, of values around 2^24 / 2^53 / 2^62 / 1.7e18 / the ends of int64 and uint64 in every width and signedness, of integers and float32 beside their float64 neighbours), reflect.Kind numbers and float32 addition are also compared on scalar op lines. The documented behaviour is evaluated directly on every real answer by a Go oracle (numbers of any two kinds compared exactly with math/big).",
    "required_theorems": [
        # formula theorems (Formula.lean; notes/T1ext.md section 8): the three leaf hybrid expressions generated from text.go, flat.go, vamana.go
        "Sema.C06.C06_leaf_hybrid_formula", "Sema.C06.C06_merge_generated",
        "Sema.C06.C06_tie_access", "Sema.C06.C06_tie_sortCmp", "Sema.C06.C06_tie_sort", "Sema.C06.C06_tie_page", "Sema.C06.C06_tie_page_value",
        "Sema.C06.C06_merge", "Sema.C06.C06_merge_single", "Sema.C06.C06_rank_order", "Sema.C06.C06_rank_sorter_exists",
        "Sema.C06.C06_plain_order", "Sema.C06.C06_plain_negative_weight_witness", "Sema.C06.C06_backfill",
        "Sema.C06.C06_select", "Sema.C06.C06_select_star", "Sema.C06.C06_select_total", "Sema.C06.C06_select_scalar",
        "Sema.C06.C06_cmp_preorder", "Sema.C06.C06_sortcmp_preorder", "Sema.C06.C06_sort_exists", "Sema.C06.C06_missing_last",
        "Sema.C06.C06_sort_ties", "Sema.C06.C06_cmp_same_kind", "Sema.C06.C06_cmp_numeric", "Sema.C06.C06_cmp_integers",
        "Sema.C06.C06_float_value_order", "Sema.C06.C06_cmp_cross_kind", "Sema.C06.C06_sort_numeric",
        "Sema.C06.C06_page", "Sema.C06.C06_page_overflow_witness", "Sema.C06.C06_page_repaired", "Sema.C06.C06_pages_tile", "Sema.C06.C06_pages_prefix", "Sema.C06.C06_pages_disjoint", "Sema.C06.C06_page_all",
        "Sema.C06.C06_tree", "Sema.C06.C06_answer", "Sema.C06.C06_search_page",
    ],
    "trusted_base": [
        "leaf hybrid formula theorems fix the expression structure only (IEEE rounding not interpreted); the addition of the merge is the parameter `add` (driver: Lean Float32, fadd lines)",
        "msgpack: Decoder.Query(path) = lookup along map keys (first match), error when the path meets a non-container; decoding into `any` yields int8/16/32/64, uint8/16/32/64, float32/64 by encoded width; Decode into the partly built map sets every top-level key (array indices and `*` inside paths are outside the model)",
        "float semantics used by compareIntegerFloat: a float64 bit pattern denotes (-1)^s * m * 2^(e-1075) (scaled64 = that value times 2^1074, an integer), float32 widens exactly (scaled32), math.Trunc / T(t) discard the fraction exactly, cmp.Compare on floats is the order of the values with NaN first; all validated against Go on the `cmp` lines of every run, and tied to Base/Float.lean's bit-pattern order by the theorem C06_float_value_order",
        "roaring bitmaps are finite sets iterated in ascending order; FastAnd/FastOr of zero bitmaps are empty",
        "Go's slices.SortFunc returns SOME permutation sorted under the comparator (unstable); the theorems hold for every such permutation, the driver prints the one closest to the implementation's and re-checks that it is a sorted permutation; slices.SortStableFunc additionally leaves a list that is in order as it is",
        "hybrid scores: an arbitrary type with an arbitrary `add` in the theorems; the driver adds float32 bit patterns with Lean's native Float32 (IEEE binary32 +, validated against Go's on `fadd` lines every run) and orders them with Base/Float.lean F32.key",
        "reflect.Kind numbering (validated against Go's on the `kinds` line every run); Base/Float.lean F64/F32 comparison on bit patterns; Go int = 64-bit two's complement (wrap64)",
        "the answers of the leaves of a query tree are inputs (C02-C05 are about them); a leaf's own order is known up to ties",
    ],
    "assumptions": [
        "sort keys are looked up in the SELECTED data (docs/search/overview.md: 'Any sort fields must be selected first')",
        "which _distance/_score a multiply-found point reports is not judged (DESIGN.md C06)",
        "select / sort paths consist of non-empty segments that are map keys (no array indices, no `*` inside a path); stored documents are msgpack maps with string keys, unique per map",
        "hybrid scores and distances are not NaN",
        "hypotheses the proofs force, each with a proved witness that it cannot be dropped: offset+limit does not overflow on the pinned slice expression (C06_page_overflow_witness; none after the repair, C06_page_repaired). The three former ones (two or more sub-queries for the rank order; no select path through a scalar; one reflect.Kind per sort key) are gone with the repository repairs: C06_rank_order (every composite query), C06_select / C06_select_total, C06_cmp_numeric / C06_sort_numeric have no such hypothesis. The hybrid-score order is demanded of composite queries only (the property text: 'For composite queries ...'); a plain ranking query keeps the order of its index (C06_plain_order; C03-C05 say what that order is) and C06_plain_negative_weight_witness shows the two orders differ for a negative weight",
    ],
    "timeout": {"quick": 600, "thorough": 3000},
}


def search(ctx):
    r = ctx["runner"]
    for k in range(1, 4):
        out = os.path.join(ctx["rundir"], f"search{k}")
        os.makedirs(out, exist_ok=True)
        args = [ctx["hbin"], "-seed", str(ctx["seed"] * 1000 + k), "-out", out, "-n", "300", "-q", "30"]
        try:
            subprocess.run(args, env=r.GOENV, timeout=900, stdout=subprocess.DEVNULL, stderr=subprocess.DEVNULL)
            st = json.load(open(os.path.join(out, "stats.json")))
        except Exception:
            continue
        for f in st.get("oracle_failures", []):
            if any(k_.get("status") == "open" and re.fullmatch(k_["signature"], f["signature"]) for k_ in ctx.get("known", [])):
                continue
            return {"signature": f["signature"], "what": f["what"], "replay": f["replay"]}
    return None
