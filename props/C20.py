import json, os

SPEC = {
    "lean_modules": ["SemaModel.C20.Props", "SemaModel.C20.Formula", "SemaModel.C20.FormulaPQ", "SemaModel.C20.FormulaPQFit", "SemaModel.C20.FormulaPQEncode", "SemaModel.C20.FormulaBQ"],
    "lean_dirs": ["SemaModel/C20"],
    "harness": "c20",
    "harness_args": {"quick": [], "thorough": ["-full"]},
    "timeout": {"quick": 600, "thorough": 2400},
    "level": "proof",
    "tie": "T1 (formulas): SemaModel/Generated/Distance.lean, PQDist.lean, PQEncode.lean, BQDist.lean are regenerated on every run from distance/distance.go, distance/puredist.go, shard/vectorstore/product.go, shard/vectorstore/binary.go with floats as symbolic expression trees (Go.FExpr: one constructor per Go operation, operands in source order, every conversion written); the formula theorems (dot = -dotImpl, cosine = 1 - dotImpl, the whole haversine tree with its clamp, the two pure Go loops = left-to-right sums, the product quantiser's table and look-up sums, what the per-sub-vector bodies of its Fit() store in centroidDists / flatCentroids (every entry, the diagonal included) and the two quantised distances of a quantiser fitted like that, its encode (running minimum, first nearest centroid), the binary quantiser's choice of bit / float distance) are stated about these definitions, and the driver evaluates the same trees with hardware floats against the real functions (bit for bit; haversine within 1 float32 ulp because the C library's sin/cos/asin may differ from Go's math - measured 0). "
           "T1: the bit-metric theorems are stated about SemaModel/Generated/BitDist.lean (binaryQuantizer.encode, hammingDistance, jaccardDistance), regenerated from shard/vectorstore/binary.go and distance/distance.go on every run; "
           "T2: tools/facts_c20 walks distance/asm/dot.s and euclidean.s on every run (loop bounds, increments, operand pairing, accumulator roles, reduction sequence -> Generated/FactsC20.lean) and facts_dot_pinned / facts_euclidean_pinned prove by `decide` that these are the constants of the hand-written kernel model; "
           "T3: generated definitions and kernel model are executed against the real functions (distance.GetBitDistanceFn / GetFloatDistanceFn, the tagged export of encode and of the quantizer's distance closures; both quantisers also through their real constructors, Set and Fit() - real k-means, euclidean / dot / cosine - with every table entry, both closures, symmetry and the encodings judged against the definitions, and the generated Fit bodies evaluated against the fitted tables: pqt / pqg lines) on the same op lines: exact float32 bit patterns for the bit metrics on every length, exact integers for the kernels on every length and slice offset. "
           "Agreement of the kernels with the scalar reference 'up to floating-point rounding' is a TEST, not a theorem (sweep: lengths x offsets 0..7 x value distributions vs float64 and scalar float32 references, worst-case rounding bound as tolerance).",
    "required_theorems": [
        # formula theorems (Formula.lean, FormulaPQ.lean; notes/T1ext.md section 8): the expression trees generated from distance.go, puredist.go, product.go
        "Sema.C20.dot_distance_formula", "Sema.C20.cosine_distance_formula", "Sema.C20.haversine_formula", "Sema.C20.haversine_formula_pair", "Sema.C20.dot_pure_formula", "Sema.C20.l2_pure_formula", "Sema.C20.cosine_pure_formula", "Sema.C20.dot_distance_pure_formula", "Sema.C20.pq_centroidDistIdx_formula", "Sema.C20.pq_flatCentroidSlice_formula", "Sema.C20.pq_distance_from_float_formula", "Sema.C20.pq_distance_from_point_formula", "Sema.C20.pq_table_formula", "Sema.C20.pq_quantised_distance_formula",
        # what Fit() leaves in the two tables (FormulaPQFit.lean: the per-sub-vector bodies of Fit, generated) and the two quantised distances of a fitted quantiser
        "Sema.C20.pq_centroid_table_formula", "Sema.C20.pq_flat_centroids_formula", "Sema.C20.pq_fit_tables", "Sema.C20.pq_point_distance_formula", "Sema.C20.pq_float_point_consistent",
        # encode of the product quantiser (FormulaPQEncode.lean over Generated/PQEncode.lean; float32 abstract with a decidable <)
        "Sema.C20.pq_encode_unfitted", "Sema.C20.pq_encode_formula", "Sema.C20.pq_encode_nearest",
        "Sema.C20.bq_distance_from_float_wiring", "Sema.C20.bq_distance_from_point_wiring", "Sema.C20.bq_trained_hamming", "Sema.C20.bq_untrained_float",
        "Sema.C20.encode_length", "Sema.C20.encode_bits", "Sema.C20.encode_padding", "Sema.C20.encode_unfitted",
        "Sema.C20.hamming_eq_bitcount", "Sema.C20.hamming_encode", "Sema.C20.hamming_symm",
        "Sema.C20.jaccard_eq_bitcount", "Sema.C20.jaccard_encode", "Sema.C20.jaccard_union_zero", "Sema.C20.jaccard_union_pos", "Sema.C20.jaccard_symm",
        "Sema.C20.facts_dot_pinned", "Sema.C20.facts_euclidean_pinned",
        "Sema.C20.kernel_dot_eq_sum", "Sema.C20.kernel_l2_eq_sum", "Sema.C20.kernel_int",
        "Sema.C20.ofRing_symmetric", "Sema.C20.kernel_dot_symm", "Sema.C20.kernel_l2_symm",
    ],
    "trusted_base": [
        "formula theorems fix the EXPRESSION STRUCTURE only: IEEE rounding of each operation, and the values of sin / cos / asin / sqrt, are not interpreted (Go.FExpr is symbolic); dotProductImpl (AVX kernel or pure Go loop, a package variable) is an abstract function parameter of the dot / cosine theorems; math.Pi/180 enters as the bit pattern of the nearest float64, computed by tools/go2lean with exact constant arithmetic (go/constant) as the compiler does; the type assertion behind VectorStorePoint, k-means and the log.Warn() call of binary.go are abstract / left out explicitly",
        "Fit() of the product quantiser: k-means (its result kmeans.Centroids is a parameter), the goroutine fan-out / WaitGroup and the write of the labels into the cached points are NOT translated; the theorems hold for every sequential order of the per-sub-vector bodies and show that they write disjoint blocks (frame clauses) - that concurrent bodies writing disjoint blocks give the same tables is argued, not proved; the generated fill loops take fuel (one unit per loop-condition evaluation, 2K+1 suffice); parameters of a fragment are assumed not to alias (the two tables are fresh makes in Fit)",
        "encode of the product quantiser: float32 is an abstract type with a decidable <, math.MaxFloat32 an abstract value; pq_encode_nearest assumes < irreflexive and transitive (true of IEEE <, NaN included); the codes Fit() itself assigns are k-means labels (not translated, not judged)",
        "SemaModel/Base/Float.lean F32.gt: IEEE-754 `>` on float32 bit patterns (NaN compares false, -0 = +0); validated against Go's `>` on all pairs of a boundary pool and random pairs ('f32gt' op lines) on every run",
        "Go.FExpr: the float32 division and subtraction of jaccard (1 - inter/union) and the int->float32 conversions stay symbolic in the theorems; the driver evaluates them with Lean's Float32 (hardware IEEE single precision) and the result is compared bit for bit with Go",
        "the kernel model SemaModel/C20/Model.lean is hand-written from distance/asm/{dot,euclidean}.s (and their avo generators); its tie is tools/facts_c20 (a walk that rejects any instruction it does not expect) plus the exact integer correspondence; the meaning of the AVX instructions themselves (VFMADD231PS, VHADDPS, VEXTRACTF128 ...) is read from the Intel manual, not verified",
        "kernel theorems hold in every commutative ring (index structure: each item consumed exactly once for every length) and, for symmetry, in every arithmetic satisfying Ops.Symmetric (fma a b c = fma b a c; fma (a-b) (a-b) c = fma (b-a) (b-a) c) - that IEEE-754 hardware satisfies these two laws on non-NaN values is assumed, and checked bit for bit by the sweep",
        "float rounding is NOT proved: 'equal up to floating-point rounding' is judged by the sweep against the bound gamma_(n+k) * sum|terms| (Higham, Accuracy and Stability of Numerical Algorithms, sec. 3.1: valid for any order of summation, fused or not) plus (n+1)*2^-148 for underflow",
        "int lengths/indices are modelled in Nat; nil and empty slices are identified; index-out-of-range panics of Go (threshold / y shorter than the vector) are outside the model - every theorem supplies equal lengths",
    ],
    "assumptions": [
        "both operands of a bit metric were encoded with the same threshold vector of the vectors' length (as binaryQuantizer does)",
        "NaN-free, overflow-free inputs for the float kernels (stated in the property: value distributions are NaN-free); vectors of equal length",
        "the machine running the check has AVX2+FMA (otherwise distance_amd64.go selects the pure-Go loops and the harness exercises those)",
    ],
}


def search(ctx):
    """A proof obligation or a tie broke but the standard run saw no oracle failure: run the oracle
    over every length 1..4096 (thorough generators) with two further seeds and report the first
    concrete input on which the implementation violates the property."""
    r = ctx["runner"]
    for extra_seed in (ctx["seed"] + 1000, ctx["seed"] + 2000):
        d = os.path.join(ctx["rundir"], f"search-{extra_seed}")
        os.makedirs(d, exist_ok=True)
        rc, out, dt = r.sh([ctx["hbin"], "-seed", str(extra_seed), "-out", d, "-full", "-oracle-only"], env=r.GOENV, timeout=1800)
        sp = os.path.join(d, "stats.json")
        if not os.path.exists(sp):
            continue
        st = json.load(open(sp))
        known = [k for k in ctx.get("known", []) if k.get("status") == "open"]
        import re
        for f in st.get("oracle_failures", []):
            if any(re.fullmatch(k["signature"], f["signature"]) for k in known):
                continue
            return {"signature": f["signature"], "what": f["what"], "replay": f["replay"]}
    return None
