import json, os, subprocess, sys
sys.path.insert(0, os.path.dirname(os.path.dirname(os.path.abspath(__file__))))
from verifcore import blame

SPEC = {
    "lean_modules": ["SemaModel.C02.Props", "SemaModel.Compose.Props", "SemaModel.Compose.RankProps", "SemaModel.C02.Tie", "SemaModel.Compose.AcceptProps", "SemaModel.Compose.AcceptRank", "SemaModel.C02.Pins"],
    "lean_dirs": ["SemaModel/C02", "SemaModel/Compose"],
    # modules of this list outside SemaModel/C02 are the COMPOSITION (C01 + C02 + C04 + C05 + C06): when one of them no longer builds because a
    # proof obligation of ANOTHER property broke (its own check reports that), this check notes it and goes on with the rest (verifcore/blame.py)
    "composition_dirs": ["SemaModel/Compose"],
    "harness": "c02",
    "harness_args": {"quick": ["-shards", 48, "-batches", 14, "-searches", 18, "-searchx", 6, "-rank", 200, "-accept", 60, "-acceptbatches", 12],
                     "thorough": ["-shards", 500, "-batches", 22, "-searches", 24, "-searchx", 8, "-rank", 2500, "-accept", 600, "-acceptbatches", 14]},
    "timeout": {"quick": 600, "thorough": 3000},
    "level": "proof",
    "tie": "T2: tools/facts_c02 extracts (go/ast) the operator table of IndexInverted.Search, the arms of processChange and getOperation, the array combinators and what string.go lower-cases into Generated/FactsC02.lean on every run; SemaModel/C02/Lemmas.lean pins each table next to the model definition transcribing it; T1: the key functions in every theorem are the toByteSortable_* definitions of SemaModel/Generated/Sortable.lean, regenerated from shard/index/inverted/sortable.go on every run; T3: the hand-written model of inverted.go / string.go / array.go / dispatch.go / search.go (SemaModel/C02/Model.lean) and a real shard (bbolt file and memory backend) are run on the same histories of write batches and queries, comparing every query answer and a dump of every index bucket after every batch; the specification of each query is additionally evaluated straight from the documents against the real answers (oracle)",
    "required_theorems": [
        "Sema.C02.C02_change", "Sema.C02.C02_array_change", "Sema.C02.C02_search", "Sema.C02.C02_search_array",
        "Sema.C02.C02_int_search", "Sema.C02.C02_float_search", "Sema.C02.C02_string_search", "Sema.C02.C02_stringArray_search",
        "Sema.C02.C02_step", "Sema.C02.C02_history", "Sema.C02.C02_tree", "Sema.C02.C02_exact",
        "Sema.C02.C02_only_live", "Sema.C02.C02_id_lookup", "Sema.C02.C02_lacking_field", "Sema.C02.C02_rejected_unchanged",
        # the composition C01 + C02 + C06 (SemaModel/Compose, notes/Compose.md): end-to-end statements about the shard API
        "Sema.Compose.Compose_step", "Sema.Compose.Compose_inv_history", "Sema.Compose.Compose_insert_fresh",
        "Sema.Compose.Compose_rejected_noop", "Sema.Compose.Compose_filter_state", "Sema.Compose.Compose_filter_exact",
        "Sema.Compose.Compose_select_star", "Sema.Compose.Compose_write_read", "Sema.Compose.Compose_histOK_of_final",
        # the composition extended to ranking queries: + C04 (flat store), C05 (text index), C06 (hybrid merge) — SemaModel/Compose/Rank*.lean
        "Sema.Compose.Compose_rank_step", "Sema.Compose.Compose_rank_rejected_noop", "Sema.Compose.Compose_rank_inv_history",
        "Sema.Compose.Compose_flat_state", "Sema.Compose.Compose_flat_exact", "Sema.Compose.Compose_flat_count",
        "Sema.Compose.Compose_flat_no_closer", "Sema.Compose.Compose_text_state", "Sema.Compose.Compose_text_exact",
        "Sema.Compose.Compose_hybrid_state", "Sema.Compose.Compose_hybrid",
        # acceptance, independently specified (SemaModel/Compose/Accept{Model,Lemmas,Props}.lean, notes/Accept.md): the verdict the
        # combined model COMPUTES (C01's checks, C02's typesOk / refused on the model's own change stream) is EQUIVALENT to
        # `Acceptable`, a predicate on the reference map and the documents that calls none of the model's functions; the
        # reference history is rebuilt from it (`refRun`) and the refinement / exactness theorems restated against that
        "Sema.Compose.Accept_iff", "Sema.Compose.Accept_iff_out", "Sema.Compose.Accept_unacceptable_noop",
        "Sema.Compose.Accept_inv_step", "Sema.Compose.Accept_inv_history", "Sema.Compose.Accept_refStep",
        "Sema.Compose.Compose_refines_independent_spec", "Sema.Compose.Compose_filter_exact_independent",
        "Sema.Compose.Compose_rejects_all_refuted",
        # … and for the state WITH ranking indexes (SemaModel/Compose/AcceptRank.lean): rankVerdict / fullVerdict / rspecHist eliminated
        "Sema.Compose.Accept_rank_iff", "Sema.Compose.Accept_rank_inv_step", "Sema.Compose.Compose_rank_refines_independent_spec",
        # tie theorems (SemaModel/C02/Tie.lean, notes/T1ext.md section 7): model functions = definitions generated from the Go source
        "Sema.C02.C02_tie_getOperation", "Sema.C02.C02_tie_getOperation_prevErr", "Sema.C02.C02_tie_getOperation_curErr",
        "Sema.C02.C02_tie_getOperation_ok", "Sema.C02.C02_tie_toChange", "Sema.C02.C02_tie_toArrChange",
        "Sema.C02.C02_tie_search_arms", "Sema.C02.C02_tie_search_range", "Sema.C02.C02_tie_search_inRange_err",
    ],
    "trusted_base": [
        "SemaModel/Compose/AcceptModel.lean (`jsonAt`, `hasKind`, `conforms`, `Acceptable`, `refRun`: the INDEPENDENT specification of which batches a shard accepts — written from docs/content/docs/concepts/indexing.md and manage/points.md on JSON-like values, using no function of the implementation model) is tied to the code by a fourth correspondence run: `go/cmd/c02 -accept` generates histories whose batches sit on the boundary of `Acceptable` (one offending document among valid ones, every type mismatch per index kind incl. integer-valued floats under an integer index and integers under a float index, blocked nested paths incl. null in the middle, merged sizes max-1 / max / max+1, repeated and stored ids, offending patches for unknown ids, a document broken and repaired inside one update, zero-length data); a batch the Go reading of the documentation expects to be refused runs in a CHILD process (replay of the accepted history on a fresh shard + the batch; verdict, and on the file backend the state afterwards, which must be the state before); `semadriver C02 accept` prints the combined model's result and, beside it (`acc=`), the decision of `Acceptable` evaluated in Lean on the reference map — one line diff compares model = code on the result and specification = code on acceptance; a verdict that contradicts the Go reading is an oracle failure with the history as replay; a child that dies after a correct rejection is the known finding of C07 (counted, not judged)",
        "SemaModel/Compose/RankModel.lean (the combined model extended by the ranking indexes: per vectorFlat entry the set of (node id, vector) pairs, per text entry C05's index, both fed by the same change stream; C04's flat search, C05's text search and C02's filter leaves under C06's searchParallel / back-fill / paging) is tied to the code by a third correspondence run: the compiled model (`semadriver C02 rank`) answers histories on real shards with an integer, a vectorFlat (2-d integer grid, squared Euclidean: exact, ties frequent) and a text index (tokens from the real bleve analyser, idf table from Go's math.Log10) — every write, a dump of the flat bucket and of the text postings after every batch, plain and hybrid `searchr` requests compared modulo ties (groups of equal hybrid score; a tie cut by a plain query's limit by size only); vectors, distances, scores and weights are abstract in every theorem, the driver instantiates them with grid coordinates, exact naturals and IEEE float32 bit patterns; quantizer none, vector dimension = index dimension (C18), rejected batches are not in this stream",
        "SemaModel/Compose/Model.lean (the combined model: C01's point store + C02's indexes + C06's answer pipeline; new in it: the change stream of a batch, the index verdict, one write step for both, searchPoints) is tied to the code by a second correspondence run: the compiled combined model (`semadriver C02 compose`) answers every op line of the same histories — allocating the node ids itself, compared with the ones the shard allocated — plus `searchx` lines (select / sort / offset / limit through the whole SearchPoints pipeline); a stored top-level value is opaque text in the point store and is read by two parameters (Conv.idx, Conv.sel) — theorems hold for every such pair, the driver's pair is the value syntax of the op lines",
        "SemaModel/C02/Model.lean is a hand transcription of inverted.go, string.go, array.go, dispatch.go/utils.go (getOperation, casts) and search.go; tied to the code by the correspondence run only (answers and bucket dumps)",
        "roaring bitmaps are finite sets of node ids (CheckedAdd/CheckedRemove/FastOr/FastAnd/IsEmpty/ToBytes/ReadFrom trusted); the stored bytes are modelled as the concatenated little-endian ids",
        "bbolt / memory backend: a bucket is a key-sorted association list, Cursor.Seek = first key >= k (Base/KV.lean); the memory backend's RangeScan/PrefixScan are filters over the sorted keys, i.e. the right-hand sides of rangeScan_spec / prefixScan_spec",
        "msgpack is the identity on documents and Query(path) is a path lookup through nested maps; the shallow merge of UpdatePoints is transcribed (mergeDoc)",
        "strings.ToLower is an arbitrary fixed function `lower` in every theorem; the driver is told its values by the harness ('lower' op lines)",
        "a fresh IndexInverted is built per write batch and per query (dispatch.go / search.go), so the setCache starts empty; within one query each bucket key is visited once, so the per-query cache is not modelled",
        "Go map iteration order (flush order, removals of the array diff, ForEach on the memory backend) is fixed to list order in the model; the results do not depend on it (distinct keys commute)",
        "the point store (node id <-> uuid <-> document) is C01's concern: theorems take fresh node ids / uuids of inserted points as hypotheses; rejected batches leave the state unchanged (C07)",
    ],
    "assumptions": [
        "float values and float query values are not NaN (NaN cannot be written through the JSON API)",
        "queries are those models.Query.Validate accepts: non-empty _and/_or lists, non-empty string-array query, property present in the schema with the matching type, no startsWith on numbers",
        "on the file backend no indexed string (or string-array element) folds to the empty string: bbolt refuses the empty key and the batch is rejected (DESIGN section 8 no. 14); run on the real code in a child process, recorded, not judged. It is the exact boundary of Accept_iff on the file backend (hypothesis BoltStep / BoltOK; witnessed in AcceptProps.lean: the batch IS Acceptable and the file-backed model refuses it, the memory-backed one takes it)",
        "property paths of the schema run through OBJECTS only: no segment of an indexed property name is empty, `*` or a decimal number. msgpack's Decoder.Query — which dispatch.go uses — treats a numeric segment as an ARRAY INDEX, `*` as every element (the index takes the first) and an empty segment as the END of the path, whereas C02's `Val.query` / `Val.pathOk` and the specification's `jsonAt` treat an array on the way as blocking the path and look an empty segment up as the key \"\" (the API layer's CheckCompatibleMap refuses arrays on a path as well). Tested on the real code on every run (probes path-array-index, path-array-star, path-array-name, path-empty-segment, path-empty-name of the accept stream, pinned outcomes in the evidence; a drift breaks the run)",
        "a point id is an opaque symbol in the models: it stands for the PARSED uuid. `_id` queries parse their values with uuid.Parse, so upper-case hex, `urn:uuid:`, braces and the 32-digit form name the same point and any other text fails the whole search; the harness sends canonical lower-case text only. Tested on every run (probe id-canonical-forms)",
        "an integer value is an msgpack int64 and a float value an msgpack float64 (what the API layer writes after CheckCompatibleMap): the shard refuses int8 … uint64 under an integer index and float32 under a float index, and at the shard API integers and floats do NOT mix (3.0 under an integer index and 3 under a float index are refused — in the compared stream); the conversions the documentation's JSON examples rely on happen in CheckCompatibleMap (which also truncates 3.7 to 3 and refuses an explicit null or \"_delete\" under an integer index). Tested on every run (probes int-narrow-encoding, int-uint64, float-float32, api-check-compatible-map)",
    ],
}


# ------------------------------------------------------------------------------------------------------------------
# Whose disagreement is it?  The compose / rank streams run the COMBINED model (point store + filters + flat + text +
# answer pipeline); a line of them that differs need not be a statement about filters.  Each differing line (and each
# oracle failure raised in those streams) is classified by its op kind and by which sub-model produced the difference:
#   * compose `insert` answered `ok!nodeids` by the model: the ids the shard allocated differ from the model's -> C01
#   * compose `searchx` (select / sort / offset / limit over a filter query Q): the plain filter request `search Q` is
#     re-run on the same write history, implementation and model; if both agree the filter part is intact and the
#     difference lies in select / sort / paging / back-fill (C06) or in the stored document (C01)
#   * rank `fdump` / `tdump`: the flat bucket is C04's, the text postings are C05's (read through C19's term-key codec)
#   * rank `searchr`: a tree without a ranking leaf is a pure filter request (stays here); otherwise every filter it
#     contains (pre-filters and filter leaves) is re-run alone (`searchr <filter>`); if all agree the difference is in
#     the ranking: C04 (flat leaf), C05 (text leaf), C06 (+ the leaves' indexes) for a composite tree
# Everything else - schema / lower / update / delete / search / dump lines, a probe that differs or could not be run -
# stays a disagreement of this check.

def _filter_set(ans):
    """the answer of a pure filter request as a SET of points (C02's statement is about which points are returned; the order
    of filter-only points is the node-id order of the back-fill - C06 / C01 - and, in a replay, the real shard may hand out
    other node ids than the recorded ones the model is given: Go map order of a delete's free list)"""
    a = ans.strip()
    for pre in ("u=", "ids:"):
        if a.startswith(pre):
            return pre + ",".join(sorted(x for x in a[len(pre):].split(",") if x))
    return ans


def _probes_agree(got, probes):
    return bool(got) and len(got) == len(probes) and all("!!" not in a and _filter_set(a) == _filter_set(b) for _, a, b in got)


def _classify_stream(r, ctx, stream, mode, dis, ops):
    """-> (own, foreign): `dis` are the differing lines of one stream ({"line", "op", "impl", "model"})"""
    own, foreign, need = [], [], {}
    for d in dis:
        op = d["op"]
        kind = op.split(" ", 1)[0]
        i = d["line"] - 1
        if kind == "insert" and d["model"] == "ok!nodeids" and d["impl"] == "ok":
            foreign.append(dict(d, owners=["C01"], why="the write is accepted by both; the node ids the shard allocated differ from the ones the point-store model allocates"))
        elif stream == "rank" and kind == "fdump":
            foreign.append(dict(d, owners=["C04"], why="the content of the flat vector bucket index/vectorFlat/v differs"))
        elif stream == "rank" and kind == "tdump":
            foreign.append(dict(d, owners=["C05", "C19"], why="the postings / corpus size of the text bucket index/text/t differ (C05), as read through the term-key codec of text.go (C19)"))
        elif stream == "compose" and kind == "searchx":
            q = blame.searchx_query(op)
            if q is None:
                own.append(d)
            else:
                need[i] = (d, ["search " + " ".join(q)], ["C06", "C01"], "the plain filter request `search Q` on the same history agrees with the model: the difference is in select / sort / offset / limit / back-fill order or in the stored document")
        elif stream == "rank" and kind == "searchr":
            t = blame.parse_rq(op.split()[1:])
            if t is None or t[1] or not blame.rq_rank_kinds(t[0]):
                own.append(d)   # unparsable, or a pure filter tree: `_and` / `_or` over filters is C02's statement
                continue
            fs = blame.rq_filters(t[0])
            owners = blame.rank_owners(t[0])
            if not fs:
                foreign.append(dict(d, owners=owners, why="the request contains no filter at all: the difference is in the ranking (score / distance / order / cut / merge)"))
            else:
                need[i] = (d, ["searchr " + " ".join(f) for f in fs], owners, "every filter of the request (pre-filters, filter leaves), re-run alone on the same history, agrees with the model: the difference is in the ranking (score / distance / order / cut / merge)")
        else:
            own.append(d)
    if need:
        res = blame.probe(r, ctx["hbin"], "C02", mode, ops, {i: v[1] for i, v in need.items()}, os.path.join(ctx["rundir"], "blame"), stream)
        for i, (d, probes, owners, why) in sorted(need.items()):
            got = (res or {}).get(i)
            if _probes_agree(got, probes):
                foreign.append(dict(d, owners=owners, why=why, probes=[p for p, _, _ in got]))
            else:
                if got:
                    d = dict(d, probes=[{"op": p, "impl": a, "model": b} for p, a, b in got if "!!" in a or _filter_set(a) != _filter_set(b)][:3])
                own.append(d)
    return own, foreign


def _diff_all(r, ops_path, impl_path, model_path):
    dis, n = r.diff_lines(ops_path, impl_path, model_path, limit=1 << 30)
    return dis, n, open(ops_path).read().splitlines()


def _classify_oracle(r, ctx, f, lowers):
    """an oracle failure raised in the compose / rank stream: (owners, why) when its filter part is shown intact"""
    sig = f.get("signature", "")
    hist = [l for l in f.get("replay", "").splitlines() if l.strip() and not l.startswith("#")]
    if not hist:
        return None
    req = hist[-1]
    if sig.startswith("compose:page-order:") and req.startswith("searchx "):
        q = blame.searchx_query(req)
        if q is None:
            return None
        probes, mode, owners = ["search " + " ".join(q)], "compose", ["C06"]
        why = "the plain filter request `search Q` on the same history satisfies the filter oracle and agrees with the model: the page / order of the full request is wrong, not the filter"
        ops = lowers + hist
    elif sig.startswith("compose-rank:flat-") and req.startswith("searchr "):
        t = blame.parse_rq(req.split()[1:])
        if t is None or t[1]:
            return None
        fs = blame.rq_filters(t[0])
        owners, mode = ["C04"], "rank"
        why = "the flat-search oracle (count / candidates / distance / nearest / hybrid score) fails while the request's pre-filter, re-run alone on the same history, agrees with the model"
        if not fs:
            return owners, "the flat-search oracle (count / candidates / distance / nearest / hybrid score) fails on a request without any filter"
        probes = ["searchr " + " ".join(x) for x in fs]
        ops = hist
    else:
        return None
    i = len(ops) - 1
    res = blame.probe(r, ctx["hbin"], "C02", mode, ops, {i: probes}, os.path.join(ctx["rundir"], "blame"), "oracle-" + "".join(c if c.isalnum() else "-" for c in sig)[:60])
    got = (res or {}).get(i)
    if _probes_agree(got, probes):
        return owners, why
    return None


def run(ctx):
    """The standard correspondence (C02 model on ops.txt) and, on the same histories, the correspondence of the
    COMBINED model of SemaModel/Compose (`semadriver C02 compose` on compose/ops.txt: every write, search and
    bucket dump again, node ids allocated by the model, plus the `searchx` full-pipeline requests)."""
    r = ctx["runner"]
    rundir, tier = ctx["rundir"], ctx["tier"]
    res = {"stats": {}, "disagreements": [], "compared": 0, "broken": [], "foreign": []}
    lowers = []
    if not ctx["hok"]:
        return res
    args = [ctx["hbin"], "-seed", str(ctx["seed"]), "-out", rundir] + [str(a) for a in SPEC["harness_args"][tier]]
    rc, hout, dt = r.sh(args, env=r.GOENV, timeout=SPEC["timeout"][tier])
    r.log(f"harness c02: rc={rc} ({dt:.1f}s)")
    if rc != 0 or not os.path.exists(os.path.join(rundir, "stats.json")):
        res["broken"].append(("harness-run", "c02", hout[-3000:]))
        return res
    stats = json.load(open(os.path.join(rundir, "stats.json")))
    if not ctx["dok"]:
        res["broken"].append(("driver-build", "semadriver", "lake build semadriver failed"))
        res["stats"] = stats
        return res
    p = lambda *a: os.path.join(rundir, *a)
    have_compose = os.path.exists(p("compose", "ops.txt"))
    have_rank = os.path.exists(p("rank", "ops.txt"))
    have_accept = os.path.exists(p("accept", "ops.txt"))
    # the model runs are independent: run them side by side
    from concurrent.futures import ThreadPoolExecutor
    with ThreadPoolExecutor(max_workers=4) as ex:
        f1 = ex.submit(r.run_driver, "C02", p("ops.txt"), p("model.txt"))
        f2 = ex.submit(r.run_driver, "C02", p("compose", "ops.txt"), p("compose", "model.txt"), ("compose",)) if have_compose else None
        f3 = ex.submit(r.run_driver, "C02", p("rank", "ops.txt"), p("rank", "model.txt"), ("rank",)) if have_rank else None
        f4 = ex.submit(r.run_driver, "C02", p("accept", "ops.txt"), p("accept", "model.txt"), ("accept",)) if have_accept else None
        ok, err = f1.result()
        ok2, err2 = f2.result() if f2 else (False, "")
        ok3, err3 = f3.result() if f3 else (False, "")
        ok4, err4 = f4.result() if f4 else (False, "")
    if not ok:
        res["broken"].append(("driver-run", "semadriver C02", err[-2000:]))
    else:
        dis, n = r.diff_lines(p("ops.txt"), p("impl.txt"), p("model.txt"))
        res["disagreements"] += dis
        res["compared"] += n
    if have_compose:
        if not ok2:
            res["broken"].append(("driver-run", "semadriver C02 compose", err2[-2000:]))
        else:
            dis, n, cops = _diff_all(r, p("compose", "ops.txt"), p("compose", "impl.txt"), p("compose", "model.txt"))
            lowers = [l for l in cops if l.startswith("lower ")]
            dis, foreign = _classify_stream(r, ctx, "compose", "compose", dis, cops)
            for d in dis:
                d["mode"] = "combined model (semadriver C02 compose); replay the history up to this line"
            for d in foreign:
                d["stream"] = "compose (semadriver C02 compose)"
            res["disagreements"] += dis[:20]
            res["foreign"] += foreign
            res["compared"] += n
            cst = json.load(open(p("compose", "stats.json")))
            stats["compose_op_lines"] = cst.get("evaluations", 0)
            stats["compose_distinct_nontrivial"] = cst.get("distinct_nontrivial", 0)
            for k, v in cst.get("distribution", {}).items():
                if k.startswith("searchx"):
                    stats.setdefault("distribution", {})[k] = v
                    stats["evaluations"] = stats.get("evaluations", 0) + v
            stats["samples"] = stats.get("samples", []) + [s for s in cst.get("samples", []) if s.startswith("searchx")][:4]
    else:
        res["broken"].append(("harness-run", "c02 -searchx", "the harness wrote no compose/ops.txt"))
    # the combined model WITH RANKING INDEXES (`semadriver C02 rank` on rank/ops.txt: histories on shards with a filter,
    # a vectorFlat and a text index; index dumps after every batch; plain and hybrid `searchr` requests)
    if have_rank:
        if not ok3:
            res["broken"].append(("driver-run", "semadriver C02 rank", err3[-2000:]))
        else:
            dis, n, rops = _diff_all(r, p("rank", "ops.txt"), p("rank", "impl.txt"), p("rank", "model.txt"))
            dis, foreign = _classify_stream(r, ctx, "rank", "rank", dis, rops)
            for d in dis:
                d["mode"] = "combined model with ranking indexes (semadriver C02 rank); replay the history up to this line"
            for d in foreign:
                d["stream"] = "rank (semadriver C02 rank)"
            res["disagreements"] += dis[:20]
            res["foreign"] += foreign
            res["compared"] += n
            rst = json.load(open(p("rank", "stats.json")))
            stats["rank_op_lines"] = rst.get("evaluations", 0)
            stats["rank_distinct_nontrivial"] = rst.get("distinct_nontrivial", 0)
            for k, v in rst.get("distribution", {}).items():
                if k.startswith("searchr") or k in ("fdump", "tdump"):
                    stats.setdefault("distribution", {})["rank:" + k] = v
                    stats["evaluations"] = stats.get("evaluations", 0) + v
            stats["samples"] = stats.get("samples", []) + [s for s in rst.get("samples", []) if s.startswith("searchr")][:4]
    else:
        res["broken"].append(("harness-run", "c02 -rank", "the harness wrote no rank/ops.txt"))
    # ACCEPTANCE: histories of batches on the boundary of `Acceptable` (refused ones run in child processes); the driver
    # prints the combined model's result and the decision of the independent predicate; pinned assumptions of the models
    if have_accept:
        if not ok4:
            res["broken"].append(("driver-run", "semadriver C02 accept", err4[-2000:]))
        else:
            dis, n = r.diff_lines(p("accept", "ops.txt"), p("accept", "impl.txt"), p("accept", "model.txt"))
            for d in dis:
                d["mode"] = "acceptance stream (semadriver C02 accept): `<result>` is the combined model's, `acc=` the independent predicate's; replay the history (from its aschema line) up to this line"
            res["disagreements"] += dis
            res["compared"] += n
            ast = json.load(open(p("accept", "stats.json")))
            stats["accept_op_lines"] = ast.get("evaluations", 0)
            stats["accept_distinct_nontrivial"] = ast.get("distinct_nontrivial", 0)
            stats["accept_counts"] = ast.get("counts", {})
            stats["accept_boundary_classes"] = ast.get("boundary_classes", {})
            stats["accept_assumptions"] = ast.get("assumptions", [])
            for k, v in ast.get("distribution", {}).items():
                if k.startswith("ainsert") or k.startswith("aupdate") or k.startswith("adelete"):
                    stats.setdefault("distribution", {})["accept:" + k] = v
                    stats["evaluations"] = stats.get("evaluations", 0) + v
            stats["samples"] = stats.get("samples", []) + [s for s in ast.get("samples", []) if s.startswith("ainsert") or s.startswith("aupdate")][:4]
            for a in ast.get("assumption_drift", []) or []:
                res["broken"].append(("assumption", "accept-probe " + a.get("name", "?"),
                                      "a behaviour of the real code that the models assume (props/C02.py assumptions) changed: " + a.get("what", "") +
                                      " -- expected: " + a.get("expected", "") + " -- observed: " + a.get("observed", "")))
    elif "-accept" in [str(a) for a in SPEC["harness_args"][tier]]:
        res["broken"].append(("harness-run", "c02 -accept", "the harness wrote no accept/ops.txt"))
    # oracle failures raised in the compose / rank streams (signatures compose:page-order:*, compose-rank:flat-*): the same question
    if ok2 or ok3:
        kept = []
        for f in stats.get("oracle_failures", []) or []:
            who = _classify_oracle(r, ctx, f, lowers) if str(f.get("signature", "")).startswith("compose") else None
            if who:
                res["foreign"].append({"oracle": f["signature"], "what": f.get("what", ""), "owners": who[0], "why": who[1], "replay": f.get("replay", ""), "stream": "oracle of the compose / rank stream"})
            else:
                kept.append(f)
        stats["oracle_failures"] = kept
    res["stats"] = stats
    return res


def search(ctx):
    """A proof obligation or the correspondence broke and the standard run saw no oracle failure:
    look harder for a concrete input on which the real code violates the property (other seeds,
    longer histories)."""
    r = ctx["runner"]
    known = ctx.get("known", [])
    import re
    for i in range(1, 7):
        d = os.path.join(ctx["rundir"], f"search{i}")
        args = [ctx["hbin"], "-seed", str(ctx["seed"] * 1000 + i), "-out", d, "-shards", "40", "-batches", "24", "-searches", "30"]
        try:
            subprocess.run(args, env=r.GOENV, timeout=600, stdout=subprocess.DEVNULL, stderr=subprocess.DEVNULL)
            st = json.load(open(os.path.join(d, "stats.json")))
        except Exception:
            continue
        for f in st.get("oracle_failures", []):
            if any(k.get("status") == "open" and re.fullmatch(k["signature"], f["signature"]) for k in known):
                continue
            return {"signature": f["signature"], "what": f["what"], "replay": f["replay"]}
    return None
