"""C18 - no request can crash the server; invalid input is refused without side effects.

Proof part: SemaModel/C18 (decision logic after decoding, paging arithmetic generated from the source).
Testing part: go/cmd/c18 (HTTP fuzzer against a real node in a child process + model correspondence).
"""
import json, os, re

SPEC = {
    "lean_modules": ["SemaModel.C18.Props", "SemaModel.C18.Tie", "SemaModel.C18.EnumDepth"],
    "lean_dirs": ["SemaModel/C18"],
    "harness": "c18",
    "harness_args": {"quick": ["-n", 1500], "thorough": ["-n", 9000, "-deepmp", 6000000]},
    "timeout": {"quick": 900, "thorough": 3000},
    "level": "proof",
    "level_note": "PARTIAL: proof covers the decision logic after decoding (every Validate(), CheckCompatibleMap, ValidateSchema, "
                  "ExtractIdField, size / plan checks, what reaches an index or a distance closure) and the paging arithmetic; "
                  "'for all byte strings', the JSON / MessagePack decoders and panic-freedom of the handlers' Go code are covered by "
                  "fuzzing a real node over HTTP (TESTING, not proof)",
    "tie": "T2: tools/facts_c18 regenerates Generated/FactsC18.lean from the working tree on every run - numeric limits (as inclusive "
           "ranges, so a flipped comparison shows), accepted string sets, the decision skeleton of all validation code and of indexManager.Search (what is executed of a query), "
           "the recursion sites of Query.Validate / Query.ValidateSchema / indexManager.Search (which list, which filter, under which case: "
           "C18_pin_dispatch), the middleware chain, the route tables - pinned by C18_pin_*; the paging arithmetic of Shard.SearchPoints is TRANSLATED (sliceLo/sliceHi) and "
           "C18_slice_bounds is proved about the translation. T3: every fuzzed request the real decoder accepts or refuses is rendered "
           "into the model's abstract JSON and the HTTP status is compared with the model's decision; uuid.Parse, CheckCompatibleMap + "
           "marshalled size, msgpack Query and page sizes are compared in-process / over HTTP on op lines.",
    "required_theorems": [
        "Sema.C18.C18_vec_len", "Sema.C18.C18_vec_len_search", "Sema.C18.C18_vec_len_stored",
        "Sema.C18.C18_accept_wf", "Sema.C18.C18_reject_pure", "Sema.C18.C18_no_panic", "Sema.C18.C18_headers",
        "Sema.C18.C18_search_dormant", "Sema.C18.C18_search_status_live", "Sema.C18.C18_wrong_length_refused", "Sema.C18.C18_v1_by_type",
        "Sema.C18.C18_slice_bounds", "Sema.C18.C18_slice_bounds_pinned",
        "Sema.C18.C18_pin_limits", "Sema.C18.C18_pin_enums", "Sema.C18.C18_pin_chain", "Sema.C18.C18_pin_routes", "Sema.C18.C18_pin_dispatch", "Sema.C18.C18_pin_skeleton",
        # round 4 (SemaModel/C18/EnumDepth.lean): enum-typed fields outside their set are refused (the empty string = a missing /
        # null / "" field included); no level of a query is counted: verdicts are the same below any number of well-formed
        # levels, and a sub-query that fails schema validation anywhere in the executed part refuses the request
        "Sema.C18.C18_enum_missing_refused", "Sema.C18.C18_enum_empty_unaccepted",
        "Sema.C18.C18_depth_transparent", "Sema.C18.C18_depth_status", "Sema.C18.C18_deep_bad_refused",
        # tie theorems (SemaModel/C18/Tie.lean): ProductQ.valid = the Validate generated from models/quantizer.go
        "Sema.C18.C18_tie_productQ", "Sema.C18.C18_tie_productQ_error",
    ],
    "trusted_base": [
        "tools/facts_c18 (go/ast extractor: comparison -> inclusive range normalisation, constant resolution, translation of the paging "
        "slice expression to BitVec 64 with signed min/max and wrapping +/-)",
        "the model's reading of the Go code (SemaModel/C18/Model.lean): typed decoding is outside the model - the harness decodes with the "
        "real decoder into the real request structs and renders the result; msgpack Marshal/Unmarshal of a point is the identity on the "
        "abstract value; float32 rounding of vector elements and float->int conversion of values are not modelled (only kinds and counts decide)",
        "Base/Float.lean IEEE comparison on bit patterns (alpha bounds, float range queries)",
        "Go map iteration order: the model visits schema entries in list order; theorems hold for every list (hence every order)",
        "fuzzing part: generator quality bounds what is found; the oracle sees HTTP status, process liveness and state read back through the API",
    ],
    "assumptions": [
        "stored schemas passed IndexSchema.Validate when the collection was created (C18_no_panic, C18_accept_wf search clause)",
        "valid requests are judged for 5xx only while stored / query vectors are finite and below 1e15 in magnitude (property text)",
        "single node; RPC to other nodes, bbolt, the OS are outside (see DESIGN section 5)",
    ],
}


def _replay_for(rundir, line_no):
    try:
        with open(os.path.join(rundir, "replays.txt")) as f:
            for l in f:
                n, _, rest = l.rstrip("\n").partition("\t")
                if int(n) == line_no:
                    return rest.split("\x1f")
    except OSError:
        pass
    return []


def search(ctx):
    """Called when a proof obligation or the correspondence broke and the oracle itself saw no failure.
    A status disagreement between model and implementation IS a concrete input: if the model (documented
    limits) refuses what the server accepted, the property's first clause fails on that input."""
    dis = ctx.get("disagreements") or []
    for want_accepted_invalid in (True, False):
        for d in dis:
            op = d["op"]
            if not op.startswith("h "):
                continue
            impl, model = d["impl"], d["model"]
            accepted_invalid = impl.startswith("2") and model.startswith("4")
            if accepted_invalid != want_accepted_invalid:
                continue
            ep = op.split()[1]
            lines = _replay_for(ctx["rundir"], d["line"])
            what = ("request refused by the documented validation rules (model: %s) was answered %s" % (model, impl)) if accepted_invalid else \
                   ("model and implementation disagree on the status (model %s, implementation %s)" % (model, impl))
            return {"signature": "status:%s:model=%s:impl=%s" % (ep, model, impl), "what": what,
                    "replay": "\n".join(lines + [op, "# implementation: " + impl, "# model: " + model])}
    for d in dis:
        return {"signature": "op:%s" % d["op"].split()[0], "what": "pure op line differs: impl %s model %s" % (d["impl"], d["model"]),
                "replay": d["op"] + "\n# implementation: " + d["impl"] + "\n# model: " + d["model"]}
    return None
