import json, os

SPEC = {
    "lean_modules": ["SemaModel.C10.Props", "SemaModel.C10.Links", "SemaModel.C10.Tie"],
    "lean_dirs": ["SemaModel/C10", "SemaModel/C03", "SemaModel/C01"],
    "harness": "c10",
    "harness_args": {"quick": ["-n", 1200, "-len", 14], "thorough": ["-n", 9000, "-len", 18]},
    "timeout": {"quick": 600, "thorough": 2400},
    "level": "proof",
    "tie": "T3: after every batch of random histories on a real file-backed shard the index/points/internal buckets are dumped through (*Shard).VerifDB() and the Lean executable predicate wfB (the very definition WF of C10_step / C10_history) is evaluated on the dump by the driver; batches that reach the index as one change (single insert worker, deterministic) are replayed by the Lean model `apply` of insertUpdateDelete on the previous dump with the real distance tables (DistanceFromFloat / DistanceFromPoint of a vector store opened on the persisted bucket, Alpha*d as float32) and must reproduce the new dump's edge lists, vectors and maxNodeId exactly (the Go-map order of the rescue step is an oracle: the driver accepts any order of the rescued nodes that reproduces the dump); the index schema keys are flat (v, g) in 45 % and NESTED paths (n.v, n.m.v, a.b.c.v; filter property flat / sibling of the leaf / under another parent) in 55 % of the configurations, documents and updates are trees (updates replace or delete the top-level object above the leaf, carry a sibling only, an empty object, a nil leaf, an unrelated key); for every batch element whose point is named once a `doc` line carries the stored document before, the incoming document and whether the index held a vector for the node: the Lean `pstep` (top-level merge + dec.Query(schema path) on both documents + getOperation/preProcessVamana) must reproduce the document stored afterwards, whether the index holds a vector for the node now and (plain store) which one; batches that reach the index as SEVERAL changes get a `batch` line built from what the index itself recorded (hooks shard/index/vamana/verif_batch_on.go: the change stream the transform function received, what it filed each change under, the node store once the insert workers were waited for, EdgeScan's result): the Lean bookkeeping `classes` must equal the recorded inserted / updated / deleted / touched lists and maxNodeId, the observed mid graph must have the node set the model says and satisfy the Lean `wfB` for the old live points plus the inserted ones (the hypothesis of C10_step_any_workers), its edge lists must equal the model's when at most one point went to the workers, `toPrune` / `toSave` must equal EdgeScan's sets, and the Lean `tail` (removeInboundEdges with any delete set, both Deletes, every re-insert in order) started from the observed mid graph with the real distances must reproduce the dump after the batch exactly (node/vector sets only when the distance tables are not available: quantiser trained in the batch, > 26 vectors, NaN); a `docs` line replays the whole change stream of a multi-element batch (points named several times included) through the Lean `pbatch` against the recorded stream and (plain store) the Lean `vecsAfter` against the raw vector the index persisted per node",
    "required_theorems": [
        "Sema.C10.C10_wf_meaning", "Sema.C10.C10_init", "Sema.C10.C10_step", "Sema.C10.C10_history_from",
        "Sema.C10.C10_history", "Sema.C10.C10_reserved_ids_rejected", "Sema.C10.C10_defect13_witness",
        "Sema.C10.C10_stream_complete", "Sema.C10.C10_stream_live", "Sema.C10.C10_stream_vectors",
        "Sema.C10.C10_shard_step", "Sema.C10.C10_shard_history_from", "Sema.C10.C10_shard_history",
        "Sema.C10.C10_withheld_change_witness",
        # multi-change batches and the parallel insert workers
        "Sema.C10.C10_apply_phases", "Sema.C10.C10_classes", "Sema.C10.C10_step_any_workers", "Sema.C10.C10_sequential_workers",
        # the last clause of the property (SemaModel/C10/Links.lean): by import from C01 and C03
        "Sema.C10.C10_ids", "Sema.C10.C10_ids_store", "Sema.C10.C10_search_ok",
        # tie theorems (SemaModel/C10/Tie.lean): changeOf = the getOperation generated from shard/index/utils.go + Dispatch's tests + preProcessVamana
        "Sema.C10.C10_tie_changeOf", "Sema.C10.C10_tie_qv_error", "Sema.C10.C10_tie_changeOf_eq",
    ],
    "trusted_base": [
        "SemaModel/C10/Model.lean + SemaModel/C03/Model.lean: hand-written model of insertUpdateDelete / insertSinglePoint / robustPrune / removeInboundEdges / EdgeScan / pruneDeleteNeighbour / greedySearch / DistSet; tied to the code by the correspondence above, not by translation",
        "insert workers: `apply` runs them sequentially (one of the real schedules). C10_step_any_workers covers every other behaviour under ONE hypothesis about the graph the workers leave (well-formed for the old live points plus the inserted ones); that hypothesis is not proved for the parallel Go workers, it is evaluated by the Lean predicate on the node store observed at that moment of every real multi-change batch that touches existing points, and on the dump after every batch otherwise",
        "a rejected batch leaves the persisted state unchanged (bbolt rollback + scrapped shared cache: C07/C11)",
        "SemaModel/C10/Model.lean, section 'the point store and the index change stream' (Doc / query / mergeDoc / changeOf / pstep / pbatch): hand-written model of the transform functions of InsertPoints / UpdatePoints / DeletePoints and of getOperation / preProcessVamana, documents flattened to leaf paths; tied by the `doc` lines above; msgpack's Decoder.Query is modelled (value at a dotted path, nil = absent, error on a scalar in the way), not translated",
        "ItemCache / bbolt / msgpack: the flushed bucket content equals the in-memory stores after a successful batch (C08); documents decode with msgpack (the harness decides 'carries the field' by decoding n<id>d)",
        "node ids in the change stream are those of the point store: unique among live points, an inserted id is not live (C10_ids = C01's invariant C01_history; the two models are linked by the key list only — `C10_ids_store` — not by a simulation between C01's and C10's document types; also observed on every dump by the harness: uuid<->node id maps are mutually inverse, free list disjoint from live ids, without duplicates and below nextFreeNodeId, pointCount exact)",
        "an index bucket that was never written is identified with the fresh index (entry node only): NewIndexVamana materialises the entry node with a random vector on first use",
    ],
    "assumptions": [
        "degreeBound >= 1 (validation demands 32..64; the harness uses 1..5 through the shard API, which does not validate)",
        "distances are any function into a type with a decidable '<' (no NaN hypothesis is needed for well-formedness)",
    ],
}


def search(ctx):
    """A proof obligation or the correspondence broke without an oracle failure in the standard run:
    look harder for a history on which the real index violates well-formedness."""
    r = ctx["runner"]
    for extra in range(1, 4):
        out = os.path.join(ctx["rundir"], f"search{extra}")
        rc, o, _ = r.sh([ctx["hbin"], "-seed", str(ctx["seed"] * 7919 + extra), "-out", out, "-n", "1500", "-len", "20"], env=r.GOENV, timeout=1500)
        try:
            st = json.load(open(os.path.join(out, "stats.json")))
        except Exception:
            continue
        for f in st.get("oracle_failures", []):
            if not any(k.get("status") == "open" and __import__("re").fullmatch(k["signature"], f["signature"]) for k in ctx.get("known", [])):
                return {"signature": f["signature"], "what": f["what"], "replay": f["replay"]}
    return None
