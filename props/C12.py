"""C12 — shard loading, idle unloading and collection deletion are safe and deadlock-free.

Proof: invariants of the labelled transition system SemaModel/C12/Model.lean (any number of requests,
deletions, shards; every interleaving), deadlock freedom by a lock-order argument, the deadlock of the
pinned lock order as a closed witness.  Tie: T2 (tools/facts_c12 re-extracts the lock skeletons of
cluster/shardmgr.go on every run; Props.lean pins them) + T3 (schedules generated from the model are
forced on the real ShardManager through the verifYield hooks and the observable traces are compared
step by step; the property oracle is evaluated on the real traces; unforced stress with a watchdog).
"""
import json, os, subprocess, time

SPEC = {
    "lean_modules": ["SemaModel.C12.Props"],
    "lean_dirs": ["SemaModel/C12"],
    "harness": "c12",
    "level": "proof",
    "tie": "T2: tools/facts_c12 regenerates the lock skeletons (lock/unlock/defer/map/channel/fs operations and yield points in source order) of loadShard, cleanupRoutine, DoWithShard, DeleteCollectionShards into Generated/FactsC12.lean, pinned by `decide` in Props.lean against the skeletons the model was written from; T3: model-generated schedules (quick: seeded random walks; thorough: a transition cover of the state graphs of 4 small configurations) are forced on the real ShardManager via verifYield hooks, traces compared per step, property oracle evaluated on the real traces, plus unforced stress with a watchdog; loads that fail are part of both: the model's environment acts xB (database file becomes garbage) / xF (a non-directory at the shard path) are executed by the harness on the file system before / between the calls, the request must return the clean error and every later call must make progress (forced schedules: 3 fixed + 3 of the 7 configurations; stress: a never-deleted collection with one garbage and one blocked shard receives 1/8 of the requests)",
    "required_theorems": [
        "Sema.C12.C12_no_use_after_close", "Sema.C12.C12_single_open", "Sema.C12.C12_no_remove_in_use",
        "Sema.C12.C12_clean_error", "Sema.C12.C12_deadlock_free", "Sema.C12.C12_reload",
        "Sema.C12.C12_deadlock_witness_pinned", "Sema.C12.C12_skeleton_pinned",
        "Sema.C12.C12_failed_load_clean", "Sema.C12.C12_load_error_releases", "Sema.C12.C12_returned_holds_nothing",
    ],
    "trusted_base": [
        "the meaning given to Go's sync.Mutex, sync.RWMutex (writer preference: a pending Lock blocks new RLocks; Unlock admits all queued readers), unbuffered channels with non-blocking sends, select, and time.Timer in SemaModel/C12/Model.lean",
        "tools/facts_c12 (go/ast walk) and the hand-written correspondence between the extracted skeleton tokens and the step relation (cross-checked dynamically: the harness checks that every released goroutine arrives at the yield point the model predicts)",
        "bbolt: Open takes an exclusive flock on the file (a second Open blocks, up to 1 minute), Close releases it and waits for open transactions; cache.Manager.Release and Shard.Backup do not touch the shard manager's locks",
        "blocked states are recognised from runtime.Stack wait reasons (sync.Mutex.Lock, sync.RWMutex.Lock/RLock, select)",
        "outside the model: Go memory model / data races on plain fields (ls.shard is only accessed under ls.mu; sm.shardStore only under shardLock — checked syntactically by the skeleton, not by a race detector), RPCSendShard writing shard files behind the manager's back (C14), callbacks that re-enter the shard manager (the five callbacks in rpchandlers.go do not; pinned by facts_c12)",
    ],
    "assumptions": [
        "callbacks passed to DoWithShard terminate and do not call the shard manager",
        "file system operations (MkdirAll, RemoveAll, bbolt Open/Close) terminate; MkdirAll fails exactly when a non-directory sits at the shard path and NewShard fails exactly when the database file is not a bbolt file (both are events of the model and of the harness: Act.block / Act.corrupt, a 64 KiB garbage sharddb.bbolt, a regular file at the directory path); other OS failures (RemoveAll, Close, ReadDir) are not modelled",
    ],
}


def _sh(cmd, cwd=None, env=None, timeout=None, stdin=None):
    t0 = time.time()
    p = subprocess.run(cmd, cwd=cwd, env=env, timeout=timeout, stdin=stdin, stdout=subprocess.PIPE, stderr=subprocess.PIPE, text=True, errors="replace")
    return p.returncode, p.stdout, p.stderr, time.time() - t0


def run(ctx):
    R = ctx["runner"]
    rundir, tier, seed = ctx["rundir"], ctx["tier"], ctx["seed"]
    broken, stats, disagreements, compared = [], {}, [], 0
    if not ctx["hok"] or not ctx["dok"]:
        if not ctx["dok"]:
            broken.append(("driver-build", "semadriver", "model driver did not build"))
        return {"stats": stats, "disagreements": disagreements, "compared": compared, "broken": broken}
    drv = R.driver_exe("C12")
    # which variant of the model does the source correspond to (T2)?
    rc, out, err, _ = _sh([drv, "C12", "variant"])
    variant = out.strip()
    if variant not in ("pinned", "repaired"):
        broken.append(("skeleton", "cluster/shardmgr.go", "the extracted lock skeleton matches neither the repaired nor the pinned model variant"))
        variant = "repaired"
    elif variant == "pinned":
        broken.append(("skeleton", "cluster/shardmgr.go", "cleanupRoutine takes shardLock while holding ls.mu (the lock order of the pinned tree): C12_deadlock_witness_pinned applies"))
    # schedules from the model
    sched = os.path.join(rundir, "scheds.txt")
    with open(sched, "w") as f:
        p = subprocess.run([drv, "C12", "gen", variant, tier, str(seed)], stdout=f, stderr=subprocess.PIPE, text=True, timeout=1200)
    if p.returncode != 0:
        broken.append(("driver-run", "semadriver C12 gen", p.stderr[-2000:]))
        return {"stats": stats, "disagreements": disagreements, "compared": compared, "broken": broken}
    nsched = sum(1 for l in open(sched) if l.startswith("sched "))
    cover = [l[2:].strip() for l in open(sched) if l.startswith("# cover ")]
    R.log(f"C12: model variant {variant}; {nsched} schedules ({tier})")
    dur = 8000 if tier == "quick" else 40000
    rc, out, err, dt = _sh([ctx["hbin"], "-scheds", sched, "-seed", str(seed), "-out", rundir, "-stress", "-dur", str(dur), "-par", str(max(2, min(8, (os.cpu_count() or 4) // 2)))], env=R.GOENV, timeout=3000)
    R.log(f"harness c12: rc={rc} ({dt:.1f}s)")
    sp = os.path.join(rundir, "stats.json")
    if rc != 0 or not os.path.exists(sp):
        broken.append(("harness-run", "c12", (out + err)[-3000:]))
        return {"stats": stats, "disagreements": disagreements, "compared": compared, "broken": broken}
    stats = json.load(open(sp))
    stats["model_variant"] = variant
    stats["transition_cover"] = cover
    ok, derr = R.run_driver("C12", os.path.join(rundir, "ops.txt"), os.path.join(rundir, "model.txt"))
    if not ok:
        broken.append(("driver-run", "semadriver C12", derr[-2000:]))
    else:
        disagreements, compared = R.diff_lines(os.path.join(rundir, "ops.txt"), os.path.join(rundir, "impl.txt"), os.path.join(rundir, "model.txt"))
        # shorten: show the first differing step of each disagreeing schedule
        for d in disagreements:
            a, b = d["impl"].split(" "), d["model"].split(" ")
            k = next((i for i in range(min(len(a), len(b))) if a[i] != b[i]), min(len(a), len(b)))
            d["first_difference"] = {"step": k, "impl": a[k] if k < len(a) else "<end>", "model": b[k] if k < len(b) else "<end>"}
    return {"stats": stats, "disagreements": disagreements, "compared": compared, "broken": broken}


def search(ctx):
    """Called when a tie or an obligation broke but the standard run found no oracle failure: force a
    larger sample of schedules (other seeds) and run a longer stress, looking for a real violation."""
    R = ctx["runner"]
    drv = R.driver_exe("C12")
    rc, out, err, _ = _sh([drv, "C12", "variant"])
    variant = out.strip() if out.strip() in ("pinned", "repaired") else "repaired"
    for k in range(1, 4):
        d = os.path.join(ctx["rundir"], f"search{k}")
        os.makedirs(d, exist_ok=True)
        sched = os.path.join(d, "scheds.txt")
        with open(sched, "w") as f:
            subprocess.run([drv, "C12", "gen", variant, "quick", str(ctx["seed"] * 1000 + k)], stdout=f, timeout=600)
        rc, out, err, dt = _sh([ctx["hbin"], "-scheds", sched, "-seed", str(ctx["seed"] + k), "-out", d, "-stress", "-dur", "20000"], env=R.GOENV, timeout=1200)
        sp = os.path.join(d, "stats.json")
        if os.path.exists(sp):
            st = json.load(open(sp))
            for f in st.get("oracle_failures", []):
                if not any(kf.get("status") == "open" and __import__("re").fullmatch(kf["signature"], f["signature"]) for kf in ctx.get("known", [])):
                    return {"signature": f["signature"], "what": f["what"], "replay": f["replay"]}
    # a disagreement between model and implementation that is not a property violation by itself
    return None
