import json, os, subprocess

SPEC = {
    "lean_modules": ["SemaModel.C05.Props", "SemaModel.C05.Formula", "SemaModel.C05.Pins"],
    "lean_dirs": ["SemaModel/C05"],
    "harness": "c05",
    "harness_args": {"quick": ["-n", 900, "-q", 6], "thorough": ["-n", 6000, "-q", 8]},
    "level": "proof",
    "tie": "T1 (formula): SemaModel/Generated/TextScore.lean and Hybrid.lean are regenerated on every run from the scoring statements of indexText.Search (start value, tf, idf, the whole body of the loop over the query terms, the weight default, HybridScore) with floats as symbolic expression trees (Go.FExpr); ScoreOps.ofGenerated is the model's abstract score arithmetic instantiated with them, C05_score_generated / C05_match_generated compose the generated code with the structural theorem (score = sum over the traversed term order of (count/length) * float32(log10(N/(df+1))), hybrid = score * weight), and the driver evaluates the generated expression on the MODEL's index state against every real _score / _hybridScore (scorecheck lines: some order of the term set, at most 1 float32 ulp for the C library's log10 - measured 0; hybrid bit for bit). "
           "T3: the hand-written model of shard/index/text/text.go (+ the text arm of dispatch.go) is run by the Lean driver on the same batches and queries as a real shard (bbolt file and memory backend alternate); after every batch the real text index bucket (_numDocuments, t<term>s, d<id>) is dumped and compared with the model state, every query answer (ids, order, _score/_hybridScore bit patterns) is compared with the model's answer, the float32 scores being handed to the model as opaque patterns taken from the real code. The property itself is also evaluated directly on every real answer against a corpus kept by the harness and the real bleve analyser. Histories: text-level scenarios (go/cmd/c05/scenarios.txt) replayed first, then random histories whose rewrites are partly derived from the text a point has or had (same tokens / same multiset / same vocabulary and length with frequencies moved / terms exchanged or renamed / one occurrence more or less / every tf kept / another document's text / an earlier text of the point, texts rotating between documents, deleted points coming back with their text); what each rewrite preserved is measured and reported in the distribution. After every batch the stored bucket is also compared with the corpus statistics computed from scratch, and every term on which they differ is queried (the verdict still comes from the property oracle on the real answer).",
    "required_theorems": [
        # formula theorems (Formula.lean; notes/T1ext.md section 8): the scoring expressions generated from text.go, composed with the structural theorem
        "Sema.C05.C05_score_step", "Sema.C05.C05_tf_formula", "Sema.C05.C05_idf_formula", "Sema.C05.C05_score0_formula", "Sema.C05.C05_score_generated", "Sema.C05.C05_match_ordered", "Sema.C05.C05_score_formula", "Sema.C05.C05_hybrid_formula", "Sema.C05.C05_weight_default", "Sema.C05.C05_match_generated",
        "Sema.C05.C05_maintain", "Sema.C05.C05_flush", "Sema.C05.C05_history", "Sema.C05.C05_stats",
        "Sema.C05.C05_inv_unique", "Sema.C05.C05_scratch", "Sema.C05.C05_order", "Sema.C05.C05_order_distinct",
        "Sema.C05.C05_dup_witness", "Sema.C05.C05_match", "Sema.C05.C05_empty_query",
        "Sema.C05.C05_rewrite_record", "Sema.C05.C05_last_write_wins", "Sema.C05.C05_return", "Sema.C05.C05_rotate",
        "Sema.C05.C05_preserved_statistics_witness",
    ],
    "trusted_base": [
        "formula theorems fix the expression structure only: IEEE rounding and the value of log10 are not interpreted; the loop over the query terms ranges over a Go map (order undefined): only its body is translated, theorems quantify over the order; `termSetItem, _ := index.setCache.Get(term)` is abstracted (the posting set is an opaque value of which only GetCardinality() is read)",
        "bleve's `standard` analyser is an arbitrary fixed function Text -> List Term shared by documents and queries (the harness runs the real one and hands the token lists to the model)",
        "roaring bitmaps are finite sets; FastAnd/FastOr of zero bitmaps are empty; msgpack round-trips the document record",
        "the two ItemCaches of one indexText are modelled by their write-back contract (reads see earlier writes of the same batch, Flush persists all of them; an empty posting is deleted) - exercised by comparing the bucket after every batch",
        "float arithmetic: scores are elements of an arbitrary type with an arbitrary commutative associative `add` and a total preorder; the VALUE of a score is compared with a float64 recomputation of tf*log10(N/(df+1)) within a rounding tolerance - that comparison is a test, not a proof",
        "numDocs is a Go uint64; the model uses Nat (the invariant shows it is never decremented at 0)",
        "SemaModel/Base/Float.lean F32.key: IEEE order of non-NaN float32 bit patterns (driver only)",
    ],
    "assumptions": [
        "a query that analyses to zero terms matches nothing (interpretation fixed in DESIGN.md, C05)",
        "`term frequency` in the statement = occurrences / document length, as in the code and the tf-idf reference the docs cite",
        "write batches are valid (no batch is rejected mid-pipeline: DESIGN.md section 8 no. 4)",
        "changes to one point reach processAnalysedDoc in batch order (C05_order); true for ids that are pairwise distinct in a batch, and for all batches once each id is pinned to one analyser worker (fix: commit in the repository worktree); the harness probes which variant the code is",
        "scores are not NaN (numDocs > 0 and length > 0 whenever a document is scored)",
    ],
    "timeout": {"quick": 600, "thorough": 3000},
}


def search(ctx):
    """A tie or an obligation broke without an oracle failure in the standard run: look harder
    (more histories, other seeds) for an input on which the real code violates the property."""
    r = ctx["runner"]
    for k in range(1, 4):
        out = os.path.join(ctx["rundir"], f"search{k}")
        os.makedirs(out, exist_ok=True)
        args = [ctx["hbin"], "-seed", str(ctx["seed"] * 1000 + k), "-out", out, "-n", "400", "-q", "8"]
        try:
            subprocess.run(args, env=r.GOENV, timeout=900, stdout=subprocess.DEVNULL, stderr=subprocess.DEVNULL)
            st = json.load(open(os.path.join(out, "stats.json")))
        except Exception:
            continue
        for f in st.get("oracle_failures", []):
            import re
            if any(k_.get("status") == "open" and re.fullmatch(k_["signature"], f["signature"]) for k_ in ctx.get("known", [])):
                continue
            return {"signature": f["signature"], "what": f["what"], "replay": f["replay"]}
    return None
