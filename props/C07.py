"""C07 - a write batch is all-or-nothing under rejection, storage faults and crashes.

Proof part: lean/SemaModel/C07.
  ASSUMED: bbolt's atomic commit (Disk.write / Obs.writeTx: a write transaction that returns an error keeps
  nothing it did to any bucket; process death = one of its two branches).
  PROVED beyond that (ObserveProps.lean, over the composed shard model of lean/SemaModel/Compose + the shared
  cache layer of shard/cache/manager.go + C08's ItemCache): the observation `answers` = the answer of EVERY
  query (Shard.SearchPoints read THROUGH the shared caches, Info().PointCount) of the running instance is
  unchanged by a batch that reports an error (every fault position incl. inside Flush, the commit, a rejection
  delivered at any progress of the other stages) and equals the observation of the Compose step after a batch
  that reports success; invariant + cache coherence are preserved along histories mixing both;
  C07_partial_cache_witness: the statement is FALSE for the variant that keeps the caches on the error path,
  so it is not a consequence of the storage assumption.
  Props.lean (older part): bookkeeping of an arbitrary program of steps (the disk clause there is the
  assumption restated) + Generated/FactsC07.lean (T2: the entry points of shard/shard.go call
  cacheTx.Commit(true) on every error path).
Correspondence part (run hook):
fault enumeration with go/cmd/c07 - every batch of a random history x every fault position k
(thorough) or a sample (quick), each in its own child process behind a storage proxy; the property
oracle is evaluated on the answers of the running instance and of the reopened file; the
point-store part of every run is replayed by the Lean model (semadriver C07) and compared, and so is the
cache transaction: which shared caches the manager holds after every run (`caches` lines).
"""
import json, os, re, time

SPEC = {
    "lean_modules": ["SemaModel.C07.Props", "SemaModel.C07.ObserveProps", "SemaModel.C07.CachePins"],
    "lean_dirs": ["SemaModel/C07"],
    "harness": "c07",
    "harness_args": {"quick": ["-tier", "quick"], "thorough": ["-tier", "thorough"]},
    "timeout": {"quick": 900, "thorough": 3000},
    "level": "proof",
    "tie": "T2: Generated/FactsC07.lean is regenerated from shard/shard.go on every run (Commit(true) on every error path, Commit(false) on success, counters written only after the merged pipeline error was checked) and pinned by C07_error_paths_commit_fail; T3 as fault enumeration: a storage proxy (VerifWrapDB) fails the k-th Put/Delete/scan, the k-th bucket-manager Get, THE COMMIT ITSELF (the Write callback runs to completion and returns nil, then the proxy makes bbolt roll back and Write return an error: fault position = number of storage calls), or exits at the k-th storage call / right before commit / right after commit, in a child process on a copy of the database file; answers and bucket digests of the running instance and of the reopened file are compared with the pre-batch values (error / death before commit) or with a fault-free run (success / death after commit); the point-store calls and outcomes of the same runs are replayed by the Lean model; the cache transaction of every run that returned is replayed too (`caches` lines: the shared caches held by the real cache.Manager after the batch — name, same object, scrapped — against `Step.cache`/`runBatch` of Model.lean AND `openFlat`/`exec`/`abortWith` of ObserveModel.lean: success keeps every opened cache, a failed commit drops every opened cache, a failing stage drops the reached ones and no cache the batch does not open). The observation theorems (ObserveProps.lean) are over lean/SemaModel/Compose (tied by its own check) and C08's ItemCache model; their non-vacuity examples run the model on Compose's example shard with a warm cache",
    "required_theorems": [
        "Sema.C07.C07_atomic", "Sema.C07.C07_error_observe", "Sema.C07.C07_success_keeps_written",
        "Sema.C07.C07_fault_reports_error", "Sema.C07.C07_rejection_reports_error", "Sema.C07.C07_clean_run_succeeds",
        "Sema.C07.C07_entry_points_atomic", "Sema.C07.C07_crash_is_write_branch_assumed",
        "Sema.C07.C07_error_paths_commit_fail", "Sema.C07.C07_cache_protocol_pinned",
        "Sema.C07.C07_commit_fault_atomic", "Sema.C07.C07_commit_by_closure_flag_not_atomic",
        # what C07 proves beyond its assumption (ObserveProps.lean)
        "Sema.C07.C07_observe_atomic", "Sema.C07.C07_observe_error_any_program", "Sema.C07.C07_observe_history",
        "Sema.C07.C07_partial_cache_witness", "Sema.C07.C07_observe_crash_assumed",
        "Sema.C07.C07_coherent_of_C08", "Sema.C07.C07_flat_write_coherent",
    ],
    "trusted_base": [
        "ASSUMED, not verified: bbolt commits atomically and durably (Base/KV.lean Disk.write, ObserveModel.lean writeTx: a write transaction that returns an error keeps nothing it did to any bucket; process death before commit = its error branch, after commit = its ok branch). Every 'disk identical' clause of Props.lean (C07_atomic, C07_entry_points_atomic, C07_commit_fault_atomic, C07_crash_is_write_branch_assumed) IS this assumption restated — it closes by rfl. Crash points have no proof; they are exercised by the harness only (exit at the k-th storage call, right before and right after commit, then the file is reopened)",
        "PROVED on top of the assumption (ObserveProps.lean): that NO QUERY of the running instance can tell a failed batch from one never issued (C07_observe_atomic, C07_observe_history) — this needs Commit(true) to drop the written caches and the others to be coherent (C08's invariant), and is false without (C07_partial_cache_witness); and that after success every query sees exactly the Compose step. Scope of that proof: the indexes of lean/SemaModel/Compose (point store, inverted, flat vector, text); of these only the flat index uses the shared cache manager; the vamana graph cache is covered by the harness only; abstract numerics (DESIGN 3.2); the body's steps in one sequential order (the error half holds for every program of steps: C07_observe_error_any_program)",
        "the model is the SEQUENTIAL program of a batch; goroutine lifetimes are outside it (the known defect lives there and is found by the harness, not by a theorem)",
        "tools/facts_c07 (go/ast over shard/shard.go)",
        "Bucket.Get cannot return an error in diskstore's interface: storage *reads* are counted and used as crash points, only Put/Delete/ForEach/PrefixScan/RangeScan and BucketManager.Get are failed",
        "cache eviction (checkAndPrune) is not modelled: caches are only created, written, kept or scrapped",
        "msgpack is opaque to the model: merged documents and their encoded sizes are supplied by the harness (computed with the same library calls as UpdatePoints)",
    ],
    "assumptions": [
        "dying right after bbolt committed but before the call returned shows the post-state (the ok branch of the write); the property text's 'before the call reports success' is read as all-or-nothing for that single instant",
        "update batches do not name the same point twice (that is C03/C05's subject)",
    ],
    # Genuine defect of the pinned tree (DESIGN.md section 8 no. 4), to be merged into known_findings.json by the
    # maintainer (this file must not edit it).  Until then the entry below is used by run(): observations whose
    # signature matches are reported as KNOWN-FINDING and removed from the oracle failures; everything else still fails.
    "known_findings": [
        {
            "property": "C07",
            "status": "open",
            "signature": r"(crash|hang|cache-lock-leaked)-after-reject:[a-z-]+",
            "what": "a refused / failing write batch (existing id, oversized merge, wrong field type, storage error, index construction error) returns from the Write closure on the first error while pipeline goroutines are still running: they touch the rolled-back bbolt transaction (nil dereference in bbolt -> the process dies) or enter cache.Transaction.With after Commit(true) (a shared cache stays write-locked -> every later write to that index blocks for ever)",
        }
    ],
}


def _known(runner):
    listed = runner.load_known("C07")
    sigs = {k.get("signature") for k in listed}
    return [k for k in SPEC["known_findings"] if k["signature"] not in sigs]


def _run_harness(ctx, extra_args, tag):
    runner = ctx["runner"]
    out = os.path.join(ctx["rundir"], tag)
    os.makedirs(out, exist_ok=True)
    args = [ctx["hbin"], "-seed", str(ctx["seed"]), "-out", out] + [str(a) for a in extra_args]
    rc, hout, dt = runner.sh(args, env=runner.GOENV, timeout=SPEC["timeout"][ctx["tier"]])
    runner.log(f"harness c07 {' '.join(str(a) for a in extra_args)}: rc={rc} ({dt:.1f}s)")
    stats = None
    if os.path.exists(os.path.join(out, "stats.json")):
        stats = json.load(open(os.path.join(out, "stats.json")))
    return rc, hout, stats, out


def run(ctx):
    runner = ctx["runner"]
    res = {"stats": {}, "disagreements": [], "compared": 0, "broken": []}
    if not ctx["hok"]:
        return res
    rc, hout, stats, out = _run_harness(ctx, SPEC["harness_args"][ctx["tier"]], "main")
    if rc != 0 or stats is None:
        res["broken"].append(("harness-run", "c07", hout[-3000:]))
        return res
    # known finding(s) not yet merged into known_findings.json: report, then take out of the oracle failures
    local = _known(runner)
    kept, seen = [], {}
    for f in stats.get("oracle_failures", []) or []:
        hit = next((k for k in local if re.fullmatch(k["signature"], f["signature"])), None)
        if hit:
            seen.setdefault(hit["signature"], []).append(f)
        else:
            kept.append(f)
    for k in local:
        obs = seen.get(k["signature"], [])
        note = "observed in this run: " + ", ".join(sorted({o["signature"] for o in obs})) if obs else "not exercised in this run (it is a race)"
        print(f"KNOWN-FINDING: property=C07 {k['what']} [{note}]")
        for o in obs[:3]:
            path = runner.write_replay("C07", ctx["seed"], "known-" + re.sub(r"[^a-z0-9-]+", "-", o["signature"]), f"# known finding, signature: {o['signature']}\n# what: {o['what']}\n# replay with: ./check C07 quick --replay <this file>\n{o['replay']}\n")
            runner.log(f"known finding witness: {path}")
    stats["known_finding_observations"] = [{"signature": o["signature"], "what": o["what"][:300]} for v in seen.values() for o in v][:20]
    stats["oracle_failures"] = kept
    res["stats"] = stats
    # the Lean model on the same op lines
    if ctx["dok"]:
        ok, err = runner.run_driver("C07", os.path.join(out, "ops.txt"), os.path.join(out, "model.txt"))
        if not ok:
            res["broken"].append(("driver-run", "semadriver C07", err[-2000:]))
        else:
            res["disagreements"], res["compared"] = runner.diff_lines(os.path.join(out, "ops.txt"), os.path.join(out, "impl.txt"), os.path.join(out, "model.txt"))
    else:
        res["broken"].append(("driver-build", "semadriver", "lake build semadriver failed"))
    return res


def search(ctx):
    """A proof obligation, the T2 facts or the model correspondence broke but the standard run saw no
    departure from atomicity: look harder (other seeds, more repetitions, longer history)."""
    runner = ctx["runner"]
    local = _known(runner) + [k for k in ctx.get("known", []) if k.get("status") == "open"]
    t0 = time.time()
    for i in range(1, 4):
        c = dict(ctx, seed=ctx["seed"] * 1000 + i)
        rc, hout, stats, out = _run_harness(c, ["-tier", "quick", "-batches", "12", "-reps", "4"], f"search{i}")
        if stats:
            for f in stats.get("oracle_failures", []) or []:
                if not any(re.fullmatch(k["signature"], f["signature"]) for k in local):
                    return {"signature": f["signature"], "what": f["what"], "replay": f["replay"]}
        if time.time() - t0 > 240:
            break
    return None
