"""C11 — shared-cache transactions (shard/cache/manager.go).

Proof: invariants of the transition system lean/SemaModel/C11/Model.lean (any number of transactions,
goroutines, caches; eviction at any moment).  Tie: T2 (lock skeleton regenerated from manager.go and
pinned in Props.lean) + T3 by forced schedules: schedules are produced from the Lean model
(`semadriver C11 gen …`), the harness go/cmd/c11 drives the real Manager through each of them at the
verifYield points and prints what it observes, `semadriver C11 replay` prints what the model observes
for the same schedule, the two texts are compared; the property oracle is also evaluated on the
real traces."""
import json, os, re, subprocess, time

# the variant of the model that corresponds to the current source (see Skeleton.lean):
# pruneAfterRUnlock=0 txFirst=1 useOwn=1 dropOld=1
VARIANT = "0111"

# workloads of the witnesses of the defects found on the pinned tree (each is explored on every run)
FOCUS = [
    "max=2 db=1 wl=r0,w0|w1/r0",        # DESIGN §8 no. 6: reader's checkAndPrune before RUnlock
    "max=1 db=1 wl=w0|w1/r0f",          # reader's failed callback takes the manager mutex under RLock
    "max=1 db=1 wl=w1|w0/w1,w0",        # Commit of the previous writer vs the next writer's two goroutines
    "max=-1 db=1 ev=1 wl=w0f|r0,r0/!w0",  # stale writtenCaches entry: reader runs on a foreign object
    "max=-1 db=1 ev=1 wl=w0,w0/r0",     # stale writtenCaches entry: writer runs on an object it does not hold
]
# further small configurations whose every transition is driven through the real code (thorough tier)
COVER = [
    "max=0 db=1 wl=w0,r0|w0/r0",
    "max=1 db=1 ev=1 wl=w0,w1/r0,r1",
    "max=2 db=1 wl=w0f|r0/w0/r0",
    "max=-1 db=1 wl=!w0|w1/r0c,r1",
    "max=1 db=0 wl=w0,w1/w1,w0",        # no bbolt discipline: the model predicts the AB-BA deadlock, the code must agree
]

SPEC = {
    "lean_modules": ["SemaModel.C11.Props", "SemaModel.C11.CallSites"],
    "lean_dirs": ["SemaModel/C11"],
    "harness": "c11",
    "level": "proof",
    "tie": "T2: tools/facts_c11 regenerates the lock skeleton of manager.go (lock/unlock/TryRLock/map/callback/defer/yield order, if-conditions) and Props.lean proves it equal to the skeleton the model was written against; T3: forced schedules generated from the Lean model are executed on the real Manager at the verifYield points (quick: random walks incl. blocked-thread probes and evictions; thorough: every transition of the reachable state graph of the listed small configurations) and observation texts of model and implementation are compared; the property oracle is evaluated on the real traces",
    "required_theorems": [
        "Sema.C11.C11_skeleton_with", "Sema.C11.C11_skeleton_commit", "Sema.C11.C11_skeleton_prune", "Sema.C11.C11_skeleton_release",
        "Sema.C11.C11_callsites_commit",
        "Sema.C11.C11_mutex", "Sema.C11.C11_mutex_overlap", "Sema.C11.C11_private_copy", "Sema.C11.C11_reader_never_blocks_on_cache",
        "Sema.C11.C11_no_scrapped", "Sema.C11.C11_checked_before_handout", "Sema.C11.C11_dirty_is_scrapped",
        "Sema.C11.C11_failed_dropped", "Sema.C11.C11_replaced_dropped",
        "Sema.C11.C11_released", "Sema.C11.C11_evict_harmless", "Sema.C11.C11_evicted_is_rebuilt",
        # "a later transaction rebuilds it": the access that finds no entry constructs a fresh object and runs its callback on it
        "Sema.C11.C11_rebuilt_fresh", "Sema.C11.C11_rebuilt_kept", "Sema.C11.C11_rebuilt_frame", "Sema.C11.C11_rebuilt_own",
        "Sema.C11.C11_progress", "Sema.C11.C11_no_deadlock",
        # the hypothesis dbLock of C11_progress is forced: AB/BA deadlock of the REPAIRED model with two concurrent writers
        "Sema.C11.C11_deadlock_witness_without_dblock",
        "Sema.C11.C11_deadlock_witness_pinned", "Sema.C11.C11_deadlock_witness_reorder_failing_reader",
        "Sema.C11.C11_deadlock_witness_reorder_commit", "Sema.C11.C11_mutex_witness_pinned", "Sema.C11.C11_leak_witness_two_fixes",
    ],
    "trusted_base": [
        "Model.lean is hand-written against the lock skeleton of manager.go; the skeleton is regenerated and compared on every run, the behaviour between yield points is compared by forced schedules (T3)",
        "Go's sync.Mutex / sync.RWMutex semantics (Lock blocks while held incompatibly; TryRLock fails while a writer holds OR waits; Unlock never blocks); goroutine identity via runtime.Stack; 'blocked' is read from the runtime's wait reason (sync.Mutex.Lock, sync.RWMutex.Lock/RLock)",
        "callbacks f / createFn are opaque: they do not block and do not touch the manager (a nested With from inside a callback, as in manager_test.go, is outside the model)",
        "Go memory model: data races on the plain fields scrapped / lastAccessed / item are outside the model (runtime findings, not decided here)",
    ],
    "assumptions": [
        "Commit is called once per transaction, after all goroutines of the transaction have returned from With (shard.go joins the dispatch goroutines first), with argument true exactly when the storage transaction failed: the call-site facts regenerated from shard/shard.go (tools/facts_c07) are pinned by C11_callsites_commit; when that pin breaks the search drives the real shard through C07's fault enumeration and reports a cache of a failed batch that is still in the manager / still answers",
        "C11_progress: at most one transaction is inside its writing phase at a time (bbolt's single read-write transaction; flag dbLock of the model). The hypothesis is forced: C11_deadlock_witness_without_dblock is the recorded negation without it (two concurrent writers, caches in opposite order, both parked at xObjLock); the same workload (`max=1 db=0 wl=w0,w1/w1,w0`) is driven through the real Manager in the thorough tier",
        "'a later transaction rebuilds it from committed storage': the model has no storage. Proved: the access that finds no entry constructs a FRESH object (C11_rebuilt_fresh), keeps it through the new-cache branch under any interleaving / eviction (C11_rebuilt_kept, C11_rebuilt_frame, C11_rebuilt_own) and runs its callback on it. That createFn reads the committed bucket is bbolt + the constructors (C08)",
    ],
}


def _driver(ctx):
    return ctx["runner"].driver_exe("C11")


def _gen(ctx, tier, seed):
    """schedule lines for this run"""
    drv = _driver(ctx)
    lines = []
    info = {}
    nq = 2500 if tier == "quick" else 6000
    p = subprocess.run([drv, "C11", "gen", "quick", str(seed), VARIANT, str(nq)], capture_output=True, text=True, timeout=600)
    lines += [l for l in p.stdout.splitlines() if "::" in l]
    info["random_walks"] = len(lines)
    # focus workloads: random walks in quick, full transition cover in thorough
    if tier == "quick":
        cfgs = "".join(f"{c} v={VARIANT}\n" for c in FOCUS)
        p = subprocess.run([drv, "C11", "gen", "walks", str(seed), "40"], input=cfgs, capture_output=True, text=True, timeout=600)
        lines += [l for l in p.stdout.splitlines() if "::" in l]
    else:
        cfgs = "".join(f"{c} v={VARIANT}\n" for c in FOCUS + COVER)
        p = subprocess.run([drv, "C11", "gen", "cover", str(seed), "120000"], input=cfgs, capture_output=True, text=True, timeout=1500)
        lines += [l for l in p.stdout.splitlines() if "::" in l]
        info["cover"] = [l for l in p.stderr.splitlines() if l.startswith("cover ")]
    info["schedules"] = len(lines)
    return lines, info


def _run_harness(ctx, sched_path, outdir, timeout):
    """child process (a schedule may hang the real code); returns (ok, message)"""
    os.makedirs(outdir, exist_ok=True)
    prog = os.path.join(outdir, "progress.txt")
    try:
        p = subprocess.run([ctx["hbin"], "-seed", str(ctx["seed"]), "-sched", sched_path, "-out", outdir, "-progress", prog],
                           capture_output=True, text=True, timeout=timeout, env=ctx["runner"].GOENV)
        full = p.stdout + p.stderr
        m = re.search(r"^(fatal error:|panic:).*$", full, re.M)
        out = (full[m.start():m.start() + 2500] if m else full[-3000:])
        rc = p.returncode
    except subprocess.TimeoutExpired:
        rc, out = -9, "harness timed out"
    if rc != 0 or not os.path.exists(os.path.join(outdir, "stats.json")):
        cur = open(prog).read().strip() if os.path.exists(prog) else ""
        return False, f"rc={rc} while executing schedule: {cur}\n{out}"
    return True, ""


def run(ctx):
    R = ctx["runner"]
    tier, seed, rundir = ctx["tier"], ctx["seed"], ctx["rundir"]
    broken, stats, dis, compared = [], {}, [], 0
    if not (ctx["hok"] and ctx["dok"]):
        if not ctx["dok"]:
            broken.append(("driver-build", "semadriver", "lake build semadriver failed"))
        return {"stats": stats, "disagreements": dis, "compared": 0, "broken": broken}
    t0 = time.time()
    lines, info = _gen(ctx, tier, seed)
    if not lines:
        broken.append(("driver-run", "semadriver C11 gen", "no schedules generated"))
        return {"stats": stats, "disagreements": dis, "compared": 0, "broken": broken}
    sched = os.path.join(rundir, "sched.txt")
    open(sched, "w").write("\n".join(lines) + "\n")
    R.log(f"C11: {len(lines)} schedules generated from the model ({time.time()-t0:.1f}s)")
    t1 = time.time()
    ok, msg = _run_harness(ctx, sched, rundir, 420 if tier == "quick" else 2400)
    R.log(f"C11: harness {'ok' if ok else 'FAILED'} ({time.time()-t1:.1f}s)")
    if not ok:
        # the process died or hung: that schedule is the failing input
        m = re.search(r"while executing schedule: (.*)", msg)
        cur = m.group(1).strip() if m else ""
        stats = {"evaluations": 0, "oracle_failures": [{"signature": "harness-died:" + (cur.split("::")[0].strip() if cur else "?"),
                 "what": "the implementation crashed or hung the harness process (fatal error such as unlock of an unlocked mutex, or an unbounded wait)\n" + msg[:1800],
                 "replay": cur or "\n".join(lines[:1])}]}
        return {"stats": stats, "disagreements": dis, "compared": 0, "broken": [("harness-run", "c11", msg[-2000:])]}
    stats = json.load(open(os.path.join(rundir, "stats.json")))
    stats.update({k: v for k, v in info.items()})
    ok, err = R.run_driver("C11", os.path.join(rundir, "ops.txt"), os.path.join(rundir, "model.txt"), ["replay"])
    if not ok:
        broken.append(("driver-run", "semadriver C11 replay", err[-2000:]))
    else:
        dis, compared = R.diff_lines(os.path.join(rundir, "ops.txt"), os.path.join(rundir, "impl.txt"), os.path.join(rundir, "model.txt"))
    return {"stats": stats, "disagreements": dis, "compared": compared, "broken": broken}


def _variant_of_source(ctx):
    """which model variant the working tree is (read from the regenerated skeleton)"""
    p = os.path.join(ctx["runner"].LEAN, "SemaModel", "Generated", "FactsC11.lean")
    if not os.path.exists(p):
        return None
    txt = open(p).read()
    m = re.search(r"def withSkeleton : List String := \[(.*?)\]\n", txt, re.S)
    if not m:
        return None
    toks = re.findall(r'"((?:[^"\\]|\\.)*)"', m.group(1))
    def idx(t):
        return toks.index(t) if t in toks else 10**9
    tx_first = idx("tx.Lock") < idx("mgr.Lock")
    use_own = "use.own" in toks
    prune_after = idx("defer:prune") < idx("defer:obj.RUnlock")
    return "".join("1" if b else "0" for b in (prune_after, tx_first, use_own))


def search(ctx):
    """A tie or an obligation broke.  Look for a schedule on which the real code violates the property:
    (1) if the source matches another variant of the model (e.g. a fix was reverted), ask the model for the
    witnesses of that variant and replay them on the real code; (2) many more random schedules."""
    R = ctx["runner"]
    drv = _driver(ctx)
    cand = []
    v = _variant_of_source(ctx)
    if v and v != VARIANT:
        cfgs = "".join(f"{c} v={v}\n" for c in FOCUS)
        try:
            p = subprocess.run([drv, "C11", "witness", "400000"], input=cfgs, capture_output=True, text=True, timeout=900)
            for l in p.stdout.splitlines():
                parts = l.split("\t")
                if len(parts) == 3 and "::" in parts[2] and parts[0] in ("deadlock", "mutex", "scrapped-handout", "failed-kept", "leak"):
                    cand.append(parts[2])
        except subprocess.TimeoutExpired:
            pass
    for extra_seed in (ctx["seed"] + 1000, ctx["seed"] + 2000):
        p = subprocess.run([drv, "C11", "gen", "quick", str(extra_seed), VARIANT, "600"], capture_output=True, text=True, timeout=600)
        cand += [l for l in p.stdout.splitlines() if "::" in l]
    d = os.path.join(ctx["rundir"], "search")
    os.makedirs(d, exist_ok=True)
    sched = os.path.join(d, "sched.txt")
    open(sched, "w").write("\n".join(cand) + "\n")
    ok, msg = _run_harness(ctx, sched, d, 900)
    if not ok:
        m = re.search(r"while executing schedule: (.*)", msg)
        cur = m.group(1).strip() if m else ""
        return {"signature": "harness-died", "what": "the implementation crashed or hung the harness process\n" + msg[-1500:], "replay": cur}
    st = json.load(open(os.path.join(d, "stats.json")))
    known = ctx.get("known", [])
    for f in st.get("oracle_failures", []):
        if any(k.get("status") == "open" and re.fullmatch(k["signature"], f["signature"]) for k in known):
            continue
        return {"signature": f["signature"], "what": f["what"], "replay": f["replay"]}
    return _search_callsites(ctx)


def _search_callsites(ctx):
    """shard level: C07's fault enumeration on the real shard; a batch that failed and whose shared caches
    are still registered in the manager, or still answer queries, is a failed transaction's cache handed
    out again (C11's second clause at the call sites of shard.go)"""
    R = ctx["runner"]
    ok, o, hbin = R.build_harness("c07")
    if not ok:
        return None
    d = os.path.join(ctx["rundir"], "search-callsites")
    os.makedirs(d, exist_ok=True)
    try:
        R.sh([hbin, "-seed", str(ctx["seed"]), "-out", d, "-tier", "quick"], env=R.GOENV, timeout=900)
    except subprocess.TimeoutExpired:
        return None
    sp = os.path.join(d, "stats.json")
    if not os.path.exists(sp):
        return None
    for f in json.load(open(sp)).get("oracle_failures", []):
        if re.match(r"(cache-retained-after-error|running-differs-after-error):", f["signature"]):
            return {"signature": "callsite:" + f["signature"],
                    "what": "shard level (go/cmd/c07 fault enumeration on the real shard): " + f["what"] + " — a shared cache touched by a failed transaction was not discarded",
                    "replay": f["replay"]}
    return None
