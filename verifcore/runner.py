import fcntl, hashlib, importlib.util, json, os, re, shutil, subprocess, sys, time

VERIF = os.path.dirname(os.path.dirname(os.path.abspath(__file__)))
REPO = os.environ.get("VERIF_REPO", "/repo")
LEAN = os.path.join(VERIF, "lean")
BUILD = os.path.join(VERIF, ".build")
GOENV = dict(os.environ, GOFLAGS="-mod=mod", GOPROXY="off")
GOENV.pop("GOTOOLCHAIN", None)   # go.mod of the repository needs the cached 1.24.3 toolchain (auto switch)
GOENV.pop("GOSUMDB", None)
ALLOWED_AXIOMS = {"propext", "Classical.choice", "Quot.sound"}
BASE_TRUST = [
    "Lean 4.33.0 kernel (thorough tier: re-checked by leanchecker)",
    "axioms allowed in property theorems: propext, Classical.choice, Quot.sound (audited on every run); no sorry/admit/native_decide/user axioms",
    "tools/go2lean (Go->Lean translator) and SemaModel/Base/GoRt.lean (meaning of Go built-ins and encoding/binary calls); mitigated: generated definitions are also executed against the Go functions (T3)",
    "the correspondence harness, its canonicaliser and this check script",
]


def log(*a):
    print("[check]", *a, flush=True)


def sh(cmd, cwd=None, env=None, timeout=None, stdin=None):
    t0 = time.time()
    p = subprocess.run(cmd, cwd=cwd, env=env, timeout=timeout, stdin=stdin, stdout=subprocess.PIPE, stderr=subprocess.STDOUT, text=True, errors="replace")
    return p.returncode, p.stdout, time.time() - t0


class Lock:
    def __init__(self, name="lock"):
        os.makedirs(BUILD, exist_ok=True)
        self.path = os.path.join(BUILD, name)

    def __enter__(self):
        self.f = open(self.path, "w")
        fcntl.flock(self.f, fcntl.LOCK_EX)
        return self

    def __exit__(self, *a):
        fcntl.flock(self.f, fcntl.LOCK_UN)
        self.f.close()


def load_spec(pid):
    path = os.path.join(VERIF, "props", pid + ".py")
    if not os.path.exists(path):
        raise SystemExit(f"no such property check: {pid}")
    spec = importlib.util.spec_from_file_location("prop_" + pid, path)
    mod = importlib.util.module_from_spec(spec)
    spec.loader.exec_module(mod)
    return mod


# ------------------------------------------------------------------------------------------ steps

def regenerate():
    """T1/T2: rebuild the translator and fact extractor, regenerate SemaModel/Generated from the
    working tree.  Files are replaced only when their content changed (keeps lake incremental);
    stale generated files are removed.  Returns (ok, message)."""
    os.makedirs(BUILD, exist_ok=True)
    msgs = []
    ok = True
    tmp = os.path.join(BUILD, "gen.tmp")
    shutil.rmtree(tmp, ignore_errors=True)
    os.makedirs(tmp)
    for tool in sorted(os.listdir(os.path.join(VERIF, "tools"))):
        tdir = os.path.join(VERIF, "tools", tool)
        if not os.path.isdir(tdir) or not os.path.exists(os.path.join(tdir, "go.mod")):
            continue
        binp = os.path.join(BUILD, tool)
        if os.path.exists(binp):
            os.remove(binp)  # never run a stale translator
        env = dict(GOENV, GOFLAGS="-mod=mod")
        rc, out, _ = sh(["go", "build", "-o", binp, "."], cwd=tdir, env=env)
        if rc != 0:
            return False, f"building tools/{tool} failed:\n{out}"
        rc, out, _ = sh([binp, "-repo", REPO, "-out", tmp])
        if rc != 0:
            ok = False
            msgs.append(f"tools/{tool} could not translate the working tree:\n{out.strip()}")
    gen = os.path.join(LEAN, "SemaModel", "Generated")
    os.makedirs(gen, exist_ok=True)
    # Every module that was produced is installed; a module that was NOT produced on this run (its tool
    # refused the working tree, wholly or for that module) is removed, never kept from an earlier run:
    # the proof modules and drivers that import it then fail to build, and only those.
    new = set(os.listdir(tmp))
    for f in os.listdir(gen):
        if f not in new:
            os.remove(os.path.join(gen, f))
            if ok:
                continue
            msgs.append(f"Generated/{f} was not produced on this run and has been removed")
    for f in new:
        a, b = os.path.join(tmp, f), os.path.join(gen, f)
        if not os.path.exists(b) or open(a, "rb").read() != open(b, "rb").read():
            shutil.copyfile(a, b)
    shutil.rmtree(tmp, ignore_errors=True)
    from verifcore import genmain
    genmain.generate(LEAN)
    return ok, "\n".join(msgs)


def lake_build(targets):
    rc, out, dt = sh(["lake", "build"] + targets, cwd=LEAN)
    errs = [l for l in out.splitlines() if re.search(r"\berror\b", l)]
    return rc == 0, out, errs, dt


def theorem_at(relpath, line):
    """name of the theorem/def whose proof contains the given line of a Lean source file"""
    try:
        src = open(os.path.join(LEAN, relpath)).read().splitlines()
    except OSError:
        return None
    for i in range(min(line, len(src)) - 1, -1, -1):
        m = re.match(r"\s*(?:private\s+|protected\s+)?(?:theorem|lemma|def|example|instance)\s+([^\s:(\[{]+)?", src[i])
        if m:
            return f"{relpath}:{m.group(1) or 'example'}"
    return None


def audit(modules):
    rc, out, dt = sh(["lake", "env", "lean", "--run", "Audit.lean"] + modules, cwd=LEAN)
    thms = []
    for l in out.splitlines():
        m = re.match(r"THEOREM (\S+) (\S+) AXIOMS (\S+)(?: STMT (\d+))?", l)
        if m:
            ax = [] if m.group(3) == "-" else m.group(3).split(",")
            thms.append({"module": m.group(1), "name": m.group(2), "axioms": ax, "stmt": m.group(4)})
    return rc == 0, thms, out


def strip_lean_comments(src):
    # remove nested block comments and line comments
    out, i, depth = [], 0, 0
    while i < len(src):
        if src.startswith("/-", i):
            depth += 1; i += 2; continue
        if src.startswith("-/", i) and depth > 0:
            depth -= 1; i += 2; continue
        if depth == 0:
            if src.startswith("--", i):
                j = src.find("\n", i)
                i = len(src) if j < 0 else j
                continue
            out.append(src[i])
        i += 1
    return "".join(out)


FORBIDDEN = re.compile(r"\b(sorry|admit|native_decide|bv_decide|implemented_by|unsafe)\b|^\s*axiom\s|maxHeartbeats\s+0\b", re.M)


def grep_forbidden(dirs):
    hits = []
    for d in dirs:
        for root, _, files in os.walk(os.path.join(LEAN, d)):
            for f in files:
                if f.endswith(".lean"):
                    p = os.path.join(root, f)
                    txt = strip_lean_comments(open(p).read())
                    for m in FORBIDDEN.finditer(txt):
                        hits.append(f"{os.path.relpath(p, LEAN)}: {m.group(0).strip()}")
    return hits


def build_harness(name):
    out = os.path.join(BUILD, name)
    if os.path.exists(out):
        os.remove(out)
    gosum = os.path.join(VERIF, "go", "go.sum")
    shutil.copyfile(os.path.join(REPO, "go.sum"), gosum)
    gomod = os.path.join(VERIF, "go", "go.mod")
    txt = open(gomod).read()
    new = re.sub(r"replace github.com/semafind/semadb => \S+", "replace github.com/semafind/semadb => " + REPO, txt)
    if new != txt:
        open(gomod, "w").write(new)
    rc, o, dt = sh(["go", "build", "-tags", "verif", "-o", out, "./cmd/" + name], cwd=os.path.join(VERIF, "go"), env=GOENV)
    return rc == 0, o, out


def driver_target(pid):
    return "semadriver_" + pid.lower()


def driver_exe(pid):
    """the compiled model of ONE property (lean/Main<pid>.lean); accepts the property id as an optional first argument"""
    return os.path.join(LEAN, ".lake", "build", "bin", driver_target(pid))


def run_driver(pid, ops_path, out_path, extra_args=()):
    exe = driver_exe(pid)
    with open(ops_path) as fin, open(out_path, "w") as fout:
        p = subprocess.run([exe, pid, *extra_args], stdin=fin, stdout=fout, stderr=subprocess.PIPE, text=True)
    return p.returncode == 0, p.stderr


def diff_lines(ops_path, impl_path, model_path, limit=20):
    ops = open(ops_path).read().splitlines()
    impl = open(impl_path).read().splitlines()
    model = open(model_path).read().splitlines()
    dis = []
    n = max(len(impl), len(model))
    for i in range(n):
        a = impl[i] if i < len(impl) else "<missing>"
        b = model[i] if i < len(model) else "<missing>"
        if a != b:
            dis.append({"line": i + 1, "op": ops[i] if i < len(ops) else "?", "impl": a, "model": b})
            if len(dis) >= limit:
                break
    return dis, n


def load_known(pid):
    """known_findings.json, plus per-property fragments known_findings.d/*.json (same schema) that a
    property's author adds and the maintainer may fold into the main file."""
    paths = [os.path.join(VERIF, "known_findings.json")]
    frag = os.path.join(VERIF, "known_findings.d")
    if os.path.isdir(frag):
        paths += [os.path.join(frag, f) for f in sorted(os.listdir(frag)) if f.endswith(".json")]
    out = []
    for path in paths:
        if os.path.exists(path):
            out += [f for f in json.load(open(path)).get("findings", []) if f.get("property") == pid]
    return out


def write_replay(pid, seed, tag, content):
    d = os.path.join(VERIF, "replays")
    os.makedirs(d, exist_ok=True)
    path = os.path.join(d, f"{pid}-{tag}-seed{seed}.txt")
    with open(path, "w") as f:
        f.write(content if content.endswith("\n") else content + "\n")
    return path


def report_foreign(pid, seed, foreign):
    """What this check saw but could attribute to ANOTHER property (verifcore/blame.py): one NOTE line per owner, a file
    with every item.  Never a violation of `pid`; the owner's check is the one that must (and does) report it."""
    by = {}
    for f in foreign:
        by.setdefault("/".join(f.get("owners") or ["?"]), []).append(f)
    lines = [f"# property {pid}: NOT violations of {pid} - items seen by this check that belong to other properties",
             f"# (each was attributed by the rule stated with it; run the owner's check: ./check <owner> quick)"]
    for owner, fs in sorted(by.items()):
        lines.append(f"# ---- belongs to {owner}: {len(fs)} item(s)")
        for f in fs[:12]:
            lines.append(f"#   [{f.get('stream', '')}] {f.get('why', '')}")
            if f.get("oracle"):
                lines.append(f"#   oracle failure {f['oracle']}: {str(f.get('what', ''))[:400]}")
                lines += [l for l in str(f.get("replay", "")).splitlines()]
            elif f.get("detail"):
                lines += ["#      " + l for l in str(f["detail"]).splitlines()]
            else:
                lines.append(f"#   line {f.get('line')}: impl={str(f.get('impl'))[:300]} | model={str(f.get('model'))[:300]}")
                lines.append(str(f.get("op")))
    path = write_replay(pid, seed, "foreign", "\n".join(lines))
    for owner, fs in sorted(by.items()):
        f = fs[0]
        print(f"NOTE property={pid} belongs-to={owner} items={len(fs)} file={path} :: {f.get('why', '')[:260]}")
        log(f"  e.g. [{f.get('stream', '')}] {str(f.get('op') or f.get('oracle'))[:200]}")
    return path


# ------------------------------------------------------------------------------------------ main

def main(argv):
    if len(argv) < 2:
        print(__doc__ or "usage: check <Cxx> <quick|thorough> [--replay FILE]")
        return 2
    pid, tier = argv[0], argv[1]
    mod = load_spec(pid)
    spec = mod.SPEC
    seed = int(os.environ.get("VERIF_SEED", "1"))
    t0 = time.time()
    rundir = os.path.join(BUILD, "run", f"{pid}-{os.getpid()}")
    shutil.rmtree(rundir, ignore_errors=True)
    os.makedirs(rundir)
    if "--replay" in argv:
        return replay(pid, spec, argv[argv.index("--replay") + 1])

    broken = []      # proof obligations / ties that no longer check: (kind, name, detail)
    foreign = []     # what this run saw but belongs to ANOTHER property (verifcore/blame.py): noted, never a violation here
    skipped_ns = set()
    audited_modules = spec["lean_modules"]
    notes = []
    thms = []
    harness_stats = {}
    disagreements = []
    compared = 0

    with Lock():
        gen_ok, gen_msg = regenerate()
        gen_fatal = (not gen_ok) and gen_msg.startswith("building tools/")
        if gen_fatal:
            broken.append(("translator", "tools (build)", gen_msg))
        # proof obligations
        ok, out, errs, dt = lake_build(spec["lean_modules"])
        log(f"lake build {' '.join(spec['lean_modules'])}: {'ok' if ok else 'FAILED'} ({dt:.1f}s)")
        if not ok:
            # Lean prints `file:line:col: error: …`, lake (4.33) `error: file:line:col: …`
            names = sorted(set(re.findall(r"([\w/]+\.lean):(\d+):\d+: error", out) + re.findall(r"error: ([\w/]+\.lean):(\d+):\d+:", out)))
            # a module that imports something that is not there (a generated module the translator could not produce) or that
            # itself failed: `error: <file>: bad import '<module>'`.  Only the ROOT files count - those whose missing import is
            # not itself one of the failing files (the rest is the cascade through the import graph)
            bad = re.findall(r"error: ([\w/]+\.lean): bad import '([\w.]+)'", out)
            failing_mods = {a[:-5].replace("/", ".") for a, _ in bad} | {a[:-5].replace("/", ".") for a, _ in names}
            roots = sorted({(a, "0") for a, m in bad if m not in failing_mods})
            bad_label = ", ".join(f"{a}: bad import '{m}'" for a, m in bad if m not in failing_mods)
            names = sorted(set(names) | set(roots))
            thm_names = sorted(set(filter(None, (theorem_at(a, int(b)) for a, b in names if b != "0"))))
            if bad_label:
                thm_names.append(bad_label)
            label = ", ".join(thm_names) or ", ".join(f"{a}:{b}" for a, b in names) or "lake build"
            # Whose obligation broke?  (verifcore/blame.py)  If every failing file lies in the directory of ANOTHER property
            # whose own check builds it, that check reports it.  Here it matters only through the import graph:
            #  - a module of this property's own directory imports it: this property's theorems cannot be re-checked on this
            #    run -> still reported, and the text says whose tie broke and which of our modules rest on it;
            #  - only COMPOSITION modules (SPEC["composition_dirs"]) import it: noted, and the remaining modules are built and
            #    audited as usual (the required theorems of the affected composition modules are not re-checked on this run).
            from verifcore import blame
            split = blame.split_build_failure(pid, spec, [a for a, _ in names])
            comp_ok = split and not split["affected_own"] and all(("SemaModel/" + blame.dir_owner(m)) in spec.get("composition_dirs", []) for m in split["affected_composition"])
            if comp_ok:
                foreign.append({"owners": split["owners"], "stream": "lake build (proof modules)", "op": label,
                                "why": "a proof obligation of property " + "/".join(split["owners"]) + " no longer checks (" + label + "); of this check's modules only the composition modules " + ", ".join(split["affected_composition"]) + " import it; their theorems are not re-checked on this run, the other modules are",
                                "detail": "\n".join(out.splitlines()[-25:])})
                skipped_ns = {"Sema." + blame.dir_owner(m) + "." for m in split["affected_composition"]}
                if split["unaffected"]:
                    ok, out, errs, dt = lake_build(split["unaffected"])
                    log(f"lake build {' '.join(split['unaffected'])} (without the composition modules that import the foreign failure): {'ok' if ok else 'FAILED'} ({dt:.1f}s)")
                    if ok:
                        audited_modules = split["unaffected"]
                    else:
                        broken.append(("proof", "lake build " + " ".join(split["unaffected"]), "\n".join(out.splitlines()[-60:])))
            else:
                if split:
                    label += " (an obligation of property " + "/".join(split["owners"]) + ", reported by its own check; " + ", ".join(split["affected_own"]) + " of this property import" + ("s" if len(split["affected_own"]) == 1 else "") + " it, so their theorems could not be re-checked on this run)"
                broken.append(("proof", label, "\n".join(out.splitlines()[-60:])))
                ok = False
        if ok:
            ok, thms, aout = audit(audited_modules)
            if not ok or not thms:
                broken.append(("audit", "Audit.lean", aout[-3000:]))
            for t in thms:
                bad = [a for a in t["axioms"] if a not in ALLOWED_AXIOMS]
                if bad:
                    broken.append(("axiom", t["name"], "depends on " + ", ".join(bad)))
        hits = grep_forbidden(spec.get("lean_dirs", []) + ["SemaModel/Base"])
        for h in hits:
            broken.append(("forbidden-token", h, h))
        for need in spec.get("required_theorems", []):
            if thms and need not in {t["name"] for t in thms}:
                if any(need.startswith(ns) for ns in skipped_ns):
                    continue   # a theorem of a composition module that imports a foreign failure (noted above)
                broken.append(("proof", need, "required property theorem is missing from the module"))
        # the STATEMENT of every required theorem is pinned by a hash of its type (props/hashes/Cxx.json,
        # refreshed deliberately with devtools/update_hashes.py): a theorem cannot be weakened silently
        hpath = os.path.join(VERIF, "props", "hashes", pid + ".json")
        if thms and os.path.exists(hpath):
            want = json.load(open(hpath))
            have = {t["name"]: t.get("stmt") for t in thms}
            for name, h in want.items():
                if name in have and have[name] is not None and str(have[name]) != str(h):
                    broken.append(("statement-changed", name, f"the statement of {name} differs from the recorded one (hash {have[name]} != {h}); if intended, run devtools/update_hashes.py {pid}"))
        if tier == "thorough" and not any(b[0] == "proof" for b in broken):
            rc, o, dt = sh(["lake", "env", "leanchecker"] + audited_modules, cwd=LEAN)
            log(f"leanchecker: rc={rc} ({dt:.1f}s)")
            if rc != 0:
                broken.append(("leanchecker", "leanchecker", o[-3000:]))
        # driver
        dok, dout, _, dt = lake_build([driver_target(pid)])
        log(f"lake build {driver_target(pid)}: {'ok' if dok else 'FAILED'} ({dt:.1f}s)")
        if not gen_ok and not gen_fatal:
            # A translator / fact extractor refused (part of) the working tree; what it could not produce has been
            # removed from Generated/.  That breaks THIS property's tie exactly if one of its proof modules or its
            # model driver imports a removed module, i.e. no longer builds.
            if not dok or any(b[0] == "proof" for b in broken):
                broken.insert(0, ("translator", "tools/go2lean|facts", gen_msg))
            else:
                log("note: a translator / fact extractor refused part of the working tree; no module imported by this property's proofs or model driver is affected")
                notes.append("translator refused part of the tree, unrelated to this property: " + gen_msg[:600])
        # harness
        hok, hout, hbin = build_harness(spec["harness"])
        if not hok:
            broken.append(("harness-build", spec["harness"], hout[-3000:]))

    if hasattr(mod, "run"):
        # property-specific correspondence (e.g. forced schedules, fault enumeration)
        res = mod.run(dict(tier=tier, seed=seed, rundir=rundir, hbin=hbin, hok=hok, dok=dok, runner=sys.modules[__name__]))
        harness_stats, disagreements, compared = res["stats"], res["disagreements"], res["compared"]
        for b in res.get("broken", []):
            broken.append(tuple(b))
        foreign += res.get("foreign", []) or []
    elif hok:
        args = [hbin, "-seed", str(seed), "-out", rundir] + [str(a) for a in spec["harness_args"][tier]]
        rc, hout, dt = sh(args, env=GOENV, timeout=spec.get("timeout", {}).get(tier, 3000))
        log(f"harness {spec['harness']}: rc={rc} ({dt:.1f}s)")
        if rc != 0 or not os.path.exists(os.path.join(rundir, "stats.json")):
            broken.append(("harness-run", spec["harness"], hout[-3000:]))
        else:
            harness_stats = json.load(open(os.path.join(rundir, "stats.json")))
            if dok:
                ok, err = run_driver(pid, os.path.join(rundir, "ops.txt"), os.path.join(rundir, "model.txt"))
                if not ok:
                    broken.append(("driver-run", "semadriver " + pid, err[-2000:]))
                else:
                    disagreements, compared = diff_lines(os.path.join(rundir, "ops.txt"), os.path.join(rundir, "impl.txt"), os.path.join(rundir, "model.txt"))
            else:
                broken.append(("driver-build", driver_target(pid), dout[-3000:]))
    # what a harness itself could show to be another property's (vh.Out.Note): noted, not judged here
    for f in (harness_stats.pop("foreign", None) or []) if isinstance(harness_stats, dict) else []:
        foreign.append({"owners": f.get("owners"), "stream": f.get("stream"), "oracle": f.get("op"), "what": f.get("why"), "why": f.get("why"), "replay": f.get("replay", "")})
    if disagreements:
        broken.append(("correspondence", f"{len(disagreements)}+ of {compared} op lines differ", json.dumps(disagreements[:5], indent=1)))

    foreign_path = report_foreign(pid, seed, foreign) if foreign else None

    # ---------------------------------------------------------------- decide
    known = load_known(pid)
    oracle = harness_stats.get("oracle_failures", []) or []
    unlisted, listed_seen = [], set()
    for f in oracle:
        hit = None
        for k in known:
            if k.get("status") == "open" and re.fullmatch(k["signature"], f["signature"]):
                hit = k
        if hit:
            listed_seen.add(hit["signature"])
        else:
            unlisted.append(f)
    violations = []
    if unlisted:
        f = unlisted[0]
        body = f"# property {pid}: the implementation violates the property on a concrete input\n# signature: {f['signature']}\n# what: {f['what']}\n# replay with: ./check {pid} quick --replay <this file>\n{f['replay']}\n"
        violations.append((write_replay(pid, seed, "witness", body), ""))
    elif broken:
        # a tie or an obligation broke but the oracle found no failing input in the standard run:
        # search wider (property-specific), then report either way.
        found = None
        if hasattr(mod, "search") and hok:
            found = mod.search(dict(tier=tier, seed=seed, rundir=rundir, hbin=hbin, disagreements=disagreements, runner=sys.modules[__name__], known=known))
        if found:
            body = f"# property {pid}: failing input found by the search step after a tie/obligation broke\n# signature: {found['signature']}\n# what: {found['what']}\n{found['replay']}\n"
            violations.append((write_replay(pid, seed, "witness", body), ""))
        else:
            lines = [f"# property {pid}: no longer shown to hold; no failing input found by the search", "# what no longer checks:"]
            for kind, name, detail in broken:
                lines.append(f"#   [{kind}] {name}")
                for dl in str(detail).splitlines()[:40]:
                    lines.append("#      " + dl)
            for d in disagreements[:10]:
                lines.append(d["op"])
            violations.append((write_replay(pid, seed, "broken", "\n".join(lines)), " no-failing-input-found"))

    for k in known:
        if k.get("status") == "open":
            seen = "observed in this run" if k["signature"] in listed_seen else "not exercised in this run"
            print(f"KNOWN-FINDING: property={pid} {k['what']} [{seen}]")

    # ---------------------------------------------------------------- evidence
    obligations = len(thms) if thms else len(spec.get("required_theorems", [])) or 1
    discharged = len([t for t in thms if all(a in ALLOWED_AXIOMS for a in t["axioms"])]) if not any(b[0] in ("proof", "audit") for b in broken) else 0
    cov = {
        "obligations": obligations,
        "discharged": discharged,
        "checker_cmd": f"cd lean && lake build {' '.join(spec['lean_modules'])} && lake env lean --run Audit.lean {' '.join(spec['lean_modules'])}" + (" && lake env leanchecker " + " ".join(spec["lean_modules"]) if tier == "thorough" else ""),
        "trusted_base": BASE_TRUST + spec.get("trusted_base", []),
        "theorems": [{"name": t["name"], "axioms": t["axioms"]} for t in thms],
        "required_theorems_present": len([n for n in spec.get("required_theorems", []) if n in {t["name"] for t in thms}]),
        "evaluations": int(harness_stats.get("evaluations", 0)),
        "distinct_nontrivial": int(harness_stats.get("distinct_nontrivial", 0)),
        "rule": harness_stats.get("rule", spec.get("rule", "")),
        "samples": harness_stats.get("samples", []) or [t["name"] for t in thms[:5]],
        "op_lines_compared_with_model": compared,
        "disagreements": disagreements[:10],
        "distribution": harness_stats.get("distribution", {}),
        "oracle_failures": oracle[:10],
        "broken": [{"kind": k, "name": n} for k, n, _ in broken],
        "foreign": [{"owners": f.get("owners"), "stream": f.get("stream"), "op": str(f.get("op") or f.get("oracle"))[:300], "why": f.get("why")} for f in foreign[:10]],
        "foreign_count": len(foreign),
        "tie": spec.get("tie", ""),
    }
    for k, v in harness_stats.items():
        if k not in cov and k not in ("oracle_failures",):
            cov[k] = v
    ev = {
        "property_id": pid, "tier": tier, "seed": seed, "level": spec.get("level", "proof"),
        "coverage": cov, "assumptions": spec.get("assumptions", []),
        "wall_s": round(time.time() - t0, 2), "violations": len(violations),
    }
    write_evidence(pid, ev)
    shutil.rmtree(rundir, ignore_errors=True)
    for path, suffix in violations:
        print(f"VIOLATION property={pid} replay={path}{suffix}")
    if violations:
        for kind, name, detail in broken[:6]:
            log(f"broken [{kind}] {name}")
        for d in disagreements[:3]:
            log(f"  differs at line {d.get('line')}: op={str(d.get('op'))[:200]} | impl={str(d.get('impl'))[:200]} | model={str(d.get('model'))[:200]}")
        return 1
    noted = f", {len(foreign)} item(s) noted for other properties ({foreign_path})" if foreign else ""
    log(f"{pid} {tier}: {discharged}/{obligations} obligations discharged, {compared} op lines agree with the model, {len(oracle)} oracle failures (all listed){noted}, {time.time()-t0:.1f}s")
    return 0


EVIDENCE_STR_MAX = 4000        # longest string kept verbatim in an evidence file
EVIDENCE_FILE_MAX = 400_000    # the evidence file is a record to be read, not a dump


def clip(v, limit=EVIDENCE_STR_MAX):
    """evidence is read by people and by tools with a size cap: a string longer than `limit` (a multi-megabyte
    request body in a replay line, a goroutine dump) is kept as head + length + sha256 of the whole, never verbatim.
    The full text of anything that is REPORTED lives in the replay file, which is not clipped."""
    if isinstance(v, str):
        if len(v) <= limit:
            return v
        return v[:limit] + f" ...[clipped: {len(v)} chars in all, sha256 {hashlib.sha256(v.encode('utf-8', 'replace')).hexdigest()}]"
    if isinstance(v, list):
        return [clip(x, limit) for x in v]
    if isinstance(v, dict):
        return {k: clip(x, limit) for k, x in v.items()}
    return v


def write_evidence(pid, ev):
    os.makedirs(os.path.join(VERIF, "evidence"), exist_ok=True)
    path = os.path.join(VERIF, "evidence", pid + ".json")
    limit = EVIDENCE_STR_MAX
    while True:
        text = json.dumps(clip(ev, limit), indent=1)
        if len(text.encode()) <= EVIDENCE_FILE_MAX or limit <= 250:
            break
        limit //= 2
    json.loads(text)
    tmp = path + f".tmp{os.getpid()}"
    with open(tmp, "w") as f:
        f.write(text)
        f.flush()
        os.fsync(f.fileno())
    os.replace(tmp, path)


def replay(pid, spec, path):
    with Lock():
        hok, hout, hbin = build_harness(spec["harness"])
        dok, dout, _, _ = lake_build([driver_target(pid)])
    if not hok:
        print(hout)
        return 2
    ops = [l for l in open(path).read().splitlines() if l.strip() and not l.startswith("#")]
    tmp = os.path.join(BUILD, "run", f"replay-{os.getpid()}.txt")
    os.makedirs(os.path.dirname(tmp), exist_ok=True)
    open(tmp, "w").write("\n".join(ops) + "\n")
    rc, out, _ = sh([hbin, "-replay", tmp], env=GOENV)
    impl = [l for l in out.splitlines() if not l.startswith("{")]
    model = []
    if dok:
        mp = tmp + ".model"
        run_driver(pid, tmp, mp)
        model = open(mp).read().splitlines()
        os.remove(mp)
    os.remove(tmp)
    for i, op in enumerate(ops):
        print(f"op:    {op}\n impl:  {impl[i] if i < len(impl) else '?'}\n model: {model[i] if i < len(model) else '?'}")
    return 0
