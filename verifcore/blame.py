"""Whose is it?  Attribution of a broken proof module or of a disagreement / oracle failure seen in a COMPOSITION
stream (a module or a stream that one property's check builds although its content belongs to other properties:
lean/SemaModel/Compose under C02's check, lean/SemaModel/ClusterCompose under C17's, ObserveProps over Compose under
C07's) to the property that owns it.

Soundness rule used everywhere in this file: an item is handed to another property only when that can be SHOWN
(the failing Lean declaration lies in the other property's directory and is built by that property's own check; the
op has no part that the observing property owns, or every such part was re-run on the same history and agrees with
the model).  Whatever cannot be attributed stays a violation of the check that saw it.

A foreign item is never dropped: the check prints `NOTE property=<observer> belongs-to=<owner> …`, lists it in the
evidence (`coverage.foreign`) and writes `replays/<observer>-foreign-seed<N>.txt`.  See notes/CROSSALARM.md."""
import os, re, subprocess

VERIF = os.path.dirname(os.path.dirname(os.path.abspath(__file__)))
LEAN = os.path.join(VERIF, "lean")


# ---------------------------------------------------------------------------------------- Lean import graph

def module_file(mod):
    return os.path.join(LEAN, mod.replace(".", "/") + ".lean")


def lean_imports(mod):
    try:
        src = open(module_file(mod)).read()
    except OSError:
        return []
    return re.findall(r"^import\s+(SemaModel\.\S+)", src, re.M)


def lean_closure(mods):
    seen, todo = set(), list(mods)
    while todo:
        m = todo.pop()
        if m in seen:
            continue
        seen.add(m)
        todo += lean_imports(m)
    return seen


def module_of_relpath(relpath):
    return relpath[:-5].replace("/", ".") if relpath.endswith(".lean") else relpath.replace("/", ".")


def dir_owner(mod):
    """'C05' for SemaModel.C05.X; 'Compose' / 'ClusterCompose' / 'Generated' / 'Base' otherwise"""
    parts = mod.split(".")
    return parts[1] if len(parts) > 1 else ""


def owner_builds(owner_pid, mod):
    """does the OWN check of `owner_pid` build module `mod` (is it in the import closure of its lean_modules)?"""
    path = os.path.join(VERIF, "props", owner_pid + ".py")
    if not os.path.exists(path):
        return False
    m = re.search(r'"lean_modules"\s*:\s*\[([^\]]*)\]', open(path).read())
    if not m:
        return False
    mods = re.findall(r'"(SemaModel\.[^"]+)"', m.group(1))
    return mod in lean_closure(mods)


def split_build_failure(pid, spec, error_files):
    """A `lake build` of spec.lean_modules failed with errors located in `error_files` (paths relative to lean/).
    Returns None when the failure is (or may be) the property's own, else
      {"owners": [...], "affected_own": [modules of SemaModel/<pid> that import a failing file],
       "affected_composition": [other modules of the list that import one], "unaffected": [...], "failing": [...]}
    The failure is foreign iff every failing file lies in the directory of ANOTHER property Cyy and Cyy's own check
    builds that file (so Cyy's check reports it)."""
    if not error_files:
        return None
    failing = sorted({module_of_relpath(f) for f in error_files})
    owners = set()
    for m in failing:
        o = dir_owner(m)
        if not re.fullmatch(r"C\d\d", o) or o == pid or not owner_builds(o, m):
            return None
        owners.add(o)
    aff_own, aff_comp, unaff = [], [], []
    for m in spec["lean_modules"]:
        if lean_closure([m]) & set(failing):
            (aff_own if dir_owner(m) == pid else aff_comp).append(m)
        else:
            unaff.append(m)
    return {"owners": sorted(owners), "affected_own": aff_own, "affected_composition": aff_comp, "unaffected": unaff, "failing": failing}


# ---------------------------------------------------------------------------------------- op-line grammar of go/cmd/c02

def split_q(ts):
    """one filter query (go/cmd/c02/ops.go parseQ) off the front of a token list -> (its tokens, rest) or None"""
    if not ts:
        return None
    k = ts[0]
    try:
        if k in ("str", "int", "flt"):
            n = 5
        elif k == "arr":
            n = 4 + int(ts[3])
        elif k == "ideq":
            n = 2
        elif k == "idany":
            n = 2 + int(ts[1])
        elif k in ("and", "or"):
            cnt, rest, out = int(ts[1]), ts[2:], ts[:2]
            for _ in range(cnt):
                r = split_q(rest)
                if r is None:
                    return None
                out, rest = out + r[0], r[1]
            return out, rest
        else:
            return None
    except (ValueError, IndexError):
        return None
    if len(ts) < n:
        return None
    return ts[:n], ts[n:]


def parse_rq(ts):
    """a ranking request tree (go/cmd/c02/rank.go parseRQ) -> ({"kind", "subs", "filter"}, rest) or None.
    kinds: and / or (sub-trees), flat / text (ranking leaves with an optional pre-filter), filt (a filter leaf)"""
    if not ts:
        return None
    k = ts[0]
    try:
        if k in ("and", "or"):
            # inside a ranking tree and/or take ranking sub-trees; a pure filter below is a leaf (`filt`)
            cnt, rest, subs = int(ts[1]), ts[2:], []
            for _ in range(cnt):
                r = parse_rq(rest)
                if r is None:
                    return None
                subs.append(r[0])
                rest = r[1]
            return {"kind": k, "subs": subs, "filter": None}, rest
        if k in ("flat", "text"):
            if len(ts) < 7:
                return None
            rest = ts[6:]
            if rest[0] == "nofilter":
                return {"kind": k, "subs": [], "filter": None}, rest[1:]
            if rest[0] != "filter":
                return None
            r = split_q(rest[1:])
            if r is None:
                return None
            return {"kind": k, "subs": [], "filter": r[0]}, r[1]
    except (ValueError, IndexError):
        return None
    r = split_q(ts)
    if r is None:
        return None
    return {"kind": "filt", "subs": [], "filter": r[0]}, r[1]


def rq_filters(node):
    out = [node["filter"]] if node["filter"] else []
    for s in node["subs"]:
        out += rq_filters(s)
    return out


def rq_rank_kinds(node):
    out = {node["kind"]} if node["kind"] in ("flat", "text") else set()
    for s in node["subs"]:
        out |= rq_rank_kinds(s)
    return out


def searchx_query(line):
    """`searchx <nsel> sel… <nsort> (path dir)… off lim <Q…>` -> tokens of Q, or None"""
    ts = line.split()
    try:
        i = 1
        nsel = int(ts[i]); i += 1 + nsel
        nsort = int(ts[i]); i += 1 + 2 * nsort
        i += 2
        r = split_q(ts[i:])
    except (ValueError, IndexError):
        return None
    if r is None or r[1]:
        return None
    return r[0]


# ---------------------------------------------------------------------------------------- re-running parts of an op

READONLY = ("search", "searchx", "searchr", "dump", "fdump", "tdump")


def probe(runner, hbin, pid, mode, ops, probes, workdir, tag):
    """Replays the WRITE history of a stream (every line that is not a read) on a fresh shard and on the model, with
    the probe lines `probes[i]` (read-only requests) standing where line i stood.  Returns {i: [(probe, impl, model)…]}
    or None when the replay itself failed (then nothing is attributed)."""
    lines, where = [], []
    for i, op in enumerate(ops):
        if i in probes:
            for pl in probes[i]:
                where.append((i, len(lines)))
                lines.append(pl)
        if op.split(" ", 1)[0] in READONLY:
            continue
        lines.append(op)
    if not where:
        return {}
    os.makedirs(workdir, exist_ok=True)
    f = os.path.join(workdir, f"probe-{tag}.txt")
    open(f, "w").write("\n".join(lines) + "\n")
    try:
        p = subprocess.run([hbin, "-replay", f], env=runner.GOENV, stdout=subprocess.PIPE, stderr=subprocess.DEVNULL, text=True, errors="replace", timeout=900)
    except Exception:
        return None
    impl = [l for l in p.stdout.splitlines()]
    ok, _ = runner.run_driver(pid, f, f + ".model", (mode,) if mode else ())
    if p.returncode != 0 or not ok:
        return None
    model = open(f + ".model").read().splitlines()
    if len(impl) != len(lines) or len(model) != len(lines):
        return None
    out = {}
    for i, k in where:
        out.setdefault(i, []).append((lines[k], impl[k], model[k]))
    return out


RANK_OWNER = {"flat": "C04", "text": "C05"}


def rank_owners(node):
    """who owns the ranking part of a request tree: the leaf's index for a plain request, C06 (hybrid merge) plus the
    leaves' indexes for a composite one"""
    kinds = rq_rank_kinds(node)
    owners = sorted({RANK_OWNER[k] for k in kinds})
    if node["kind"] in ("and", "or"):
        owners = sorted(set(owners) | {"C06"})
    return owners
