//go:build !linux

package vh

// IsolateNet: network namespaces are a Linux facility; elsewhere the harness runs as it is.
func IsolateNet(name string) {}
