// Package vh: helpers shared by the correspondence harnesses (PRNG, op/impl line writers, stats).
package vh

import (
	"bufio"
	"encoding/hex"
	"encoding/json"
	"fmt"
	"os"
	"path/filepath"
	"sort"
)

// SplitMix64: every random choice of a harness derives from one state seeded by VERIF_SEED.
type Rng struct{ s uint64 }

func NewRng(seed uint64) *Rng { return &Rng{s: seed*0x9E3779B97F4A7C15 + 0x1234567} }
func (r *Rng) U64() uint64 {
	r.s += 0x9E3779B97F4A7C15
	z := r.s
	z = (z ^ (z >> 30)) * 0xBF58476D1CE4E5B9
	z = (z ^ (z >> 27)) * 0x94D049BB133111EB
	return z ^ (z >> 31)
}
func (r *Rng) Intn(n int) int {
	if n <= 0 {
		return 0
	}
	return int(r.U64() % uint64(n))
}
func (r *Rng) Bool() bool          { return r.U64()&1 == 1 }
func (r *Rng) Chance(p int) bool   { return r.Intn(100) < p } // p percent
func Pick[T any](r *Rng, xs []T) T { return xs[r.Intn(len(xs))] }

// Out collects the op lines sent to the model driver and the implementation's answers.
type Out struct {
	dir        string
	ops, impl  *bufio.Writer
	fo, fi     *os.File
	N          int
	Stats      map[string]int
	Samples    []string
	Oracle     []OracleFailure
	Foreign    []ForeignNote
	distinct   map[string]struct{}
	Nontrivial int
}

// OracleFailure: the implementation itself violates the property on a concrete input.
type OracleFailure struct {
	Signature string `json:"signature"` // stable identifier of the witness (matched against known findings)
	What      string `json:"what"`
	Replay    string `json:"replay"` // op lines reproducing it
}

// ForeignNote: something this harness saw on the real code that is NOT a violation of the property it checks but of
// another one (e.g. a comparator that needs answers in score order meets an answer that is not: the order is the text
// index's statement, the comparison "same answer warm and cold" still goes through).  The runner prints it as
// `NOTE property=<this> belongs-to=<owner>`, never as a violation of this property; the owner's check reports it.
// Only to be used when the harness can SHOW that its own property still holds on that input.
type ForeignNote struct {
	Owners []string `json:"owners"`
	Stream string   `json:"stream"`
	Op     string   `json:"op"`
	Why    string   `json:"why"`
	Replay string   `json:"replay"`
}

func (o *Out) Note(owner, stream, op, why, replay string) {
	o.Stats["foreign-note"]++
	if len(o.Foreign) < 50 {
		o.Foreign = append(o.Foreign, ForeignNote{[]string{owner}, stream, op, why, replay})
	}
}

func NewOut(dir string) *Out {
	if err := os.MkdirAll(dir, 0o755); err != nil {
		panic(err)
	}
	fo, err := os.Create(filepath.Join(dir, "ops.txt"))
	if err != nil {
		panic(err)
	}
	fi, err := os.Create(filepath.Join(dir, "impl.txt"))
	if err != nil {
		panic(err)
	}
	return &Out{dir: dir, fo: fo, fi: fi, ops: bufio.NewWriter(fo), impl: bufio.NewWriter(fi), Stats: map[string]int{}, distinct: map[string]struct{}{}}
}

// Emit one op line and the implementation's canonical answer. kind feeds the distribution stats;
// nontrivial marks cases that count towards distinct_nontrivial (rule stated by the harness).
func (o *Out) Emit(kind, op, implOut string, nontrivial bool) {
	fmt.Fprintln(o.ops, op)
	fmt.Fprintln(o.impl, implOut)
	o.N++
	o.Stats[kind]++
	if nontrivial {
		if _, ok := o.distinct[op]; !ok {
			o.distinct[op] = struct{}{}
			o.Nontrivial++
		}
	}
	if len(o.Samples) < 12 && o.Stats[kind] <= 1 {
		o.Samples = append(o.Samples, op+" => "+implOut)
	}
}

func (o *Out) Fail(sig, what, replay string) {
	o.Stats["oracle-failure"]++
	if len(o.Oracle) < 50 {
		o.Oracle = append(o.Oracle, OracleFailure{sig, what, replay})
	}
}

func (o *Out) Close(extra map[string]any) {
	o.ops.Flush()
	o.impl.Flush()
	o.fo.Close()
	o.fi.Close()
	keys := make([]string, 0, len(o.Stats))
	for k := range o.Stats {
		keys = append(keys, k)
	}
	sort.Strings(keys)
	if o.Oracle == nil {
		o.Oracle = []OracleFailure{}
	}
	m := map[string]any{"evaluations": o.N, "distinct_nontrivial": o.Nontrivial, "distribution": o.Stats, "samples": o.Samples, "oracle_failures": o.Oracle}
	if len(o.Foreign) > 0 {
		m["foreign"] = o.Foreign
	}
	for k, v := range extra {
		m[k] = v
	}
	b, _ := json.MarshalIndent(m, "", " ")
	if err := os.WriteFile(filepath.Join(o.dir, "stats.json"), b, 0o644); err != nil {
		panic(err)
	}
}

func Hex(b []byte) string {
	if len(b) == 0 {
		return "-"
	}
	return hex.EncodeToString(b)
}

func B01(b bool) string {
	if b {
		return "1"
	}
	return "0"
}
