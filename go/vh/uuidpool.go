package vh

// UuidPool: the id pool every harness that stores points should draw from. Identifiers are 16
// opaque bytes to the repository (uuid.Parse accepts any 32 hex digits, the API accepts whatever
// uuid.Parse accepts), so the pool holds, beside random RFC 4122 v4 ids, the boundary values of the
// type and ids that are close to each other:
//
//	always          the nil uuid 00000000-0000-0000-0000-000000000000 (the ZERO VALUE of the Go type:
//	                what a pre-sized slice, a missing map entry or an unset struct field holds) and
//	                the max uuid ffffffff-ffff-ffff-ffff-ffffffffffff
//	boundary picks  …0001 / 01…00 / …fffe / 7f…ff (one bit / one byte away from nil and max), the
//	                "version and variant bits only" id 00000000-0000-4000-8000-000000000000
//	neighbours      of a random member: last byte ^1, first byte ^0x80, one random byte changed,
//	                version nibble changed (v4 -> v1 / v7 / 0 / f), variant bits changed (10 -> 00 / 11 / 111),
//	                both halves swapped
//
// The result has n distinct ids (n >= 2 gets nil and max; about half of the rest are boundary
// values and neighbours, the others random v4). Order is shuffled. Everything derives from r.
// Returned as [16]byte so that this package stays stdlib-only: uuid.UUID(p[i]) converts.
func UuidPool(r *Rng, n int) [][16]byte {
	if n <= 0 {
		return nil
	}
	seen := map[[16]byte]bool{}
	var pool [][16]byte
	add := func(u [16]byte) bool {
		if seen[u] || len(pool) >= n {
			return false
		}
		seen[u] = true
		pool = append(pool, u)
		return true
	}
	randV4 := func() [16]byte {
		var b [16]byte
		a, d := r.U64(), r.U64()
		for j := 0; j < 8; j++ {
			b[j] = byte(a >> (8 * j))
			b[8+j] = byte(d >> (8 * j))
		}
		b[6] = (b[6] & 0x0f) | 0x40
		b[8] = (b[8] & 0x3f) | 0x80
		return b
	}
	var nilU, maxU [16]byte
	for i := range maxU {
		maxU[i] = 0xff
	}
	if n >= 2 {
		add(nilU)
		add(maxU)
	}
	// fixed boundary values
	fixed := func() [][16]byte {
		var out [][16]byte
		u := nilU
		u[15] = 1
		out = append(out, u) // …0001: differs from nil only in the last byte
		u = nilU
		u[0] = 1
		out = append(out, u) // 01…00: differs from nil only in the first byte
		u = maxU
		u[15] = 0xfe
		out = append(out, u) // …fffe
		u = maxU
		u[0] = 0x7f
		out = append(out, u) // 7f…ff
		u = nilU
		u[6], u[8] = 0x40, 0x80
		out = append(out, u) // only the version and variant bits set
		u = nilU
		u[7] = 1
		out = append(out, u) // one bit in the middle
		return out
	}()
	neighbour := func(b [16]byte) [16]byte {
		u := b
		switch r.Intn(8) {
		case 0:
			u[15] ^= 1
		case 1:
			u[0] ^= 0x80
		case 2:
			u[r.Intn(16)] ^= byte(1 + r.Intn(255))
		case 3:
			u[6] = (u[6] & 0x0f) | Pick(r, []byte{0x10, 0x70, 0x00, 0xf0})
		case 4:
			u[8] = (u[8] & 0x1f) | Pick(r, []byte{0x00, 0xc0, 0xe0, 0x40})
		case 5:
			for i := 0; i < 8; i++ {
				u[i], u[8+i] = u[8+i], u[i]
			}
		case 6:
			u[15]++ // with carry-free wrap: …ff -> …00
		default:
			u[r.Intn(16)] = 0
		}
		return u
	}
	special := (n - len(pool)) / 2
	// at least one random base to take neighbours of
	if len(pool) < n {
		add(randV4())
	}
	for tries := 0; special > 0 && tries < 200; tries++ {
		var u [16]byte
		if r.Chance(40) {
			u = Pick(r, fixed)
		} else {
			u = neighbour(pool[r.Intn(len(pool))])
		}
		if add(u) {
			special--
		}
	}
	for len(pool) < n {
		add(randV4())
	}
	// shuffle (Fisher-Yates), so that position in the pool says nothing about the kind
	for i := len(pool) - 1; i > 0; i-- {
		j := r.Intn(i + 1)
		pool[i], pool[j] = pool[j], pool[i]
	}
	return pool
}
