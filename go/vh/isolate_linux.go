//go:build linux

package vh

import (
	"fmt"
	"net"
	"os"
	"os/exec"
	"path/filepath"
	"runtime"
	"syscall"
	"unsafe"
)

// IsolateNet makes a harness that opens TCP listeners immune to everything else that runs on the
// machine — a second run of the same check (same seed or not), another agent's cluster, a foreign
// process sitting on a recorded port.
//
// Called first thing in main. It re-executes the program in a network namespace of its own (fresh
// loopback interface: every port is free, nothing outside can connect, recorded ports of a replay can
// always be bound again, so shard placements that depend on "host:port" names are reproducible),
// passes stdin / stdout / stderr through and exits with the child's exit code. In the child (marked by
// an environment variable) it brings `lo` up and returns. Where a new namespace is not permitted it
// returns in the original process holding an exclusive lock <TMPDIR>/verif-<name>.lock until exit,
// which at least serialises the runs of this harness against each other.
func IsolateNet(name string) {
	const envKey = "VERIF_NETNS_CHILD"
	const exitNoNetns = 78
	switch os.Getenv(envKey) {
	case "1": // the child in its new namespace
		if err := loopbackUp(); err != nil {
			fmt.Fprintln(os.Stderr, "vh: no usable loopback in the new network namespace:", err)
			os.Exit(exitNoNetns)
		}
		return
	case "0": // isolation switched off by the caller
		return
	}
	// the child is to die with this process (Pdeathsig follows the forking OS thread: pin it)
	runtime.LockOSThread()
	self, err := os.Executable()
	if err == nil {
		cmd := exec.Command(self, os.Args[1:]...)
		cmd.Env = append(os.Environ(), envKey+"=1")
		cmd.Stdin, cmd.Stdout, cmd.Stderr = os.Stdin, os.Stdout, os.Stderr
		attr := &syscall.SysProcAttr{Unshareflags: syscall.CLONE_NEWNET, Pdeathsig: syscall.SIGKILL}
		if os.Geteuid() != 0 {
			// unprivileged: a user namespace in which we are root comes with the right to make a network namespace
			attr = &syscall.SysProcAttr{
				Cloneflags:  syscall.CLONE_NEWUSER | syscall.CLONE_NEWNET,
				UidMappings: []syscall.SysProcIDMap{{ContainerID: 0, HostID: os.Geteuid(), Size: 1}},
				GidMappings: []syscall.SysProcIDMap{{ContainerID: 0, HostID: os.Getegid(), Size: 1}},
				Pdeathsig:   syscall.SIGKILL,
			}
		}
		cmd.SysProcAttr = attr
		err = cmd.Run()
		if err == nil {
			os.Exit(0)
		}
		if ee, ok := err.(*exec.ExitError); ok && ee.ExitCode() != exitNoNetns {
			if ee.ExitCode() < 0 {
				os.Exit(1) // killed by a signal
			}
			os.Exit(ee.ExitCode())
		}
	}
	// no namespace to be had: serialise the runs of this harness on this machine
	if lock, lerr := os.OpenFile(filepath.Join(os.TempDir(), "verif-"+name+".lock"), os.O_CREATE|os.O_RDWR, 0o666); lerr == nil {
		syscall.Flock(int(lock.Fd()), syscall.LOCK_EX) // released when the process exits
		netLock = lock
	}
}

var netLock *os.File // keeps the lock file open (and locked) for the life of the process

type ifreqFlags struct {
	name  [16]byte
	flags uint16
	_     [22]byte
}

// bring the loopback interface of a fresh network namespace up and make sure it can be used
func loopbackUp() error {
	fd, err := syscall.Socket(syscall.AF_INET, syscall.SOCK_DGRAM, 0)
	if err != nil {
		return err
	}
	defer syscall.Close(fd)
	var ifr ifreqFlags
	copy(ifr.name[:], "lo")
	if _, _, e := syscall.Syscall(syscall.SYS_IOCTL, uintptr(fd), syscall.SIOCGIFFLAGS, uintptr(unsafe.Pointer(&ifr))); e != 0 {
		return e
	}
	ifr.flags |= syscall.IFF_UP | syscall.IFF_RUNNING
	if _, _, e := syscall.Syscall(syscall.SYS_IOCTL, uintptr(fd), syscall.SIOCSIFFLAGS, uintptr(unsafe.Pointer(&ifr))); e != 0 {
		return e
	}
	l, err := net.Listen("tcp", "127.0.0.1:0")
	if err != nil {
		return err
	}
	return l.Close()
}
