// Package vgraph: shared machinery of the C10 / C03 harnesses — histories of insert / update /
// delete batches executed on a real file-backed shard, raw dumps of the index / points / internal
// buckets through (*Shard).VerifDB(), the real distance tables, and the property oracles evaluated
// directly on the real state and the real answers.
package vgraph

import (
	"encoding/binary"
	"fmt"
	"math"
	"os"
	"path/filepath"
	"sort"
	"strconv"
	"strings"

	"github.com/google/uuid"
	"github.com/semafind/semadb/conversion"
	"github.com/semafind/semadb/diskstore"
	"github.com/semafind/semadb/models"
	"github.com/semafind/semadb/shard"
	"github.com/semafind/semadb/shard/cache"
	"github.com/semafind/semadb/shard/vectorstore"
	"github.com/vmihailenco/msgpack/v5"
)

const (
	EntryId = 1 // vamana.STARTID
	SibKey  = "s" // a field beside the vector leaf (same parent object); not indexed
	TagKey  = "t" // a top-level field that no index knows
)

// ------------------------------------------------------------------------------------ config

type Config struct {
	Metric  string
	Dim     int
	R       int // degree bound (the shard API accepts any value; HTTP validation demands 32..64)
	SS      int // search size used while building (HTTP validation demands 25..75)
	Alpha   float32
	Quant   string // none | binfix | binlearn | pq
	Trigger int
	Cache   int64 // cache manager size: -1 unlimited (warm), 0 none (cold on every request)
	// Index schema keys: the property path of the vector index and of the integer index that serves the
	// pre-filters. A dotted path ("n.v", "n.m.v") indexes a NESTED property: the schema key is the path,
	// the documents (and every update, which merges top-level keys only) carry the top-level object.
	VPath string
	GPath string
}

func (c Config) VProp() string {
	if c.VPath == "" {
		return "v"
	}
	return c.VPath
}

func (c Config) GProp() string {
	if c.GPath == "" {
		return "g"
	}
	return c.GPath
}

// PlainStore: the index keeps the raw vectors (n<id>v, rewritten by every Set) and nothing else.
func (c Config) PlainStore() bool {
	return c.Quant == "none" && c.Metric != "hamming" && c.Metric != "jaccard"
}

func (c Config) Bucket() string { return "index/vectorVamana/" + c.VProp() }

func (c Config) vSegs() []string { return strings.Split(c.VProp(), ".") }
func (c Config) gSegs() []string { return strings.Split(c.GProp(), ".") }

// Nested: the vector leaf lives inside an object (the update's top-level key is not the schema key).
func (c Config) Nested() bool { return len(c.vSegs()) > 1 }

func f32hex(f float32) string { return fmt.Sprintf("%08x", math.Float32bits(f)) }
func hexf32(s string) (float32, error) {
	u, err := strconv.ParseUint(s, 16, 32)
	return math.Float32frombits(uint32(u)), err
}

func (c Config) Line() string {
	return fmt.Sprintf("cfg metric=%s dim=%d R=%d ss=%d alpha=%s quant=%s trig=%d cache=%d vp=%s gp=%s", c.Metric, c.Dim, c.R, c.SS, f32hex(c.Alpha), c.Quant, c.Trigger, c.Cache, c.VProp(), c.GProp())
}

func kv(line string) (string, map[string]string) {
	fs := strings.Fields(line)
	m := map[string]string{}
	if len(fs) == 0 {
		return "", m
	}
	for _, f := range fs[1:] {
		if i := strings.IndexByte(f, '='); i >= 0 {
			m[f[:i]] = f[i+1:]
		}
	}
	return fs[0], m
}

func ParseConfig(line string) (Config, error) {
	k, m := kv(line)
	if k != "cfg" {
		return Config{}, fmt.Errorf("not a cfg line: %q", line)
	}
	var c Config
	c.Metric = m["metric"]
	c.Dim, _ = strconv.Atoi(m["dim"])
	c.R, _ = strconv.Atoi(m["R"])
	c.SS, _ = strconv.Atoi(m["ss"])
	a, err := hexf32(m["alpha"])
	if err != nil {
		return c, err
	}
	c.Alpha = a
	c.Quant = m["quant"]
	c.Trigger, _ = strconv.Atoi(m["trig"])
	c.Cache, _ = strconv.ParseInt(m["cache"], 10, 64)
	c.VPath, c.GPath = m["vp"], m["gp"] // absent (older replays): the flat schema v / g
	return c, nil
}

func (c Config) quantizer() *models.Quantizer {
	switch c.Quant {
	case "binfix":
		th := float32(0.5)
		return &models.Quantizer{Type: models.QuantizerBinary, Binary: &models.BinaryQuantizerParamaters{Threshold: &th, DistanceMetric: models.DistanceHamming}}
	case "binlearn":
		return &models.Quantizer{Type: models.QuantizerBinary, Binary: &models.BinaryQuantizerParamaters{TriggerThreshold: c.Trigger, DistanceMetric: models.DistanceJaccard}}
	case "pq":
		return &models.Quantizer{Type: models.QuantizerProduct, Product: &models.ProductQuantizerParameters{NumCentroids: 3, NumSubVectors: 2, TriggerThreshold: c.Trigger}}
	}
	return nil
}

func (c Config) Collection() models.Collection {
	return models.Collection{UserId: "verif", Id: "c", Replicas: 1,
		IndexSchema: models.IndexSchema{
			c.VProp(): models.IndexSchemaValue{Type: models.IndexTypeVectorVamana, VectorVamana: &models.IndexVectorVamanaParameters{
				VectorSize: uint(c.Dim), DistanceMetric: c.Metric, SearchSize: c.SS, DegreeBound: c.R, Alpha: c.Alpha, Quantizer: c.quantizer()}},
			c.GProp(): models.IndexSchemaValue{Type: models.IndexTypeInteger},
		},
		UserPlan: models.UserPlan{Name: "verif", MaxCollections: 1, MaxCollectionPointCount: 1 << 20, MaxPointSize: 1 << 20},
	}
}

// ------------------------------------------------------------------------------------ history ops

// PC: what one element of a batch does to point Idx.
type PC struct {
	Idx  int
	VSet bool      // the document sets the vector leaf to V
	VDel bool      // update only: <top-level key of the vector path>: "_delete"
	VNil bool      // the document sets the vector leaf to nil (msgpack nil: "no value")
	VObj bool      // nested paths: the parent object(s) of the leaf are present, the leaf itself is not
	Sib  bool      // a field beside the leaf (nested: inside the leaf's parent object, which therefore is present)
	Tag  bool      // an unrelated top-level field
	V    []float32 // when VSet
	GSet bool
	G    int64
}

// vTok: the vector column of an op line.
func (p PC) vTok() string {
	v := "-"
	switch {
	case p.VSet:
		v = vecStr(p.V)
	case p.VDel:
		v = "D"
	case p.VNil:
		v = "N"
	case p.VObj:
		v = "O"
	}
	if p.Sib {
		v += "+s"
	}
	if p.Tag {
		v += "+t"
	}
	return v
}

type Qry struct {
	Vec    []float32
	Limit  int
	SS     int
	Filter string // "-" | "g:lo:hi" | "id:i,j,k" (point indices)
	Weight *float32
}

type Op struct {
	Kind string // ins | upd | del | qry
	Pts  []PC
	Q    *Qry
}

func vecStr(v []float32) string {
	s := make([]string, len(v))
	for i, x := range v {
		s[i] = f32hex(x)
	}
	return strings.Join(s, ",")
}

func parseVec(s string) ([]float32, error) {
	if s == "" {
		return nil, nil
	}
	var r []float32
	for _, p := range strings.Split(s, ",") {
		f, err := hexf32(p)
		if err != nil {
			return nil, err
		}
		r = append(r, f)
	}
	return r, nil
}

func (o Op) Line() string {
	var b strings.Builder
	b.WriteString(o.Kind)
	switch o.Kind {
	case "ins", "upd":
		for _, p := range o.Pts {
			v := p.vTok()
			g := "-"
			if p.GSet {
				g = strconv.FormatInt(p.G, 10)
			}
			fmt.Fprintf(&b, " %d;%s;%s", p.Idx, v, g)
		}
	case "del":
		for _, p := range o.Pts {
			fmt.Fprintf(&b, " %d", p.Idx)
		}
	case "qry":
		w := "-"
		if o.Q.Weight != nil {
			w = f32hex(*o.Q.Weight)
		}
		fmt.Fprintf(&b, " v=%s limit=%d ss=%d filter=%s weight=%s", vecStr(o.Q.Vec), o.Q.Limit, o.Q.SS, o.Q.Filter, w)
	}
	return b.String()
}

func ParseOp(line string) (Op, error) {
	fs := strings.Fields(line)
	if len(fs) == 0 {
		return Op{}, fmt.Errorf("empty op")
	}
	o := Op{Kind: fs[0]}
	switch o.Kind {
	case "ins", "upd":
		for _, f := range fs[1:] {
			ps := strings.Split(f, ";")
			if len(ps) != 3 {
				return o, fmt.Errorf("bad point %q", f)
			}
			var p PC
			p.Idx, _ = strconv.Atoi(ps[0])
			for strings.HasSuffix(ps[1], "+s") || strings.HasSuffix(ps[1], "+t") {
				if strings.HasSuffix(ps[1], "+s") {
					p.Sib = true
				} else {
					p.Tag = true
				}
				ps[1] = ps[1][:len(ps[1])-2]
			}
			switch ps[1] {
			case "-":
			case "D":
				p.VDel = true
			case "N":
				p.VNil = true
			case "O":
				p.VObj = true
			default:
				v, err := parseVec(ps[1])
				if err != nil {
					return o, err
				}
				p.VSet, p.V = true, v
			}
			if ps[2] != "-" {
				p.GSet = true
				p.G, _ = strconv.ParseInt(ps[2], 10, 64)
			}
			o.Pts = append(o.Pts, p)
		}
	case "del":
		for _, f := range fs[1:] {
			i, err := strconv.Atoi(f)
			if err != nil {
				return o, err
			}
			o.Pts = append(o.Pts, PC{Idx: i})
		}
	case "qry":
		_, m := kv(line)
		q := &Qry{}
		v, err := parseVec(m["v"])
		if err != nil {
			return o, err
		}
		q.Vec = v
		q.Limit, _ = strconv.Atoi(m["limit"])
		q.SS, _ = strconv.Atoi(m["ss"])
		q.Filter = m["filter"]
		if m["weight"] != "-" && m["weight"] != "" {
			w, err := hexf32(m["weight"])
			if err != nil {
				return o, err
			}
			q.Weight = &w
		}
		o.Q = q
	default:
		return o, fmt.Errorf("unknown op %q", fs[0])
	}
	return o, nil
}

// ------------------------------------------------------------------------------------ the real shard

type Sim struct {
	Cfg Config
	Dir string
	Sh  *shard.Shard
	Col models.Collection
}

func PointUUID(idx int) uuid.UUID {
	var u uuid.UUID
	copy(u[:], []byte("verif-point-"))
	binary.BigEndian.PutUint32(u[12:], uint32(idx))
	return u
}

func PointIdx(u uuid.UUID) int { return int(binary.BigEndian.Uint32(u[12:])) }

func NewSim(cfg Config, dir string) (*Sim, error) {
	if err := os.MkdirAll(dir, 0o755); err != nil {
		return nil, err
	}
	col := cfg.Collection()
	sh, err := shard.NewShard(filepath.Join(dir, "shard.bbolt"), col, cache.NewManager(cfg.Cache))
	if err != nil {
		return nil, err
	}
	return &Sim{Cfg: cfg, Dir: dir, Sh: sh, Col: col}, nil
}

func (s *Sim) Close() {
	s.Sh.Close()
	os.RemoveAll(s.Dir)
}

// objAt walks / creates the objects along segs inside m and returns the innermost one (nil when a
// non-object is in the way, e.g. the top-level key was set to "_delete").
func objAt(m map[string]any, segs []string) map[string]any {
	for _, k := range segs {
		x, ok := m[k]
		if !ok {
			n := map[string]any{}
			m[k] = n
			m = n
			continue
		}
		n, ok := x.(map[string]any)
		if !ok {
			return nil
		}
		m = n
	}
	return m
}

// DocOf: the document (insert) or the incoming partial document (update) of one batch element.
func (c Config) DocOf(p PC) map[string]any {
	m := map[string]any{}
	vs, gs := c.vSegs(), c.gSegs()
	leaf, par := vs[len(vs)-1], vs[:len(vs)-1]
	if p.VDel {
		m[vs[0]] = shard.DELETEVALUE
	}
	if p.VSet || p.VNil || p.VObj || p.Sib {
		// VObj: the walk creates the parent objects and puts nothing inside
		if o := objAt(m, par); o != nil {
			if p.VSet {
				o[leaf] = p.V
			} else if p.VNil {
				o[leaf] = nil
			}
			if p.Sib {
				o[SibKey] = int64(1)
			}
		}
	}
	if p.GSet {
		if o := objAt(m, gs[:len(gs)-1]); o != nil {
			o[gs[len(gs)-1]] = p.G
		}
	}
	if p.Tag {
		m[TagKey] = int64(1)
	}
	return m
}

// TouchesVector: the element carries the top-level key under which the vector leaf lives (an update
// replaces that whole top-level value, whatever else is inside it).
func (c Config) TouchesVector(p PC) bool {
	_, ok := c.DocOf(p)[c.vSegs()[0]]
	return ok
}

// MergeTop: the shard's update semantics — top-level keys of the incoming document replace the stored
// ones, the string "_delete" removes the key.
func MergeTop(old, inc map[string]any) map[string]any {
	r := map[string]any{}
	for k, v := range old {
		r[k] = v
	}
	for k, v := range inc {
		if s, ok := v.(string); ok && s == shard.DELETEVALUE {
			delete(r, k)
		} else {
			r[k] = v
		}
	}
	return r
}

// LookupPath: the value a dotted path selects in a decoded document (nil: absent or msgpack nil —
// the index dispatcher does not distinguish the two).
func LookupPath(m map[string]any, segs []string) any {
	var cur any = m
	for _, k := range segs {
		o, ok := cur.(map[string]any)
		if !ok {
			return nil
		}
		cur, ok = o[k]
		if !ok {
			return nil
		}
	}
	return cur
}

// Apply executes one write batch on the real shard.
func (s *Sim) Apply(o Op) error {
	switch o.Kind {
	case "ins", "upd":
		pts := make([]models.Point, len(o.Pts))
		for i, p := range o.Pts {
			b, err := msgpack.Marshal(s.Cfg.DocOf(p))
			if err != nil {
				return err
			}
			pts[i] = models.Point{Id: PointUUID(p.Idx), Data: b}
		}
		if o.Kind == "ins" {
			return s.Sh.InsertPoints(pts)
		}
		_, err := s.Sh.UpdatePoints(pts)
		return err
	case "del":
		set := map[uuid.UUID]struct{}{}
		for _, p := range o.Pts {
			set[PointUUID(p.Idx)] = struct{}{}
		}
		_, err := s.Sh.DeletePoints(set)
		return err
	}
	return fmt.Errorf("not a write op: %s", o.Kind)
}

// ------------------------------------------------------------------------------------ dumps

type Dump struct {
	Nodes    map[uint64][]uint64 // n<id>e
	Vecs     map[uint64]bool     // n<id>v or n<id>q present
	MaxId    uint64
	Quant    string // fingerprint of the persisted quantiser parameters
	NodeUUID map[uint64]uuid.UUID
	UUIDNode map[uuid.UUID]uint64
	HasField map[uint64]bool // node id -> the stored document has the vector property (at the schema's path)
	DocVec   map[uint64][]float32 // node id -> the vector the stored document carries at that path
	RawVec   map[uint64][]float32 // node id -> the raw vector persisted in the index (n<id>v), when there is one
	Docs     map[uint64]map[string]any // node id -> the decoded stored document
	HasDoc   map[uint64]bool
	GVal     map[uint64]int64
	Free     []uint64
	NextFree uint64
	Count    uint64
	Problems []string // malformed keys / values met while dumping
	Fresh    bool     // the index bucket holds no node and no vector yet
}

func (s *Sim) Dump() (*Dump, error) {
	d := &Dump{Nodes: map[uint64][]uint64{}, Vecs: map[uint64]bool{}, NodeUUID: map[uint64]uuid.UUID{}, UUIDNode: map[uuid.UUID]uint64{},
		HasField: map[uint64]bool{}, DocVec: map[uint64][]float32{}, RawVec: map[uint64][]float32{}, Docs: map[uint64]map[string]any{}, HasDoc: map[uint64]bool{}, GVal: map[uint64]int64{}, NextFree: 2}
	err := s.Sh.VerifDB().Read(func(bm diskstore.BucketManager) error {
		b, err := bm.Get(s.Cfg.Bucket())
		if err != nil {
			return err
		}
		var quant []string
		err = b.ForEach(func(k, v []byte) error {
			if id, ok := conversion.NodeIdFromKey(k, 'e'); ok {
				if len(v)%8 != 0 {
					d.Problems = append(d.Problems, fmt.Sprintf("edge list of %d has %d bytes", id, len(v)))
				}
				d.Nodes[id] = append([]uint64{}, conversion.BytesToEdgeList(v)...)
				return nil
			}
			if id, ok := conversion.NodeIdFromKey(k, 'v'); ok {
				d.Vecs[id] = true
				d.RawVec[id] = append([]float32{}, conversion.BytesToFloat32(append([]byte{}, v...))...)
				return nil
			}
			if id, ok := conversion.NodeIdFromKey(k, 'q'); ok {
				d.Vecs[id] = true
				return nil
			}
			if string(k) == "_vamanaMaxNodeId" {
				d.MaxId = conversion.BytesToUint64(v)
				return nil
			}
			if strings.HasPrefix(string(k), "_") {
				quant = append(quant, fmt.Sprintf("%s=%x", k, v))
				return nil
			}
			d.Problems = append(d.Problems, fmt.Sprintf("unknown index key %x", k))
			return nil
		})
		if err != nil {
			return err
		}
		sort.Strings(quant)
		d.Quant = strings.Join(quant, ";")
		if len(d.Nodes) == 0 && len(d.Vecs) == 0 {
			// An index bucket that was never written is the fresh index: NewIndexVamana
			// materialises the entry node (with a random vector) on first use.
			d.Fresh = true
			d.Nodes[EntryId] = nil
			d.Vecs[EntryId] = true
		}
		pb, err := bm.Get("points")
		if err != nil {
			return err
		}
		err = pb.ForEach(func(k, v []byte) error {
			if id, ok := conversion.NodeIdFromKey(k, 'i'); ok {
				if len(v) != 16 {
					d.Problems = append(d.Problems, fmt.Sprintf("n%di is not a uuid", id))
					return nil
				}
				d.NodeUUID[id] = uuid.UUID(v)
				return nil
			}
			if id, ok := conversion.NodeIdFromKey(k, 'd'); ok {
				d.HasDoc[id] = true
				var m map[string]any
				if err := msgpack.Unmarshal(v, &m); err != nil {
					d.Problems = append(d.Problems, fmt.Sprintf("document of node %d does not decode", id))
					return nil
				}
				d.Docs[id] = m
				if x := LookupPath(m, s.Cfg.vSegs()); x != nil {
					d.HasField[id] = true
					if arr, ok := x.([]any); ok {
						vec := make([]float32, 0, len(arr))
						for _, e := range arr {
							switch t := e.(type) {
							case float32:
								vec = append(vec, t)
							case float64:
								vec = append(vec, float32(t))
							default:
								d.Problems = append(d.Problems, fmt.Sprintf("document of node %d: vector element %T", id, e))
							}
						}
						d.DocVec[id] = vec
					} else {
						d.Problems = append(d.Problems, fmt.Sprintf("document of node %d: the vector property is a %T", id, x))
					}
				}
				if x := LookupPath(m, s.Cfg.gSegs()); x != nil {
					switch t := x.(type) {
					case int64:
						d.GVal[id] = t
					case int8:
						d.GVal[id] = int64(t)
					case int16:
						d.GVal[id] = int64(t)
					case int32:
						d.GVal[id] = int64(t)
					case uint8:
						d.GVal[id] = int64(t)
					case uint16:
						d.GVal[id] = int64(t)
					case uint32:
						d.GVal[id] = int64(t)
					case uint64:
						d.GVal[id] = int64(t)
					}
				}
				return nil
			}
			if len(k) == 18 && k[0] == 'p' && k[17] == 'i' {
				d.UUIDNode[uuid.UUID(k[1:17])] = conversion.BytesToUint64(v)
				return nil
			}
			d.Problems = append(d.Problems, fmt.Sprintf("unknown points key %x", k))
			return nil
		})
		if err != nil {
			return err
		}
		ib, err := bm.Get(shard.INTERNALBUCKETNAME)
		if err != nil {
			return err
		}
		if v := ib.Get(shard.FREENODEIDSKEY); v != nil {
			d.Free = append([]uint64{}, conversion.BytesToEdgeList(v)...)
		}
		if v := ib.Get(shard.NEXTFREENODEIDKEY); v != nil {
			d.NextFree = conversion.BytesToUint64(v)
		}
		if v := ib.Get(shard.POINTCOUNTKEY); v != nil {
			d.Count = conversion.BytesToUint64(v)
		}
		return nil
	})
	return d, err
}

func sortedKeys[V any](m map[uint64]V) []uint64 {
	r := make([]uint64, 0, len(m))
	for k := range m {
		r = append(r, k)
	}
	sort.Slice(r, func(i, j int) bool { return r[i] < r[j] })
	return r
}

// Live: node ids of the live points whose document carries the vector field (ascending).
func (d *Dump) Live() []uint64 {
	var r []uint64
	for _, id := range sortedKeys(d.NodeUUID) {
		if d.HasField[id] {
			r = append(r, id)
		}
	}
	return r
}

func idList(ids []uint64) string {
	s := make([]string, len(ids))
	for i, x := range ids {
		s[i] = strconv.FormatUint(x, 10)
	}
	return strings.Join(s, ",")
}

// GraphFields: "max=.. V=.. N=.." — canonical: vectors ascending, nodes ascending, edge lists in stored order.
func (d *Dump) GraphFields() string {
	var ns []string
	for _, id := range sortedKeys(d.Nodes) {
		ns = append(ns, fmt.Sprintf("%d:%s", id, idList(d.Nodes[id])))
	}
	return fmt.Sprintf("max=%d V=%s N=%s", d.MaxId, idList(sortedKeys(d.Vecs)), strings.Join(ns, ";"))
}

// WFViolations: the property's well-formedness clauses, evaluated independently of the Lean predicate
// (kinds are stable identifiers used in witness signatures).
func (d *Dump) WFViolations(R int) []string {
	var v []string
	add := func(kind, detail string) { v = append(v, kind+" "+detail) }
	live := map[uint64]bool{}
	for _, id := range d.Live() {
		live[id] = true
	}
	want := map[uint64]bool{EntryId: true}
	for id := range live {
		want[id] = true
	}
	if live[EntryId] {
		add("entry-id-live", "a live point uses the entry node id")
	}
	for _, id := range sortedKeys(d.Nodes) {
		if !want[id] {
			add("extra-node", fmt.Sprintf("node %d has no live point carrying the field", id))
		}
	}
	for _, id := range sortedKeys(d.Vecs) {
		if !want[id] {
			add("extra-vector", fmt.Sprintf("vector %d has no live point carrying the field", id))
		}
	}
	for _, id := range sortedKeys(want) {
		if _, ok := d.Nodes[id]; !ok {
			add("missing-node", fmt.Sprintf("no node for %d", id))
		}
		if !d.Vecs[id] {
			add("missing-vector", fmt.Sprintf("no vector for %d", id))
		}
	}
	for _, id := range sortedKeys(d.Nodes) {
		es := d.Nodes[id]
		for _, t := range es {
			if t == id {
				add("self-loop", fmt.Sprintf("node %d", id))
			}
			if _, ok := d.Nodes[t]; !ok {
				add("dangling-edge", fmt.Sprintf("%d -> %d", id, t))
			}
		}
		if id != EntryId && len(es) > R {
			add("degree", fmt.Sprintf("node %d has %d > %d edges", id, len(es), R))
		}
	}
	for id := range live {
		if id > d.MaxId {
			add("max-node-id", fmt.Sprintf("id %d > recorded %d", id, d.MaxId))
		}
	}
	sort.Strings(v)
	return v
}

// IdViolations: node ids are unique among live points, never both live and free (C01's invariant,
// observed here on the raw buckets).
func (d *Dump) IdViolations() []string {
	var v []string
	add := func(kind, detail string) { v = append(v, kind+" "+detail) }
	for u, id := range d.UUIDNode {
		if back, ok := d.NodeUUID[id]; !ok || back != u {
			add("id-map", fmt.Sprintf("point %d -> node %d -> %v", PointIdx(u), id, ok))
		}
	}
	for id, u := range d.NodeUUID {
		if back, ok := d.UUIDNode[u]; !ok || back != id {
			add("id-map", fmt.Sprintf("node %d -> point %d -> %v", id, PointIdx(u), ok))
		}
		if id < 2 {
			add("id-reserved", fmt.Sprintf("live point uses node id %d", id))
		}
		if id >= d.NextFree {
			add("id-beyond-next", fmt.Sprintf("live id %d >= nextFree %d", id, d.NextFree))
		}
	}
	seen := map[uint64]bool{}
	for _, f := range d.Free {
		if seen[f] {
			add("free-dup", fmt.Sprintf("%d", f))
		}
		seen[f] = true
		if _, ok := d.NodeUUID[f]; ok {
			add("free-live", fmt.Sprintf("node id %d is live and on the free list", f))
		}
		if f >= d.NextFree || f < 2 {
			add("free-range", fmt.Sprintf("%d (nextFree %d)", f, d.NextFree))
		}
	}
	if d.Count != uint64(len(d.NodeUUID)) {
		add("point-count", fmt.Sprintf("%d recorded, %d live", d.Count, len(d.NodeUUID)))
	}
	sort.Strings(v)
	return v
}

func Kinds(vs []string) string {
	set := map[string]bool{}
	for _, s := range vs {
		set[strings.Fields(s)[0]] = true
	}
	var ks []string
	for k := range set {
		ks = append(ks, k)
	}
	sort.Strings(ks)
	return strings.Join(ks, "+")
}

// ------------------------------------------------------------------------------------ real distances

// FKey: order-preserving image of a (non-NaN) float32 in the naturals; -0.0 is identified with +0.0.
func FKey(f float32) uint32 {
	if f == 0 {
		f = 0
	}
	b := math.Float32bits(f)
	if b == 0x80000000 {
		b = 0
	}
	if b&0x80000000 != 0 {
		return ^b
	}
	return b | 0x80000000
}

// WithStore opens the repository's vector store on the persisted index bucket (read transaction).
func (s *Sim) WithStore(fn func(st vectorstore.VectorStore) error) error {
	return s.Sh.VerifDB().Read(func(bm diskstore.BucketManager) error {
		b, err := bm.Get(s.Cfg.Bucket())
		if err != nil {
			return err
		}
		st, err := vectorstore.New(s.Cfg.quantizer(), b, s.Cfg.Metric, s.Cfg.Dim)
		if err != nil {
			return err
		}
		return fn(st)
	})
}

// QueryDists: DistanceFromFloat(q)(point) for every stored vector, from the real distance function.
func (s *Sim) QueryDists(q []float32, ids []uint64) (map[uint64]float32, error) {
	r := map[uint64]float32{}
	err := s.WithStore(func(st vectorstore.VectorStore) error {
		fn := st.DistanceFromFloat(q)
		for _, id := range ids {
			p, err := st.Get(id)
			if err != nil {
				return fmt.Errorf("vector %d: %w", id, err)
			}
			r[id] = fn(p)
		}
		return nil
	})
	return r, err
}

// DocDists: the index's distance between the query and the vector each live point's DOCUMENT carries:
// the vector is handed to a scratch instance of the repository's vector store opened on the persisted
// bucket (so it is encoded by the quantiser as trained right now, or kept raw before training) and
// DistanceFromFloat(q) is evaluated on that point. Nothing is flushed.
//
// A TRAINED product quantiser needs care: the points present at training time carry the k-means
// labels (euclidean assignment), later Sets the nearest centroid under the configured metric, so
// re-encoding a document's vector reproduces the stored code only for vectors set after the training
// (and the raw vectors persisted beside the codes are no reference either: KMeans initialises its
// centroids as sub-slices of the data and averages into them, see notes/C03.md). There only the nodes
// in `postTrain` are judged: those whose document vector changed in a batch that started with the
// quantiser already trained — an index in step has re-encoded exactly those with `encode`.
func (s *Sim) DocDists(q []float32, d *Dump, postTrain map[uint64]bool) (map[uint64]float32, error) {
	r := map[uint64]float32{}
	trainedPQ := s.Cfg.Quant == "pq" && d.Quant != ""
	err := s.WithStore(func(st vectorstore.VectorStore) error {
		fn := st.DistanceFromFloat(q)
		for _, id := range d.Live() {
			vec, ok := d.DocVec[id]
			if !ok || len(vec) != s.Cfg.Dim || (trainedPQ && !postTrain[id]) {
				continue
			}
			p, err := st.Set(id, vec)
			if err != nil {
				return fmt.Errorf("scratch vector %d: %w", id, err)
			}
			r[id] = fn(p)
		}
		return nil
	})
	return r, err
}

// ------------------------------------------------------------------------------------ flattened documents (model lines)

// VecTags names vectors by small numbers within one model line.
type VecTags map[string]int

func (t VecTags) Of(v []float32) int {
	k := vecStr(v)
	if n, ok := t[k]; ok {
		return n
	}
	n := len(t) + 1
	t[k] = n
	return n
}

func asVec(x any) ([]float32, bool) {
	switch a := x.(type) {
	case []float32:
		return a, true
	case []any:
		if len(a) == 0 {
			return nil, false
		}
		v := make([]float32, len(a))
		for i, e := range a {
			f, ok := e.(float32)
			if !ok {
				return nil, false
			}
			v[i] = f
		}
		return v, true
	}
	return nil, false
}

// FlatDoc: one "path:leaf" entry per leaf of the document, paths as the key bytes joined by '.', sorted;
// leaves N (nil) D ("_delete") V<tag> (float32 array) O (empty object) X (anything else). "{}": empty.
func FlatDoc(m map[string]any, tags VecTags) string {
	type ent struct {
		path []int
		s    string
	}
	var es []ent
	var walk func(prefix []int, m map[string]any)
	walk = func(prefix []int, m map[string]any) {
		for k, x := range m {
			p := append(append([]int{}, prefix...), keyCode(k))
			leaf := "X"
			switch t := x.(type) {
			case nil:
				leaf = "N"
			case string:
				if t == shard.DELETEVALUE {
					leaf = "D"
				}
			case map[string]any:
				if len(t) > 0 {
					walk(p, t)
					continue
				}
				leaf = "O"
			default:
				if v, ok := asVec(x); ok {
					leaf = "V" + strconv.Itoa(tags.Of(v))
				}
			}
			es = append(es, ent{p, leaf})
		}
	}
	walk(nil, m)
	sort.Slice(es, func(i, j int) bool {
		a, b := es[i].path, es[j].path
		for k := 0; k < len(a) && k < len(b); k++ {
			if a[k] != b[k] {
				return a[k] < b[k]
			}
		}
		return len(a) < len(b)
	})
	if len(es) == 0 {
		return "{}"
	}
	out := make([]string, len(es))
	for i, e := range es {
		ps := make([]string, len(e.path))
		for k, c := range e.path {
			ps[k] = strconv.Itoa(c)
		}
		out[i] = strings.Join(ps, ".") + ":" + e.s
	}
	return strings.Join(out, ",")
}

// keyCode: document keys are single letters in this harness; the model's keys are numbers.
func keyCode(k string) int {
	c := 0
	for _, b := range []byte(k) {
		c = c*256 + int(b)
	}
	return c
}

func (c Config) PathCodes() string {
	var ps []string
	for _, k := range c.vSegs() {
		ps = append(ps, strconv.Itoa(keyCode(k)))
	}
	return strings.Join(ps, ".")
}

func sameVec(a, b []float32) bool {
	if len(a) != len(b) {
		return false
	}
	for i := range a {
		if math.Float32bits(a[i]) != math.Float32bits(b[i]) {
			return false
		}
	}
	return true
}

// PairDists: DistanceFromPoint(a)(b) for all pairs of stored vectors.
func (s *Sim) PairDists(ids []uint64) (map[[2]uint64]float32, error) {
	r := map[[2]uint64]float32{}
	err := s.WithStore(func(st vectorstore.VectorStore) error {
		pts, err := st.GetMany(ids...)
		if err != nil {
			return err
		}
		for _, a := range pts {
			fn := st.DistanceFromPoint(a)
			for _, b := range pts {
				r[[2]uint64{a.Id(), b.Id()}] = fn(b)
			}
		}
		return nil
	})
	return r, err
}
