package vgraph

import (
	"fmt"
	"sort"
	"strings"

	"github.com/semafind/semadb/shard/index/vamana"
	"github.com/semafind/semadb/shard/vectorstore"
)

// batchLine: the correspondence for batches that reach the index as SEVERAL changes.
//
// The insert workers of insertUpdateDelete run in parallel, so the edges they create are not a
// function of the batch. Everything else is, and is compared exactly (hooks verif_batch_on.go in the
// repository: the change stream as the transform function received it, what it filed each change
// under, the node store once the workers were waited for, what EdgeScan returned):
//   - the classification (inserted / updated / deleted / touched, maxNodeId) against the model's
//     `classes` — pure bookkeeping, the place where the last-change-wins repair lives;
//   - the node set of the mid graph, and that it is well-formed for the old live points plus the
//     inserted ones (the hypothesis of C10_step_any_workers, evaluated by the Lean predicate);
//     its exact edge lists when at most one point went to the workers;
//   - toPrune / toSave of EdgeScan on that mid graph;
//   - the whole single-threaded rest (removeInboundEdges with any delete set, both Deletes, every
//     re-insert in order): the model's `tail`, started from the OBSERVED mid graph with the real
//     distances, must produce the dump after the batch exactly.
func (r *Runner) batchLine(o Op, d *Dump, hb *vamana.VerifBatch) {
	prev := r.Prev
	if prev == nil || hb == nil || !hb.Classified || len(hb.Stream) < 2 {
		return
	}
	cfg := r.Sim.Cfg
	// --- the bookkeeping, replayed here only to find which change was the insert (its vector)
	exists := map[uint64]bool{}
	for id := range prev.Vecs {
		if !prev.Fresh || id != EntryId {
			exists[id] = true
		}
	}
	insVec := map[uint64][]float32{}
	lastVec := map[uint64][]float32{}
	var chg []string
	for _, c := range hb.Stream {
		hv := 0
		if c.Vector != nil {
			hv = 1
			lastVec[c.Id] = c.Vector
			if !exists[c.Id] {
				exists[c.Id] = true
				insVec[c.Id] = c.Vector
			}
		}
		chg = append(chg, fmt.Sprintf("%d:%d", c.Id, hv))
	}
	touched := len(hb.Touched) > 0
	hasMid := touched && hb.MidNodes != nil
	small := len(d.Vecs) <= r.MaxStep && len(prev.Vecs)+len(hb.Inserted) <= r.MaxStep
	sameQuant := prev.Quant == d.Quant
	// --- distances of the insert phase: vectors as they were BEFORE the batch, plus the inserted one
	ea, aq, ap := 0, "", ""
	if len(hb.Inserted) == 0 {
		ea = 1 // the workers had nothing to do: the mid graph is the previous dump
	} else if len(hb.Inserted) == 1 && small && sameQuant {
		a := hb.Inserted[0]
		var ok bool
		if !touched {
			// no stored vector changed in this batch: the persisted store has them all
			aq, ap, ok = r.distTables(sortedKeys(d.Vecs), nil, map[uint64][]float32{a: insVec[a]})
		} else if cfg.PlainStore() {
			over := map[uint64][]float32{a: insVec[a]}
			ids := []uint64{a}
			for id := range prev.Vecs {
				ids = append(ids, id)
				if v, has := prev.RawVec[id]; has {
					over[id] = v
				} else if v, has := d.RawVec[id]; has && id == EntryId {
					over[id] = v // the entry vector is created on first use and never changes
				} else {
					over = nil
					break
				}
			}
			if over != nil {
				sort.Slice(ids, func(i, j int) bool { return ids[i] < ids[j] })
				aq, ap, ok = r.distTables(ids, over, map[uint64][]float32{a: insVec[a]})
			}
		}
		if ok {
			ea = 1
		}
	}
	// --- distances of the single-threaded rest: the vectors as they are AFTER the batch
	et, tq, tp := 0, "", ""
	if touched && hasMid && small && sameQuant {
		qv := map[uint64][]float32{}
		for _, u := range hb.Updated {
			qv[u] = lastVec[u]
		}
		var ok bool
		tq, tp, ok = r.distTables(sortedKeys(d.Vecs), nil, qv)
		if ok {
			et = 1
		}
	}
	mids := ""
	if hasMid {
		var ns []string
		for _, id := range sortedKeys(hb.MidNodes) {
			ns = append(ns, fmt.Sprintf("%d:%s", id, idList(hb.MidNodes[id])))
		}
		mids = fmt.Sprintf("mid=1 mmax=%d mN=%s", hb.MaxNodeId, strings.Join(ns, ";"))
	} else {
		mids = "mid=0 mmax= mN="
	}
	line := fmt.Sprintf("batch %s R=%d ss=%d L=%s chg=%s %s ea=%d aq=%s ap=%s %s ord=%s et=%d tq=%s tp=%s",
		r.Tag, cfg.R, cfg.SS, idList(prev.Live()), strings.Join(chg, ","), graphFields(prev), ea, aq, ap, mids, idList(hb.ToSave), et, tq, tp)
	// --- what the implementation did, in the model's output format
	cls := fmt.Sprintf("cls ins=%s upd=%s del=%s tch=%s max=%d", idList(hb.Inserted), idList(hb.Updated), idList(hb.Deleted), idList(hb.Touched), hb.MaxNodeId)
	midGraph := d.Nodes // nothing happens after the insert phase when nothing was touched
	if hasMid {
		midGraph = hb.MidNodes
	}
	mid := "mid wf=-"
	if hasMid {
		mid = "mid wf=1"
	}
	mid += " K=" + idList(sortedKeys(midGraph))
	if ea == 1 {
		var ns []string
		for _, id := range sortedKeys(midGraph) {
			ns = append(ns, fmt.Sprintf("%d:%s", id, idList(midGraph[id])))
		}
		mid += " N=" + strings.Join(ns, ";")
	}
	scan := "scan prune= save="
	if hasMid {
		scan = fmt.Sprintf("scan prune=%s save=%s", idList(sortedCopy(hb.ToPrune)), idList(sortedCopy(hb.ToSave)))
	}
	fin := "fin " + graphFields(d)
	exactFin := (!touched && ea == 1) || (touched && et == 1)
	if !exactFin {
		fin = fmt.Sprintf("fin max=%d V=%s K=%s", d.MaxId, idList(sortedKeys(d.Vecs)), idList(sortedKeys(d.Nodes)))
	}
	kind := "batch:" + opTag(o)
	if len(hb.Inserted) > 1 {
		kind += ":parallel-inserts"
	}
	if len(hb.Touched) > 1 {
		kind += ":delete-set>1"
	}
	if len(hb.Updated) > 1 {
		kind += ":reinserts>1"
	}
	if exactFin {
		kind += ":exact"
	} else {
		kind += ":sets"
	}
	r.Out.Emit(kind, line, cls+" | "+mid+" | "+scan+" | "+fin, len(d.Nodes) >= 3)
}

func sortedCopy(a []uint64) []uint64 {
	b := append([]uint64{}, a...)
	sort.Slice(b, func(i, j int) bool { return b[i] < b[j] })
	return b
}

// distTables: "a:b:key" for DistanceFromFloat(qv[a])(b) and "a:b:key:alphakey" for DistanceFromPoint(a)(b),
// from a scratch instance of the repository's vector store opened on the persisted bucket; `over`
// replaces stored vectors (plain store only; nothing is flushed). ok = false: a NaN, or a vector is missing.
func (r *Runner) distTables(ids []uint64, over map[uint64][]float32, qv map[uint64][]float32) (qs, ps string, ok bool) {
	cfg := r.Sim.Cfg
	var q, p []string
	bad := false
	err := r.Sim.WithStore(func(st vectorstore.VectorStore) error {
		for id, v := range over {
			if len(v) != cfg.Dim {
				bad = true
				return nil
			}
			if _, err := st.Set(id, v); err != nil {
				return err
			}
		}
		// the query vectors that name a point not in the store yet (the inserted point, phase A)
		for a, v := range qv {
			if _, has := over[a]; !has && v != nil && !st.Exists(a) {
				if _, err := st.Set(a, v); err != nil {
					return err
				}
			}
		}
		all := append([]uint64{}, ids...)
		for a := range qv {
			found := false
			for _, x := range all {
				if x == a {
					found = true
				}
			}
			if !found {
				all = append(all, a)
			}
		}
		sort.Slice(all, func(i, j int) bool { return all[i] < all[j] })
		pts := map[uint64]vectorstore.VectorStorePoint{}
		for _, id := range all {
			pt, err := st.Get(id)
			if err != nil {
				bad = true
				return nil
			}
			pts[id] = pt
		}
		for _, a := range all {
			fn := st.DistanceFromPoint(pts[a])
			for _, b := range all {
				x := fn(pts[b])
				if x != x {
					bad = true
					return nil
				}
				p = append(p, fmt.Sprintf("%d:%d:%d:%d", a, b, FKey(x), FKey(cfg.Alpha*x)))
			}
		}
		qa := make([]uint64, 0, len(qv))
		for a := range qv {
			qa = append(qa, a)
		}
		sort.Slice(qa, func(i, j int) bool { return qa[i] < qa[j] })
		for _, a := range qa {
			if qv[a] == nil {
				bad = true
				return nil
			}
			fn := st.DistanceFromFloat(qv[a])
			for _, b := range all {
				x := fn(pts[b])
				if x != x {
					bad = true
					return nil
				}
				q = append(q, fmt.Sprintf("%d:%d:%d", a, b, FKey(x)))
			}
		}
		return nil
	})
	if err != nil || bad {
		return "", "", false
	}
	return strings.Join(q, ","), strings.Join(p, ","), true
}

// docsLine: the change stream of a WHOLE batch (points named several times included): the model's
// `pbatch` on the stored documents of the points the batch names must emit exactly the stream the
// transform function of insertUpdateDelete received (ids in order, and which vector).
func (r *Runner) docsLine(o Op, d *Dump, hb *vamana.VerifBatch) {
	prev := r.Prev
	if prev == nil || len(o.Pts) < 2 {
		return
	}
	cfg := r.Sim.Cfg
	tags := VecTags{}
	var S, ops []string
	seen := map[uint64]bool{}
	pts := o.Pts
	if o.Kind == "del" {
		// DeletePoints ranges over a Go map: take the order the index saw, then the points it was not told about
		pos := map[uint64]int{}
		if hb != nil {
			for i, c := range hb.Stream {
				pos[c.Id] = i + 1
			}
		}
		pts = append([]PC{}, o.Pts...)
		key := func(p PC) int {
			if id, ok := prev.UUIDNode[PointUUID(p.Idx)]; ok && pos[id] > 0 {
				return pos[id]
			}
			return 1 << 30
		}
		sort.SliceStable(pts, func(i, j int) bool { return key(pts[i]) < key(pts[j]) })
		uniq := pts[:0]
		dup := map[int]bool{}
		for _, p := range pts {
			if !dup[p.Idx] {
				dup[p.Idx] = true
				uniq = append(uniq, p)
			}
		}
		pts = uniq
	}
	for _, p := range pts {
		u := PointUUID(p.Idx)
		id, existed := prev.UUIDNode[u]
		switch o.Kind {
		case "ins":
			nid, ok := d.UUIDNode[u]
			if existed || !ok {
				return // not a batch of fresh points: rejected or not comparable by node id
			}
			if _, reused := prev.NodeUUID[nid]; reused {
				return
			}
			ops = append(ops, fmt.Sprintf("ins@%d@%s", nid, FlatDoc(MergeTop(nil, cfg.DocOf(p)), tags)))
			continue
		case "upd":
			if !existed {
				continue // unknown point: skipped by the shard
			}
			ops = append(ops, fmt.Sprintf("upd@%d@%s", id, FlatDoc(cfg.DocOf(p), tags)))
		case "del":
			if !existed {
				continue
			}
			ops = append(ops, fmt.Sprintf("del@%d@~", id))
		}
		if !seen[id] {
			seen[id] = true
			S = append(S, fmt.Sprintf("%d=%s", id, FlatDoc(prev.Docs[id], tags)))
		}
	}
	if len(ops) < 2 {
		return
	}
	var st []string
	if hb != nil {
		for _, c := range hb.Stream {
			t := "-"
			if c.Vector != nil {
				t = fmt.Sprint(tags.Of(c.Vector))
			}
			st = append(st, fmt.Sprintf("%d:%s", c.Id, t))
		}
	}
	// which vector the index holds for every node the stream names, before and after the batch (plain
	// store: the raw vectors are on disk): the model's `vecsAfter` — Set / Delete along the stream, the last
	// change of a point wins — must end with exactly the vectors the index persisted
	tab, vecs := "", ""
	if cfg.PlainStore() && hb != nil {
		ids := map[uint64]bool{}
		for _, c := range hb.Stream {
			ids[c.Id] = true
		}
		var ts, vs []string
		for _, id := range sortedKeys(ids) {
			was, now := "-", "-"
			if v, ok := prev.RawVec[id]; ok && prev.Vecs[id] && !prev.Fresh {
				was = fmt.Sprint(tags.Of(v))
			}
			if v, ok := d.RawVec[id]; ok && d.Vecs[id] {
				now = fmt.Sprint(tags.Of(v))
			}
			ts = append(ts, fmt.Sprintf("%d:%s", id, was))
			vs = append(vs, fmt.Sprintf("%d:%s", id, now))
		}
		tab = " T=" + strings.Join(ts, ",")
		vecs = " | vec " + strings.Join(vs, ",")
	}
	line := fmt.Sprintf("docs %s vp=%s S=%s ops=%s%s", r.Tag, cfg.PathCodes(), strings.Join(S, ";"), strings.Join(ops, ";"), tab)
	kind := "docs:" + opTag(o)
	if cfg.Nested() {
		kind += ":nested"
	}
	r.Out.Emit(kind, line, strings.TrimSpace("ok "+strings.Join(st, ","))+vecs, len(st) >= 2)
}
