package vgraph

import (
	"math"
	"sort"

	"verifharness/vh"
)

// ------------------------------------------------------------------------------------ generators

func PickConfig(r *vh.Rng, k int) Config {
	metrics := []string{"euclidean", "euclidean", "cosine", "dot", "hamming", "jaccard", "haversine"}
	c := Config{Metric: metrics[k%len(metrics)], Quant: "none", Trigger: 0, Cache: -1}
	c.R = 3 + r.Intn(3) // 3..5
	if r.Chance(15) {
		c.R = 1 + r.Intn(2)
	}
	c.SS = 2 + r.Intn(7) // 2..8
	c.Alpha = vh.Pick(r, []float32{1.0, 1.1, 1.2, 1.5})
	c.Dim = 2 + r.Intn(3)
	if r.Chance(40) {
		c.Cache = 0
	}
	switch c.Metric {
	case "haversine":
		c.Dim = 2
	case "hamming", "jaccard":
		c.Dim = 4 + r.Intn(5)
	case "euclidean", "cosine", "dot":
		switch r.Intn(6) {
		case 0:
			c.Quant = "binfix"
			c.Dim = 4 + r.Intn(4)
		case 1:
			c.Quant, c.Trigger = "binlearn", 4+r.Intn(6)
			c.Dim = 4 + r.Intn(4)
		case 2:
			c.Quant, c.Trigger, c.Dim = "pq", 5+r.Intn(6), 4
		}
	}
	c.VPath, c.GPath = PickPaths(r)
	return c
}

// PickPaths: the index schema keys. Half of the configurations index NESTED properties (dotted
// paths): there an update never carries the schema key itself — it carries the top-level object and
// replaces it as a whole, so the vector is changed / dropped by updates that name a parent, a sibling
// or an ancestor of the leaf. The integer index of the pre-filters is flat, a sibling of the vector
// leaf (same parent: updating it replaces the parent and drops the vector), or under another parent.
func PickPaths(r *vh.Rng) (vp, gp string) {
	if r.Chance(45) {
		return "v", vh.Pick(r, []string{"g", "g", "m.g"})
	}
	vp = vh.Pick(r, []string{"n.v", "n.v", "n.m.v", "a.b.c.v"})
	top := vp[:1]
	par := vp[:len(vp)-2]
	gp = vh.Pick(r, []string{"g", par + ".g", top + ".g", "x.g"})
	if gp == par+".g" && r.Chance(30) {
		gp = "g"
	}
	return
}

// RandVec draws from small grids so that equal distances are frequent.
func RandVec(r *vh.Rng, c Config) []float32 {
	v := make([]float32, c.Dim)
	switch {
	case c.Metric == "haversine":
		v[0] = float32(r.Intn(7)*20 - 60)
		v[1] = float32(r.Intn(9)*30 - 120)
	case c.Metric == "hamming" || c.Metric == "jaccard" || c.Quant == "binfix" || c.Quant == "binlearn":
		for i := range v {
			v[i] = float32(r.Intn(2))
		}
		if c.Quant == "binlearn" && r.Chance(50) {
			for i := range v {
				v[i] = float32(r.Intn(4)) / 2
			}
		}
	case c.Metric == "cosine":
		// unit vectors from a small set of directions
		var n float64
		for n == 0 {
			n = 0
			for i := range v {
				v[i] = float32(r.Intn(5) - 2)
				n += float64(v[i] * v[i])
			}
		}
		for i := range v {
			v[i] = float32(float64(v[i]) / math.Sqrt(n))
		}
	default:
		for i := range v {
			v[i] = float32(r.Intn(5) - 1)
		}
		if r.Chance(20) {
			for i := range v {
				v[i] += float32(r.Intn(4)) / 4
			}
		}
	}
	return v
}

// GenState: what the generator believes the collection looks like (drives the choice of ops only;
// every judgement is made on dumps of the real shard).
type GenState struct {
	Cfg      Config
	Next     int
	Live     map[int]bool // point idx -> has the vector field
	Docs     map[int]map[string]any // point idx -> the document the point should hold now
	MaxLive  int
	Dups     bool // update batches may name a point more than once
	InsOnly  bool
	LastDump *Dump
}

func NewGenState(c Config, maxLive int) *GenState {
	return &GenState{Cfg: c, Live: map[int]bool{}, Docs: map[int]map[string]any{}, MaxLive: maxLive}
}

func (g *GenState) liveIdx() []int {
	var r []int
	for i := range g.Live {
		r = append(r, i)
	}
	sort.Ints(r)
	return r
}

func (g *GenState) genInsert(r *vh.Rng, n int) Op {
	o := Op{Kind: "ins"}
	for i := 0; i < n; i++ {
		p := PC{Idx: g.Next, GSet: true, G: int64(r.Intn(5))}
		g.Next++
		if r.Chance(88) || g.InsOnly {
			p.VSet, p.V = true, RandVec(r, g.Cfg)
		} else {
			// a point without the vector: nothing at all, a nil leaf, or (nested) the parent
			// object without the leaf
			switch r.Intn(4) {
			case 1:
				p.VNil = true
			case 2:
				p.VObj = true
			case 3:
				p.Sib = true
			}
		}
		if r.Chance(10) {
			p.GSet = false
		}
		if r.Chance(25) {
			p.Sib = true
		}
		if r.Chance(15) {
			p.Tag = true
		}
		o.Pts = append(o.Pts, p)
	}
	return o
}

// NextWrite chooses the next write batch and updates the generator's belief.
func (g *GenState) NextWrite(r *vh.Rng) Op {
	live := g.liveIdx()
	single := r.Chance(55)
	kind := r.Intn(100)
	if len(live) == 0 || g.InsOnly {
		kind = 0
	} else if len(live) >= g.MaxLive && kind < 40 {
		kind = 75
	}
	var o Op
	switch {
	case kind < 40: // insert
		n := 1
		if !single {
			n = 2 + r.Intn(6)
		}
		o = g.genInsert(r, n)
	case kind < 75: // update
		n := 1
		if !single {
			n = 2 + r.Intn(5)
		}
		o = Op{Kind: "upd"}
		for i := 0; i < n; i++ {
			idx := vh.Pick(r, live)
			if g.Dups && i > 0 && r.Chance(35) {
				idx = o.Pts[r.Intn(len(o.Pts))].Idx
			}
			if r.Chance(4) {
				idx = g.Next + 1000 // unknown point: skipped by the shard
			}
			p := PC{Idx: idx}
			switch m := r.Intn(100); {
			case m < 50:
				// the leaf gets a new vector (nested: the parent object is replaced by one carrying it)
				p.VSet, p.V = true, RandVec(r, g.Cfg)
				p.Sib = r.Chance(25)
			case m < 78:
				// the vector goes away: the top-level key is deleted, the leaf becomes nil, or (nested)
				// the parent object is replaced by one without the leaf (empty, or a sibling only)
				switch k := r.Intn(100); {
				case k < 45 || (!g.Cfg.Nested() && k < 80):
					p.VDel = true
				case k < 60 || !g.Cfg.Nested():
					p.VNil = true
				case k < 80:
					p.VObj = true
				default:
					p.Sib = true
				}
			case m < 90:
				// the filter property only (when it lives under the vector's top-level key the update
				// replaces that object and the vector is gone)
				p.GSet, p.G = true, int64(r.Intn(5))
			default:
				// a field no index knows: a sibling of the leaf, or an unrelated top-level key
				if r.Chance(50) {
					p.Sib = true
				} else {
					p.Tag = true
				}
			}
			if r.Chance(20) {
				p.GSet, p.G = true, int64(r.Intn(5))
			}
			if r.Chance(10) {
				p.Tag = true
			}
			o.Pts = append(o.Pts, p)
		}
		if !g.Dups { // distinct points only
			seen := map[int]bool{}
			var ps []PC
			for _, p := range o.Pts {
				if !seen[p.Idx] {
					seen[p.Idx] = true
					ps = append(ps, p)
				}
			}
			o.Pts = ps
		}
	default: // delete
		o = Op{Kind: "del"}
		switch m := r.Intn(100); {
		case m < 45 || single:
			o.Pts = []PC{{Idx: vh.Pick(r, live)}}
		case m < 75 && g.LastDump != nil: // a whole neighbourhood: a node and every node it points to
			d := g.LastDump
			ids := sortedKeys(d.Nodes)
			var cands []uint64
			for _, id := range ids {
				if id != EntryId || r.Chance(30) {
					cands = append(cands, id)
				}
			}
			if len(cands) > 0 {
				c := vh.Pick(r, cands)
				set := map[uint64]bool{c: true}
				for _, t := range d.Nodes[c] {
					set[t] = true
				}
				if r.Chance(30) { // two levels
					for _, t := range d.Nodes[c] {
						for _, t2 := range d.Nodes[t] {
							set[t2] = true
						}
					}
				}
				for _, id := range sortedKeys(set) {
					if u, ok := d.NodeUUID[id]; ok {
						o.Pts = append(o.Pts, PC{Idx: PointIdx(u)})
					}
				}
			}
			if len(o.Pts) == 0 {
				o.Pts = []PC{{Idx: vh.Pick(r, live)}}
			}
		case m < 85: // everything
			for _, i := range live {
				o.Pts = append(o.Pts, PC{Idx: i})
			}
		default:
			n := 2 + r.Intn(4)
			seen := map[int]bool{}
			for i := 0; i < n; i++ {
				idx := vh.Pick(r, live)
				if !seen[idx] {
					seen[idx] = true
					o.Pts = append(o.Pts, PC{Idx: idx})
				}
			}
			if r.Chance(20) {
				o.Pts = append(o.Pts, PC{Idx: g.Next + 2000}) // unknown point
			}
		}
	}
	g.Believe(o)
	return o
}

// Believe updates the generator's picture after a write op: it keeps the documents the points should
// hold (top-level merge, as the shard does) and reads "has the vector field" off them.
func (g *GenState) Believe(o Op) {
	vs := g.Cfg.vSegs()
	switch o.Kind {
	case "ins":
		for _, p := range o.Pts {
			doc := MergeTop(nil, g.Cfg.DocOf(p))
			g.Docs[p.Idx] = doc
			g.Live[p.Idx] = LookupPath(doc, vs) != nil
			if p.Idx >= g.Next {
				g.Next = p.Idx + 1
			}
		}
	case "upd":
		for _, p := range o.Pts {
			if _, ok := g.Live[p.Idx]; !ok {
				continue
			}
			doc := MergeTop(g.Docs[p.Idx], g.Cfg.DocOf(p))
			g.Docs[p.Idx] = doc
			g.Live[p.Idx] = LookupPath(doc, vs) != nil
		}
	case "del":
		for _, p := range o.Pts {
			delete(g.Live, p.Idx)
			delete(g.Docs, p.Idx)
		}
	}
}

// NextQuery draws a search request.
func (g *GenState) NextQuery(r *vh.Rng) Op {
	q := &Qry{Vec: RandVec(r, g.Cfg), Filter: "-"}
	q.SS = 1 + r.Intn(9)
	if r.Chance(25) {
		q.SS = 10 + r.Intn(30)
	}
	q.Limit = 1 + r.Intn(q.SS)
	if r.Chance(6) {
		q.Limit = q.SS + 1 + r.Intn(3) // rejected: searchSize must be >= limit
	}
	switch m := r.Intn(100); {
	case m < 40:
	case m < 80:
		lo := int64(r.Intn(5))
		hi := lo + int64(r.Intn(3))
		q.Filter = "g:" + itoa(lo) + ":" + itoa(hi) // integer range on the filter property (Config.GProp)
	default:
		live := g.liveIdx()
		n := r.Intn(6)
		s := "id:"
		for i := 0; i < n && len(live) > 0; i++ {
			if i > 0 {
				s += ","
			}
			s += itoa(int64(vh.Pick(r, live)))
		}
		if r.Chance(20) {
			if n > 0 && len(live) > 0 {
				s += ","
			}
			s += itoa(int64(g.Next + 3000)) // unknown point id
		}
		if s != "id:" {
			q.Filter = s
		}
	}
	if r.Chance(50) {
		w := vh.Pick(r, []float32{0.25, 0.5, 1, 2, 3.5, 0})
		q.Weight = &w
	}
	return Op{Kind: "qry", Q: q}
}

func itoa(i int64) string {
	neg := i < 0
	if neg {
		i = -i
	}
	if i == 0 {
		return "0"
	}
	var b []byte
	for i > 0 {
		b = append([]byte{byte('0' + i%10)}, b...)
		i /= 10
	}
	if neg {
		return "-" + string(b)
	}
	return string(b)
}
