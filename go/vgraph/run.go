package vgraph

import (
	"bufio"
	"encoding/json"
	"flag"
	"fmt"
	"math"
	"os"
	"os/exec"
	"path/filepath"
	"sort"
	"strconv"
	"strings"
	"time"

	"github.com/google/uuid"
	"github.com/semafind/semadb/models"
	"github.com/semafind/semadb/shard/index/vamana"
	"verifharness/vh"
)

// Runner executes one history on a real shard and emits the op lines for the model driver, the
// implementation's answers, and the oracle failures.
type Runner struct {
	Mode    string // c10 | c03
	Out     *vh.Out
	Sim     *Sim
	Hist    []string
	InsOnly bool
	Prev    *Dump
	Verbose bool
	Queries int
	MaxStep int // largest graph (stored vectors) for which exact edge lists are compared
	Regimes map[string]int
	Last    string // one-line summary of the last op (replay mode)
	Tag     string // "h=<history number>" — lets a disagreeing op line be traced back to its history
	// PostTrain: node ids whose document vector was set / changed by a batch that began with the
	// quantiser already trained (see Sim.DocDists)
	PostTrain map[uint64]bool
}

func (r *Runner) replay() string { return strings.Join(r.Hist, "\n") }

// normal: an index bucket that was never written is the fresh index (entry node only): the entry
// node is materialised by NewIndexVamana on first use.
func graphFields(d *Dump) string {
	return d.GraphFields()
}

func (r *Runner) fail(sig, what string) {
	r.Out.Fail(sig, what, r.replay())
	r.Last += " ORACLE-FAILURE[" + sig + "] " + what
	if r.Verbose {
		fmt.Println("ORACLE-FAILURE", sig, "|", what)
	}
}

func opTag(o Op) string {
	t := o.Kind
	if len(o.Pts) == 1 {
		t += "1"
	} else {
		t += "N"
	}
	seen := map[int]bool{}
	for _, p := range o.Pts {
		if seen[p.Idx] {
			return t + "+dup"
		}
		seen[p.Idx] = true
	}
	return t
}

// Write applies one batch, dumps the buckets and judges the dump.
func (r *Runner) Write(o Op) (ok bool) {
	r.Hist = append(r.Hist, o.Line())
	if o.Kind != "ins" {
		r.InsOnly = false
	}
	err := r.Sim.Apply(o)
	hb := vamana.VerifTakeBatch() // what the index recorded about this batch (nil: it was not told anything)
	if err != nil {
		// every generated batch is valid; a rejected one may leave index goroutines behind
		// (DESIGN section 8 no. 4), so the history stops here
		r.fail("write-error:"+opTag(o), "a valid batch was rejected: "+err.Error())
		return false
	}
	d, err := r.Sim.Dump()
	if err != nil {
		r.fail("dump-error", err.Error())
		return false
	}
	r.Last = fmt.Sprintf("dump: %s L=%s free=%s next=%d", graphFields(d), idList(d.Live()), idList(d.Free), d.NextFree)
	if r.Verbose {
		fmt.Println("  " + r.Last)
	}
	if r.Mode == "c10" {
		r.judgeWF(o, d)
		r.stepLine(o, d)
		r.batchLine(o, d, hb)
		r.docsLine(o, d, hb)
		r.docLines(o, d)
	} else {
		// the same state clauses guard C03's hypothesis; reported under C10's signatures only there
		if v := d.WFViolations(r.Sim.Cfg.R); len(v) > 0 {
			r.Out.Stats["wf-broken-state"]++
		}
	}
	r.notePostTrain(d)
	r.Prev = d
	return true
}

func (r *Runner) notePostTrain(d *Dump) {
	prev := r.Prev
	if r.PostTrain == nil {
		r.PostTrain = map[uint64]bool{}
	}
	for id := range r.PostTrain {
		if _, ok := d.DocVec[id]; !ok {
			delete(r.PostTrain, id)
		}
	}
	if prev == nil || prev.Quant == "" {
		return
	}
	for id, v := range d.DocVec {
		if pv, ok := prev.DocVec[id]; !ok || !sameVec(pv, v) || prev.NodeUUID[id] != d.NodeUUID[id] {
			r.PostTrain[id] = true
		}
	}
}

func (r *Runner) judgeWF(o Op, d *Dump) {
	cfg := r.Sim.Cfg
	viol := d.WFViolations(cfg.R)
	for _, p := range d.Problems {
		viol = append(viol, "malformed "+p)
	}
	idv := d.IdViolations()
	line := fmt.Sprintf("wf %s R=%d L=%s %s", r.Tag, cfg.R, idList(d.Live()), graphFields(d))
	impl := "1"
	if len(viol) > 0 {
		impl = "0"
	}
	r.Out.Emit("wf:"+opTag(o), line, impl, len(d.Nodes) >= 3)
	if len(viol) > 0 {
		r.fail("wf:"+Kinds(viol)+":after="+opTag(o), "the persisted graph is not well-formed after "+o.Kind+": "+strings.Join(viol, "; "))
	}
	if len(idv) > 0 {
		r.fail("ids:"+Kinds(idv)+":after="+opTag(o), "node id bookkeeping broken after "+o.Kind+": "+strings.Join(idv, "; "))
	}
	r.Regimes[fmt.Sprintf("nodes=%d", len(d.Nodes)/4*4)]++
}

// docLines: the tie between the points bucket and the index change stream. For every element of the
// batch whose point is named once, the model's `pstep` (top-level merge, `dec.Query(schema path)` on the
// old and the new document, getOperation / preProcessVamana) gets the stored document before, the
// incoming document and whether the index held a vector for the node; it must reproduce the document
// stored afterwards and say whether the index holds a vector for the node now (and, for the plain store,
// which one) — i.e. which changes reach the index at all, for flat and nested schema paths alike.
func (r *Runner) docLines(o Op, d *Dump) {
	prev := r.Prev
	if prev == nil {
		return
	}
	cfg := r.Sim.Cfg
	count := map[int]int{}
	for _, p := range o.Pts {
		count[p.Idx]++
	}
	for _, p := range o.Pts {
		if count[p.Idx] != 1 {
			continue
		}
		u := PointUUID(p.Idx)
		tags := VecTags{}
		old, inc := "~", "~"
		pid, existed := prev.UUIDNode[u]
		id := pid
		switch o.Kind {
		case "ins":
			nid, ok := d.UUIDNode[u]
			if existed || !ok {
				continue
			}
			id = nid
			inc = FlatDoc(MergeTop(nil, cfg.DocOf(p)), tags)
		case "upd":
			if !existed {
				continue // unknown point: skipped by the shard (nothing to observe by node id)
			}
			old = FlatDoc(prev.Docs[pid], tags)
			inc = FlatDoc(cfg.DocOf(p), tags)
		case "del":
			if !existed {
				continue
			}
			old = FlatDoc(prev.Docs[pid], tags)
		}
		if _, reused := prev.NodeUUID[id]; o.Kind == "ins" && reused {
			continue
		}
		raw := 0
		wasvec, isvec := "-", "?"
		if cfg.PlainStore() {
			raw = 1
			isvec = "-"
			if v, ok := prev.RawVec[id]; ok && prev.Vecs[id] {
				wasvec = strconv.Itoa(tags.Of(v))
			}
		}
		now := "~"
		if m, ok := d.Docs[id]; ok && d.NodeUUID[id] == u {
			now = FlatDoc(m, tags)
		}
		if raw == 1 {
			if v, ok := d.RawVec[id]; ok && d.Vecs[id] {
				isvec = strconv.Itoa(tags.Of(v))
			}
		}
		b2i := func(b bool) int {
			if b {
				return 1
			}
			return 0
		}
		line := fmt.Sprintf("doc %s vp=%s op=%s id=%d old=%s inc=%s was=%d wasvec=%s raw=%d", r.Tag, cfg.PathCodes(), o.Kind, id, old, inc, b2i(prev.Vecs[id] && !prev.Fresh), wasvec, raw)
		kind := "doc:flat:" + o.Kind
		if cfg.Nested() {
			kind = "doc:nested:" + o.Kind
		}
		r.Out.Emit(kind, line, fmt.Sprintf("new=%s inV=%d vec=%s", now, b2i(d.Vecs[id] && !d.Fresh), isvec), old != "~" && inc != "~")
	}
}

// stepLine: for a batch that reaches the index as ONE change (deterministic: one insert worker), the
// model is run on the previous dump with the real distances and must produce the new dump exactly.
func (r *Runner) stepLine(o Op, d *Dump) {
	prev := r.Prev
	if prev == nil || len(o.Pts) != 1 {
		return
	}
	cfg := r.Sim.Cfg
	cfg0 := cfg
	p := o.Pts[0]
	u := PointUUID(p.Idx)
	var id uint64
	hasVec := false
	switch o.Kind {
	case "ins":
		if !p.VSet {
			return
		}
		id, hasVec = d.UUIDNode[u], true
	case "upd":
		pid, ok := prev.UUIDNode[u]
		if !ok {
			return
		}
		id = pid
		if !cfg0.TouchesVector(p) {
			// the top-level value holding the vector is not part of the update: the index is handed the
			// stored vector again (a re-insert of an unchanged point); not compared line by line
			return
		}
		// what reaches the index is decided by the documents before and after the merge (the schema
		// path may be nested: the update replaces the whole top-level object)
		was, is := prev.HasField[pid], d.HasField[pid]
		if !was && !is {
			return
		}
		if is && !p.VSet {
			return
		}
		hasVec = is
	case "del":
		pid, ok := prev.UUIDNode[u]
		if !ok || !prev.HasField[pid] {
			return
		}
		id = pid
	}
	if prev.Quant != d.Quant {
		r.Out.Stats["step-skipped-quantiser-trained"]++
		return // the quantiser was (re)trained at the end of this batch: the distances used during the batch are gone
	}
	if len(d.Vecs) > r.MaxStep {
		r.Out.Stats["step-skipped-large"]++
		return
	}
	ids := sortedKeys(d.Vecs)
	pair, err := r.Sim.PairDists(ids)
	if err != nil {
		r.fail("dist-error", err.Error())
		return
	}
	var ps []string
	for _, a := range ids {
		for _, b := range ids {
			x := pair[[2]uint64{a, b}]
			if x != x {
				r.Out.Stats["step-skipped-nan"]++
				return
			}
			ps = append(ps, fmt.Sprintf("%d:%d:%d:%d", a, b, FKey(x), FKey(cfg.Alpha*x)))
		}
	}
	var qs []string
	if hasVec {
		dq, err := r.Sim.QueryDists(p.V, ids)
		if err != nil {
			r.fail("dist-error", err.Error())
			return
		}
		for _, b := range ids {
			qs = append(qs, fmt.Sprintf("%d:%d", b, FKey(dq[b])))
		}
	}
	hv := 0
	if hasVec {
		hv = 1
	}
	// nodes that EdgeScan will hand to the rescue step, in Go map order: the model takes that order
	// as an oracle; beyond 6 of them the driver does not enumerate the orders
	if prev.HasField[id] {
		inb := map[uint64]bool{}
		for n, es := range prev.Nodes {
			if n != id {
				for _, t := range es {
					inb[t] = true
				}
			}
		}
		orphans := 0
		for n := range prev.Nodes {
			if n != id && n != EntryId && !inb[n] {
				orphans++
			}
		}
		if orphans > 6 {
			r.Out.Stats["step-skipped-many-rescued"]++
			return
		}
	}
	x := strings.NewReplacer("max=", "xmax=", "V=", "xV=", "N=", "xN=").Replace(graphFields(d))
	line := fmt.Sprintf("step %s R=%d ss=%d chg=%d:%d ord=%s %s q=%s p=%s %s", r.Tag, cfg.R, cfg.SS, id, hv, idList(d.Nodes[EntryId]), graphFields(prev), strings.Join(qs, ","), strings.Join(ps, ","), x)
	kind := "step:" + o.Kind
	if o.Kind == "upd" {
		if hasVec && prev.HasField[id] {
			kind = "step:upd-vector"
		} else if hasVec {
			kind = "step:upd-add-field"
		} else {
			kind = "step:upd-remove-field"
		}
	}
	r.Out.Emit(kind, line, "ok "+graphFields(d), len(d.Nodes) >= 3)
}

// ------------------------------------------------------------------------------------ searches (C03)

type hit struct {
	id     uint64
	dist   float32
	hybrid float32
}

func canon(f float32) uint32 {
	b := math.Float32bits(f)
	if b == 0x80000000 {
		return 0
	}
	return b
}

func (r *Runner) filterQuery(f string) (*models.Query, error) {
	switch {
	case f == "-" || f == "":
		return nil, nil
	case strings.HasPrefix(f, "g:"):
		ps := strings.Split(f, ":")
		lo, _ := strconv.ParseInt(ps[1], 10, 64)
		hi, _ := strconv.ParseInt(ps[2], 10, 64)
		return &models.Query{Property: r.Sim.Cfg.GProp(), Integer: &models.SearchIntegerOptions{Value: lo, Operator: models.OperatorInRange, EndValue: hi}}, nil
	case strings.HasPrefix(f, "id:"):
		var us []string
		for _, s := range strings.Split(f[3:], ",") {
			i, err := strconv.Atoi(s)
			if err != nil {
				return nil, err
			}
			us = append(us, PointUUID(i).String())
		}
		return &models.Query{Property: "_id", StringArray: &models.SearchStringArrayOptions{Value: us, Operator: models.OperatorContainsAny}}, nil
	}
	return nil, fmt.Errorf("bad filter %q", f)
}

// Search runs one query on the real shard, emits the op line for the model and judges the real answer.
func (r *Runner) Search(o Op) {
	q := o.Q
	d := r.Prev
	r.Hist = append(r.Hist, o.Line())
	defer func() { r.Hist = r.Hist[:len(r.Hist)-1] }() // queries do not change the state: keep replays short
	fq, err := r.filterQuery(q.Filter)
	if err != nil {
		panic(err)
	}
	var filter []uint64
	inFilter := map[uint64]bool{}
	if fq != nil {
		fr, err := r.Sim.Sh.SearchPoints(models.SearchRequest{Query: *fq})
		if err != nil {
			r.fail("filter-error", err.Error())
			return
		}
		for _, x := range fr {
			if !inFilter[x.NodeId] {
				inFilter[x.NodeId] = true
				filter = append(filter, x.NodeId)
			}
		}
		sort.Slice(filter, func(i, j int) bool { return filter[i] < filter[j] })
	}
	res, serr := r.Sim.Sh.SearchPoints(models.SearchRequest{Query: models.Query{Property: r.Sim.Cfg.VProp(), VectorVamana: &models.SearchVectorVamanaOptions{
		Vector: q.Vec, Operator: models.OperatorNear, SearchSize: q.SS, Limit: q.Limit, Filter: fq, Weight: q.Weight}}})
	var hits []hit
	impl := ""
	if serr != nil {
		kind := "other"
		if strings.Contains(serr.Error(), "must be greater than k") {
			kind = "searchSizeLtK"
		}
		impl = "err " + kind
	} else {
		var parts []string
		for _, x := range res {
			h := hit{id: x.NodeId, hybrid: x.HybridScore}
			if x.Distance == nil {
				r.fail("search:no-distance", fmt.Sprintf("result %d carries no distance", x.NodeId))
				return
			}
			h.dist = *x.Distance
			hits = append(hits, h)
			parts = append(parts, fmt.Sprintf("%d:%d:%08x", h.id, FKey(h.dist), canon(h.hybrid)))
		}
		impl = strings.TrimSpace("ok " + strings.Join(parts, " "))
	}
	// the real distance of the query to every stored vector
	ids := sortedKeys(d.Vecs)
	if d.Fresh {
		ids = nil // the entry vector does not exist on disk yet
	}
	dq, err := r.Sim.QueryDists(q.Vec, ids)
	if err != nil {
		r.fail("dist-error", err.Error())
		return
	}
	// ... and to the vector each live point's document carries right now (the property speaks about
	// "the point's stored vector": the index must have followed every change of the document)
	docDq, err := r.Sim.DocDists(q.Vec, d, r.PostTrain)
	if err != nil {
		r.fail("dist-error", err.Error())
		return
	}
	w := float32(1)
	if q.Weight != nil {
		w = *q.Weight
	}
	var dqs, hys []string
	seenKey := map[uint32]bool{}
	for _, id := range ids {
		x := dq[id]
		if x != x || math.IsInf(float64(x), 0) {
			r.Out.Stats["query-skipped-nonfinite"]++
			return
		}
		k := FKey(x)
		dqs = append(dqs, fmt.Sprintf("%d:%d", id, k))
		if !seenKey[k] {
			seenKey[k] = true
			c := math.Float32frombits(canon(x))
			hys = append(hys, fmt.Sprintf("%d:%08x", k, canon(-(w * c))))
		}
	}
	fs := "-"
	if fq != nil {
		fs = "=" + idList(filter)
	}
	line := fmt.Sprintf("search %s limit=%d ss=%d filter=%s %s dq=%s hy=%s", r.Tag, q.Limit, q.SS, fs, graphFields(d), strings.Join(dqs, ","), strings.Join(hys, ","))
	kind := "search:nofilter"
	if fq != nil {
		kind = "search:filter"
	}
	if serr != nil {
		kind = "search:error"
	}
	r.Out.Emit(kind, line, impl, len(hits) > 0)
	// formula lines: the hybrid expression generated from vamana.go, evaluated by the driver on the reported distance
	for i, h := range hits {
		if i >= 4 {
			break
		}
		wf := "-"
		if q.Weight != nil {
			wf = fmt.Sprintf("%08x", math.Float32bits(*q.Weight))
		}
		r.Out.Emit("hyb", fmt.Sprintf("hyb vamana %s %08x", wf, math.Float32bits(h.dist)), fmt.Sprintf("%08x", math.Float32bits(h.hybrid)), true)
	}
	r.Last = "answer: " + impl
	if r.Verbose {
		fmt.Println("  answer:", impl)
	}
	r.judgeSearch(o, d, filter, fq != nil, inFilter, hits, serr, dq, docDq, w)
}

func (r *Runner) judgeSearch(o Op, d *Dump, filter []uint64, hasFilter bool, inFilter map[uint64]bool, hits []hit, serr error, dq, docDq map[uint64]float32, w float32) {
	q := o.Q
	cfg := r.Sim.Cfg
	bad := func(kind, what string) {
		f := "nofilter"
		if hasFilter {
			f = "filter"
		}
		r.fail("search:"+kind+":"+f, what+" | query: "+o.Line())
	}
	if serr != nil {
		if q.Limit <= q.SS {
			bad("error", "search failed: "+serr.Error())
		}
		return
	}
	if q.Limit > q.SS {
		bad("no-error", "searchSize < limit was accepted")
		return
	}
	live := map[uint64]bool{}
	for _, id := range d.Live() {
		live[id] = true
	}
	seen := map[uint64]bool{}
	for i, h := range hits {
		switch {
		case h.id == EntryId:
			bad("entry-node", "the entry node is returned")
		case d.NodeUUID[h.id] == uuid.Nil:
			bad("deleted-point", fmt.Sprintf("node %d belongs to no live point", h.id))
		case !live[h.id]:
			bad("point-without-field", fmt.Sprintf("node %d: its point has no vector field", h.id))
		}
		if hasFilter && !inFilter[h.id] {
			bad("outside-filter", fmt.Sprintf("node %d is not in the pre-filter", h.id))
		}
		if seen[h.id] {
			bad("duplicate", fmt.Sprintf("node %d appears twice", h.id))
		}
		seen[h.id] = true
		if i > 0 && h.dist < hits[i-1].dist {
			bad("order", fmt.Sprintf("distance %v after %v", h.dist, hits[i-1].dist))
		}
		if x, ok := dq[h.id]; ok && canon(x) != canon(h.dist) {
			bad("distance", fmt.Sprintf("node %d reported %08x, index distance %08x", h.id, canon(h.dist), canon(x)))
		}
		if x, ok := docDq[h.id]; ok && live[h.id] && x == x && canon(x) != canon(h.dist) {
			bad("distance-stale-vector", fmt.Sprintf("node %d reported %08x, but the index's distance to the vector its document stores (%s) is %08x", h.id, canon(h.dist), vecStr(d.DocVec[h.id]), canon(x)))
		}
		if canon(h.hybrid) != canon(-(w * h.dist)) {
			bad("hybrid", fmt.Sprintf("node %d hybrid %08x, expected %08x", h.id, canon(h.hybrid), canon(-(w*h.dist))))
		}
	}
	if len(hits) > q.Limit {
		bad("limit", fmt.Sprintf("%d results for limit %d", len(hits), q.Limit))
	}
	// exactness regimes
	var cands []uint64
	regime := ""
	switch {
	case hasFilter && len(filter) <= q.SS:
		regime = "exact-filter"
		for _, id := range filter {
			if live[id] {
				cands = append(cands, id)
			}
		}
	case !hasFilter && r.InsOnly && len(live) <= cfg.R && len(live) <= q.SS-1:
		regime = "exact-small"
		for id := range live {
			cands = append(cands, id)
		}
	}
	r.Regimes["search-regime="+map[bool]string{true: regime, false: "approximate"}[regime != ""]]++
	if regime == "" {
		return
	}
	// the candidates are the points whose DOCUMENT carries the field (inside the filter): a live point the
	// index never heard of still belongs to the exact answer. Its distance is the index's distance to the
	// vector its document stores; when that cannot be computed only the size of the answer is judged.
	var ds []float32
	unknown := 0
	for _, id := range cands {
		if x, ok := dq[id]; ok {
			ds = append(ds, x)
		} else if x, ok := docDq[id]; ok && x == x {
			ds = append(ds, x)
		} else {
			unknown++
		}
	}
	sort.Slice(ds, func(i, j int) bool { return ds[i] < ds[j] })
	want := len(cands)
	if q.Limit < want {
		want = q.Limit
	}
	if len(hits) != want {
		bad(regime, fmt.Sprintf("%d results, exact answer has %d", len(hits), want))
		return
	}
	if unknown > 0 {
		return
	}
	for i, h := range hits {
		if canon(h.dist) != canon(ds[i]) {
			bad(regime, fmt.Sprintf("rank %d has distance %v, the exact answer %v", i, h.dist, ds[i]))
			return
		}
	}
}

// ------------------------------------------------------------------------------------ scenarios

func fixedScenario(k int, c *Config) [][]Op {
	// scripted witnesses, run before the random part of the scenario
	*c = Config{Metric: "euclidean", Dim: 2, R: 3, SS: 10, Alpha: 1.2, Quant: "none", Cache: -1}
	v := func(x, y float32) []float32 { return []float32{x, y} }
	ins := Op{Kind: "ins"}
	for i := 0; i < 4; i++ {
		ins.Pts = append(ins.Pts, PC{Idx: i, VSet: true, V: v(float32(i), 0), GSet: true, G: int64(i)})
	}
	q := Op{Kind: "qry", Q: &Qry{Vec: v(2, 2), Limit: 5, SS: 10, Filter: "-"}}
	switch k {
	case 0: // DESIGN section 8 no. 13: set the vector, then remove it, same point, one update batch
		return [][]Op{{ins}, {Op{Kind: "upd", Pts: []PC{{Idx: 0, VSet: true, V: v(2, 2)}, {Idx: 0, VDel: true}}}, q}}
	case 1: // add and remove the field of a point that has none, one update batch (timing dependent before the repair)
		hs := [][]Op{{ins}}
		for i := 0; i < 12; i++ {
			hs = append(hs, []Op{Op{Kind: "upd", Pts: []PC{{Idx: 0, VDel: true}}}})
			hs = append(hs, []Op{Op{Kind: "upd", Pts: []PC{{Idx: 0, VSet: true, V: v(2, 2)}, {Idx: 0, VDel: true}}}, q})
		}
		return hs
	case 2: // update twice, delete + update, remove twice
		return [][]Op{{ins},
			{Op{Kind: "upd", Pts: []PC{{Idx: 1, VSet: true, V: v(5, 5)}, {Idx: 1, VSet: true, V: v(0, 1)}}}, q},
			{Op{Kind: "upd", Pts: []PC{{Idx: 2, VDel: true}, {Idx: 2, VSet: true, V: v(1, 1)}, {Idx: 3, VDel: true}, {Idx: 3, VDel: true}}}, q},
			{Op{Kind: "upd", Pts: []PC{{Idx: 3, VSet: true, V: v(1, 2)}, {Idx: 3, VSet: true, V: v(2, 1)}, {Idx: 3, VDel: true}, {Idx: 3, VSet: true, V: v(3, 3)}}}, q}}
	case 3, 4, 5:
		// index schemas over NESTED property paths: no update ever carries the schema key itself. The
		// vector is moved by replacing its parent object, dropped by deleting the top-level key, by
		// replacing the parent with a sibling only / with an empty object / with a nil leaf, by updating
		// the filter property that lives under the same top-level key; it is added to a point that had
		// none; an update of an unrelated top-level key leaves it alone. One change per batch and
		// several per batch, each followed by a search near the moved / dropped vectors.
		c.VPath, c.GPath = "n.v", "n.g"
		if k == 4 {
			c.VPath, c.GPath = "a.b.c.v", "g"
		}
		if k == 5 {
			c.VPath, c.GPath = "n.m.v", "n.g"
			c.Cache = 0
		}
		ins.Pts = append(ins.Pts, PC{Idx: 4, GSet: true, G: 4, Sib: true}, PC{Idx: 5, VSet: true, V: v(5, 0), Tag: true})
		far := Op{Kind: "qry", Q: &Qry{Vec: v(9, 9), Limit: 6, SS: 10, Filter: "-"}}
		fq := Op{Kind: "qry", Q: &Qry{Vec: v(0, 0), Limit: 3, SS: 10, Filter: "g:0:4"}}
		return [][]Op{{ins, q},
			{Op{Kind: "upd", Pts: []PC{{Idx: 0, VSet: true, V: v(9, 9)}}}, far, q},
			{Op{Kind: "upd", Pts: []PC{{Idx: 1, VDel: true}}}, q, fq},
			{Op{Kind: "upd", Pts: []PC{{Idx: 2, Sib: true}}}, q, fq},
			{Op{Kind: "upd", Pts: []PC{{Idx: 4, VSet: true, V: v(2, 2), Sib: true}}}, q},
			{Op{Kind: "upd", Pts: []PC{{Idx: 5, Tag: true}}}, q},
			{Op{Kind: "upd", Pts: []PC{{Idx: 3, GSet: true, G: 1}}}, q, fq},
			{Op{Kind: "upd", Pts: []PC{{Idx: 0, VObj: true}, {Idx: 4, VNil: true}, {Idx: 1, VSet: true, V: v(1, 1)}, {Idx: 2, VSet: true, V: v(2, 1), GSet: true, G: 2}}}, far, q, fq},
			{Op{Kind: "upd", Pts: []PC{{Idx: 1, VSet: true, V: v(8, 8)}, {Idx: 1, Tag: true}, {Idx: 2, VSet: true, V: v(7, 7)}, {Idx: 2, VObj: true}}}, far, q},
		}
	}
	return nil
}

const fixedScenarios = 6

// RunScenario: one history in this process. Returns false when the history had to stop early.
func RunScenario(mode string, seed uint64, k int, nOps int, dir string, verbose bool) {
	rng := vh.NewRng(seed*1000003 + uint64(k)*7919 + 17)
	out := vh.NewOut(dir)
	var cfg Config
	var script [][]Op
	if k < fixedScenarios {
		script = fixedScenario(k, &cfg)
	} else {
		cfg = PickConfig(rng, k)
	}
	sim, err := NewSim(cfg, filepath.Join(dir, "db"))
	if err != nil {
		panic(err)
	}
	defer sim.Close()
	r := &Runner{Mode: mode, Out: out, Sim: sim, Hist: []string{cfg.Line()}, InsOnly: true, Verbose: verbose, Queries: 5, MaxStep: 26, Regimes: map[string]int{}, Tag: fmt.Sprintf("h=%d", k)}
	gen := NewGenState(cfg, 8+rng.Intn(14))
	gen.Dups = k%2 == 0
	gen.InsOnly = k%5 == 3 // insert-only histories (exactness regime of C03)
	if gen.InsOnly {
		gen.MaxLive = 4 + rng.Intn(4)
	}
	hf, _ := os.Create(filepath.Join(dir, "history.txt"))
	defer hf.Close()
	fmt.Fprintln(hf, cfg.Line())
	d0, err := sim.Dump()
	if err != nil {
		panic(err)
	}
	r.Prev = d0
	step := func(o Op) bool {
		fmt.Fprintln(hf, o.Line())
		hf.Sync()
		if verbose {
			fmt.Println(o.Line())
		}
		if o.Kind == "qry" {
			if mode == "c03" {
				r.Search(o)
			}
			return true
		}
		ok := r.Write(o)
		gen.LastDump = r.Prev
		return ok
	}
	alive := true
	for _, group := range script {
		for _, o := range group {
			if o.Kind != "qry" {
				gen.Believe(o)
			}
			if alive && !step(o) {
				alive = false
			}
		}
	}
	for i := 0; alive && i < nOps; i++ {
		if gen.InsOnly && len(gen.Live) >= gen.MaxLive {
			break
		}
		if !step(gen.NextWrite(rng)) {
			break
		}
		if mode == "c03" {
			for j := 0; j < r.Queries; j++ {
				step(gen.NextQuery(rng))
			}
		}
	}
	extra := map[string]any{"config": cfg.Line(), "regimes": r.Regimes}
	out.Close(extra)
}

// ------------------------------------------------------------------------------------ main (parent / child / replay)

type partStats struct {
	Evaluations int              `json:"evaluations"`
	Nontrivial  int              `json:"distinct_nontrivial"`
	Dist        map[string]int   `json:"distribution"`
	Samples     []string         `json:"samples"`
	Oracle      []vh.OracleFailure `json:"oracle_failures"`
	Config      string           `json:"config"`
	Regimes     map[string]int   `json:"regimes"`
}

func Main(mode string) {
	seed := flag.Uint64("seed", 1, "PRNG seed")
	n := flag.Int("n", 20, "number of histories")
	length := flag.Int("len", 14, "write batches per history")
	dir := flag.String("out", "", "output directory")
	replay := flag.String("replay", "", "re-run the history of this file on the real shard")
	child := flag.Int("child", -1, "internal: run history k in this process")
	verbose := flag.Bool("v", false, "print the history while running")
	flag.Parse()
	if *replay != "" {
		doReplay(mode, *replay)
		return
	}
	if *child >= 0 {
		RunScenario(mode, *seed, *child, *length, *dir, *verbose)
		return
	}
	if *dir == "" {
		fmt.Fprintln(os.Stderr, "-out required")
		os.Exit(2)
	}
	os.MkdirAll(*dir, 0o755)
	ops, _ := os.Create(filepath.Join(*dir, "ops.txt"))
	impl, _ := os.Create(filepath.Join(*dir, "impl.txt"))
	total := partStats{Dist: map[string]int{}, Regimes: map[string]int{}, Oracle: []vh.OracleFailure{}}
	distinct := map[string]bool{}
	configs := map[string]int{}
	exe, _ := os.Executable()
	type job struct {
		k   int
		dir string
		err error
		out []byte
	}
	jobs := make(chan *job)
	done := make(chan *job)
	workers := 4
	for w := 0; w < workers; w++ {
		go func() {
			for j := range jobs {
				cmd := exec.Command(exe, "-child", strconv.Itoa(j.k), "-seed", strconv.FormatUint(*seed, 10), "-len", strconv.Itoa(*length), "-out", j.dir)
				cmd.Env = append(os.Environ(), "GOMAXPROCS=4")
				t := time.AfterFunc(120*time.Second, func() { cmd.Process.Kill() })
				j.out, j.err = cmd.CombinedOutput()
				t.Stop()
				done <- j
			}
		}()
	}
	go func() {
		for k := 0; k < *n; k++ {
			jobs <- &job{k: k, dir: filepath.Join(*dir, fmt.Sprintf("part-%03d", k))}
		}
		close(jobs)
	}()
	results := make([]*job, *n)
	for i := 0; i < *n; i++ {
		j := <-done
		results[j.k] = j
	}
	for _, j := range results {
		hist, _ := os.ReadFile(filepath.Join(j.dir, "history.txt"))
		if j.err != nil {
			// the process died (panic, SIGSEGV, timeout): a concrete history on which the implementation crashes
			tail := string(j.out)
			if len(tail) > 1500 {
				tail = tail[len(tail)-1500:]
			}
			sig := "crash"
			if strings.Contains(tail, "SIGSEGV") {
				sig = "crash:SIGSEGV"
			} else if strings.Contains(tail, "panic:") {
				sig = "crash:panic"
			}
			total.Oracle = append(total.Oracle, vh.OracleFailure{Signature: sig, What: "the process running the history died: " + j.err.Error() + "\n" + tail, Replay: string(hist)})
			total.Dist["history-crashed"]++
			continue
		}
		var ps partStats
		b, err := os.ReadFile(filepath.Join(j.dir, "stats.json"))
		if err != nil || json.Unmarshal(b, &ps) != nil {
			total.Oracle = append(total.Oracle, vh.OracleFailure{Signature: "harness:no-stats", What: "history produced no stats", Replay: string(hist)})
			continue
		}
		a, _ := os.ReadFile(filepath.Join(j.dir, "ops.txt"))
		c, _ := os.ReadFile(filepath.Join(j.dir, "impl.txt"))
		ops.Write(a)
		impl.Write(c)
		total.Evaluations += ps.Evaluations
		for k, v := range ps.Dist {
			total.Dist[k] += v
		}
		for k, v := range ps.Regimes {
			total.Regimes[k] += v
		}
		for _, l := range strings.Split(string(a), "\n") {
			if l != "" && !distinct[l] {
				distinct[l] = true
			}
		}
		total.Nontrivial += ps.Nontrivial
		if len(total.Samples) < 10 && len(ps.Samples) > 0 {
			s := ps.Samples[len(ps.Samples)-1]
			if len(s) > 400 {
				s = s[:400] + "…"
			}
			total.Samples = append(total.Samples, s)
		}
		total.Oracle = append(total.Oracle, ps.Oracle...)
		f := strings.Fields(ps.Config)
		if len(f) > 6 {
			configs[f[1]+" "+f[6]]++
		}
		os.RemoveAll(j.dir)
	}
	ops.Close()
	impl.Close()
	if len(total.Oracle) > 50 {
		total.Oracle = total.Oracle[:50]
	}
	rule := "op lines (dump of a real index after a batch, or a model step on it) whose graph has at least 3 nodes, counted once per distinct line"
	if mode == "c03" {
		rule = "search op lines (real graph + real distance table + query) with a non-empty real answer, counted once per distinct line"
	}
	m := map[string]any{"evaluations": total.Evaluations, "distinct_nontrivial": total.Nontrivial, "rule": rule, "distribution": total.Dist,
		"samples": total.Samples, "oracle_failures": total.Oracle, "regimes": total.Regimes, "configs": configs, "histories": *n}
	b, _ := json.MarshalIndent(m, "", " ")
	os.WriteFile(filepath.Join(*dir, "stats.json"), b, 0o644)
}

func doReplay(mode, path string) {
	f, err := os.Open(path)
	if err != nil {
		fmt.Println("cannot open", path)
		os.Exit(2)
	}
	defer f.Close()
	sc := bufio.NewScanner(f)
	sc.Buffer(make([]byte, 1<<20), 1<<26)
	var r *Runner
	dir, _ := os.MkdirTemp("", "vgraph-replay")
	defer os.RemoveAll(dir)
	stopped := false
	// exactly one output line per input line (the runner aligns them with the op lines)
	for sc.Scan() {
		line := strings.TrimSpace(sc.Text())
		if line == "" || strings.HasPrefix(line, "#") {
			continue
		}
		if strings.HasPrefix(line, "cfg ") {
			cfg, err := ParseConfig(line)
			if err != nil {
				fmt.Println("bad cfg line")
				continue
			}
			if r != nil {
				r.Sim.Close()
			}
			sim, err := NewSim(cfg, filepath.Join(dir, "db"))
			if err != nil {
				panic(err)
			}
			r = &Runner{Mode: mode, Out: vh.NewOut(filepath.Join(dir, "out")), Sim: sim, Hist: []string{line}, InsOnly: true, MaxStep: 0, Regimes: map[string]int{}, Tag: "h=replay"}
			r.Prev, _ = sim.Dump()
			stopped = false
			fmt.Println("shard created")
			continue
		}
		o, err := ParseOp(line)
		if r == nil || err != nil {
			fmt.Println("skip (not a history line)")
			continue
		}
		if stopped {
			fmt.Println("skip (history stopped)")
			continue
		}
		r.Last = ""
		if o.Kind == "qry" {
			if mode == "c03" {
				r.Search(o)
			} else {
				r.Last = "skip (query)"
			}
			fmt.Println(r.Last)
			continue
		}
		if !r.Write(o) {
			stopped = true
		}
		fmt.Println(r.Last)
	}
	if r != nil {
		fmt.Printf("{\"oracle_failures\": %d}\n", len(r.Out.Oracle))
		r.Sim.Close()
	}
}
