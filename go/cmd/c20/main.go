// C20 correspondence harness and property oracle: distance functions equal their definitions.
//
//   - bit metrics: binaryQuantizer.encode (through the tagged export VerifBinaryEncode), hamming and
//     jaccard (through distance.GetBitDistanceFn and through the quantizer's distance closures) on
//     encodings of random vectors/thresholds of every length and on random words; the same op lines
//     are evaluated by the Lean definitions generated from the source (exact: float32 bit patterns);
//     the oracle recomputes the bit-count definitions independently.
//   - kernels, exact part: integer-valued float32 inputs small enough that every partial sum is
//     exactly representable, so the real AVX kernels must equal the Lean kernel model over Int (and
//     the integer definition) exactly, for every length and slice offset.
//   - kernels, rounding part (a test, not a theorem): lengths x slice offsets 0..7 x value
//     distributions against a float64 reference and the two-line scalar float32 reference, with the
//     worst-case rounding bound of an n-term float32 sum as tolerance; symmetry bit for bit;
//     cosine / dot against their formulas; haversine against its formula.
package main

import (
	"bufio"
	"flag"
	"fmt"
	"math"
	"os"
	"strconv"
	"strings"

	"github.com/semafind/semadb/distance"
	"github.com/semafind/semadb/shard/vectorstore"
	"verifharness/vh"
)

var (
	fnEuclid, fnDot, fnCosine, fnHaversine distance.FloatDistFunc
	fnHamming, fnJaccard                   distance.BitDistFunc
)

func mustF(name string) distance.FloatDistFunc {
	f, err := distance.GetFloatDistanceFn(name)
	if err != nil {
		panic(err)
	}
	return f
}
func mustB(name string) distance.BitDistFunc {
	f, err := distance.GetBitDistanceFn(name)
	if err != nil {
		panic(err)
	}
	return f
}

func initFns() {
	fnEuclid, fnDot, fnCosine, fnHaversine = mustF("euclidean"), mustF("dot"), mustF("cosine"), mustF("haversine")
	fnHamming, fnJaccard = mustB("hamming"), mustB("jaccard")
}

// ------------------------------------------------------------------------------------------ encoding of op lines

const hexDigits = "0123456789abcdef"

func putHex(b []byte, v uint64, digits int) {
	for i := digits - 1; i >= 0; i-- {
		b[i] = hexDigits[v&15]
		v >>= 4
	}
}

func hexW32(v []float32) string {
	if len(v) == 0 {
		return "-"
	}
	b := make([]byte, len(v)*8)
	for i, f := range v {
		putHex(b[i*8:], uint64(math.Float32bits(f)), 8)
	}
	return string(b)
}

func hexW64(v []uint64) string {
	if len(v) == 0 {
		return "-"
	}
	b := make([]byte, len(v)*16)
	for i, w := range v {
		putHex(b[i*16:], w, 16)
	}
	return string(b)
}

func hexI8(v []float32) string {
	b := make([]byte, len(v)*2)
	for i, f := range v {
		putHex(b[i*2:], uint64(int(f)+128), 2)
	}
	return string(b)
}

func parseW32(s string) ([]float32, error) {
	if s == "-" {
		return nil, nil
	}
	if len(s)%8 != 0 {
		return nil, fmt.Errorf("bad words32")
	}
	r := make([]float32, len(s)/8)
	for i := range r {
		u, err := strconv.ParseUint(s[i*8:i*8+8], 16, 32)
		if err != nil {
			return nil, err
		}
		r[i] = math.Float32frombits(uint32(u))
	}
	return r, nil
}

func parseW64(s string) ([]uint64, error) {
	if s == "-" {
		return nil, nil
	}
	if len(s)%16 != 0 {
		return nil, fmt.Errorf("bad words64")
	}
	r := make([]uint64, len(s)/16)
	for i := range r {
		u, err := strconv.ParseUint(s[i*16:i*16+16], 16, 64)
		if err != nil {
			return nil, err
		}
		r[i] = u
	}
	return r, nil
}

func parseI8(s string) ([]float32, error) {
	if len(s)%2 != 0 {
		return nil, fmt.Errorf("bad int8s")
	}
	r := make([]float32, len(s)/2)
	for i := range r {
		u, err := strconv.ParseUint(s[i*2:i*2+2], 16, 8)
		if err != nil {
			return nil, err
		}
		r[i] = float32(int(u) - 128)
	}
	return r, nil
}

func f32hex(f float32) string { return fmt.Sprintf("%08x", math.Float32bits(f)) }

// ------------------------------------------------------------------------------------------ slices inside a poisoned backing array

// place copies v into a fresh backing array at offset off (in items); everything outside the
// slice is NaN, so a kernel that reads one item too many or too few is visible in the result.
func place(v []float32, off int) []float32 {
	back := make([]float32, len(v)+off+9)
	nan := float32(math.NaN())
	for i := range back {
		back[i] = nan
	}
	copy(back[off:], v)
	return back[off : off+len(v) : off+len(v)]
}

// ------------------------------------------------------------------------------------------ implementation answers (shared by run and replay)

func implF32gt(a, b float32) string { return vh.B01(a > b) }

// encodeSafe: a panic of the code under test (index out of range ...) becomes an answer, not a crash
func encodeSafe(t, v []float32) (enc []uint64, panicked string) {
	defer func() {
		if r := recover(); r != nil {
			enc, panicked = nil, "panic: "+fmt.Sprint(r)
		}
	}()
	return vectorstore.VerifBinaryEncode(t, v), ""
}

func implEncode(t, v []float32) string {
	enc, p := encodeSafe(t, v)
	if p != "" {
		return p
	}
	return hexW64(enc)
}

func implBit(fn distance.BitDistFunc, x, y []uint64) string { return f32hex(fn(x, y)) }

func implBq(metric string, t, x, y []float32) (out string) {
	defer func() {
		if r := recover(); r != nil {
			out = "panic: " + fmt.Sprint(r)
		}
	}()
	ex, ey := vectorstore.VerifBinaryEncode(t, x), vectorstore.VerifBinaryEncode(t, y)
	ff, fp, err := vectorstore.VerifBinaryDistances(t, metric, "euclidean", x, y)
	if err != nil {
		return "error " + err.Error()
	}
	if math.Float32bits(ff) != math.Float32bits(fp) {
		return fmt.Sprintf("%s %s closures-differ:%s/%s", hexW64(ex), hexW64(ey), f32hex(ff), f32hex(fp))
	}
	return fmt.Sprintf("%s %s %s", hexW64(ex), hexW64(ey), f32hex(ff))
}

func intStr(f float32) string {
	if f != f || math.IsInf(float64(f), 0) || float32(int64(f)) != f {
		return "nonint:" + f32hex(f)
	}
	return strconv.FormatInt(int64(f), 10)
}

// the exported dot distance is -dotProductImpl; negation is exact, so this is the kernel's result
func kdot(x, y []float32) float32 { return -fnDot(x, y) }

func implKern(x, y []float32) string { return intStr(kdot(x, y)) + " " + intStr(fnEuclid(x, y)) }

// ------------------------------------------------------------------------------------------ formula lines (generated expressions, evaluated by the driver)

func f32hexN(f float32) string {
	if f != f {
		return "nan"
	}
	return f32hex(f)
}

func hexU8(v []uint8) string {
	if len(v) == 0 {
		return "-"
	}
	b := make([]byte, len(v)*2)
	for i, c := range v {
		putHex(b[i*2:], uint64(c), 2)
	}
	return string(b)
}

func parseU8(s string) ([]uint8, error) {
	if s == "-" {
		return nil, nil
	}
	if len(s)%2 != 0 {
		return nil, fmt.Errorf("bad bytes")
	}
	r := make([]uint8, len(s)/2)
	for i := range r {
		u, err := strconv.ParseUint(s[i*2:i*2+2], 16, 8)
		if err != nil {
			return nil, err
		}
		r[i] = uint8(u)
	}
	return r, nil
}

func implDotd(x, y []float32) string { return f32hexN(fnDot(x, y)) }
func implCosd(x, y []float32) string { return f32hexN(fnCosine(x, y)) }
func implPdot(x, y []float32) string { return f32hexN(distance.VerifDotPureGo(x, y)) }
func implPl2(x, y []float32) string  { return f32hexN(distance.VerifL2PureGo(x, y)) }

// the answer to a `havf` line is "ok": the line carries the real result, the model says whether its own
// evaluation of the generated expression is within the stated bound of it
func implHavf(x, y []float32, real string) string {
	if f32hex(fnHaversine(x, y)) != real {
		return "stale:" + f32hex(fnHaversine(x, y))
	}
	return "ok"
}

func implPqf(ns, k, l int, flat, x []float32, codes []uint8) (out string) {
	defer func() {
		if r := recover(); r != nil {
			out = "panic: " + fmt.Sprint(r)
		}
	}()
	ff, _ := vectorstore.VerifProductDistances(ns, k, l, distance.VerifL2PureGo, flat, make([]float32, ns*k*k), x, make([]uint8, ns), codes)
	return f32hexN(ff)
}

func implPqp(ns, k int, cd []float32, cx, cy []uint8) (out string) {
	defer func() {
		if r := recover(); r != nil {
			out = "panic: " + fmt.Sprint(r)
		}
	}()
	// flatCentroids only has to be non-empty (fitted); the look-up of DistanceFromPoint does not read it
	_, fp := vectorstore.VerifProductDistances(ns, k, 1, distance.VerifL2PureGo, make([]float32, ns*k), cd, make([]float32, ns), cx, cy)
	return f32hexN(fp)
}

func implBqw(metric string, t, x, y []float32) (out string) {
	defer func() {
		if r := recover(); r != nil {
			out = "panic: " + fmt.Sprint(r)
		}
	}()
	ff, fp, err := vectorstore.VerifBinaryDistances(t, metric, "euclidean", x, y)
	if err != nil {
		return "error " + err.Error()
	}
	return f32hexN(ff) + " " + f32hexN(fp)
}

// independent float64 evaluation of the documented formulas (for the oracle on the formula lines)
func refHav64(x, y []float32) float64 {
	const d2r = 0.017453292519943295769236907684886 // pi / 180
	la1, lo1, la2, lo2 := float64(x[0])*d2r, float64(x[1])*d2r, float64(y[0])*d2r, float64(y[1])*d2r
	s1, s2 := math.Sin((la1-la2)/2), math.Sin((lo1-lo2)/2)
	a := s1*s1 + math.Cos(la1)*math.Cos(la2)*s2*s2
	if a > 1 {
		a = 1
	}
	return 6371000 * 2 * math.Asin(math.Sqrt(a))
}

// ------------------------------------------------------------------------------------------ references

const u32 = 1.0 / (1 << 24) // unit roundoff of float32

// worst-case bound for any float32 evaluation (any order, fused or not) of a sum of n terms each
// carrying at most `extra` further roundings: gamma_{n+extra} * sum|term| (+ underflow)
func tol(n, extra int, sumAbs float64) float64 {
	k := float64(n + extra)
	g := k * u32 / (1 - k*u32)
	return 1.01*g*sumAbs + float64(n+1)*math.Ldexp(1, -148)
}

func refDot(x, y []float32) (sum64, sumAbs float64, sum32 float32) {
	for i := range x {
		p := float64(x[i]) * float64(y[i]) // exact in float64
		sum64 += p
		sumAbs += math.Abs(p)
		sum32 += x[i] * y[i]
	}
	return
}

func refL2(x, y []float32) (sum64, sumAbs float64, sum32 float32) {
	for i := range x {
		d := float64(x[i]) - float64(y[i])
		sum64 += d * d
		diff := x[i] - y[i]
		sum32 += diff * diff
	}
	return sum64, sum64, sum32
}

const degToRad = math.Pi / 180
const earthRadius = 6371000

// the definition: great-circle distance on a sphere of radius 6371000 m by the haversine formula
func refHaversine(x, y []float32) (viaAsin, viaAtan, hav float64) {
	la1, lo1, la2, lo2 := float64(x[0])*degToRad, float64(x[1])*degToRad, float64(y[0])*degToRad, float64(y[1])*degToRad
	s1, s2 := math.Sin((la2-la1)/2), math.Sin((lo2-lo1)/2)
	a := s1*s1 + math.Cos(la1)*math.Cos(la2)*s2*s2
	a = math.Min(1, math.Max(0, a))
	return earthRadius * 2 * math.Asin(math.Sqrt(a)), earthRadius * 2 * math.Atan2(math.Sqrt(a), math.Sqrt(1-a)), a
}

// ------------------------------------------------------------------------------------------ generators

var f32pool = []uint32{0, 0x80000000, 1, 0x80000001, 0x007fffff, 0x807fffff, 0x00800000, 0x80800000, 0x3f800000, 0xbf800000,
	0x3f000000, 0xbf000000, 0x3f800001, 0x3f7fffff, 0x7f7fffff, 0xff7fffff, 0x7f800000, 0xff800000, 0x7fc00000, 0xffc00000, 0x7f800001, 0xffffffff, 0x40490fdb}

func randF32(r *vh.Rng) float32 {
	switch r.Intn(8) {
	case 0:
		return math.Float32frombits(vh.Pick(r, f32pool))
	case 1:
		return math.Float32frombits(uint32(r.U64()))
	case 2:
		return float32(r.Intn(7) - 3)
	default:
		return float32(int64(r.U64()>>40)-(1<<23)) / (1 << 20)
	}
}

// threshold / vector pairs for encode: the vector hits, misses and *equals* the threshold, and both
// carry NaN, signed zeros and infinities now and then
func genThreshold(r *vh.Rng, n int) []float32 {
	t := make([]float32, n)
	switch r.Intn(3) {
	case 0: // the constant threshold of params.Threshold
		c := randF32(r)
		for i := range t {
			t[i] = c
		}
	default: // a fitted mean vector
		for i := range t {
			t[i] = randF32(r)
		}
	}
	return t
}

func genVector(r *vh.Rng, t []float32) []float32 {
	v := make([]float32, len(t))
	mode := r.Intn(5)
	for i := range v {
		switch {
		case mode == 0: // sparse: mostly at or below the threshold
			if r.Intn(16) == 0 {
				v[i] = t[i] + 1
			} else {
				v[i] = t[i]
			}
		case mode == 1: // dense
			if r.Intn(16) == 0 {
				v[i] = t[i]
			} else {
				v[i] = t[i] + 1
			}
		default:
			switch r.Intn(6) {
			case 0:
				v[i] = t[i]
			case 1:
				v[i] = math.Nextafter32(t[i], float32(math.Inf(1)))
			case 2:
				v[i] = math.Nextafter32(t[i], float32(math.Inf(-1)))
			default:
				v[i] = randF32(r)
			}
		}
	}
	return v
}

const (
	dZeros = iota
	dDenormal
	dLarge
	dMixed
	dUnit
	dCancel
	nDist
)

var distNames = []string{"zeros", "denormals", "large", "mixed-exponents", "unit", "cancelling"}

func sign(r *vh.Rng) float32 {
	if r.Bool() {
		return -1
	}
	return 1
}

func genFloats(r *vh.Rng, n, dist int) (x, y []float32) {
	x, y = make([]float32, n), make([]float32, n)
	for i := 0; i < n; i++ {
		switch dist {
		case dZeros:
			if r.Intn(8) == 0 {
				x[i] = sign(r) * float32(r.Intn(1000)) / 8
			} else if r.Bool() {
				x[i] = float32(math.Copysign(0, -1))
			}
			if r.Intn(8) == 0 {
				y[i] = sign(r) * float32(r.Intn(1000)) / 8
			}
		case dDenormal:
			x[i] = math.Float32frombits(uint32(r.U64())&0x80ffffff | uint32(r.Intn(3))<<23)
			if r.Bool() {
				y[i] = math.Float32frombits(uint32(r.U64())&0x80ffffff | uint32(r.Intn(3))<<23)
			} else {
				y[i] = sign(r) * float32(r.Intn(1<<20)) / 1024 // denormal x ordinary: products stay tiny
			}
		case dLarge:
			x[i] = sign(r) * float32(1e15+float64(r.U64()>>11)/float64(1<<53)*9.9e16)
			y[i] = sign(r) * float32(1e15+float64(r.U64()>>11)/float64(1<<53)*9.9e16)
		case dMixed:
			x[i] = sign(r) * float32(math.Ldexp(1+float64(r.U64()>>11)/float64(1<<53), r.Intn(41)-20))
			y[i] = sign(r) * float32(math.Ldexp(1+float64(r.U64()>>11)/float64(1<<53), r.Intn(41)-20))
		case dUnit:
			x[i] = float32(float64(int64(r.U64()>>11))/float64(1<<52) - 1)
			y[i] = float32(float64(int64(r.U64()>>11))/float64(1<<52) - 1)
		case dCancel:
			m := float32(1 + r.Intn(1<<20))
			x[i] = m
			y[i] = m
			if i%2 == 1 {
				y[i] = -m
			}
			if r.Intn(32) == 0 {
				x[i] += float32(r.Intn(100)) / 64
			}
		}
	}
	return
}

// lengths 1..4096: quick = every length up to 130, every length within 1 of a multiple of 8 (so
// also of 32 and 64), and a seeded sample of the rest; thorough = all
func lengths(r *vh.Rng, full bool, sample int) []int {
	var ls []int
	for n := 1; n <= 4096; n++ {
		m := n % 8
		if full || n <= 130 || m == 0 || m == 1 || m == 7 {
			ls = append(ls, n)
		}
	}
	if !full {
		for i := 0; i < sample; i++ {
			ls = append(ls, 1+r.Intn(4096))
		}
	}
	return ls
}

// lengths for the encode lines (long op lines): quick = up to 200, within 1 of a multiple of 64, sample
func bitLengths(r *vh.Rng, full bool, sample int) []int {
	var ls []int
	for n := 1; n <= 4096; n++ {
		m := n % 64
		if full || n <= 200 || m == 0 || m == 1 || m == 63 {
			ls = append(ls, n)
		}
	}
	if !full {
		for i := 0; i < sample; i++ {
			ls = append(ls, 1+r.Intn(4096))
		}
	}
	return ls
}

// ------------------------------------------------------------------------------------------ oracles on one input

func bitsOf(t, v []float32) []bool {
	b := make([]bool, len(v))
	for i := range v {
		b[i] = v[i] > t[i]
	}
	return b
}

func checkEncode(o *vh.Out, t, v []float32, enc []uint64) {
	n := len(v)
	line := func() string { return "encode " + hexW32(t) + " " + hexW32(v) }
	want := (n + 63) / 64
	if len(enc) != want {
		o.Fail(fmt.Sprintf("encode-words:n=%d", n), fmt.Sprintf("encode of a %d-dimensional vector has %d words, want %d", n, len(enc), want), line())
		return
	}
	b := bitsOf(t, v)
	for i := 0; i < 64*len(enc); i++ {
		got := enc[i/64]>>(uint(i)%64)&1 == 1
		exp := i < n && b[i]
		if got != exp {
			kind := "encode-bit"
			if i >= n {
				kind = "encode-padding"
			}
			o.Fail(fmt.Sprintf("%s:n=%d:i=%d", kind, n, i), fmt.Sprintf("bit %d of the encoding of a %d-dimensional vector is %v, definition (v[i] > threshold[i], padding 0) says %v (v=%v t=%v)", i, n, got, exp, at(v, i), at(t, i)), line())
			return
		}
	}
}

func at(v []float32, i int) any {
	if i < len(v) {
		return v[i]
	}
	return "-"
}

func popc(x uint64) int {
	c := 0
	for ; x != 0; x &= x - 1 {
		c++
	}
	return c
}

// hamming / jaccard of two word lists against the bit-count definitions, plus symmetry
func checkBitMetrics(o *vh.Out, tag string, x, y []uint64) {
	diff, inter, union := 0, 0, 0
	for i := range x {
		diff += popc(x[i] ^ y[i])
		inter += popc(x[i] & y[i])
		union += popc(x[i] | y[i])
	}
	hl := func() string { return "hamming " + hexW64(x) + " " + hexW64(y) }
	jl := func() string { return "jaccard " + hexW64(x) + " " + hexW64(y) }
	h, hr := fnHamming(x, y), fnHamming(y, x)
	if h != float32(diff) {
		o.Fail(fmt.Sprintf("hamming-def:%s:words=%d", tag, len(x)), fmt.Sprintf("hamming = %v, number of differing bit positions = %d", h, diff), hl())
	}
	if math.Float32bits(h) != math.Float32bits(hr) {
		o.Fail(fmt.Sprintf("hamming-symmetry:%s:words=%d", tag, len(x)), fmt.Sprintf("hamming(x,y)=%v but hamming(y,x)=%v", h, hr), hl())
	}
	j, jr := fnJaccard(x, y), fnJaccard(y, x)
	var want float32
	if union != 0 {
		want = 1 - float32(inter)/float32(union)
	}
	if math.Float32bits(j) != math.Float32bits(want) {
		o.Fail(fmt.Sprintf("jaccard-def:%s:words=%d:union0=%v", tag, len(x), union == 0), fmt.Sprintf("jaccard = %v, definition 1 - |x&y|/|x|y| = 1 - %d/%d = %v (0 when both are empty)", j, inter, union, want), jl())
	}
	if math.Float32bits(j) != math.Float32bits(jr) {
		o.Fail(fmt.Sprintf("jaccard-symmetry:%s:words=%d", tag, len(x)), fmt.Sprintf("jaccard(x,y)=%v but jaccard(y,x)=%v", j, jr), jl())
	}
}

// the thresholded-set definitions on the float vectors themselves (padding cannot enter here)
func checkBq(o *vh.Out, t, x, y []float32) {
	bx, by := bitsOf(t, x), bitsOf(t, y)
	diff, inter, union := 0, 0, 0
	for i := range bx {
		if bx[i] != by[i] {
			diff++
		}
		if bx[i] && by[i] {
			inter++
		}
		if bx[i] || by[i] {
			union++
		}
	}
	n := len(x)
	args := func() string { return " " + hexW32(t) + " " + hexW32(x) + " " + hexW32(y) }
	hf, hp, err := vectorstore.VerifBinaryDistances(t, "hamming", "euclidean", x, y)
	if err != nil || hf != float32(diff) || hp != float32(diff) {
		o.Fail(fmt.Sprintf("bq-hamming-def:n=%d", n), fmt.Sprintf("quantizer hamming closures give %v / %v, |{i<n : (x_i>t_i) != (y_i>t_i)}| = %d", hf, hp, diff), "bq hamming"+args())
	}
	var want float32
	if union != 0 {
		want = 1 - float32(inter)/float32(union)
	}
	jf, jp, err := vectorstore.VerifBinaryDistances(t, "jaccard", "euclidean", x, y)
	if err != nil || math.Float32bits(jf) != math.Float32bits(want) || math.Float32bits(jp) != math.Float32bits(want) {
		o.Fail(fmt.Sprintf("bq-jaccard-def:n=%d:union0=%v", n, union == 0), fmt.Sprintf("quantizer jaccard closures give %v / %v, 1 - |cap|/|cup| = 1 - %d/%d = %v", jf, jp, inter, union, want), "bq jaccard"+args())
	}
}

func checkKernInt(o *vh.Out, x, y []float32, offx, offy int) {
	var dot, l2 int64
	for i := range x {
		a, b := int64(x[i]), int64(y[i])
		dot += a * b
		l2 += (a - b) * (a - b)
	}
	line := func() string { return "kern " + hexI8(x) + " " + hexI8(y) }
	n := len(x)
	if g := kdot(x, y); g != float32(dot) {
		o.Fail(fmt.Sprintf("kernel-dot-exact:n=%d:nmod32=%d:off=%d/%d", n, n%32, offx, offy), fmt.Sprintf("dot kernel on small integers (all partial sums exact in float32) = %v, sum x_i*y_i = %d", g, dot), line())
	}
	if g := fnEuclid(x, y); g != float32(l2) {
		o.Fail(fmt.Sprintf("kernel-l2-exact:n=%d:nmod32=%d:off=%d/%d", n, n%32, offx, offy), fmt.Sprintf("euclidean kernel on small integers = %v, sum (x_i-y_i)^2 = %d", g, l2), line())
	}
	if a, b := kdot(x, y), kdot(y, x); math.Float32bits(a) != math.Float32bits(b) {
		o.Fail(fmt.Sprintf("kernel-dot-symmetry:n=%d", n), fmt.Sprintf("dot(x,y)=%v dot(y,x)=%v", a, b), line())
	}
	if a, b := fnEuclid(x, y), fnEuclid(y, x); math.Float32bits(a) != math.Float32bits(b) {
		o.Fail(fmt.Sprintf("kernel-l2-symmetry:n=%d", n), fmt.Sprintf("euclidean(x,y)=%v euclidean(y,x)=%v", a, b), line())
	}
}

type sweepStats struct {
	evals                    int
	maxRelDot, maxRelL2      float64 // largest observed error / tolerance
	distinct                 int
	perDist                  [nDist]int
	scalarDisagreeButWithinT int
}

// rounding part for one pair of slices
func checkFloats(o *vh.Out, st *sweepStats, x, y []float32, offx, offy int, dist string) {
	n := len(x)
	args := func() string { return " " + hexW32(x) + " " + hexW32(y) }
	id := fmt.Sprintf("n=%d:nmod32=%d:off=%d/%d:dist=%s", n, n%32, offx, offy, dist)
	// --- dot
	s64, sabs, s32 := refDot(x, y)
	t := tol(n, 1, sabs)
	g := kdot(x, y)
	st.evals++
	if e := math.Abs(float64(g) - s64); !(e <= t) {
		o.Fail("kernel-dot-rounding:"+id, fmt.Sprintf("dot product = %v, float64 reference %v, |difference| %g exceeds the worst-case float32 rounding bound %g of a %d-term sum", g, s64, e, t, n), "fdot"+args())
	} else if t > 0 && e/t > st.maxRelDot {
		st.maxRelDot = e / t
	}
	if e := math.Abs(float64(g) - float64(s32)); !(e <= 2*t) {
		o.Fail("kernel-dot-vs-scalar:"+id, fmt.Sprintf("dot product = %v, scalar float32 reference loop %v, difference %g exceeds twice the rounding bound %g", g, s32, e, t), "fdot"+args())
	}
	if g != s32 {
		st.scalarDisagreeButWithinT++
	}
	if r := kdot(y, x); math.Float32bits(g) != math.Float32bits(r) {
		o.Fail("kernel-dot-symmetry:"+id, fmt.Sprintf("dot(x,y)=%v (%08x) but dot(y,x)=%v (%08x)", g, math.Float32bits(g), r, math.Float32bits(r)), "fdot"+args())
	}
	// formulas of the two exported distances built on the kernel: dot distance = -dot, cosine = 1 - dot
	if d := fnDot(x, y); math.Float32bits(d) != math.Float32bits(-g) {
		o.Fail("dot-distance-formula:"+id, "dot distance is not deterministic", "fdot"+args())
	}
	c := fnCosine(x, y)
	if want := 1 - g; math.Float32bits(c) != math.Float32bits(want) {
		o.Fail("cosine-formula:"+id, fmt.Sprintf("cosine distance = %v, 1 - dot = %v", c, want), "fdot"+args())
	}
	if r := fnCosine(y, x); math.Float32bits(c) != math.Float32bits(r) {
		o.Fail("cosine-symmetry:"+id, fmt.Sprintf("cosine(x,y)=%v cosine(y,x)=%v", c, r), "fdot"+args())
	}
	// --- squared euclidean
	s64, sabs, s32 = refL2(x, y)
	t = tol(n, 3, sabs)
	g = fnEuclid(x, y)
	st.evals++
	if e := math.Abs(float64(g) - s64); !(e <= t) {
		o.Fail("kernel-l2-rounding:"+id, fmt.Sprintf("squared euclidean = %v, float64 reference %v, |difference| %g exceeds the worst-case float32 rounding bound %g of a %d-term sum", g, s64, e, t, n), "fl2"+args())
	} else if t > 0 && e/t > st.maxRelL2 {
		st.maxRelL2 = e / t
	}
	if e := math.Abs(float64(g) - float64(s32)); !(e <= 2*t) {
		o.Fail("kernel-l2-vs-scalar:"+id, fmt.Sprintf("squared euclidean = %v, scalar float32 reference loop %v, difference %g exceeds twice the rounding bound %g", g, s32, e, t), "fl2"+args())
	}
	if r := fnEuclid(y, x); math.Float32bits(g) != math.Float32bits(r) {
		o.Fail("kernel-l2-symmetry:"+id, fmt.Sprintf("euclidean(x,y)=%v (%08x) but euclidean(y,x)=%v (%08x)", g, math.Float32bits(g), r, math.Float32bits(r)), "fl2"+args())
	}
}

func checkHaversine(o *vh.Out, x, y []float32) {
	g := fnHaversine(x, y)
	a, b, h := refHaversine(x, y)
	line := "hav " + hexW32(x) + " " + hexW32(y)
	id := fmt.Sprintf("%v,%v-%v,%v", x[0], x[1], y[0], y[1])
	// the float32 result has a relative rounding of 2^-24 (an ulp of 2 m near 2e7 m); near antipodal
	// points (hav -> 1) asin / atan2 amplify the float64 rounding of `hav` (~1e-15) to ~sqrt(1e-15)
	// rad = a few decimetres
	t := math.Abs(a)*math.Ldexp(1, -22) + 1e-3
	if h > 0.999 {
		t += 1
	}
	if !(math.Abs(float64(g)-a) <= t) || !(math.Abs(float64(g)-b) <= t) {
		o.Fail("haversine-def:"+id, fmt.Sprintf("haversine = %v, 2R asin(sqrt(a)) = %v, 2R atan2(sqrt a, sqrt(1-a)) = %v", g, a, b), line)
	}
	if r := fnHaversine(y, x); math.Float32bits(g) != math.Float32bits(r) {
		o.Fail("haversine-symmetry:"+id, fmt.Sprintf("haversine(x,y)=%v haversine(y,x)=%v", g, r), line)
	}
}

// ------------------------------------------------------------------------------------------ main

func main() {
	seed := flag.Uint64("seed", 1, "PRNG seed")
	full := flag.Bool("full", false, "thorough tier: every length 1..4096")
	dir := flag.String("out", "", "output directory")
	oracleOnly := flag.Bool("oracle-only", false, "search step: evaluate the property oracle only, write no op lines for the model")
	replay := flag.String("replay", "", "replay the op lines of this file against the implementation (prints impl answers)")
	flag.Parse()
	initFns()
	if *replay != "" {
		doReplay(*replay)
		return
	}
	rng := vh.NewRng(*seed)
	o := vh.NewOut(*dir)
	emitLines = !*oracleOnly
	var extra map[string]any
	func() {
		defer func() {
			if r := recover(); r != nil {
				crashed := fmt.Sprint(r)
				o.Fail("harness-panic:"+crashed, "the harness (or the code under test) panicked: "+crashed, "# no replay: panic "+crashed)
			}
		}()
		extra = run(rng, o, *full)
	}()
	o.Close(extra)
}

var emitLines = true

func run(rng *vh.Rng, o *vh.Out, full bool) map[string]any {
	// ---------------------------------------------------------------- float32 `>` (trusted semantics of the model, validated)
	for _, a := range f32pool {
		for _, b := range f32pool {
			fa, fb := math.Float32frombits(a), math.Float32frombits(b)
			if emitLines {
				o.Emit("f32gt", "f32gt "+f32hex(fa)+" "+f32hex(fb), implF32gt(fa, fb), true)
			}
		}
	}
	for i := 0; i < 2000; i++ {
		fa, fb := randF32(rng), randF32(rng)
		if emitLines {
			o.Emit("f32gt", "f32gt "+f32hex(fa)+" "+f32hex(fb), implF32gt(fa, fb), true)
		}
	}
	// ---------------------------------------------------------------- the quantisers after their real Fit() (fit.go)
	fitSection(rng, o, full)
	// ---------------------------------------------------------------- encode + metrics on encodings, every length
	if emitLines {
		o.Emit("encode-unfitted", "encode - "+hexW32([]float32{1, 2, 3}), implEncode(nil, []float32{1, 2, 3}), false)
	}
	nonMult64 := 0
	for _, n := range bitLengths(rng, full, 60) {
		t := genThreshold(rng, n)
		x, y := genVector(rng, t), genVector(rng, t)
		if rng.Intn(8) == 0 {
			y = append([]float32{}, x...) // identical: hamming 0, jaccard 0
		}
		if rng.Intn(8) == 0 { // both sets empty: the union = 0 guard
			for i := range x {
				x[i], y[i] = t[i], t[i]
			}
		}
		if n%64 != 0 {
			nonMult64++
		}
		metric := "hamming"
		if rng.Bool() {
			metric = "jaccard"
		}
		ex, px := encodeSafe(t, x)
		ey, py := encodeSafe(t, y)
		if px != "" || py != "" {
			o.Fail(fmt.Sprintf("encode-panic:n=%d:nmod64=%d", n, n%64), fmt.Sprintf("encode of a %d-dimensional vector panics: %s%s", n, px, py), "encode "+hexW32(t)+" "+hexW32(x)+"\nencode "+hexW32(t)+" "+hexW32(y))
			continue
		}
		checkEncode(o, t, x, ex)
		checkEncode(o, t, y, ey)
		checkBitMetrics(o, "enc", ex, ey)
		checkBq(o, t, x, y)
		if emitLines {
			o.Emit("bq-"+metric, "bq "+metric+" "+hexW32(t)+" "+hexW32(x)+" "+hexW32(y), implBq(metric, t, x, y), true)
		}
		other := fnJaccard
		oname := "jaccard"
		if metric == "jaccard" {
			other, oname = fnHamming, "hamming"
		}
		if emitLines {
			o.Emit(oname+"-enc", oname+" "+hexW64(ex)+" "+hexW64(ey), implBit(other, ex, ey), true)
		}
	}
	// ---------------------------------------------------------------- metrics on arbitrary words (padding bits set)
	nw := 3000
	if full {
		nw = 30000
	}
	for i := 0; i < nw; i++ {
		l := 1 + rng.Intn(64)
		if i < 64 {
			l = i + 1
		}
		x, y := make([]uint64, l), make([]uint64, l)
		mode := rng.Intn(6)
		for k := range x {
			switch mode {
			case 0: // all zero: union = 0
			case 1:
				x[k], y[k] = ^uint64(0), ^uint64(0)
			case 2:
				x[k] = rng.U64()
				y[k] = x[k]
			case 3: // sparse
				x[k], y[k] = rng.U64()&rng.U64()&rng.U64(), rng.U64()&rng.U64()&rng.U64()
			default:
				x[k], y[k] = rng.U64(), rng.U64()
			}
		}
		checkBitMetrics(o, "words", x, y)
		if emitLines {
			o.Emit("hamming-words", "hamming "+hexW64(x)+" "+hexW64(y), implBit(fnHamming, x, y), mode != 0)
		}
		if emitLines {
			o.Emit("jaccard-words", "jaccard "+hexW64(x)+" "+hexW64(y), implBit(fnJaccard, x, y), mode != 0)
		}
	}
	// ---------------------------------------------------------------- kernels, exact part (vs Lean model over Int)
	ls := lengths(rng, full, 150)
	kernLines := 0
	for _, n := range ls {
		offx, offy := rng.Intn(8), rng.Intn(8)
		x, y := make([]float32, n), make([]float32, n)
		amp := 31
		if rng.Intn(4) == 0 {
			amp = 1 + rng.Intn(31)
		}
		for i := range x {
			x[i] = float32(rng.Intn(2*amp+1) - amp)
			y[i] = float32(rng.Intn(2*amp+1) - amp)
		}
		if rng.Intn(6) == 0 { // a single non-zero item at a random place: a skipped index cannot hide
			for i := range x {
				x[i], y[i] = 0, 0
			}
			k := rng.Intn(n)
			x[k], y[k] = float32(1+rng.Intn(31)), -float32(1+rng.Intn(31))
		}
		sx, sy := place(x, offx), place(y, offy)
		checkKernInt(o, sx, sy, offx, offy)
		if emitLines {
			o.Emit("kern", "kern "+hexI8(sx)+" "+hexI8(sy), implKern(sx, sy), true)
		}
		kernLines++
	}
	// last-item probes for every length: x = e_n (only the last item set): the tail / block boundary at every n
	for n := 1; n <= 4096; n++ {
		x, y := make([]float32, n), make([]float32, n)
		x[n-1], y[n-1] = 3, 5
		if n > 1 {
			x[0], y[0] = 2, 7
		}
		sx, sy := place(x, n%8), place(y, (n/8)%8)
		checkKernInt(o, sx, sy, n%8, (n/8)%8)
		o.Stats["kern-first-last-probe"]++
	}
	// ---------------------------------------------------------------- kernels, rounding part (test; oracle only)
	var st sweepStats
	for _, n := range ls {
		for off := 0; off < 8; off++ {
			for dist := 0; dist < nDist; dist++ {
				x, y := genFloats(rng, n, dist)
				offy := (off*3 + 1 + n) % 8
				sx, sy := place(x, off), place(y, offy)
				before := len(o.Oracle)
				checkFloats(o, &st, sx, sy, off, offy, distNames[dist])
				st.perDist[dist]++
				o.Stats["sweep-"+distNames[dist]]++
				if len(o.Oracle) == before {
					st.distinct++
				}
			}
		}
	}
	// a few explicit op lines of the sweep kind so that replays of such lines are exercised too
	for i := 0; i < 6; i++ {
		x, y := genFloats(rng, 33+i, i%nDist)
		if emitLines {
			o.Emit("fdot-sample", "fdot "+hexW32(x)+" "+hexW32(y), "n/a", false)
		}
		if emitLines {
			o.Emit("fl2-sample", "fl2 "+hexW32(x)+" "+hexW32(y), "n/a", false)
		}
	}
	// ---------------------------------------------------------------- formula lines: the generated expressions against the real functions
	if emitLines {
		formulaLines(rng, o, full)
	}
	// ---------------------------------------------------------------- haversine
	pts := [][]float32{{0, 0}, {0, 180}, {0, -180}, {90, 0}, {-90, 0}, {90, 180}, {45, 0}, {-45, 180}, {51.5, -0.12}, {-33.87, 151.2}, {0, 179.99}, {0, -179.99}, {1e-6, 1e-6}, {89.999, 10}, {-89.999, -170}}
	// corpus: antipodal pairs on which sin^2 + cos*cos*sin^2 rounds to 1 + 2^-52 in float64 (asin of it is NaN
	// unless the implementation clamps); found by the search step of this check on the pinned tree
	for _, w := range [][4]float32{{-46.425, -80.596, 46.425, 99.404}, {47.783997, -28.938995, -47.783997, 151.061},
		{-46.425, -178.019, 46.425, 1.9810028}, {47.783997, -95.467, -47.783997, 84.533}, {46.404007, 174.01501, -46.404007, -5.9849854}} {
		checkHaversine(o, []float32{w[0], w[1]}, []float32{w[2], w[3]})
		o.Stats["haversine"]++
	}
	nh := 40000
	if full {
		nh = 400000
	}
	for i := 0; i < nh; i++ {
		p := []float32{float32(rng.Intn(180001))/1000 - 90, float32(rng.Intn(360001))/1000 - 180}
		pts = append(pts, p)
		switch rng.Intn(4) {
		case 0: // its antipode, where asin is ill-conditioned
			lon := p[1] + 180
			if lon > 180 {
				lon -= 360
			}
			pts = append(pts, []float32{-p[0], lon})
		case 1: // a very close neighbour
			pts = append(pts, []float32{p[0] + float32(rng.Intn(100))/1e5, p[1] - float32(rng.Intn(100))/1e5})
		}
	}
	for i := 0; i+1 < len(pts); i++ {
		checkHaversine(o, pts[i], pts[i+1])
		o.Stats["haversine"]++
		if i < 15 {
			for j := 0; j < 15; j++ {
				checkHaversine(o, pts[i], pts[j])
				o.Stats["haversine"]++
			}
		}
	}
	if emitLines {
		o.Emit("hav-sample", "hav "+hexW32(pts[8])+" "+hexW32(pts[9]), "n/a", false)
	}
	// ----------------------------------------------------------------
	extra := map[string]any{
		"rule":                "distinct_nontrivial = distinct op lines compared with the Lean model (f32gt pairs; bq lines = encode of x and y plus the metric on the encodings for one length each; hamming/jaccard on random non-zero words; kern lines = one length each, exact integers) plus sweep cases (length x offset x distribution) whose oracle passed; the sweep is a floating-point TEST (not a theorem): kernel vs float64 reference within the worst-case float32 rounding bound gamma_(n+k)*sum|terms|, vs the scalar float32 loop within twice that, symmetry bit for bit",
		"evaluations":         o.N + st.evals + o.Stats["haversine"] + o.Stats["kern-first-last-probe"],
		"distinct_nontrivial": o.Nontrivial + st.distinct,
		"sweep": map[string]any{
			"lengths": len(ls), "all_lengths_1_4096": full, "offsets": 8, "distributions": distNames,
			"kernel_evaluations": st.evals, "max_error_over_tolerance_dot": st.maxRelDot, "max_error_over_tolerance_l2": st.maxRelL2,
			"kernel_differs_from_scalar_loop_within_tolerance": st.scalarDisagreeButWithinT,
			"encode_lengths_not_multiple_of_64":                nonMult64, "kern_lines": kernLines,
		},
	}
	return extra
}

// dot / cosine distance over the value of dotProductImpl, the two pure Go loops, haversine, the product quantiser:
// the driver evaluates the expression trees generated from the source with hardware floats
func formulaLines(rng *vh.Rng, o *vh.Out, full bool) {
	nl := 130
	if full {
		nl = 600
	}
	for n := 1; n <= nl; n++ {
		for dist := 0; dist < nDist; dist++ {
			if n > 40 && (n+dist)%7 != 0 {
				continue
			}
			x, y := genFloats(rng, n, dist)
			k := distance.VerifDotImpl(x, y)
			o.Emit("dotd", "dotd "+hexW32(x)+" "+hexW32(y)+" "+f32hex(k), implDotd(x, y), true)
			o.Emit("cosd", "cosd "+hexW32(x)+" "+hexW32(y)+" "+f32hex(k), implCosd(x, y), true)
			o.Emit("pdot", "pdot "+hexW32(x)+" "+hexW32(y), implPdot(x, y), true)
			o.Emit("pl2", "pl2 "+hexW32(x)+" "+hexW32(y), implPl2(x, y), true)
			// the property on the same inputs: the reference loops are the left-to-right float32 sums
			var sd, sl float32
			for i := range x {
				sd += x[i] * y[i]
				d := x[i] - y[i]
				sl += d * d
			}
			if g := distance.VerifDotPureGo(x, y); math.Float32bits(g) != math.Float32bits(sd) && g == g {
				o.Fail(fmt.Sprintf("pure-dot-formula:n=%d:dist=%s", n, distNames[dist]), fmt.Sprintf("dotProductPureGo = %v, left-to-right float32 sum of x_i*y_i = %v", g, sd), "pdot "+hexW32(x)+" "+hexW32(y))
			}
			if g := distance.VerifL2PureGo(x, y); math.Float32bits(g) != math.Float32bits(sl) && g == g {
				o.Fail(fmt.Sprintf("pure-l2-formula:n=%d:dist=%s", n, distNames[dist]), fmt.Sprintf("squaredEuclideanDistancePureGo = %v, left-to-right float32 sum of (x_i-y_i)^2 = %v", g, sl), "pl2 "+hexW32(x)+" "+hexW32(y))
			}
			if g := fnDot(x, y); math.Float32bits(g) != math.Float32bits(-k) && g == g {
				o.Fail(fmt.Sprintf("dot-distance-formula:n=%d:dist=%s", n, distNames[dist]), fmt.Sprintf("dot distance = %v, -dotProductImpl = %v", g, -k), "dotd "+hexW32(x)+" "+hexW32(y)+" "+f32hex(k))
			}
			if g := fnCosine(x, y); math.Float32bits(g) != math.Float32bits(1-k) && g == g {
				o.Fail(fmt.Sprintf("cosine-distance-formula:n=%d:dist=%s", n, distNames[dist]), fmt.Sprintf("cosine distance = %v, 1 - dotProductImpl = %v", g, 1-k), "cosd "+hexW32(x)+" "+hexW32(y)+" "+f32hex(k))
			}
		}
	}
	// special values of the kernel result (the expression is a function of k alone)
	for _, kb := range f32pool {
		k := math.Float32frombits(kb)
		x, y := []float32{k}, []float32{1}
		k = distance.VerifDotImpl(x, y) // (+0 for k = -0: the kernel's accumulator starts at +0)
		if k != k {
			continue
		}
		o.Emit("dotd-special", "dotd "+hexW32(x)+" "+hexW32(y)+" "+f32hex(k), implDotd(x, y), true)
		o.Emit("cosd-special", "cosd "+hexW32(x)+" "+hexW32(y)+" "+f32hex(k), implCosd(x, y), true)
	}
	// haversine: boundary points, antipodes (the clamp), close neighbours, random pairs
	hpts := [][]float32{{0, 0}, {0, 180}, {0, -180}, {90, 0}, {-90, 0}, {90, 180}, {45, 0}, {-45, 180}, {51.5, -0.12}, {-33.87, 151.2}, {0, 179.99}, {0, -179.99},
		{1e-6, 1e-6}, {89.999, 10}, {-89.999, -170}, {-46.425, -80.596}, {46.425, 99.404}, {47.783997, -28.938995}, {-47.783997, 151.061}}
	nh := 1500
	if full {
		nh = 15000
	}
	for i := 0; i < nh; i++ {
		p := []float32{float32(rng.Intn(180001))/1000 - 90, float32(rng.Intn(360001))/1000 - 180}
		hpts = append(hpts, p)
		switch rng.Intn(4) {
		case 0:
			lon := p[1] + 180
			if lon > 180 {
				lon -= 360
			}
			hpts = append(hpts, []float32{-p[0], lon})
		case 1:
			hpts = append(hpts, []float32{p[0] + float32(rng.Intn(100))/1e5, p[1] - float32(rng.Intn(100))/1e5})
		}
	}
	for i := 0; i+1 < len(hpts); i++ {
		js := []int{i + 1}
		if i < 19 {
			js = js[:0]
			for j := 0; j < 19; j++ {
				js = append(js, j)
			}
		}
		for _, j := range js {
			x, y := hpts[i], hpts[j]
			g := fnHaversine(x, y)
			line := "havf " + hexW32(x) + " " + hexW32(y) + " " + f32hex(g)
			o.Emit("havf", line, implHavf(x, y, f32hex(g)), true)
			// the property: the documented formula, evaluated independently in float64 (float32 result: half an ulp,
			// plus the conditioning of asin near antipodal points; same tolerance as the sweep above)
			want := refHav64(x, y)
			t := math.Abs(want)*math.Ldexp(1, -22) + 1e-3 + 1
			if !(math.Abs(float64(g)-want) <= t) {
				o.Fail(fmt.Sprintf("haversine-formula:%v,%v-%v,%v", x[0], x[1], y[0], y[1]), fmt.Sprintf("haversine = %v, float64 evaluation of the documented formula = %v", g, want), line)
			}
		}
	}
	// binary quantiser wiring: trained (threshold set) -> bit distance of the encodings, untrained -> the float distance
	for i := 0; i < 400; i++ {
		n := 1 + rng.Intn(130)
		t := genThreshold(rng, n)
		x, y := genVector(rng, t), genVector(rng, t)
		for k := range x { // NaN-free vectors: the float distance of the untrained case is compared as a value
			if x[k] != x[k] || math.IsInf(float64(x[k]), 0) || math.Abs(float64(x[k])) > 1e15 {
				x[k] = float32(k%7) - 3
			}
			if y[k] != y[k] || math.IsInf(float64(y[k]), 0) || math.Abs(float64(y[k])) > 1e15 {
				y[k] = float32(k%5) - 2
			}
		}
		thr := t
		if i%3 == 0 {
			thr = nil // not fitted yet
		}
		metric := []string{"hamming", "jaccard"}[i%2]
		fk := fnEuclid(x, y)
		o.Emit("bqw", "bqw "+metric+" "+hexW32(thr)+" "+hexW32(x)+" "+hexW32(y)+" "+f32hex(fk), implBqw(metric, thr, x, y), true)
	}
	// product quantiser: small tables, every code value; distFn of the table build = the pure Go euclidean loop
	npq := 300
	if full {
		npq = 3000
	}
	for i := 0; i < npq; i++ {
		ns, k, l := 1+rng.Intn(6), 2+rng.Intn(7), 1+rng.Intn(5)
		if i < 8 {
			ns, k, l = 1+i%3, 2+i%2, 1+i%4
		}
		flat, _ := genFloats(rng, ns*k*l, []int{dUnit, dMixed, dZeros}[rng.Intn(3)])
		x, _ := genFloats(rng, ns*l, []int{dUnit, dMixed, dZeros}[rng.Intn(3)])
		cd, _ := genFloats(rng, ns*k*k, []int{dUnit, dMixed, dLarge}[rng.Intn(3)])
		cx, cy := make([]uint8, ns), make([]uint8, ns)
		for j := range cx {
			cx[j], cy[j] = uint8(rng.Intn(k)), uint8(rng.Intn(k))
		}
		lf := fmt.Sprintf("pqf %d %d %d %s %s %s", ns, k, l, hexW32(flat), hexW32(x), hexU8(cy))
		lp := fmt.Sprintf("pqp %d %d %s %s %s", ns, k, hexW32(cd), hexU8(cx), hexU8(cy))
		af, ap := implPqf(ns, k, l, flat, x, cy), implPqp(ns, k, cd, cx, cy)
		o.Emit("pqf", lf, af, true)
		o.Emit("pqp", lp, ap, true)
		// the property: sum over the sub-vectors of one table entry each (left to right, float32)
		var wf, wp float32
		for s := 0; s < ns; s++ {
			c := flat[(s*k+int(cy[s]))*l : (s*k+int(cy[s])+1)*l]
			var d float32
			for t := 0; t < l; t++ {
				df := x[s*l+t] - c[t]
				d += df * df
			}
			wf += d
			wp += cd[s*k*k+int(cx[s])*k+int(cy[s])]
		}
		if af != f32hexN(wf) {
			o.Fail(fmt.Sprintf("pq-from-float-formula:ns=%d:k=%d:l=%d", ns, k, l), fmt.Sprintf("quantised distance (query vector) = %s, sum of sub-vector distances to the point's centroids = %s", af, f32hexN(wf)), lf)
		}
		if ap != f32hexN(wp) {
			o.Fail(fmt.Sprintf("pq-from-point-formula:ns=%d:k=%d", ns, k), fmt.Sprintf("quantised distance (stored points) = %s, sum of centroid-distance table entries = %s", ap, f32hexN(wp)), lp)
		}
	}
}

// ------------------------------------------------------------------------------------------ replay

func doReplay(path string) {
	f, err := os.Open(path)
	if err != nil {
		panic(err)
	}
	defer f.Close()
	sc := bufio.NewScanner(f)
	sc.Buffer(make([]byte, 1<<20), 1<<28)
	w := bufio.NewWriter(os.Stdout)
	defer w.Flush()
	for sc.Scan() {
		line := strings.TrimSpace(sc.Text())
		if line == "" || strings.HasPrefix(line, "#") {
			continue
		}
		fmt.Fprintln(w, replayLine(line))
	}
}

func replayLine(line string) (out string) {
	defer func() {
		if r := recover(); r != nil {
			out = fmt.Sprint("panic: ", r)
		}
	}()
	f := strings.Fields(line)
	w32 := func(i int) []float32 {
		v, err := parseW32(f[i])
		if err != nil {
			panic(err)
		}
		return v
	}
	w64 := func(i int) []uint64 {
		v, err := parseW64(f[i])
		if err != nil {
			panic(err)
		}
		return v
	}
	switch {
	case f[0] == "f32gt" && len(f) == 3:
		return implF32gt(w32(1)[0], w32(2)[0])
	case f[0] == "encode" && len(f) == 3:
		return implEncode(w32(1), w32(2))
	case f[0] == "hamming" && len(f) == 3:
		return implBit(fnHamming, w64(1), w64(2))
	case f[0] == "jaccard" && len(f) == 3:
		return implBit(fnJaccard, w64(1), w64(2))
	case f[0] == "bq" && len(f) == 5:
		return implBq(f[1], w32(2), w32(3), w32(4))
	case f[0] == "kern" && len(f) == 3:
		x, err := parseI8(f[1])
		if err != nil {
			panic(err)
		}
		y, err := parseI8(f[2])
		if err != nil {
			panic(err)
		}
		return implKern(x, y)
	case f[0] == "dotd" && len(f) == 4:
		return implDotd(w32(1), w32(2))
	case f[0] == "cosd" && len(f) == 4:
		return implCosd(w32(1), w32(2))
	case f[0] == "pdot" && len(f) == 3:
		return implPdot(w32(1), w32(2))
	case f[0] == "pl2" && len(f) == 3:
		return implPl2(w32(1), w32(2))
	case f[0] == "havf" && len(f) == 4:
		return implHavf(w32(1), w32(2), f[3])
	case f[0] == "pqf" && len(f) == 7:
		ns, _ := strconv.Atoi(f[1])
		k, _ := strconv.Atoi(f[2])
		l, _ := strconv.Atoi(f[3])
		codes, err := parseU8(f[6])
		if err != nil {
			panic(err)
		}
		return implPqf(ns, k, l, w32(4), w32(5), codes)
	case f[0] == "pqp" && len(f) == 6:
		ns, _ := strconv.Atoi(f[1])
		k, _ := strconv.Atoi(f[2])
		cx, err := parseU8(f[4])
		if err != nil {
			panic(err)
		}
		cy, err := parseU8(f[5])
		if err != nil {
			panic(err)
		}
		return implPqp(ns, k, w32(3), cx, cy)
	case f[0] == "bqw" && len(f) == 6:
		return implBqw(f[1], w32(2), w32(3), w32(4))
	case f[0] == "pqfit" && len(f) == 12:
		return replayPqfit(f, w32)
	case f[0] == "bqfit" && len(f) == 9:
		return replayBqfit(f, w32)
	case f[0] == "pqe" && len(f) == 7:
		ns, _ := strconv.Atoi(f[2])
		k, _ := strconv.Atoi(f[3])
		l, _ := strconv.Atoi(f[4])
		return implPqe(f[1], ns, k, l, w32(5), w32(6))
	case f[0] == "pqt" && len(f) == 6:
		return "n/a (the tables a real Fit() left behind; k-means is not replayable from them: replay the pqfit line of the same case)"
	case f[0] == "pqg" && len(f) == 10:
		ns, _ := strconv.Atoi(f[2])
		k, _ := strconv.Atoi(f[3])
		l, _ := strconv.Atoi(f[4])
		cx, err := parseU8(f[8])
		if err != nil {
			panic(err)
		}
		cy, err := parseU8(f[9])
		if err != nil {
			panic(err)
		}
		return implPqg(f[1], ns, k, l, w32(5), w32(6), w32(7), cx, cy)
	case f[0] == "fdot" && len(f) == 3:
		x, y := w32(1), w32(2)
		s64, sabs, s32 := refDot(x, y)
		g := kdot(x, y)
		return fmt.Sprintf("dot=%v(%s) float64-reference=%v scalar-float32=%v bound=%g within=%v reversed=%s", g, f32hex(g), s64, s32, tol(len(x), 1, sabs), math.Abs(float64(g)-s64) <= tol(len(x), 1, sabs), f32hex(kdot(y, x)))
	case f[0] == "fl2" && len(f) == 3:
		x, y := w32(1), w32(2)
		s64, sabs, s32 := refL2(x, y)
		g := fnEuclid(x, y)
		return fmt.Sprintf("l2=%v(%s) float64-reference=%v scalar-float32=%v bound=%g within=%v reversed=%s", g, f32hex(g), s64, s32, tol(len(x), 3, sabs), math.Abs(float64(g)-s64) <= tol(len(x), 3, sabs), f32hex(fnEuclid(y, x)))
	case f[0] == "hav" && len(f) == 3:
		x, y := w32(1), w32(2)
		a, b, _ := refHaversine(x, y)
		return fmt.Sprintf("haversine=%v reference=%v/%v reversed=%v", fnHaversine(x, y), a, b, fnHaversine(y, x))
	}
	return "bad-op"
}
