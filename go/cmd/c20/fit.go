// C20, the quantisers after their REAL Fit(): the product quantiser is built by newProductQuantizer, filled through Set and
// fitted by Fit() (real k-means on generated data at the trigger threshold, euclidean, dot and cosine - which the quantiser
// maps to euclidean); the binary quantiser without a preset threshold likewise.  What Fit leaves behind is judged against the
// definitions:
//
//   - every entry (j, k) of every sub-space's block of centroidDists - the diagonal included - is the metric of centroid j
//     and centroid k (float64 reference, worst-case float32 rounding bound as everywhere in this harness), and the block is
//     symmetric bit for bit;
//   - DistanceFromPoint(x)(y) is the sum over the sub-vectors of the metric between the two assigned centroids, is symmetric
//     bit for bit, and DistanceFromFloat(x^)(y) for the reconstruction x^ of x (its centroids concatenated) is that same sum;
//     DistanceFromFloat(q)(y) for an arbitrary query is the sum of the metric between q's sub-vectors and y's centroids;
//   - a point stored after Fit is assigned, per sub-vector, a centroid no other centroid is closer than (encode);
//   - binary quantiser: after Fit every stored encoding is the thresholded bit vector under the fitted threshold (padding 0),
//     and both distance closures are the bit-count definitions over those thresholded vectors - stored and late points alike.
//
// k-means draws from the global, unseedable math/rand/v2 source: the centroids differ from run to run, the verdicts do not
// (every oracle holds for whatever centroids k-means returns).  Replay lines therefore carry the DATA (`pqfit`, `bqfit`):
// the replay fits again and judges again.  The stream lines (`pqt`, `pqg`, `bq`) carry the fitted tables themselves.
package main

import (
	"fmt"
	"math"
	"strconv"
	"strings"

	"github.com/rs/zerolog"
	"github.com/semafind/semadb/distance"
	"github.com/semafind/semadb/shard/vectorstore"
	"verifharness/vh"
)

// k-means and the quantisers log every fit at debug level
func init() { zerolog.SetGlobalLevel(zerolog.WarnLevel) }

func pureDistFn(settled string) distance.FloatDistFunc {
	if settled == "dot" {
		return func(x, y []float32) float32 { return -distance.VerifDotPureGo(x, y) }
	}
	return distance.VerifL2PureGo
}

// float64 reference of the metric the quantiser settled on, with the sum of the absolute terms and the number of
// extra roundings per term (for the bound `tol`)
func refMetric(settled string, a, b []float32) (want, sumAbs float64, extra int) {
	if settled == "dot" {
		s, abs, _ := refDot(a, b)
		return -s, abs, 1
	}
	s, abs, _ := refL2(a, b)
	return s, abs, 3
}

type fitCase struct {
	metric   string // as given to the constructor
	ns, k, l int
	pure     bool // the quantiser's sub-vector distance replaced by the pure Go loop (the model can evaluate that one bit for bit)
	trigger  int  // trigger threshold; 0 = the number of vectors (Fit trains); more than that: the quantiser stays untrained
	vectors  [][]float32
	late     [][]float32 // stored after Fit (go through encode)
	queries  [][]float32
}

func (c *fitCase) line() string {
	var b strings.Builder
	mode := "real"
	if c.pure {
		mode = "pure"
	}
	fmt.Fprintf(&b, "pqfit %s %d %d %d %s %d %d %d", c.metric, c.ns, c.k, c.l, mode, len(c.vectors), len(c.late), c.trigger)
	for _, part := range [][][]float32{c.vectors, c.late, c.queries} {
		var flat []float32
		for _, v := range part {
			flat = append(flat, v...)
		}
		b.WriteString(" " + hexW32(flat))
	}
	return b.String()
}

func settledMetric(m string) string {
	if m == "cosine" {
		return "euclidean"
	}
	return m
}

func copyVecs(vs [][]float32) [][]float32 {
	out := make([][]float32, len(vs))
	for i, v := range vs {
		out[i] = append([]float32(nil), v...)
	}
	return out
}

// fit the case with the real life cycle; failures are reported through fail(signature, what)
func fitProduct(c *fitCase) (fp *vectorstore.VerifFittedProduct, err error) {
	defer func() {
		if r := recover(); r != nil {
			fp, err = nil, fmt.Errorf("panic: %v", r)
		}
	}()
	var fn distance.FloatDistFunc
	if c.pure {
		fn = pureDistFn(settledMetric(c.metric))
	}
	// k-means writes the cluster means INTO the slices it was given (its first centroids alias the data): hand out copies
	trigger := c.trigger
	if trigger == 0 {
		trigger = len(c.vectors)
	}
	return vectorstore.VerifProductStore(c.metric, c.ns, c.k, c.ns*c.l, trigger, copyVecs(c.vectors), fn)
}

type fitFailure struct{ sig, what string }

// the property on a fitted product quantiser; returns the failures (one per kind at most)
func judgeProduct(c *fitCase, fp *vectorstore.VerifFittedProduct) (fails []fitFailure) {
	seen := map[string]bool{}
	fail := func(sig, what string) {
		if !seen[sig] {
			seen[sig] = true
			fails = append(fails, fitFailure{sig, what})
		}
	}
	defer func() {
		if r := recover(); r != nil {
			fail("pq-fit-panic:"+c.metric, fmt.Sprint("the fitted quantiser panics: ", r))
		}
	}()
	ns, k, l := c.ns, c.k, c.l
	settled := settledMetric(c.metric)
	if fp.Metric != settled {
		fail("pq-fit-metric:"+c.metric, fmt.Sprintf("the quantiser for %s uses the metric %q", c.metric, fp.Metric))
		return
	}
	if c.trigger > len(c.vectors) && !fp.Fitted() {
		judgeUntrained(c, fp, settled, fail)
		return
	}
	if !fp.Fitted() {
		fail("pq-fit-not-fitted:"+c.metric, fmt.Sprintf("Fit() with %d points at trigger threshold %d left the quantiser untrained", len(c.vectors), len(c.vectors)))
		return
	}
	flat, cd := fp.FlatCentroids(), fp.CentroidDists()
	if len(flat) != ns*k*l || len(cd) != ns*k*k {
		fail("pq-fit-table-size:"+c.metric, fmt.Sprintf("flatCentroids has %d items (want %d), centroidDists %d (want %d)", len(flat), ns*k*l, len(cd), ns*k*k))
		return
	}
	cent := func(i, j int) []float32 { return flat[(i*k+j)*l : (i*k+j+1)*l] }
	// ---- the centroid-to-centroid table, every entry
	for i := 0; i < ns; i++ {
		for j := 0; j < k; j++ {
			for m := 0; m < k; m++ {
				got := cd[i*k*k+j*k+m]
				want, sumAbs, extra := refMetric(settled, cent(i, j), cent(i, m))
				if !(math.Abs(float64(got)-want) <= tol(l, extra, sumAbs)) {
					where := "offdiag"
					if j == m {
						where = "diag"
					}
					fail(fmt.Sprintf("pq-fit-table:%s:%s", settled, where), fmt.Sprintf("centroidDists[sub-space %d][%d][%d] = %v after Fit, %s metric of centroid %d %v and centroid %d %v = %v (bound %g)",
						i, j, m, got, settled, j, cent(i, j), m, cent(i, m), want, tol(l, extra, sumAbs)))
				}
				if math.Float32bits(got) != math.Float32bits(cd[i*k*k+m*k+j]) {
					fail("pq-fit-table-symmetry:"+settled, fmt.Sprintf("centroidDists[sub-space %d][%d][%d] = %v but [%d][%d] = %v", i, j, m, got, m, j, cd[i*k*k+m*k+j]))
				}
			}
		}
	}
	// ---- codes of the stored points
	n := len(c.vectors)
	codes := make([][]uint8, n+len(c.late)+1)
	for id := 1; id <= n; id++ {
		codes[id] = fp.Codes(uint64(id))
	}
	fn := mustF(settled)
	if c.pure {
		fn = pureDistFn(settled)
	}
	for t, v := range c.late {
		id := n + 1 + t
		if err := fp.Set(uint64(id), append([]float32(nil), v...)); err != nil {
			fail("pq-set-error:"+settled, err.Error())
			return
		}
		codes[id] = fp.Codes(uint64(id))
	}
	for id := 1; id < len(codes); id++ {
		if len(codes[id]) != ns {
			fail("pq-fit-codes:"+settled, fmt.Sprintf("point %d has %d centroid ids, want %d", id, len(codes[id]), ns))
			return
		}
		for i := 0; i < ns; i++ {
			if int(codes[id][i]) >= k {
				fail("pq-fit-codes:"+settled, fmt.Sprintf("point %d: centroid id %d of sub-vector %d, only %d centroids", id, codes[id][i], i, k))
				return
			}
		}
	}
	// encode (points stored after Fit): no centroid is closer than the assigned one, under the quantiser's own distance function
	for t, v := range c.late {
		id := n + 1 + t
		for i := 0; i < ns; i++ {
			sub := v[i*l : (i+1)*l]
			mine := fn(sub, cent(i, int(codes[id][i])))
			for j := 0; j < k; j++ {
				if d := fn(sub, cent(i, j)); d < mine {
					fail("pq-encode-nearest:"+settled, fmt.Sprintf("a point stored after Fit: sub-vector %d %v is assigned centroid %d at distance %v, centroid %d is at %v", i, sub, codes[id][i], mine, j, d))
				}
			}
		}
	}
	// ---- the two quantised distances against the definition
	sumRef := func(sub func(i int) []float32, cy []uint8) (want, bound float64) {
		var abs float64
		for i := 0; i < ns; i++ {
			w, sa, extra := refMetric(settled, sub(i), cent(i, int(cy[i])))
			t := tol(l, extra, sa)
			want += w
			bound += t
			abs += math.Abs(w) + t
		}
		return want, bound + tol(ns, 0, abs)
	}
	pair := func(x, y int) {
		cx, cy := codes[x], codes[y]
		want, bound := sumRef(func(i int) []float32 { return cent(i, int(cx[i])) }, cy)
		gp, gr := fp.FromPoint(uint64(x), uint64(y)), fp.FromPoint(uint64(y), uint64(x))
		shared := false
		for i := range cx {
			shared = shared || cx[i] == cy[i]
		}
		if !(math.Abs(float64(gp)-want) <= bound) {
			fail(fmt.Sprintf("pq-fit-from-point:%s:shared-centroid=%v", settled, shared), fmt.Sprintf("DistanceFromPoint of points %d (codes %v) and %d (codes %v) = %v, sum over the sub-vectors of the %s metric between the assigned centroids = %v (bound %g)",
				x, cx, y, cy, gp, settled, want, bound))
		}
		if math.Float32bits(gp) != math.Float32bits(gr) {
			fail("pq-fit-from-point-symmetry:"+settled, fmt.Sprintf("DistanceFromPoint(%d)(%d) = %v but DistanceFromPoint(%d)(%d) = %v", x, y, gp, y, x, gr))
		}
		var recon []float32
		for i := 0; i < ns; i++ {
			recon = append(recon, cent(i, int(cx[i]))...)
		}
		if gf := fp.FromFloat(recon, uint64(y)); !(math.Abs(float64(gf)-want) <= bound) {
			fail(fmt.Sprintf("pq-fit-float-vs-point:%s:shared-centroid=%v", settled, shared), fmt.Sprintf("DistanceFromFloat(reconstruction of point %d, codes %v)(point %d, codes %v) = %v, DistanceFromPoint = %v, definition = %v (bound %g)",
				x, cx, y, cy, gf, gp, want, bound))
		}
	}
	total := len(codes) - 1
	for x := 1; x <= total; x++ {
		pair(x, x)
		pair(x, 1+(x*7+3)%total)
		pair(x, 1+(x*13+5)%total)
	}
	for _, q := range c.queries {
		for y := 1; y <= total; y += 1 + total/6 {
			want, bound := sumRef(func(i int) []float32 { return q[i*l : (i+1)*l] }, codes[y])
			if gf := fp.FromFloat(q, uint64(y)); !(math.Abs(float64(gf)-want) <= bound) {
				fail("pq-fit-from-float:"+settled, fmt.Sprintf("DistanceFromFloat(%v)(point %d, codes %v) = %v, sum of the %s metric between the query's sub-vectors and the point's centroids = %v (bound %g)", q, y, codes[y], gf, settled, want, bound))
			}
		}
	}
	return fails
}

// a product quantiser below its trigger threshold: both closures are the metric on the raw vectors
func judgeUntrained(c *fitCase, fp *vectorstore.VerifFittedProduct, settled string, fail func(sig, what string)) {
	n := len(c.vectors)
	dim := c.ns * c.l
	for x := 1; x <= n; x++ {
		for _, y := range []int{x, 1 + (x*7+3)%n} {
			vx, vy := c.vectors[x-1], c.vectors[y-1]
			want, sumAbs, extra := refMetric(settled, vx, vy)
			gp, gr := fp.FromPoint(uint64(x), uint64(y)), fp.FromPoint(uint64(y), uint64(x))
			if !(math.Abs(float64(gp)-want) <= tol(dim, extra, sumAbs)) {
				fail("pq-untrained-from-point:"+settled, fmt.Sprintf("untrained quantiser: DistanceFromPoint(%d)(%d) = %v, %s metric of the two vectors = %v (bound %g)", x, y, gp, settled, want, tol(dim, extra, sumAbs)))
			}
			if math.Float32bits(gp) != math.Float32bits(gr) {
				fail("pq-untrained-symmetry:"+settled, fmt.Sprintf("untrained quantiser: DistanceFromPoint(%d)(%d) = %v but (%d)(%d) = %v", x, y, gp, y, x, gr))
			}
		}
	}
	for _, q := range c.queries {
		for y := 1; y <= n; y += 1 + n/6 {
			want, sumAbs, extra := refMetric(settled, q, c.vectors[y-1])
			if gf := fp.FromFloat(q, uint64(y)); !(math.Abs(float64(gf)-want) <= tol(dim, extra, sumAbs)) {
				fail("pq-untrained-from-float:"+settled, fmt.Sprintf("untrained quantiser: DistanceFromFloat(%v)(%d) = %v, %s metric of query and vector = %v (bound %g)", q, y, gf, settled, want, tol(dim, extra, sumAbs)))
			}
		}
	}
}

// ------------------------------------------------------------------------------------------ data

const (
	gBlobs = iota
	gShifted
	gUnit
	gMixed
	gFewDistinct
	nGen
)

var genNames = []string{"blobs", "shifted", "unit", "mixed", "few-distinct"}

func genData(r *vh.Rng, kind, n, dim, blobs int) [][]float32 {
	out := make([][]float32, n)
	centres := make([][]float32, blobs)
	for b := range centres {
		centres[b] = make([]float32, dim)
		for d := range centres[b] {
			centres[b][d] = float32(r.Intn(129)-64) / 8
		}
	}
	for i := range out {
		v := make([]float32, dim)
		for d := range v {
			u := float32(float64(int64(r.U64()>>11))/float64(1<<52) - 1) // [-1, 1)
			switch kind {
			case gBlobs:
				v[d] = centres[i%blobs][d] + u/4
			case gShifted:
				v[d] = float32(3*(i%blobs)+2) + (u+1)/4
			case gUnit:
				v[d] = u
			case gMixed:
				v[d] = sign(r) * float32(math.Ldexp(1+float64(u+1)/2, r.Intn(9)-4))
			case gFewDistinct:
				v[d] = centres[i%blobs][d]
			}
		}
		out[i] = v
	}
	return out
}

func genFitCase(r *vh.Rng, metric string, idx int, full bool) *fitCase {
	c := &fitCase{metric: metric}
	c.ns, c.k, c.l = 1+r.Intn(4), 2+r.Intn(7), 1+r.Intn(6)
	if r.Intn(5) == 0 {
		c.k = 9 + r.Intn(8)
	}
	if full && r.Intn(6) == 0 {
		c.ns, c.k, c.l = 1+r.Intn(2), 17+r.Intn(24), 8+r.Intn(57) // the kernels' unrolled blocks inside a sub-vector
	}
	kind := idx % nGen
	n := c.k + r.Intn(60)
	blobs := 1 + r.Intn(c.k+2)
	if kind == gFewDistinct {
		blobs = 1 + r.Intn(c.k) // fewer distinct points than centroids is allowed to happen
	}
	dim := c.ns * c.l
	c.vectors = genData(r, kind, n, dim, blobs)
	c.late = genData(r, vh.Pick(r, []int{gBlobs, gUnit, gMixed}), 4, dim, 3)
	c.queries = genData(r, vh.Pick(r, []int{gBlobs, gUnit, gMixed}), 3, dim, 3)
	return c
}

// a fixed corpus that runs first: tiny quantisers, every metric, points away from the origin and around it
func fitCorpus() []*fitCase {
	var cs []*fitCase
	for _, m := range []string{"euclidean", "dot", "cosine"} {
		cs = append(cs, &fitCase{metric: m, ns: 1, k: 2, l: 1, vectors: [][]float32{{1}, {1.5}, {3}, {3.5}}, late: [][]float32{{1.25}}, queries: [][]float32{{2}}})
		var vs [][]float32
		for i := 0; i < 12; i++ {
			b := float32(3*(i%3) - 3)
			vs = append(vs, []float32{b + 0.125*float32(i%4), b - 0.25, 2 - b, 0.5 * float32(i%2), b, 1})
		}
		cs = append(cs, &fitCase{metric: m, ns: 2, k: 3, l: 3, vectors: vs, late: [][]float32{{0, 0, 0, 0, 0, 0}, {-3, -3.25, 5, 0.5, -3, 1}}, queries: [][]float32{{1, 2, 3, 4, 5, 6}}})
	}
	return cs
}

// ------------------------------------------------------------------------------------------ stream lines of a fitted quantiser (pure Go sub-vector distance)

func metricTag(settled string) string {
	if settled == "dot" {
		return "d"
	}
	return "e"
}

func tagFn(tag string) distance.FloatDistFunc {
	if tag == "d" {
		return pureDistFn("dot")
	}
	return pureDistFn("euclidean")
}

func implPqg(tag string, ns, k, l int, flat, cd, x []float32, cx, cy []uint8) (out string) {
	defer func() {
		if r := recover(); r != nil {
			out = "panic: " + fmt.Sprint(r)
		}
	}()
	ff, fp := vectorstore.VerifProductDistances(ns, k, l, tagFn(tag), flat, cd, x, cx, cy)
	return f32hexN(ff) + " " + f32hexN(fp)
}

func implPqe(tag string, ns, k, l int, flat, v []float32) (out string) {
	defer func() {
		if r := recover(); r != nil {
			out = "panic: " + fmt.Sprint(r)
		}
	}()
	return hexU8(vectorstore.VerifProductEncode(ns, k, l, tagFn(tag), flat, v))
}

// encode on synthetic centroids: ties (duplicated centroids, the sub-vector itself among them), every position of the minimum,
// the unfitted case; the model runs the generated encode with hardware floats (first minimum wins: bit for bit the same codes)
func encodeLines(rng *vh.Rng, o *vh.Out, full bool) {
	n := 200
	if full {
		n = 2000
	}
	o.Emit("pqe-unfitted", "pqe e 2 3 2 - "+hexW32([]float32{1, 2, 3, 4}), implPqe("e", 2, 3, 2, nil, []float32{1, 2, 3, 4}), false)
	for t := 0; t < n; t++ {
		ns, k, l := 1+rng.Intn(4), 1+rng.Intn(9), 1+rng.Intn(5)
		tag := []string{"e", "d"}[t%2]
		flat := make([]float32, 0, ns*k*l)
		for _, c := range genData(rng, []int{gBlobs, gUnit, gMixed}[t%3], ns*k, l, 3) {
			flat = append(flat, c...)
		}
		v := genData(rng, []int{gBlobs, gUnit, gMixed}[(t/3)%3], 1, ns*l, 2)[0]
		for i := 0; i < ns; i++ {
			switch rng.Intn(4) {
			case 0: // a centroid duplicated at a later index: the first one must win
				a, b := rng.Intn(k), rng.Intn(k)
				copy(flat[(i*k+b)*l:(i*k+b+1)*l], flat[(i*k+a)*l:(i*k+a+1)*l])
			case 1: // the sub-vector is one of the centroids
				a := rng.Intn(k)
				copy(v[i*l:(i+1)*l], flat[(i*k+a)*l:(i*k+a+1)*l])
			}
		}
		line := fmt.Sprintf("pqe %s %d %d %d %s %s", tag, ns, k, l, hexW32(flat), hexW32(v))
		got := implPqe(tag, ns, k, l, flat, v)
		o.Emit("pqe", line, got, true)
		// the property on the same input: no centroid strictly closer than the assigned one
		codes, err := parseU8(got)
		if err != nil || len(codes) != ns {
			o.Fail("pq-encode-codes", fmt.Sprintf("encode gives %q for %d sub-vectors", got, ns), line)
			continue
		}
		fn := tagFn(tag)
		for i := 0; i < ns && int(codes[i]) < k; i++ {
			sub := v[i*l : (i+1)*l]
			mine := fn(sub, flat[(i*k+int(codes[i]))*l:(i*k+int(codes[i])+1)*l])
			for j := 0; j < k; j++ {
				if d := fn(sub, flat[(i*k+j)*l:(i*k+j+1)*l]); d < mine {
					o.Fail("pq-encode-nearest:synthetic:"+tag, fmt.Sprintf("sub-vector %d %v is assigned centroid %d at distance %v, centroid %d is at %v", i, sub, codes[i], mine, j, d), line)
				}
			}
		}
	}
}

func emitFitted(o *vh.Out, c *fitCase, fp *vectorstore.VerifFittedProduct) {
	if !c.pure || !fp.Fitted() {
		return
	}
	settled := settledMetric(c.metric)
	tag := metricTag(settled)
	flat, cd := fp.FlatCentroids(), fp.CentroidDists()
	o.Emit("pqt-"+settled, fmt.Sprintf("pqt %s %d %d %d %s", tag, c.ns, c.k, c.l, hexW32(flat)), hexW32(flat)+" "+hexW32(cd), true)
	n := len(c.vectors)
	for t := 0; t < 4 && t < n; t++ {
		x, y := 1+(t*5)%n, 1+(t*3+1)%n
		if t == 0 {
			y = x
		}
		q := c.queries[t%len(c.queries)]
		cx, cy := fp.Codes(uint64(x)), fp.Codes(uint64(y))
		line := fmt.Sprintf("pqg %s %d %d %d %s %s %s %s %s", tag, c.ns, c.k, c.l, hexW32(flat), hexW32(cd), hexW32(q), hexU8(cx), hexU8(cy))
		o.Emit("pqg-"+settled, line, f32hexN(fp.FromFloat(q, uint64(y)))+" "+f32hexN(fp.FromPoint(uint64(x), uint64(y))), true)
	}
}

// ------------------------------------------------------------------------------------------ binary quantiser through Fit

type bqCase struct {
	metric  string
	dim     int
	preset  *float32 // threshold given to the constructor (spread over the vector length; Fit does nothing)
	trigger int      // 0 = the number of vectors (Fit trains); more: the quantiser stays untrained (float distance on the raw vectors)
	vectors [][]float32
	late    [][]float32
}

func (c *bqCase) line() string {
	var a, b []float32
	for _, v := range c.vectors {
		a = append(a, v...)
	}
	for _, v := range c.late {
		b = append(b, v...)
	}
	preset := "-"
	if c.preset != nil {
		preset = f32hex(*c.preset)
	}
	return fmt.Sprintf("bqfit %s %d %d %d %s %d %s %s", c.metric, c.dim, len(c.vectors), len(c.late), preset, c.trigger, hexW32(a), hexW32(b))
}

func fitBinary(c *bqCase) (fb *vectorstore.VerifFittedBinary, err error) {
	defer func() {
		if r := recover(); r != nil {
			fb, err = nil, fmt.Errorf("panic: %v", r)
		}
	}()
	trigger := c.trigger
	if trigger == 0 {
		trigger = len(c.vectors)
	}
	return vectorstore.VerifBinaryStore(c.metric, "euclidean", c.preset, trigger, c.dim, copyVecs(c.vectors))
}

func wordsOfBits(b []bool) []uint64 {
	w := make([]uint64, (len(b)+63)/64)
	for i, s := range b {
		if s {
			w[i/64] |= 1 << (uint(i) % 64)
		}
	}
	return w
}

func judgeBinary(c *bqCase, fb *vectorstore.VerifFittedBinary) (fails []fitFailure) {
	seen := map[string]bool{}
	fail := func(sig, what string) {
		if !seen[sig] {
			seen[sig] = true
			fails = append(fails, fitFailure{sig, what})
		}
	}
	defer func() {
		if r := recover(); r != nil {
			fail("bq-fit-panic:"+c.metric, fmt.Sprint("the fitted quantiser panics: ", r))
		}
	}()
	thr := fb.Threshold()
	all := append(copyVecs(c.vectors), c.late...)
	n := len(c.vectors)
	if c.preset == nil && c.trigger > n && thr == nil {
		// untrained: both closures are the float distance of the raw vectors
		for x := 1; x <= n; x++ {
			y := 1 + (x*7+3)%n
			want, sumAbs, _ := refL2(all[x-1], all[y-1])
			gp, gf := fb.FromPoint(uint64(x), uint64(y)), fb.FromFloat(all[x-1], uint64(y))
			if !(math.Abs(float64(gp)-want) <= tol(c.dim, 3, sumAbs)) || !(math.Abs(float64(gf)-want) <= tol(c.dim, 3, sumAbs)) {
				fail("bq-untrained-float:"+c.metric, fmt.Sprintf("untrained binary quantiser: closures give %v / %v for points %d, %d, euclidean distance of the raw vectors = %v", gf, gp, x, y, want))
			}
		}
		return
	}
	if c.preset != nil {
		// the definition is the vector thresholded by the GIVEN value, whatever the constructor made of it
		thr = make([]float32, c.dim)
		for i := range thr {
			thr[i] = *c.preset
		}
	}
	if len(thr) != c.dim {
		fail("bq-fit-threshold-len:"+c.metric, fmt.Sprintf("Fit() with %d points of dimension %d at the trigger threshold left a threshold of length %d", len(c.vectors), c.dim, len(thr)))
		return
	}
	for t, v := range c.late {
		if err := fb.Set(uint64(n+1+t), append([]float32(nil), v...)); err != nil {
			fail("bq-set-error:"+c.metric, err.Error())
			return
		}
	}
	bits := make([][]bool, len(all)+1)
	for id := 1; id <= len(all); id++ {
		bits[id] = bitsOf(thr, all[id-1])
		want, got := wordsOfBits(bits[id]), fb.BinaryVector(uint64(id))
		if hexW64(want) != hexW64(got) {
			kind := "fitted"
			if id > n {
				kind = "late"
			}
			fail(fmt.Sprintf("bq-fit-encoding:%s:n=%d", kind, c.dim), fmt.Sprintf("point %d: stored encoding %s after Fit, thresholded bit vector under the fitted threshold (padding 0) is %s", id, hexW64(got), hexW64(want)))
		}
	}
	def := func(x, y []bool) float32 {
		diff, inter, union := 0, 0, 0
		for i := range x {
			if x[i] != y[i] {
				diff++
			}
			if x[i] && y[i] {
				inter++
			}
			if x[i] || y[i] {
				union++
			}
		}
		if c.metric == "hamming" {
			return float32(diff)
		}
		if union == 0 {
			return 0
		}
		return 1 - float32(inter)/float32(union)
	}
	total := len(all)
	for x := 1; x <= total; x++ {
		for _, y := range []int{x, 1 + (x*7+3)%total, 1 + (x*13+5)%total} {
			want := def(bits[x], bits[y])
			gp, gr, gf := fb.FromPoint(uint64(x), uint64(y)), fb.FromPoint(uint64(y), uint64(x)), fb.FromFloat(all[x-1], uint64(y))
			if math.Float32bits(gp) != math.Float32bits(want) {
				fail(fmt.Sprintf("bq-fit-from-point:%s:n=%d", c.metric, c.dim), fmt.Sprintf("DistanceFromPoint(%d)(%d) = %v after Fit, %s of the vectors thresholded by the fitted threshold = %v", x, y, gp, c.metric, want))
			}
			if math.Float32bits(gf) != math.Float32bits(want) {
				fail(fmt.Sprintf("bq-fit-from-float:%s:n=%d", c.metric, c.dim), fmt.Sprintf("DistanceFromFloat(vector of %d)(%d) = %v after Fit, %s of the vectors thresholded by the fitted threshold = %v", x, y, gf, c.metric, want))
			}
			if math.Float32bits(gp) != math.Float32bits(gr) {
				fail("bq-fit-symmetry:"+c.metric, fmt.Sprintf("DistanceFromPoint(%d)(%d) = %v but (%d)(%d) = %v", x, y, gp, y, x, gr))
			}
		}
	}
	return fails
}

// ------------------------------------------------------------------------------------------ the section of a run

func fitSection(rng *vh.Rng, o *vh.Out, full bool) {
	report := func(fails []fitFailure, line string) {
		for _, f := range fails {
			o.Fail(f.sig, f.what, line)
		}
	}
	runCase := func(c *fitCase) {
		for _, pure := range []bool{false, true} {
			cc := *c
			cc.pure = pure
			fp, err := fitProduct(&cc)
			o.Stats["pq-fit-"+settledMetric(c.metric)]++
			if err != nil {
				o.Fail("pq-fit-error:"+c.metric, "constructor / Set / Fit of the product quantiser failed: "+err.Error(), cc.line())
				continue
			}
			report(judgeProduct(&cc, fp), cc.line())
			if emitLines {
				emitFitted(o, &cc, fp)
			}
		}
	}
	for _, c := range fitCorpus() {
		runCase(c)
	}
	nfit := 10
	if full {
		nfit = 60
	}
	for i := 0; i < nfit; i++ {
		for _, m := range []string{"euclidean", "dot", "cosine"} {
			if m == "cosine" && i%3 != 0 {
				continue
			}
			c := genFitCase(rng, m, i, full)
			if i%5 == 4 {
				c.trigger = len(c.vectors) + 1 + rng.Intn(5) // stays untrained
			}
			runCase(c)
		}
	}
	if emitLines {
		encodeLines(rng, o, full)
	}
	// binary quantiser
	dims := []int{1, 2, 3, 31, 63, 64, 65, 100, 127, 128, 129, 200}
	if full {
		dims = append(dims, 255, 256, 257, 511, 512, 513, 1000, 1536, 4095, 4096)
	}
	for i, dim := range dims {
		c := &bqCase{metric: []string{"hamming", "jaccard"}[(i+i/4)%2], dim: dim}
		n := 2 + rng.Intn(40)
		c.vectors = genData(rng, []int{gUnit, gBlobs, gMixed, gFewDistinct}[(i/2)%4], n, dim, 1+rng.Intn(4))
		c.late = genData(rng, gUnit, 3, dim, 2)
		switch i % 4 {
		case 1: // threshold given to the constructor
			t := []float32{0.5, 0, -0.25, 3}[rng.Intn(4)]
			c.preset = &t
		case 3: // below the trigger threshold
			c.trigger = n + 1 + rng.Intn(3)
			c.late = nil
		}
		if i%3 == 0 && len(c.late) > 0 {
			c.late[0] = make([]float32, dim) // all zero
		}
		fb, err := fitBinary(c)
		o.Stats["bq-fit"]++
		if err != nil {
			o.Fail("bq-fit-error:"+c.metric, "constructor / Set / Fit of the binary quantiser failed: "+err.Error(), c.line())
			continue
		}
		judgeFails := judgeBinary(c, fb)
		report(judgeFails, c.line())
		if emitLines && len(fb.Threshold()) == dim && len(judgeFails) == 0 {
			thr := fb.Threshold()
			for t := 0; t < 3; t++ {
				x, y := 1+(t*5)%n, 1+(t*3+1)%n
				ex, ey := fb.BinaryVector(uint64(x)), fb.BinaryVector(uint64(y))
				ff, fpd := fb.FromFloat(c.vectors[x-1], uint64(y)), fb.FromPoint(uint64(x), uint64(y))
				ans := fmt.Sprintf("%s %s %s", hexW64(ex), hexW64(ey), f32hex(ff))
				if math.Float32bits(ff) != math.Float32bits(fpd) {
					ans = fmt.Sprintf("%s %s closures-differ:%s/%s", hexW64(ex), hexW64(ey), f32hex(ff), f32hex(fpd))
				}
				o.Emit("bq-fitted-"+c.metric, "bq "+c.metric+" "+hexW32(thr)+" "+hexW32(c.vectors[x-1])+" "+hexW32(c.vectors[y-1]), ans, true)
			}
		}
	}
}

// ------------------------------------------------------------------------------------------ replay of the data lines

func splitVecs(flat []float32, n, dim int) ([][]float32, []float32) {
	out := make([][]float32, n)
	for i := range out {
		out[i] = flat[i*dim : (i+1)*dim]
	}
	return out, flat[n*dim:]
}

func summary(fails []fitFailure) string {
	if len(fails) == 0 {
		return "fitted again: every table entry and every distance agrees with the definition"
	}
	var parts []string
	for _, f := range fails {
		parts = append(parts, f.sig+" :: "+f.what)
	}
	return "fitted again: " + strings.Join(parts, " || ")
}

func replayPqfit(f []string, w32 func(i int) []float32) string {
	ns, _ := strconv.Atoi(f[2])
	k, _ := strconv.Atoi(f[3])
	l, _ := strconv.Atoi(f[4])
	n, _ := strconv.Atoi(f[6])
	nl, _ := strconv.Atoi(f[7])
	trigger, _ := strconv.Atoi(f[8])
	c := &fitCase{metric: f[1], ns: ns, k: k, l: l, pure: f[5] == "pure", trigger: trigger}
	dim := ns * l
	c.vectors, _ = splitVecs(w32(9), n, dim)
	c.late, _ = splitVecs(w32(10), nl, dim)
	q := w32(11)
	c.queries, _ = splitVecs(q, len(q)/dim, dim)
	fp, err := fitProduct(c)
	if err != nil {
		return "fit failed: " + err.Error()
	}
	return summary(judgeProduct(c, fp))
}

func replayBqfit(f []string, w32 func(i int) []float32) string {
	dim, _ := strconv.Atoi(f[2])
	n, _ := strconv.Atoi(f[3])
	nl, _ := strconv.Atoi(f[4])
	c := &bqCase{metric: f[1], dim: dim}
	if f[5] != "-" {
		t := w32(5)[0]
		c.preset = &t
	}
	c.trigger, _ = strconv.Atoi(f[6])
	c.vectors, _ = splitVecs(w32(7), n, dim)
	c.late, _ = splitVecs(w32(8), nl, dim)
	fb, err := fitBinary(c)
	if err != nil {
		return "fit failed: " + err.Error()
	}
	return summary(judgeBinary(c, fb))
}
