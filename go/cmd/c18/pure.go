// In-process op lines: the pieces of the model that can be compared with the library / repository
// functions directly (no HTTP): uuid.Parse, CheckCompatibleMap + ExtractIdField + marshalled size,
// msgpack Decoder.Query, and the number of points a paged single-shard search returns.
package main

import (
	"bytes"
	"encoding/json"
	"fmt"
	"math"
	"strconv"
	"strings"

	"github.com/google/uuid"
	"github.com/semafind/semadb/models"
	"github.com/vmihailenco/msgpack/v5"
	"verifharness/vh"
)

func decodeAny(ctype string, raw []byte) (any, bool) {
	var v any
	if ctype == "application/json" {
		if err := json.NewDecoder(bytes.NewReader(raw)).Decode(&v); err != nil {
			return nil, false
		}
		return v, true
	}
	if err := msgpack.NewDecoder(bytes.NewReader(raw)).Skip(); err != nil {
		return nil, false
	}
	dec := msgpack.NewDecoder(bytes.NewReader(raw))
	if err := dec.Decode(&v); err != nil {
		return nil, false
	}
	return v, true
}

func schemaOf(cs colSpec) models.IndexSchema {
	var req struct {
		IndexSchema models.IndexSchema `json:"indexSchema"`
	}
	if cs.v1 {
		return models.IndexSchema{"vector": {Type: "vectorVamana", VectorVamana: &models.IndexVectorVamanaParameters{VectorSize: uint(cs.props[0].dim), DistanceMetric: cs.props[0].metric, SearchSize: 75, DegreeBound: 64, Alpha: 1.2}}}
	}
	if err := json.Unmarshal(cs.createBody().JSON(), &req); err != nil {
		panic(err)
	}
	return req.IndexSchema
}

func (rn *runner) pureOps() {
	g, o := rn.g, rn.o
	// ---- uuid.Parse
	pool := append([]string{}, strPool...)
	for i := 0; i < 40; i++ {
		u := g.uuid()
		b := []byte(u)
		switch g.r.Intn(6) {
		case 0:
			b[g.r.Intn(len(b))] = byte(vh.Pick(g.r, []rune{'g', '-', 'G', ' ', '0', 'F'}))
		case 1:
			b = b[:len(b)-1]
		case 2:
			b = append([]byte("urn:uuid:"), b...)
		case 3:
			b = append(append([]byte("{"), b...), '}')
		case 4:
			b = []byte(strings.ReplaceAll(u, "-", ""))
		}
		pool = append(pool, string(b))
	}
	for _, s := range pool {
		_, err := uuid.Parse(s)
		o.Emit("uuid", "uuid "+strTok(s), vh.B01(err == nil), true)
	}
	// ---- CheckCompatibleMap + ExtractIdField + size, and Query on the result
	paths := []string{"", ".", "a.", ".a", "a..b", "vec", "vec.0", "vec.*", "vec.1", "vec.-1", "vec.+1", "vec.01", "vec.x", "vec.99", "tags.1", "tags.*", "extra.l.0", "extra.l.*", "extra.l.*.x", "extra.n", "extra", "meta.kind", "meta", "geo.loc", "geo.loc.1", "nosuch", "note", "note.x", "_id", "size", "price.0", "vec.9223372036854775808", "vec.-0"}
	for ci := range baseCols {
		cs := baseCols[ci]
		schema := schemaOf(cs)
		schemaT := schemaTokens(schema)
		for k := 0; k < 60; k++ {
			pt := g.point(&cs, g.r.Chance(70))
			if cs.v1 {
				pt = Obj("vector", g.vec(cs.props[0].dim), "metadata", g.anyValue())
			}
			kind := ""
			if g.r.Chance(70) {
				kind, _, _, _ = g.mutate(pt)
			}
			ctype := "application/json"
			raw := pt.JSON()
			if g.r.Chance(40) {
				ctype, raw = "application/msgpack", pt.Msgpack()
			}
			v, ok := decodeAny(ctype, raw)
			m, isMap := v.(map[string]any)
			if !ok || !isMap {
				continue
			}
			ptT, exotic := canonDyn(m)
			if exotic != "" {
				continue
			}
			impl := "err"
			pm := models.PointAsMap(m)
			func() {
				defer func() {
					if r := recover(); r != nil {
						impl = "panic"
						o.Fail("panic:CheckCompatibleMap", fmt.Sprint("CheckCompatibleMap / ExtractIdField panics: ", r), "size "+schemaT+" ; "+ptT)
					}
				}()
				if err := schema.CheckCompatibleMap(pm); err != nil {
					return
				}
				if _, err := pm.ExtractIdField(true); err != nil {
					return
				}
				data, err := msgpack.Marshal(pm)
				if err != nil {
					return
				}
				impl = strconv.Itoa(len(data))
				// Query on the stored bytes, as the shard does
				for q := 0; q < 3; q++ {
					path := vh.Pick(g.r, paths)
					if g.r.Chance(40) && len(cs.props) > 0 {
						path = vh.Pick(g.r, cs.props).path
					}
					after, ex2 := canonDyn(map[string]any(pm))
					if ex2 != "" {
						continue
					}
					dec := msgpack.NewDecoder(bytes.NewReader(data))
					res, err := dec.Query(path)
					ans := ""
					switch {
					case err != nil:
						ans = "err"
					case len(res) == 0:
						ans = "none"
					default:
						var ex3 string
						ans, ex3 = canonDyn(res[0])
						if ex3 != "" {
							continue
						}
					}
					o.Emit("qry", "qry "+strTok(path)+" ; "+after, ans, true)
				}
			}()
			o.Emit("size:"+strings.SplitN(kind+"-", "-", 2)[0], "size "+schemaT+" ; "+ptT, impl, true)
		}
	}
}

// pagingProbe: how many points a paged single-shard search returns (collection bob/tiny: one shard),
// offsets up to MaxInt64
func (rn *runner) pagingProbe() {
	o := rn.o
	ci := rn.w.cols["bob"]["tiny"]
	if ci != nil && len(ci.Shards) == 1 && len(ci.Points) > 0 {
		var ids []string
		for id := range ci.Points {
			ids = append(ids, id)
		}
		vals := &N{K: 'a'}
		for _, x := range ids {
			vals.A = append(vals.A, Str(x))
		}
		offs := []int64{0, 1, 2, 3, 5, 100, math.MaxInt32, 1 << 40, math.MaxInt64 - 100, math.MaxInt64 - 99, math.MaxInt64 - 1, math.MaxInt64}
		for _, off := range offs {
			for _, lim := range []int64{1, 2, 3, 74, 75, 76, 99, 100} {
				q := Obj("query", Obj("property", Str("_id"), "stringArray", Obj("value", vals, "operator", Str("containsAny"))), "limit", Int(lim), "offset", Int(off))
				req := request{"bob", "TINY", "POST", "/v2/collections/tiny/points/search", "application/json", q.JSON()}
				resp := rn.w.c.do(req)
				rn.judged++
				if resp.err != nil || resp.status != 200 {
					time0 := resp.status
					if resp.err != nil && !rn.w.c.alive() {
						rn.deaths++
						rn.fail("process-death:v2Search:"+deathSig(rn.w.c.log.String()), fmt.Sprintf("the server process died on a search with offset=%d limit=%d: %s", off, lim, lastLines(rn.w.c.log.String(), 3)), rn.replayFor("bob/tiny", req, ""))
						rn.restart()
						return
					}
					if time0 >= 500 {
						rn.fail(fmt.Sprintf("5xx:v2Search:%d:paging", time0), fmt.Sprintf("search with offset=%d limit=%d answered %d", off, lim, resp.status), rn.replayFor("bob/tiny", req, ""))
					}
					continue
				}
				var sr struct {
					Points []map[string]any `json:"points"`
				}
				json.Unmarshal(resp.body, &sr)
				shardLim := min(lim, int64(maxSearchLimit)) // ClusterNode.SearchPoints: one shard -> min(limit, MaxSearchLimit)
				o.Emit("pagecount", fmt.Sprintf("pagecount %d %d %d", off, shardLim, len(ids)), strconv.Itoa(len(sr.Points)), true)
			}
		}
	}
}
