// Child process of the C18 harness: a REAL semadb node (cluster node + the production HTTP router
// httpapi.setupRouter, i.e. the same mux and middleware chain `main.go` serves) on a local port. It is a separate process because the property is about the process surviving: a panic
// outside every recover kills it, and the parent records that as an oracle failure.
package main

import (
	"fmt"
	"net"
	"net/http"
	"os"
	"time"

	"github.com/rs/zerolog"
	"github.com/semafind/semadb/cluster"
	"github.com/semafind/semadb/httpapi"
	"github.com/semafind/semadb/models"
)

// plans the child serves; the parent's model context uses the same numbers
var userPlans = map[string]models.UserPlan{
	"BASIC": {Name: "BASIC", MaxCollections: 7, MaxCollectionPointCount: 60, MaxPointSize: 1024, ShardBackupFrequency: 3600, ShardBackupCount: 2},
	"TINY":  {Name: "TINY", MaxCollections: 1, MaxCollectionPointCount: 3, MaxPointSize: 96, ShardBackupFrequency: 3600, ShardBackupCount: 2},
	"BIG":   {Name: "BIG", MaxCollections: 2, MaxCollectionPointCount: 12, MaxPointSize: 42000, ShardBackupFrequency: 3600, ShardBackupCount: 2},
}

const maxShardPointCount = 8 // small: collections spread over several shards (per-shard goroutines, offset arithmetic)
const maxSearchLimit = 75    // config/singleServer.yaml

func serveMain(dir string) {
	zerolog.SetGlobalLevel(zerolog.Disabled)
	if os.Getenv("C18_SERVER_LOG") != "" {
		zerolog.SetGlobalLevel(zerolog.DebugLevel)
	}
	// The listener is opened on an ephemeral port chosen by the kernel and stays open: no port is
	// derived from the seed and there is no window in which another process could take it.
	l, err := net.Listen("tcp", "127.0.0.1:0")
	if err != nil {
		fmt.Println("ERR", err)
		os.Exit(3)
	}
	port := l.Addr().(*net.TCPAddr).Port
	cnode, err := cluster.NewNode(cluster.ClusterNodeConfig{
		RootDir: dir,
		Servers: []string{"localhost:9898"},
		RpcHost: "localhost", RpcPort: 9898, RpcTimeout: 30, RpcRetries: 1, // never listened on: every RPC is local
		MaxShardSize: 2147483648, MaxShardPointCount: maxShardPointCount, MaxSearchLimit: maxSearchLimit,
		ShardManager: cluster.ShardManagerConfig{RootDir: dir, ShardTimeout: 300, MaxCacheSize: 1073741824},
	})
	if err != nil {
		fmt.Println("ERR", err)
		os.Exit(3)
	}
	// httpapi.VerifSetupRouter (tagged hook) is httpapi.setupRouter: the mux and middleware chain
	// RunHTTPServer serves in production, Recover outermost
	srv := &http.Server{Handler: httpapi.VerifSetupRouter(cnode, httpapi.HttpApiConfig{HttpHost: "127.0.0.1", HttpPort: port, WhiteListIPs: []string{"*"}, UserPlans: userPlans})}
	go func() {
		if err := srv.Serve(l); err != nil && err != http.ErrServerClosed {
			fmt.Println("ERR", err)
			os.Exit(3)
		}
	}()
	fmt.Printf("PORT %d\n", port)
	os.Stdout.Sync()
	// die with the parent: stdin is a pipe held by the parent
	buf := make([]byte, 1)
	for {
		if _, err := os.Stdin.Read(buf); err != nil {
			os.Exit(0)
		}
		time.Sleep(time.Millisecond)
	}
}
