// Deterministic probes added in round 4 (all through judge / the model like every other request; the expected
// status is the Lean model's):
//
//	enumSweep   every enum-typed field of every request type, one at a time: omitted, "", null, other letter
//	            case, a value of a neighbouring enum, a number
//	followUp    a collection that a sweep probe got ACCEPTED must be usable: one valid insert, one valid search
//	            per ranking index (an accepted schema that no index can be built from shows here as a 5xx / a death
//	            / a hang of a VALID request, with the create request in the replay)
//	depthSweep  a well-formed, a wrong-length-vector, an unindexed-property and an over-limit leaf at the bottom of chains of 31 ..
//	            40 levels through each of the five recursion sites of a query, and through all five in turn
package main

import (
	"fmt"
	"strings"
)

// ---------------------------------------------------------------------------- query building blocks (collection alice/base1)

type qb struct{ g *gen }

func (b qb) good() *N {
	return Obj("property", Str("size"), "integer", Obj("value", Int(5), "operator", Str("greaterThan")))
}

func (b qb) flatLeaf(l int, filter *N) *N {
	o := Obj("vector", b.g.vec(l), "operator", Str("near"), "limit", Int(10))
	if filter != nil {
		o.Set("filter", filter)
	}
	return Obj("property", Str("flat"), "vectorFlat", o)
}

func (b qb) vamLeaf(l int, filter *N) *N {
	o := Obj("vector", b.g.vec(l), "operator", Str("near"), "searchSize", Int(75), "limit", Int(10))
	if filter != nil {
		o.Set("filter", filter)
	}
	return Obj("property", Str("vec"), "vectorVamana", o)
}

func (b qb) textLeaf(filter *N) *N {
	o := Obj("value", Str("alpha beta"), "operator", Str("containsAny"), "limit", Int(10))
	if filter != nil {
		o.Set("filter", filter)
	}
	return Obj("property", Str("txt"), "text", o)
}

// the five recursion sites of a query: Query.Validate, Query.ValidateSchema and indexManager.Search each
// descend through exactly these
var nestSites = []string{"and", "or", "flat-filter", "vamana-filter", "text-filter"}

func (b qb) wrap(site string, x *N) *N {
	switch site {
	case "and":
		return Obj("property", Str("_and"), "_and", Arr(b.good(), x))
	case "or":
		return Obj("property", Str("_or"), "_or", Arr(x, b.good()))
	case "flat-filter":
		return b.flatLeaf(3, x)
	case "vamana-filter":
		return b.vamLeaf(4, x)
	case "text-filter":
		return b.textLeaf(x)
	}
	return x
}

// ---------------------------------------------------------------------------- enum-typed fields

func firstUpper(s string) string {
	if s == "" {
		return s
	}
	return strings.ToUpper(s[:1]) + s[1:]
}

type enumVariant struct {
	name  string
	apply func(holder *N, key, valid, neighbour string)
}

var enumVariants = []enumVariant{
	{"omitted", func(h *N, k, v, nb string) { h.Del(k) }},
	{"empty", func(h *N, k, v, nb string) { h.Set(k, Str("")) }},
	{"null", func(h *N, k, v, nb string) { h.Set(k, Null()) }},
	{"case", func(h *N, k, v, nb string) { h.Set(k, Str(firstUpper(v))) }},
	{"upper", func(h *N, k, v, nb string) { h.Set(k, Str(strings.ToUpper(v))) }},
	{"neighbour", func(h *N, k, v, nb string) { h.Set(k, Str(nb)) }},
	{"padded", func(h *N, k, v, nb string) { h.Set(k, Str(v+" ")) }},
	{"number", func(h *N, k, v, nb string) { h.Set(k, Int(1)) }},
	{"valid", func(h *N, k, v, nb string) {}}, // the control: the unchanged request is accepted
}

// one enum-typed field: mk builds a valid request body and hands back the object that carries the field
type enumSite struct {
	name             string
	mk               func() (body, holder *N)
	key              string
	valid, neighbour string
}

func (rn *runner) enumSweep() {
	g := rn.g
	b := qb{g}
	k := 0
	mp := func() bool { k++; return k%2 == 0 }
	flatP := func() *N { return Obj("vectorSize", Int(4), "distanceMetric", Str("euclidean")) }
	vamP := func() *N {
		return Obj("vectorSize", Int(4), "distanceMetric", Str("cosine"), "searchSize", Int(75), "degreeBound", Int(64), "alpha", Flt32(1.2))
	}
	binP := func() *N {
		return Obj("threshold", Flt32(0.5), "triggerThreshold", Int(0), "distanceMetric", Str("hamming"))
	}
	prodP := func() *N {
		return Obj("numCentroids", Int(16), "numSubVectors", Int(2), "triggerThreshold", Int(1000))
	}
	col := func(entry *N) *N { return Obj("id", Str("enumcol"), "indexSchema", Obj("p", entry)) }
	// ---- create collection (user dave owns nothing; every accepted create is followed up and deleted again)
	quant := func(onVamana bool, q func() *N) func() (*N, *N) {
		return func() (*N, *N) {
			h := q()
			if onVamana {
				p := vamP()
				p.Set("quantizer", h)
				return col(Obj("type", Str("vectorVamana"), "vectorVamana", p)), h
			}
			p := flatP()
			p.Set("quantizer", h)
			return col(Obj("type", Str("vectorFlat"), "vectorFlat", p)), h
		}
	}
	creates := []enumSite{
		{"index.type.vectorFlat", func() (*N, *N) { e := Obj("type", Str("vectorFlat"), "vectorFlat", flatP()); return col(e), e }, "type", "vectorFlat", "none"},
		{"index.type.vectorVamana", func() (*N, *N) { e := Obj("type", Str("vectorVamana"), "vectorVamana", vamP()); return col(e), e }, "type", "vectorVamana", "near"},
		{"index.type.text", func() (*N, *N) {
			e := Obj("type", Str("text"), "text", Obj("analyser", Str("standard")))
			return col(e), e
		}, "type", "text", "standard"},
		{"index.type.string", func() (*N, *N) {
			e := Obj("type", Str("string"), "string", Obj("caseSensitive", Bool(false)))
			return col(e), e
		}, "type", "string", "containsAny"},
		{"index.type.stringArray", func() (*N, *N) {
			e := Obj("type", Str("stringArray"), "stringArray", Obj("caseSensitive", Bool(true)))
			return col(e), e
		}, "type", "stringArray", "binary"},
		{"index.type.integer", func() (*N, *N) { e := Obj("type", Str("integer")); return col(e), e }, "type", "integer", "equals"},
		{"index.type.float", func() (*N, *N) { e := Obj("type", Str("float")); return col(e), e }, "type", "float", "dot"},
		{"flat.distanceMetric", func() (*N, *N) { p := flatP(); return col(Obj("type", Str("vectorFlat"), "vectorFlat", p)), p }, "distanceMetric", "euclidean", "standard"},
		{"vamana.distanceMetric", func() (*N, *N) { p := vamP(); return col(Obj("type", Str("vectorVamana"), "vectorVamana", p)), p }, "distanceMetric", "cosine", "near"},
		{"text.analyser", func() (*N, *N) {
			p := Obj("analyser", Str("standard"))
			return col(Obj("type", Str("text"), "text", p)), p
		}, "analyser", "standard", "near"},
		// quantizers: without parameters (omitted = `"quantizer": {}`), and with the parameters of a kind but no / another type
		{"flat.quantizer.type", quant(false, func() *N { return Obj("type", Str("none")) }), "type", "none", "hamming"},
		{"vamana.quantizer.type", quant(true, func() *N { return Obj("type", Str("none")) }), "type", "none", "vectorFlat"},
		{"flat.quantizer.binary.type", quant(false, func() *N { return Obj("type", Str("binary"), "binary", binP()) }), "type", "binary", "product"},
		{"vamana.quantizer.binary.type", quant(true, func() *N { return Obj("type", Str("binary"), "binary", binP()) }), "type", "binary", "hamming"},
		{"flat.quantizer.product.type", quant(false, func() *N { return Obj("type", Str("product"), "product", prodP()) }), "type", "product", "binary"},
		{"vamana.quantizer.product.type", quant(true, func() *N { return Obj("type", Str("product"), "product", prodP()) }), "type", "product", "euclidean"},
		{"flat.quantizer.both.type", quant(false, func() *N { return Obj("type", Str("none"), "binary", binP(), "product", prodP()) }), "type", "none", "standard"},
		{"flat.quantizer.binary.distanceMetric", func() (*N, *N) {
			h := binP()
			p := flatP()
			p.Set("quantizer", Obj("type", Str("binary"), "binary", h))
			return col(Obj("type", Str("vectorFlat"), "vectorFlat", p)), h
		}, "distanceMetric", "hamming", "euclidean"},
		{"vamana.quantizer.binary.distanceMetric", func() (*N, *N) {
			h := binP()
			h.Set("distanceMetric", Str("jaccard"))
			p := vamP()
			p.Set("quantizer", Obj("type", Str("binary"), "binary", h))
			return col(Obj("type", Str("vectorVamana"), "vectorVamana", p)), h
		}, "distanceMetric", "jaccard", "cosine"},
	}
	for _, s := range creates {
		for _, v := range enumVariants {
			body, h := s.mk()
			v.apply(h, s.key, s.valid, s.neighbour)
			rn.sweepReq("v2Create", "v2", "dave", "BASIC", "POST", "", "", body, mp(), "enum."+s.name+"."+v.name)
		}
	}
	for _, v := range enumVariants {
		body := Obj("id", Str("enumv1"), "vectorSize", Int(4), "distanceMetric", Str("euclidean"))
		v.apply(body, "distanceMetric", "euclidean", "hamming") // a metric of the v2 schema that v1 does not take
		rn.sweepReq("v1Create", "v1", "dave", "BASIC", "POST", "", "", body, mp(), "enum.v1create.distanceMetric."+v.name)
	}
	// ---- the operator of all seven kinds of query options (and of the two `_id` forms), at top level and as a filter
	if rn.specs["alice/base1"] == nil {
		return
	}
	leaf := func(prop, kind string, o *N) func() (*N, *N) {
		return func() (*N, *N) { h := o.Clone(); return Obj("property", Str(prop), kind, h), h }
	}
	uid := g.uuid()
	searches := []enumSite{
		{"vectorFlat", leaf("flat", "vectorFlat", Obj("vector", g.vec(3), "operator", Str("near"), "limit", Int(10))), "operator", "near", "containsAny"},
		{"vectorVamana", leaf("vec", "vectorVamana", Obj("vector", g.vec(4), "operator", Str("near"), "searchSize", Int(75), "limit", Int(10))), "operator", "near", "like"},
		{"text", leaf("txt", "text", Obj("value", Str("alpha beta"), "operator", Str("containsAny"), "limit", Int(10))), "operator", "containsAny", "near"},
		{"string", leaf("cat", "string", Obj("value", Str("alpha"), "operator", Str("equals"))), "operator", "equals", "containsAny"},
		{"integer", leaf("size", "integer", Obj("value", Int(5), "operator", Str("greaterThan"))), "operator", "greaterThan", "startsWith"},
		{"float", leaf("price", "float", Obj("value", Flt(5.5), "operator", Str("lessThan"))), "operator", "lessThan", "startsWith"},
		{"stringArray", leaf("tags", "stringArray", Obj("value", Arr(Str("alpha"), Str("red")), "operator", Str("containsAll"))), "operator", "containsAll", "equals"},
		{"_id.string", leaf("_id", "string", Obj("value", Str(uid), "operator", Str("equals"))), "operator", "equals", "notEquals"},
		{"_id.stringArray", leaf("_id", "stringArray", Obj("value", Arr(Str(uid)), "operator", Str("containsAny"))), "operator", "containsAny", "containsAll"},
	}
	for _, place := range []string{"top", "flat-filter", "or"} {
		for _, s := range searches {
			for vi, v := range enumVariants {
				if place != "top" && vi > 5 {
					continue // below the top level: omitted, "", null, other case, neighbouring enum
				}
				q, h := s.mk()
				v.apply(h, s.key, s.valid, s.neighbour)
				if place != "top" {
					q = b.wrap(place, q)
				}
				rn.sweepReq("v2Search", "v2", "alice", "BASIC", "POST", "base1", "/points/search", Obj("query", q, "limit", Int(10)), mp(), "enum.operator."+place+"."+s.name+"."+v.name)
			}
		}
	}
}

// ---------------------------------------------------------------------------- deep chains

func (rn *runner) depthSweep() {
	if rn.specs["alice/base1"] == nil {
		return
	}
	b := qb{rn.g}
	leaves := []struct {
		name string
		mk   func() *N
	}{
		{"ok", func() *N { return b.flatLeaf(3, b.good()) }},
		{"vector-len", func() *N { return b.flatLeaf(2, b.good()) }},
		{"unindexed", func() *N {
			return Obj("property", Str("note"), "string", Obj("value", Str("x"), "operator", Str("equals")))
		}},
		// refused by Query.Validate (the schema-independent pass recurses through the same five sites)
		{"leaf-limit", func() *N {
			q := b.flatLeaf(3, nil)
			q.Get("vectorFlat").Set("limit", Int(76))
			return q
		}},
	}
	k := 0
	for _, site := range append(append([]string{}, nestSites...), "all-five") {
		for _, n := range []int{31, 32, 33, 34, 40} {
			for _, lf := range leaves {
				k++
				q := lf.mk()
				for i := 0; i < n; i++ {
					s := site
					if site == "all-five" {
						s = nestSites[(n-1-i)%len(nestSites)] // the outermost level is an `_and`
					}
					q = b.wrap(s, q)
				}
				rn.sweepReq("v2Search", "v2", "alice", "BASIC", "POST", "base1", "/points/search", Obj("query", q, "limit", Int(10)), k%3 == 0, fmt.Sprintf("depth.%s.%d.%s", site, n, lf.name))
			}
		}
	}
}

// ---------------------------------------------------------------------------- an accepted collection must be usable

// a point that fills EVERY indexed property of the collection
func (g *gen) fullPoint(c *colSpec) *N {
	pt := Obj("_id", Str(g.uuid()))
	for _, p := range c.props {
		setPath(pt, p.path, g.propValue(p))
	}
	return pt
}

// followUp: the collection `id` of `user` has just been created by a probe that the server ACCEPTED. One valid
// insert and one valid search per ranking index (flat, vamana, text), through judge and the model like any other
// request: a 5xx, a death or a hang there is an oracle failure whose replay starts with the create request.
func (rn *runner) followUp(user, plan, id, createLine string) {
	if rn.abort {
		return
	}
	key := user + "/" + id
	rn.followUps++
	rn.w.hist[key] = []string{createLine}
	delete(rn.w.rejected, key)
	gen0 := rn.restarts
	if !rn.refresh() {
		return
	}
	ci := rn.w.cols[user][id]
	if ci == nil {
		return
	}
	spec := specFromSchema(user, plan, id, ci.Schema)
	var ranking []prop
	for _, p := range spec.props {
		if ((p.kind == "vectorFlat" || p.kind == "vectorVamana") && p.dim > 0) || p.kind == "text" {
			ranking = append(ranking, p)
		}
	}
	if len(spec.props) > 0 {
		rn.modelledReq("v2Insert", "v2", user, plan, "POST", id, "/points", Obj("points", Arr(rn.g.fullPoint(spec))), rn.followUps%2 == 0, "follow-up:insert", false)
		if rn.restarts != gen0 || rn.abort {
			return
		}
		rn.refresh()
	}
	for i, p := range ranking {
		var q *N
		switch p.kind {
		case "vectorFlat":
			q = Obj("property", Str(p.path), "vectorFlat", Obj("vector", rn.g.propValue(p), "operator", Str("near"), "limit", Int(5)))
		case "vectorVamana":
			q = Obj("property", Str(p.path), "vectorVamana", Obj("vector", rn.g.propValue(p), "operator", Str("near"), "searchSize", Int(75), "limit", Int(5)))
		default:
			q = Obj("property", Str(p.path), "text", Obj("value", Str(rn.g.word()+" "+rn.g.word()), "operator", Str("containsAny"), "limit", Int(5)))
		}
		rn.modelledReq("v2Search", "v2", user, plan, "POST", id, "/points/search", Obj("query", q, "limit", Int(5)), (rn.followUps+i)%2 == 1, "follow-up:search", false)
		if rn.restarts != gen0 || rn.abort {
			return
		}
	}
}
