// Deterministic boundary sweep: every documented numeric limit is probed at lo-1, lo, hi, hi+1 in an
// otherwise valid request, through the same judge / model comparison as the fuzzed requests. This
// is what makes an off-by-one in a Validate() show up as a concrete HTTP request.
package main

import (
	"strconv"
	"strings"
)

func (rn *runner) sweepReq(epName, api, user, plan, method, cid, suffix string, body *N, mp bool, tag string) int {
	return rn.modelledReq(epName, api, user, plan, method, cid, suffix, body, mp, "boundary:"+tag, true)
}

// modelledReq sends one request of known shape through judge with its `h` line for the model
func (rn *runner) modelledReq(epName, api, user, plan, method, cid, suffix string, body *N, mp bool, tag string, undo bool) int {
	return rn.modelledReqX(epName, api, user, plan, user, plan, method, cid, suffix, body, mp, tag, undo)
}

// modelledReqH: the context is that of (user, plan), the headers sent are (hUser, hPlan)
func (rn *runner) modelledReqH(epName, api, user, plan, hUser, hPlan, method, cid, suffix string, body *N, mp bool, tag string) int {
	return rn.modelledReqX(epName, api, user, plan, hUser, hPlan, method, cid, suffix, body, mp, tag, false)
}

func (rn *runner) modelledReqX(epName, api, user, plan, hUser, hPlan, method, cid, suffix string, body *N, mp bool, tag string, undo bool) int {
	if rn.abort {
		return -1
	}
	path := "/" + api + "/collections"
	if cid != "" {
		path += "/" + cid
	}
	path += suffix
	ctype := "application/json"
	var raw []byte
	if body != nil {
		raw = body.JSON()
		if mp {
			ctype, raw = "application/msgpack", body.Msgpack()
		}
	}
	req := request{hUser, hPlan, method, path, ctype, raw}
	if headersValid(hUser, hPlan) {
		user, plan = hUser, hPlan // the headers pass: the request is that user's, under that plan
	}
	key := user + "/" + cid
	ci := rn.w.cols[user][cid]
	tokens := "n"
	if body != nil {
		tokens, _ = decodeBody(epName, ctype, raw)
	}
	pn := planNums[plan]
	found, count, schemaT := 0, int64(0), "n"
	if ci != nil {
		found, count, schemaT = 1, ci.Count, schemaTokens(ci.Schema)
	}
	exists := 0
	if strings.HasSuffix(epName, "Create") {
		if id := createID(epName, ctype, raw); id != "" {
			if _, ok := rn.w.cols[user][id]; ok {
				exists = 1
			}
		}
	}
	hline := "h " + epName + " plan=" + itoa(pn[0]) + "," + itoa(pn[1]) + "," + itoa(pn[2]) + " ncols=" + itoa(len(rn.w.cols[user])) + " exists=" + itoa(exists) +
		" cid=" + itoa(len(cid)) + " found=" + itoa(found) + " count=" + itoa(int(count)) + hdrArgs(hUser, hPlan) + " ; " + schemaT + " ; " + tokens
	st := rn.judge(req, epName, ctype, tag, "", key, hline)
	if strings.HasSuffix(epName, "Search") {
		rn.checkReach(epName, ctype, raw, ci, st, key, req, hline)
	}
	if undo && st >= 200 && st < 300 && method != "GET" && !strings.HasSuffix(suffix, "/search") {
		// undo: the sweep must not drift the state
		switch {
		case strings.HasSuffix(epName, "Create"):
			id := createID(epName, ctype, raw)
			// what the server accepted must be usable: one valid insert, one valid search per ranking index
			rn.followUp(user, plan, id, req.line())
			rn.w.c.do(request{user, plan, "DELETE", "/v2/collections/" + id, "", nil})
			// the collection is gone again: its create request is no part of the history of later creates
			if h := rn.w.hist[key]; len(h) > 0 && h[len(h)-1] == req.line() {
				rn.w.hist[key] = h[:len(h)-1]
			}
			delete(rn.w.hist, user+"/"+id)
			delete(rn.w.rejected, user+"/"+id)
		case strings.HasSuffix(epName, "Insert"):
			var idl []*N
			for _, id := range idsOf(epName, ctype, raw) {
				idl = append(idl, Str(id))
			}
			if len(idl) > 0 && len(idl) <= 100 {
				d := request{user, plan, "DELETE", "/v2/collections/" + cid + "/points", "application/json", Obj("ids", Arr(idl...)).JSON()}
				if r := rn.w.c.do(d); r.status == 200 {
					rn.w.hist[key] = append(rn.w.hist[key], d.line())
				}
			}
		}
		rn.refresh()
	}
	return st
}

func itoa(i int) string { return strconv.Itoa(i) }

func intToStr(i int) string { return strconv.Itoa(i) }

func (rn *runner) boundarySweep() {
	g := rn.g
	ints := func(lo, hi int64) []int64 { return []int64{lo - 1, lo, hi, hi + 1} }
	// ---- create collection (user dave owns nothing; every accepted create is deleted again)
	vam := func(mod func(o *N)) *N {
		o := Obj("vectorSize", Int(4), "distanceMetric", Str("euclidean"), "searchSize", Int(75), "degreeBound", Int(64), "alpha", Flt32(1.2))
		mod(o)
		return Obj("id", Str("sweepcol"), "indexSchema", Obj("v", Obj("type", Str("vectorVamana"), "vectorVamana", o)))
	}
	flat := func(mod func(o *N)) *N {
		o := Obj("vectorSize", Int(4), "distanceMetric", Str("euclidean"))
		mod(o)
		return Obj("id", Str("sweepcol"), "indexSchema", Obj("v", Obj("type", Str("vectorFlat"), "vectorFlat", o)))
	}
	for _, mp := range []bool{false, true} {
		for _, l := range []int{2, 3, 24, 25} {
			b := flat(func(o *N) {})
			b.Set("id", Str(strings.Repeat("a", l)))
			rn.sweepReq("v2Create", "v2", "dave", "BASIC", "POST", "", "", b, mp, "create.id.len")
		}
		for _, v := range ints(1, 4096) {
			rn.sweepReq("v2Create", "v2", "dave", "BASIC", "POST", "", "", flat(func(o *N) { o.Set("vectorSize", Int(v)) }), mp, "flat.vectorSize")
			rn.sweepReq("v2Create", "v2", "dave", "BASIC", "POST", "", "", vam(func(o *N) { o.Set("vectorSize", Int(v)) }), mp, "vamana.vectorSize")
		}
		for _, v := range ints(25, 75) {
			rn.sweepReq("v2Create", "v2", "dave", "BASIC", "POST", "", "", vam(func(o *N) { o.Set("searchSize", Int(v)) }), mp, "vamana.searchSize")
		}
		for _, v := range ints(32, 64) {
			rn.sweepReq("v2Create", "v2", "dave", "BASIC", "POST", "", "", vam(func(o *N) { o.Set("degreeBound", Int(v)) }), mp, "vamana.degreeBound")
		}
		for _, f := range []float32{1.0999999, 1.1, 1.5, 1.5000001} {
			rn.sweepReq("v2Create", "v2", "dave", "BASIC", "POST", "", "", vam(func(o *N) { o.Set("alpha", Flt32(f)) }), mp, "vamana.alpha")
		}
		for _, v := range ints(0, 50000) {
			q := Obj("type", Str("binary"), "binary", Obj("threshold", Null(), "triggerThreshold", Int(v), "distanceMetric", Str("hamming")))
			rn.sweepReq("v2Create", "v2", "dave", "BASIC", "POST", "", "", flat(func(o *N) { o.Set("quantizer", q) }), mp, "binary.triggerThreshold")
		}
		for _, t := range [][3]int64{{1, 2, 1000}, {2, 2, 1000}, {256, 2, 1000}, {257, 2, 1000}, {16, 1, 1000}, {16, 4, 999}, {16, 4, 10000}, {16, 4, 10001}, {16, 3, 1000}} {
			q := Obj("type", Str("product"), "product", Obj("numCentroids", Int(t[0]), "numSubVectors", Int(t[1]), "triggerThreshold", Int(t[2])))
			rn.sweepReq("v2Create", "v2", "dave", "BASIC", "POST", "", "", flat(func(o *N) { o.Set("quantizer", q) }), mp, "product")
		}
		for _, l := range []int{2, 3, 16, 17} {
			rn.sweepReq("v1Create", "v1", "dave", "BASIC", "POST", "", "", Obj("id", Str(strings.Repeat("b", l)), "vectorSize", Int(4), "distanceMetric", Str("dot")), mp, "v1create.id.len")
		}
		for _, v := range ints(1, 4096) {
			rn.sweepReq("v1Create", "v1", "dave", "BASIC", "POST", "", "", Obj("id", Str("sweepv1"), "vectorSize", Int(v), "distanceMetric", Str("dot")), mp, "v1create.vectorSize")
		}
	}
	// ---- header middleware: user ids that are not a single path segment, missing headers, unknown plan
	for _, u := range []string{"", ".", "..", "a/b", "a\\b", "/", "alice/..", "...", "a.b", "alice"} {
		rn.modelledReqH("v2List", "v2", "alice", "BASIC", u, "BASIC", "GET", "", "", nil, false, "boundary:header.user")
		rn.modelledReqH("v2Get", "v2", "alice", "BASIC", u, "BASIC", "GET", "base1", "", nil, false, "boundary:header.user")
		rn.modelledReqH("v1Search", "v1", "alice", "BASIC", u, "BASIC", "POST", "v1col", "/points/search", Obj("vector", g.vec(4), "limit", Int(3)), true, "boundary:header.user")
	}
	for _, pl := range []string{"", "NOSUCHPLAN", "basic", "BASIC"} {
		rn.modelledReqH("v2Get", "v2", "alice", "BASIC", "alice", pl, "GET", "base1", "", nil, false, "boundary:header.plan")
	}
	// ---- collection id in the path
	for _, l := range []int{2, 3, 24, 25} {
		rn.sweepReq("v2Get", "v2", "alice", "BASIC", "GET", strings.Repeat("z", l), "", nil, false, "path.id.len")
	}
	for _, l := range []int{2, 3, 16, 17} {
		rn.sweepReq("v1Get", "v1", "alice", "BASIC", "GET", strings.Repeat("z", l), "", nil, false, "v1path.id.len")
	}
	// ---- batch sizes
	base1 := rn.specs["alice/base1"]
	if base1 == nil {
		return
	}
	mk := func(n int, f func() *N) *N {
		a := &N{K: 'a'}
		for i := 0; i < n; i++ {
			a.A = append(a.A, f())
		}
		return a
	}
	for _, n := range []int{0, 1, 10000, 10001} {
		rn.sweepReq("v2Insert", "v2", "alice", "BASIC", "POST", "base1", "/points", Obj("points", mk(n, func() *N { return Obj("_id", Str(g.uuid())) })), false, "insert.count")
		rn.sweepReq("v1Insert", "v1", "alice", "BASIC", "POST", "v1col", "/points", Obj("points", mk(n, func() *N { return Obj("id", Str(g.uuid()), "vector", g.vec(4)) })), false, "v1insert.count")
	}
	for _, n := range []int{0, 1, 100, 101} {
		rn.sweepReq("v2Update", "v2", "alice", "BASIC", "PUT", "base1", "/points", Obj("points", mk(n, func() *N { return Obj("_id", Str(g.uuid()), "note", Str("x")) })), false, "update.count")
		rn.sweepReq("v2Delete", "v2", "alice", "BASIC", "DELETE", "base1", "/points", Obj("ids", mk(n, func() *N { return Str(g.uuid()) })), true, "delete.count")
		rn.sweepReq("v1Update", "v1", "alice", "BASIC", "PUT", "v1col", "/points", Obj("points", mk(n, func() *N { return Obj("id", Str(g.uuid()), "vector", g.vec(4)) })), false, "v1update.count")
		rn.sweepReq("v1Delete", "v1", "alice", "BASIC", "DELETE", "v1col", "/points", Obj("ids", mk(n, func() *N { return Str(g.uuid()) })), false, "v1delete.count")
	}
	// ---- point size against the plan (TINY: 96 bytes): {"p": <string>} is 1 + 2 + 2 + L bytes
	for _, l := range []int{90, 91, 92} {
		rn.sweepReq("v2Insert", "v2", "bob", "TINY", "POST", "tiny", "/points", Obj("points", Arr(Obj("_id", Str(g.uuid()), "p", Str(strings.Repeat("s", l))))), false, "point.size")
		if id := rn.someKnown("bob/tiny"); id != "" {
			rn.sweepReq("v2Update", "v2", "bob", "TINY", "PUT", "tiny", "/points", Obj("points", Arr(Obj("_id", Str(id), "p", Str(strings.Repeat("s", l))))), true, "point.size")
		}
	}
	// ---- stored vectors: lengths dim-1, dim, dim+1 at top level and under a nested path; nested type check
	for i, l := range []int{3, 4, 5} {
		rn.sweepReq("v2Insert", "v2", "alice", "BASIC", "POST", "base1", "/points", Obj("points", Arr(Obj("_id", Str(g.uuid()), "vec", g.vec(l)))), i%2 == 0, "stored.vec.len")
		rn.sweepReq("v2Insert", "v2", "alice", "BASIC", "POST", "base1", "/points", Obj("points", Arr(Obj("_id", Str(g.uuid()), "geo", Obj("loc", g.vec(l-2))))), i%2 == 1, "stored.nested.vec.len")
		if id := rn.someKnown("alice/base1"); id != "" {
			rn.sweepReq("v2Update", "v2", "alice", "BASIC", "PUT", "base1", "/points", Obj("points", Arr(Obj("_id", Str(id), "geo", Obj("loc", g.vec(l-2))))), i%2 == 0, "updated.nested.vec.len")
		}
	}
	rn.sweepReq("v2Insert", "v2", "alice", "BASIC", "POST", "base1", "/points", Obj("points", Arr(Obj("_id", Str(g.uuid()), "meta", Obj("kind", Int(5))))), false, "stored.nested.type")
	rn.sweepReq("v2Insert", "v2", "alice", "BASIC", "POST", "base1", "/points", Obj("points", Arr(Obj("_id", Str(g.uuid()), "meta", Str("flat")))), true, "stored.nested.notmap")
	// ---- malformed MessagePack the decoder itself trips over: a repeated key of an interface typed field
	dupMeta := func() *N {
		return Obj("points", Arr(Obj("id", Str(g.uuid()), "vector", g.vec(4), "metadata", Obj("a", Int(1)), "metadata", Null())))
	}
	// ---- a forged array32 / map32 header inside an interface typed position: 2^32-1 / 6*10^8 announced elements
	for _, hdr := range []string{"\xdd\xff\xff\xff\xff", "\xdd\x24\x31\x65\x30", "\xdf\xff\xff\xff\xff"} {
		rn.sweepReq("v2Insert", "v2", "alice", "BASIC", "POST", "base1", "/points", Obj("points", Arr(Obj("_id", Str(g.uuid()), "x", RawMP(hdr)))), true, "msgpack.huge-length-header")
		rn.sweepReq("v1Insert", "v1", "alice", "BASIC", "POST", "v1col", "/points", Obj("points", Arr(Obj("id", Str(g.uuid()), "vector", g.vec(4), "metadata", RawMP(hdr)))), true, "msgpack.huge-length-header")
	}
	rn.sweepReq("v1Insert", "v1", "alice", "BASIC", "POST", "v1col", "/points", dupMeta(), true, "msgpack.duplicate-interface-key")
	rn.sweepReq("v1Update", "v1", "alice", "BASIC", "PUT", "v1col", "/points", dupMeta(), true, "msgpack.duplicate-interface-key")
	// ---- search
	leafV := func(mod func(o *N)) *N {
		o := Obj("vector", g.vec(4), "operator", Str("near"), "searchSize", Int(75), "limit", Int(10))
		mod(o)
		return Obj("query", Obj("property", Str("vec"), "vectorVamana", o), "limit", Int(10))
	}
	leafF := func(mod func(o *N)) *N {
		o := Obj("vector", g.vec(3), "operator", Str("near"), "limit", Int(10))
		mod(o)
		return Obj("query", Obj("property", Str("flat"), "vectorFlat", o), "limit", Int(10))
	}
	leafT := func(mod func(o *N)) *N {
		o := Obj("value", Str("alpha beta"), "operator", Str("containsAny"), "limit", Int(10))
		mod(o)
		return Obj("query", Obj("property", Str("txt"), "text", o), "limit", Int(10))
	}
	sr := func(b *N, mp bool, tag string) {
		rn.sweepReq("v2Search", "v2", "alice", "BASIC", "POST", "base1", "/points/search", b, mp, tag)
	}
	for _, mp := range []bool{false, true} {
		for _, v := range ints(1, 100) {
			b := leafV(func(o *N) {})
			b.Set("limit", Int(v))
			sr(b, mp, "search.limit")
		}
		for _, v := range []int64{-1, 0, 1} {
			b := leafV(func(o *N) {})
			b.Set("offset", Int(v))
			sr(b, mp, "search.offset")
		}
		for _, n := range []int{10, 11} {
			b := leafV(func(o *N) {})
			b.Set("sort", mk(n, func() *N { return Obj("property", Str("size"), "descending", Bool(false)) }))
			sr(b, mp, "search.sort.len")
		}
		for _, v := range ints(25, 75) {
			sr(leafV(func(o *N) { o.Set("searchSize", Int(v)) }), mp, "vamana.q.searchSize")
		}
		for _, v := range ints(1, 75) {
			sr(leafV(func(o *N) { o.Set("limit", Int(v)) }), mp, "vamana.q.limit")
			sr(leafF(func(o *N) { o.Set("limit", Int(v)) }), mp, "flat.q.limit")
			sr(leafT(func(o *N) { o.Set("limit", Int(v)) }), mp, "text.q.limit")
		}
		sr(leafV(func(o *N) { o.Set("searchSize", Int(30)); o.Set("limit", Int(31)) }), mp, "vamana.q.searchSize<limit")
		sr(leafV(func(o *N) { o.Set("searchSize", Int(30)); o.Set("limit", Int(30)) }), mp, "vamana.q.searchSize=limit")
		for _, l := range []int{0, 1, 3, 4, 5} {
			sr(leafV(func(o *N) { g.resize(o.Get("vector"), l) }), mp, "vamana.q.vector.len")
		}
		for _, l := range []int{0, 2, 3, 4} {
			sr(leafF(func(o *N) { g.resize(o.Get("vector"), l) }), mp, "flat.q.vector.len")
		}
		for _, v := range ints(0, 75) {
			rn.sweepReq("v1Search", "v1", "alice", "BASIC", "POST", "v1col", "/points/search", Obj("vector", g.vec(4), "limit", Int(v)), mp, "v1search.limit")
		}
		for _, l := range []int{0, 3, 4, 5} {
			rn.sweepReq("v1Search", "v1", "alice", "BASIC", "POST", "v1col", "/points/search", Obj("vector", g.vec(l), "limit", Int(5)), mp, "v1search.vector.len")
		}
	}
	rn.placeSweep()
	rn.straySweep()
	rn.enumSweep()
	rn.depthSweep()
	// ---- query vectors of 4096 / 4097 on the 4096-dimensional indexes; stored vectors of 4095 / 4096 / 4097
	for _, l := range []int{4095, 4096, 4097} {
		q := Obj("query", Obj("property", Str("v"), "vectorFlat", Obj("vector", g.vec(l), "operator", Str("near"), "limit", Int(3))), "limit", Int(3))
		rn.sweepReq("v2Search", "v2", "carol", "BIG", "POST", "big", "/points/search", q, l%2 == 0, "flat.q.vector.4096")
		q2 := Obj("query", Obj("property", Str("w"), "vectorVamana", Obj("vector", g.vec(l), "operator", Str("near"), "searchSize", Int(25), "limit", Int(3))), "limit", Int(3))
		rn.sweepReq("v2Search", "v2", "carol", "BIG", "POST", "big", "/points/search", q2, l%2 == 1, "vamana.q.vector.4096")
		rn.sweepReq("v2Insert", "v2", "carol", "BIG", "POST", "big", "/points", Obj("points", Arr(Obj("_id", Str(g.uuid()), "v", g.vec(l)))), l%2 == 0, "stored.vector.4096")
	}
	// ---- the same id in two shards: an insert of an existing id that is routed to another shard is accepted;
	// an update / delete of such an id succeeds in both shards (valid requests throughout: 200 expected)
	if rn.modelledReq("v2Create", "v2", "dave", "BASIC", "POST", "", "", Obj("id", Str("dupcol"), "indexSchema", Obj("k", Obj("type", Str("integer")))), false, "boundary:dup-id", false) == 200 {
		rn.w.hist["dave/dupcol"] = append([]string{}, rn.w.hist["dave/"][len(rn.w.hist["dave/"])-1])
		rn.refresh()
		var ids []string
		pts := &N{K: 'a'}
		for i := 0; i < maxShardPointCount+2; i++ {
			id := g.uuid()
			ids = append(ids, id)
			pts.A = append(pts.A, Obj("_id", Str(id), "k", Int(int64(i))))
		}
		rn.modelledReq("v2Insert", "v2", "dave", "BASIC", "POST", "dupcol", "/points", Obj("points", pts), false, "boundary:dup-id", false)
		rn.refresh()
		for _, id := range ids {
			rn.modelledReq("v2Insert", "v2", "dave", "BASIC", "POST", "dupcol", "/points", Obj("points", Arr(Obj("_id", Str(id), "k", Int(99)))), false, "boundary:dup-id", false)
			rn.refresh()
		}
		upd, del := &N{K: 'a'}, &N{K: 'a'}
		for _, id := range ids {
			upd.A = append(upd.A, Obj("_id", Str(id), "k", Int(7)))
			del.A = append(del.A, Str(id))
		}
		rn.modelledReq("v2Update", "v2", "dave", "BASIC", "PUT", "dupcol", "/points", Obj("points", upd), false, "boundary:dup-id", false)
		rn.modelledReq("v2Delete", "v2", "dave", "BASIC", "DELETE", "dupcol", "/points", Obj("ids", del), false, "boundary:dup-id", false)
		rn.w.c.do(request{"dave", "BASIC", "DELETE", "/v2/collections/dupcol", "", nil})
		delete(rn.w.hist, "dave/dupcol")
		delete(rn.w.rejected, "dave/dupcol")
		rn.refresh()
	}
	// ---- v1 vector length limit 2000 (needs v1 collections of that dimension; carol has one free slot)
	for _, d := range []int{2000, 2001} {
		id := "v1dim" + intToStr(d)
		c := request{"carol", "BIG", "POST", "/v1/collections", "application/json", Obj("id", Str(id), "vectorSize", Int(int64(d)), "distanceMetric", Str("euclidean")).JSON()}
		if r := rn.w.c.do(c); r.status != 200 {
			continue
		}
		rn.w.hist["carol/"+id] = []string{c.line()}
		rn.refresh()
		rn.sweepReq("v1Insert", "v1", "carol", "BIG", "POST", id, "/points", Obj("points", Arr(Obj("id", Str(g.uuid()), "vector", g.vec(d)))), false, "v1insert.vector.2000")
		rn.sweepReq("v1Search", "v1", "carol", "BIG", "POST", id, "/points/search", Obj("vector", g.vec(d), "limit", Int(3)), true, "v1search.vector.2000")
		rn.w.c.do(request{"carol", "BIG", "DELETE", "/v2/collections/" + id, "", nil})
		delete(rn.w.hist, "carol/"+id)
		delete(rn.w.rejected, "carol/"+id)
		rn.refresh()
	}
}

// placeSweep: every schema check of a query leaf (vector length against the index dimension, options of the
// index's type present, property indexed) at every place a leaf can stand — top level, inside `_and` / `_or`,
// as the filter of a flat / vamana / text leaf, three levels down — and beside every optional sibling: a valid
// filter on the leaf itself, a dormant `_and` list on an `_or` node and vice versa (before and after the live
// list). The well-formed leaf goes through the same places (nothing may be refused because of where it stands),
// and the broken leaf through the dormant places (nothing may be refused because of what is not executed).
func (rn *runner) placeSweep() {
	g := rn.g
	if rn.specs["alice/base1"] == nil {
		return
	}
	good := func() *N {
		return Obj("property", Str("size"), "integer", Obj("value", Int(5), "operator", Str("greaterThan")))
	}
	flatLeaf := func(l int, filter *N) *N {
		o := Obj("vector", g.vec(l), "operator", Str("near"), "limit", Int(10))
		if filter != nil {
			o.Set("filter", filter)
		}
		return Obj("property", Str("flat"), "vectorFlat", o)
	}
	vamLeaf := func(l int, filter *N) *N {
		o := Obj("vector", g.vec(l), "operator", Str("near"), "searchSize", Int(75), "limit", Int(10))
		if filter != nil {
			o.Set("filter", filter)
		}
		return Obj("property", Str("vec"), "vectorVamana", o)
	}
	textLeaf := func(filter *N) *N {
		o := Obj("value", Str("alpha beta"), "operator", Str("containsAny"), "limit", Int(10))
		if filter != nil {
			o.Set("filter", filter)
		}
		return Obj("property", Str("txt"), "text", o)
	}
	type named struct {
		name string
		mk   func() *N
	}
	leaves := []named{
		{"ok.flat+filter", func() *N { return flatLeaf(3, good()) }},
		{"ok.vamana+filter", func() *N { return vamLeaf(4, good()) }},
		{"flat.len", func() *N { return flatLeaf(4, nil) }},
		{"flat.len+filter", func() *N { return flatLeaf(2, good()) }},
		{"vamana.len", func() *N { return vamLeaf(5, nil) }},
		{"vamana.len+filter", func() *N { return vamLeaf(3, good()) }},
		{"unindexed", func() *N {
			return Obj("property", Str("note"), "string", Obj("value", Str("x"), "operator", Str("equals")))
		}},
		{"options-of-other-type", func() *N {
			return Obj("property", Str("size"), "string", Obj("value", Str("x"), "operator", Str("equals")))
		}},
		{"text.no-options+filter", func() *N {
			return Obj("property", Str("txt"), "vectorFlat", Obj("vector", g.vec(3), "operator", Str("near"), "limit", Int(10), "filter", good()))
		}},
		// limits of the leaf's own options (Query.Validate looks at every block and both lists, executed or not)
		{"text.limit=76", func() *N {
			return Obj("property", Str("txt"), "text", Obj("value", Str("alpha"), "operator", Str("containsAny"), "limit", Int(76)))
		}},
		{"vamana.searchSize<limit+filter", func() *N {
			return Obj("property", Str("vec"), "vectorVamana", Obj("vector", g.vec(4), "operator", Str("near"), "searchSize", Int(30), "limit", Int(31), "filter", good()))
		}},
		{"integer.operator", func() *N {
			return Obj("property", Str("size"), "integer", Obj("value", Int(5), "operator", Str("startsWith")))
		}},
	}
	places := []named{
		{"top", nil},
		{"and", nil}, {"or", nil},
		{"or+dormant-and", nil}, {"dormant-and+or", nil}, {"and+dormant-or", nil},
		{"flat-filter", nil}, {"vamana-filter", nil}, {"text-filter", nil},
		{"deep", nil},
		{"in-dormant-and", nil}, {"in-dormant-block", nil},
	}
	place := func(name string, x *N) *N {
		switch name {
		case "and":
			return Obj("property", Str("_and"), "_and", Arr(good(), x))
		case "or":
			return Obj("property", Str("_or"), "_or", Arr(x, good()))
		case "or+dormant-and":
			return Obj("property", Str("_or"), "_or", Arr(x), "_and", Arr(good()))
		case "dormant-and+or":
			return Obj("_and", Arr(good(), good()), "property", Str("_or"), "_or", Arr(good(), x))
		case "and+dormant-or":
			return Obj("property", Str("_and"), "_or", Arr(good()), "_and", Arr(x))
		case "flat-filter":
			return flatLeaf(3, x)
		case "vamana-filter":
			return vamLeaf(4, x)
		case "text-filter":
			return textLeaf(x)
		case "deep":
			return Obj("property", Str("_and"), "_and", Arr(good(), Obj("property", Str("_or"), "_or", Arr(flatLeaf(3, Obj("property", Str("_and"), "_and", Arr(x, good())))))))
		case "in-dormant-and": // not executed: must not decide
			return Obj("property", Str("_or"), "_or", Arr(good()), "_and", Arr(x))
		case "in-dormant-block": // a leaf on "size" that also carries x's option blocks (not the ones its index takes)
			q := good()
			for _, kv := range x.O {
				if kv.K != "property" && q.Get(kv.K) == nil {
					q.O = append(q.O, kv)
				}
			}
			return q
		}
		return x
	}
	k := 0
	for _, pl := range places {
		for _, lf := range leaves {
			k++
			b := Obj("query", place(pl.name, lf.mk()), "limit", Int(10))
			rn.sweepReq("v2Search", "v2", "alice", "BASIC", "POST", "base1", "/points/search", b, k%3 == 0, "place."+pl.name+"."+lf.name)
		}
	}
	// every nesting inside every nesting (a composite as the filter of a leaf, a filtered leaf inside a composite, a
	// filter inside a filter ...): the five nestings pairwise, with the key violations and one well-formed leaf
	nest := []string{"and", "or", "flat-filter", "vamana-filter", "text-filter"}
	key := []named{leaves[0], leaves[3], leaves[4], leaves[6], leaves[7]}
	for _, outer := range nest {
		for _, inner := range nest {
			for _, lf := range key {
				k++
				b := Obj("query", place(outer, place(inner, lf.mk())), "limit", Int(10))
				rn.sweepReq("v2Search", "v2", "alice", "BASIC", "POST", "base1", "/points/search", b, k%3 == 0, "place."+outer+"."+inner+"."+lf.name)
			}
		}
	}
}

// straySweep: the collection whose schema entries carry parameter blocks of other types than the declared one,
// through both API versions: what decides is the declared type (and its block), never "which block is there"
func (rn *runner) straySweep() {
	g := rn.g
	if rn.specs["alice/stray"] == nil {
		return
	}
	for _, mp := range []bool{false, true} {
		// v1: "vector" is a flat index there (with a vamana block of dimension 3 beside it): not a v1 collection
		rn.sweepReq("v1Get", "v1", "alice", "BASIC", "GET", "stray", "", nil, false, "stray.v1get")
		for _, l := range []int{2, 3, 4} {
			rn.sweepReq("v1Search", "v1", "alice", "BASIC", "POST", "stray", "/points/search", Obj("vector", g.vec(l), "limit", Int(5)), mp, "stray.v1search")
		}
		rn.sweepReq("v1Insert", "v1", "alice", "BASIC", "POST", "stray", "/points", Obj("points", Arr(Obj("id", Str(g.uuid()), "vector", g.vec(3)))), mp, "stray.v1insert")
		rn.sweepReq("v1Update", "v1", "alice", "BASIC", "PUT", "stray", "/points", Obj("points", Arr(Obj("id", Str(g.uuid()), "vector", g.vec(3)))), mp, "stray.v1update")
		rn.sweepReq("v1Delete", "v1", "alice", "BASIC", "DELETE", "stray", "/points", Obj("ids", Arr(Str(g.uuid()))), mp, "stray.v1delete")
		// v2 searches: the query options and the dimension that count are those of the declared type
		s2 := func(q *N, tag string) {
			rn.sweepReq("v2Search", "v2", "alice", "BASIC", "POST", "stray", "/points/search", Obj("query", q, "limit", Int(5)), mp, "stray."+tag)
		}
		for _, l := range []int{2, 3, 4} {
			s2(Obj("property", Str("vector"), "vectorFlat", Obj("vector", g.vec(l), "operator", Str("near"), "limit", Int(5))), "flat.q.len")
			s2(Obj("property", Str("vector"), "vectorVamana", Obj("vector", g.vec(l), "operator", Str("near"), "searchSize", Int(75), "limit", Int(5))), "flat.q.vamana-options")
		}
		for _, l := range []int{2, 5} {
			s2(Obj("property", Str("w"), "vectorVamana", Obj("vector", g.vec(l), "operator", Str("near"), "searchSize", Int(75), "limit", Int(5))), "vamana.q.len")
			s2(Obj("property", Str("w"), "vectorFlat", Obj("vector", g.vec(l), "operator", Str("near"), "limit", Int(5))), "vamana.q.flat-options")
		}
		s2(Obj("property", Str("metadata"), "string", Obj("value", Str("x"), "operator", Str("equals"))), "string.q")
		s2(Obj("property", Str("metadata"), "vectorFlat", Obj("vector", g.vec(2), "operator", Str("near"), "limit", Int(5))), "string.q.flat-options")
		s2(Obj("property", Str("n"), "vectorVamana", Obj("vector", g.vec(4), "operator", Str("near"), "searchSize", Int(75), "limit", Int(5))), "integer.q.vamana-options")
		s2(Obj("property", Str("t"), "text", Obj("value", Str("alpha"), "operator", Str("containsAny"), "limit", Int(5))), "text.q")
		// v2 writes: the stored value must fit the declared type
		ins := func(pt *N, tag string) {
			pt.Set("_id", Str(g.uuid()))
			rn.sweepReq("v2Insert", "v2", "alice", "BASIC", "POST", "stray", "/points", Obj("points", Arr(pt)), mp, "stray."+tag)
		}
		for _, l := range []int{2, 3, 5} {
			ins(Obj("vector", g.vec(l)), "stored.flat.len")
			ins(Obj("w", g.vec(l)), "stored.vamana.len")
		}
		ins(Obj("metadata", Str("abc"), "n", Int(3), "t", Str("alpha beta")), "stored.plain")
		ins(Obj("metadata", g.vec(2)), "stored.string.vector")
		ins(Obj("n", g.vec(4)), "stored.integer.vector")
		ins(Obj("t", g.vec(1)), "stored.text.vector")
	}
}
